/-
  T3 — the generated initializer as a *script*: a small IR of the source text `_attrs_to_init_script`
  returns, the generator `genInit` producing that text for a class, and an interpreter `execScript` over the
  machine state of Model/Init.lean.

  Mirrors, in src/attr/_make.py, line by line: `_attrs_to_init_script` (the `lines` list and the `args` /
  `kw_only_args` lists), `_make_init_script` (`filtered_attrs`, `needs_cached_setattr`), `_determine_setters`
  (`extra_lines`, which setter text), `_setattr` / `_assign` / `_setattr_with_converter` /
  `_assign_with_converter`, `Converter._fmt_converter_call`.

  The harness (harness/ir_from_source.py) parses the *real* source of every sampled class's `__init__` into
  this IR; `Spec/C01.lean` compares it with `genInit` syntactically; `Proofs/InitIR.lean` proves that running
  `genInit r` is `body r` — the semantics all C01/C02 theorems are about.

  Names of helper globals are part of the statement forms, not data: `__attr_factory_<f>`,
  `__attr_converter_<f>`, `attr_dict['<f>']`, `__attr_validator_<f>`, `__attr_attribute_<f>` inside the
  statements for field `<f>` must name `<f>` itself (the parser rejects anything else as `unknown`).
-/
import AttrsModel.Model.Init

namespace Attrs.Init
open Lean

deriving instance FromJson, ToJson for Tech

/-- default expression of a parameter: none, `attr_dict['<field>'].default`, or `NOTHING` -/
inductive PDflt where
  | required
  | attrDict (field : String)
  | nothing
  deriving DecidableEq, Repr, FromJson, ToJson, Inhabited

structure IParam where
  name : String
  kwOnly : Bool
  dflt : PDflt
  deriving DecidableEq, Repr, FromJson, ToJson, Inhabited

/-- right-hand side before conversion: the parameter `<alias>`, `attr_dict['<f>'].default`, or
    `__attr_factory_<f>()` / `__attr_factory_<f>(self)` -/
inductive Src where
  | param (name : String)
  | attrDefault
  | factory (takesSelf : Bool)
  deriving DecidableEq, Repr, FromJson, ToJson, Inhabited

/-- `self.f = E` | `_setattr('f', E)` | `_inst_dict['f'] = E` with
    `E = src` or `__attr_converter_f(src[, self][, attr_dict['f']])` -/
structure Store where
  tech : Tech
  field : String
  src : Src
  conv : Option Conv
  deriving DecidableEq, Repr, FromJson, ToJson, Inhabited

inductive Stmt where
  /-- `self.__attrs_pre_init__(p1, …, k1=k1, …)` -/
  | preInit (pos : List String) (kw : List String)
  /-- `_setattr = _cached_setattr_get(self)` -/
  | cachedSetattrDecl
  /-- `_inst_dict = self.__dict__` -/
  | instDictDecl
  | store (s : Store)
  /-- `if <param> is not NOTHING:` store `else:` store -/
  | ifNotNothing (param : String) (thenS : Store) (elseS : Store)
  /-- `if _config._run_validators is True:` then one line
      `__attr_validator_f(self, __attr_attribute_f, self.f)` per listed field -/
  | validators (fields : List String)
  /-- `self.__attrs_post_init__()` -/
  | postInit
  /-- `self._attrs_cached_hash = None` | `_setattr('_attrs_cached_hash', None)` | `_inst_dict['_attrs_cached_hash'] = None` -/
  | hashCacheReset (tech : Tech)
  /-- `BaseException.__init__(self, self.f1, …)` -/
  | excInit (fields : List String)
  | pass
  /-- a line the translator does not recognise (kept verbatim) -/
  | unknown (src : String)
  deriving DecidableEq, Repr, FromJson, ToJson, Inhabited

structure InitScript where
  params : List IParam
  body : List Stmt
  deriving DecidableEq, Repr, FromJson, ToJson, Inhabited

/-! ## The generator -/

def iparamOf (a : Attr) : IParam :=
  { name := a.alias, kwOnly := a.kwOnly,
    dflt := match a.dflt with
      | .none => .required
      | .value => .attrDict a.name
      | .factory _ => .nothing }

/-- `args` then `kw_only_args` -/
def genParams (attrs : List Attr) : List IParam :=
  let ps := (attrs.filter (·.init)).map iparamOf
  ps.filter (!·.kwOnly) ++ ps.filter (·.kwOnly)

/-- the parameter as CPython sees it (the value of its default expression) -/
def IParam.toParam (p : IParam) : Param :=
  { name := p.name, kwOnly := p.kwOnly,
    dflt := match p.dflt with
      | .required => none
      | .attrDict f => some ("dflt." ++ f)
      | .nothing => some NOTHING }

/-- `needs_cached_setattr` of `_make_init_script` -/
def needsCachedSetattr (r : RunIn) : Bool :=
  r.cfg.cacheHash || r.cfg.frozen || (r.attrs.filter participates).any (hasOnSetattr r.cfg)

/-- `fmt_setter(...)` / `fmt_setter_with_converter(...)` for field `a` -/
def genStore (r : RunIn) (a : Attr) (src : Src) : Store :=
  { tech := tech r.cfg (r.belief a.name) a, field := a.name, src := src, conv := a.conv }

/-- the loop body of `_attrs_to_init_script` for one of `filtered_attrs` -/
def genAttr (r : RunIn) (a : Attr) : List Stmt :=
  if !a.init then
    match a.dflt with
    | .none => []
    | .value => [.store (genStore r a .attrDefault)]
    | .factory ts => [.store (genStore r a (.factory ts))]
  else
    match a.dflt with
    | .factory ts => [.ifNotNothing a.alias (genStore r a (.param a.alias)) (genStore r a (.factory ts))]
    | _ => [.store (genStore r a (.param a.alias))]

def genPre (r : RunIn) : List Stmt :=
  match r.cfg.pre with
  | .none => []
  | .noArgs => [.preInit [] []]
  | .withArgs =>
    let ps := genParams r.attrs
    [.preInit ((ps.filter (!·.kwOnly)).map (·.name)) ((ps.filter (·.kwOnly)).map (·.name))]

def genDecls (r : RunIn) : List Stmt :=
  (if needsCachedSetattr r then [.cachedSetattrDecl] else []) ++
  (if r.cfg.frozen && !r.cfg.slots then [.instDictDecl] else [])

def genValidators (r : RunIn) : List Stmt :=
  let vs := (r.attrs.filter participates).filter (·.validators != 0)
  if vs.isEmpty then [] else [.validators (vs.map (·.name))]

def hashTech (cfg : Cfg) : Tech :=
  if cfg.frozen then (if cfg.slots then .setattr else .instDict) else .assign

def genTail (r : RunIn) : List Stmt :=
  (if r.cfg.post then [.postInit] else []) ++
  (if r.cfg.cacheHash then [.hashCacheReset (hashTech r.cfg)] else [])

def genExc (r : RunIn) : List Stmt :=
  if r.cfg.isExc then [.excInit (((r.attrs.filter participates).filter (·.init)).map (·.name))] else []

def genLines (r : RunIn) : List Stmt :=
  genPre r ++ genDecls r ++ (r.attrs.filter participates).flatMap (genAttr r) ++ genValidators r ++ genTail r ++ genExc r

/-- the script `_make_init_script` produces for the class described by `r` -/
def genInit (r : RunIn) : InitScript :=
  { params := genParams r.attrs,
    body := if (genLines r).isEmpty then [.pass] else genLines r }

/-! ## The interpreter

  Run-time facts come from `r`: which callback raises (`fault`), the validator switch, the physical layout
  (`isSlot`, `cacheIsSlot`), which names the class's `__setattr__` hooks (`inSaAttrs`), and the length of
  each field's validator chain.  Nothing the *generator* decided (technique, belief, needs_cached_setattr) is
  consulted: those are read off the script. -/

structure XSt where
  st : St
  /-- the local `_setattr` is bound -/
  hasSetattr : Bool
  /-- the local `_inst_dict` is bound -/
  hasInstDict : Bool
  /-- what `BaseException.__init__` received -/
  excArgs : Option (List Val)

def XSt.init : XSt := { st := St.init, hasSetattr := false, hasInstDict := false, excArgs := none }

def XSt.fail (x : XSt) (e : Exc) : XSt := { x with st := { x.st with raised := some e } }

/-- the class's field of that name; any other name is an ordinary instance attribute -/
def attrOf (r : RunIn) (n : String) : Attr :=
  (r.attrs.find? (·.name == n)).getD { hashCacheAttr with name := n }

/-- is the local the technique uses bound? (otherwise NameError) -/
def techReady (hs hi : Bool) : Tech → Bool
  | .assign => true
  | .setattr => hs
  | .instDict => hi

/-- `… = v` or `… = __attr_converter_f(v, …)` through technique `t`.  The script shows ONE call; what
    `__attr_converter_f` is bound to is the field's converter, which for a chain (`a.pipe`) is `pipe()`'s
    `pipe_converter`: it runs the members left to right (`runConvs`). -/
def applyStore (r : RunIn) (t : Tech) (a : Attr) (conv : Option Conv) (v : Val) (st : St) : St :=
  match conv with
  | none => st.store r.cfg r.fault t a v
  | some c =>
    match a.pipe with
    | none =>
      let st1 := st.emit r.fault { id := { kind := "conv", field := a.name, idx := 0 }, args := convEventArgs a c v }
      if st1.raised.isSome then st1 else st1.store r.cfg r.fault t a (convVal a c v)
    | some ms =>
      let x := runConvs r.fault a.name 0 ms v st
      if x.1.raised.isSome then x.1 else x.1.store r.cfg r.fault t a x.2

def execStore (r : RunIn) (env : List (String × Val)) (s : Store) (x : XSt) : XSt :=
  if !techReady x.hasSetattr x.hasInstDict s.tech then x.fail .other else
  let a := attrOf r s.field
  match s.src with
  | .param p =>
    match lookup p env with
    | none => x.fail .other
    | some v => { x with st := applyStore r s.tech a s.conv v x.st }
  | .attrDefault => { x with st := applyStore r s.tech a s.conv (dfltVal a) x.st }
  | .factory ts =>
    let st1 := callFactory r.fault a ts x.st
    if st1.raised.isSome then { x with st := st1 }
    else { x with st := applyStore r s.tech a s.conv (factoryVal a ts) st1 }

/-- the validator line of one field: the `and_` chain calls its entries in order -/
def runValidatorsOf (r : RunIn) (st : St) (f : String) : St :=
  (List.range (attrOf r f).validators).foldl (fun st i => runValidator r.fault st (attrOf r f, i)) st

def cacheAttrOf (r : RunIn) : Attr := { hashCacheAttr with isSlot := r.cacheIsSlot }

def execStmt (r : RunIn) (env : List (String × Val)) (x : XSt) (s : Stmt) : XSt :=
  if x.st.raised.isSome then x else
  match s with
  | .preInit pos kw =>
    let args := pos.map (fun p => (lookup p env).getD "?") ++ kw.map (fun p => p ++ "=" ++ (lookup p env).getD "?")
    { x with st := x.st.emit r.fault { id := { kind := "pre", field := "", idx := 0 }, args := args } }
  | .cachedSetattrDecl => { x with hasSetattr := true }
  | .instDictDecl => { x with hasInstDict := true }
  | .store st => execStore r env st x
  | .ifNotNothing p t e =>
    match lookup p env with
    | none => x.fail .other
    | some v => if v = NOTHING then execStore r env e x else execStore r env t x
  | .validators fs =>
    if r.cfg.runValidators then { x with st := fs.foldl (runValidatorsOf r) x.st } else x
  | .postInit => { x with st := x.st.emit r.fault { id := { kind := "post", field := "", idx := 0 }, args := [] } }
  | .hashCacheReset t =>
    if !techReady x.hasSetattr x.hasInstDict t then x.fail .other else
    match t with
    | .instDict => { x with st := x.st.write (cacheAttrOf r).name Loc.dict "None" }
    | _ => { x with st := x.st.write (cacheAttrOf r).name (readLoc (cacheAttrOf r)) "None" }
  | .excInit fs =>
    match fs.mapM (fun f => x.st.read (attrOf r f)) with
    | some args => { x with excArgs := some args }
    | none => x.fail .attributeError
  | .pass => x
  | .unknown _ => x.fail .other

def run (r : RunIn) (env : List (String × Val)) (ss : List Stmt) (x : XSt) : XSt :=
  ss.foldl (execStmt r env) x

/-- run the script's body on a bound environment -/
def execScript (s : InitScript) (r : RunIn) (env : List (String × Val)) : XSt :=
  run r env s.body XSt.init

def InitScript.hasUnknown (s : InitScript) : Bool :=
  s.body.any (fun st => match st with | .unknown _ => true | _ => false)

/-- what `runInit` does after `body` for exception classes: `BaseException.__init__(self, self.x, …)` -/
def withExc (r : RunIn) (st : St) : St × Option (List Val) :=
  if st.raised.isSome || !r.cfg.isExc then (st, none) else
  match excArgs r.attrs st with
  | some args => (st, some args)
  | none => ({ st with raised := some .attributeError }, none)

/-- the observation of one call of a script (the counterpart of `runInit`).  Annotations are not part of the
    source text (they are attached to the function object) and are taken from the class description. -/
def scriptObs (s : InitScript) (r : RunIn) (call : Call) : Obs :=
  let ps := s.params.map IParam.toParam
  let sig : List ParamObs := ps.map (fun p => { name := p.name, kwOnly := p.kwOnly, optional := p.dflt.isSome })
  let unset := r.attrs.map (fun a => (a.name, (none : Option Val)))
  match bind ps call with
  | none => { sig := sig, annotations := annotationsOf r.attrs, exc := some .typeError,
              values := unset, trace := [], excArgs := none, cache := none }
  | some env =>
    let x := execScript s r env
    { sig := sig, annotations := annotationsOf r.attrs, exc := x.st.raised,
      values := r.attrs.map (fun a => (a.name, x.st.read a)), trace := x.st.trace,
      excArgs := if x.st.raised.isSome then none else x.excArgs,
      cache := if r.cfg.cacheHash then x.st.read (cacheAttrOf r) else none }

end Attrs.Init
