/-
  C19 (c) — `filters._split_what`, `filters.include`, `filters.exclude` (src/attr/filters.py).

  `_split_what(what)` sorts the items into three frozensets by `isinstance(item, type)`, `isinstance(item, str)`,
  `isinstance(item, Attribute)` (anything else is dropped); `include_(attribute, value)` is
  `value.__class__ in cls or attribute.name in names or attribute in attrs` and `exclude_` is `not (…)` of the same
  expression, written out a second time.  Set membership is by `==`/hash: classes are equal only to themselves,
  strings by value, `Attribute` objects by their generated `__eq__` (name and every other setting except
  `inherited` — the owning class is not part of it).
-/
import AttrsModel.Core

namespace Attrs.C19.Filt
open Lean

/-- an `Attribute` object up to `==`: its name, its `__init__` alias (`_x` → `x`, or an explicit `alias=`) and a
    key standing for all its other compared settings -/
structure AttrId where
  name  : String
  alias : String
  sig   : String
  deriving DecidableEq, Repr, FromJson, ToJson, Inhabited

inductive What where
  | type (t : String)       -- a class object (by name; distinct classes have distinct names here)
  | name (s : String)       -- a field-name string
  | attr (a : AttrId)       -- an Attribute object
  | junk                    -- anything else (an int, None, a list …): ignored by `_split_what`
  deriving DecidableEq, Repr, FromJson, ToJson, Inhabited

/-- one call of the filter -/
structure Query where
  attr    : AttrId          -- the attribute passed to the filter
  valType : String          -- `value.__class__` (exact class of the value)
  deriving DecidableEq, Repr, FromJson, ToJson, Inhabited

structure Case where
  what    : List What
  /-- ONE `include(*what)` object and ONE `exclude(*what)` object are asked these questions, in this order
      (as `asdict` does for the fields of nested instances) -/
  queries : List Query
  deriving DecidableEq, Repr, FromJson, ToJson, Inhabited

inductive FR where
  | T | F
  | other      -- not a bool / raised (never produced by the model)
  deriving DecidableEq, Repr, FromJson, ToJson, Inhabited

def FR.ofBool (b : Bool) : FR := if b then .T else .F

structure Obs where
  inc : List FR      -- include(*what)(attribute, value), per query
  exc : List FR      -- exclude(*what)(attribute, value), per query
  deriving DecidableEq, Repr, FromJson, ToJson, Inhabited

/-- `_split_what` -/
def splitWhat (what : List What) : List String × List String × List AttrId :=
  (what.filterMap (fun w => match w with | .type t => some t | _ => none),
   what.filterMap (fun w => match w with | .name s => some s | _ => none),
   what.filterMap (fun w => match w with | .attr a => some a | _ => none))

def includeF (what : List What) (a : AttrId) (valType : String) : Bool :=
  let s := splitWhat what
  s.1.contains valType || s.2.1.contains a.name || s.2.2.contains a

def excludeF (what : List What) (a : AttrId) (valType : String) : Bool :=
  let s := splitWhat what
  !(s.1.contains valType || s.2.1.contains a.name || s.2.2.contains a)

/-- the closures keep nothing but the three frozensets: every call is answered from its own arguments -/
def model (c : Case) : Obs :=
  { inc := c.queries.map (fun q => FR.ofBool (includeF c.what q.attr q.valType)),
    exc := c.queries.map (fun q => FR.ofBool (excludeF c.what q.attr q.valType)) }

end Attrs.C19.Filt
