/-
  C11, T3 part — an IR for exactly the statement and expression forms `_make_repr_script` emits, the
  model generator `genScript` that emits it for a class, and `execScript`, the meaning of the IR over
  the model's domain: a script denotes a resumption (`Prog Out`) over the bookkeeping state, like the
  model's `attrsRepr`.  Core Lean only.

  The emitted text (src/attr/_make.py, `_make_repr_script`):

      def __repr__(self):
        try:
          already_repring = _compat.repr_context.already_repring        -- bindLookup
        except AttributeError:
          already_repring = {id(self),}                                  -- bindNewSelf
          _compat.repr_context.already_repring = already_repring         -- storeCtx
        else:
          if id(self) in already_repring:                                -- ifIn
            return '...'                                                 -- retLit
          else:
            already_repring.add(id(self))                                -- addSelf
        try:
          return f'NAME(f1={…}, f2={…})'                                 -- retF
        finally:
          already_repring.remove(id(self))                               -- removeSelf

  A few sibling forms that a rewrite of the generator is likely to use (`set()`, `discard`, `clear`,
  `split`, `__name__`, `__qualname__`) are part of the IR so that such a script can still be *executed*
  and judged; everything else is `unknown`.
-/
import AttrsModel.Model.C11
import AttrsModel.Generated.Tables

namespace Attrs.C11.IR
open Lean

/-- the class-name expression of the f-string -/
inductive NameExpr where
  | qualRsplit              -- {self.__class__.__qualname__.rsplit(">.", 1)[-1]}
  | qualSplit               -- {self.__class__.__qualname__.split(">.", 1)[-1]}
  | qualname                -- {self.__class__.__qualname__}
  | name                    -- {self.__class__.__name__}
  | nsName (ns : String)    -- ns.{self.__class__.__name__}
  deriving DecidableEq, BEq, Repr, FromJson, ToJson, Inhabited

inductive AccIR where
  | selfDot (n : String)          -- self.n
  | getattrNothing (n : String)   -- getattr(self, "n", NOTHING)
  deriving DecidableEq, BEq, Repr, FromJson, ToJson, Inhabited

inductive FmtIR where
  | bangR                   -- {acc!r}
  | helper (g : String)     -- {g(acc)}
  deriving DecidableEq, BEq, Repr, FromJson, ToJson, Inhabited

/-- `label={…}` -/
structure FragIR where
  label : String
  acc   : AccIR
  fmt   : FmtIR
  deriving DecidableEq, BEq, Repr, FromJson, ToJson, Inhabited

inductive Stmt where
  /-- `try: BODY  except AttributeError: HANDLER  else: ORELSE` -/
  | tryAttr (body handler orelse : List Stmt)
  | tryFinally (body fin : List Stmt)
  /-- `if id(self) in already_repring: THN else: ELS` -/
  | ifIn (thn els : List Stmt)
  | bindLookup        -- already_repring = _compat.repr_context.already_repring
  | bindNewSelf       -- already_repring = {id(self),}
  | bindNewEmpty      -- already_repring = set()
  | storeCtx          -- _compat.repr_context.already_repring = already_repring
  | addSelf           -- already_repring.add(id(self))
  | removeSelf        -- already_repring.remove(id(self))
  | discardSelf       -- already_repring.discard(id(self))
  | clear             -- already_repring.clear()
  | retLit (s : String)                               -- return '...'
  | retF (nm : NameExpr) (frags : List FragIR)        -- return f'NAME(l1={…}, l2={…})'
  | unknown (src : String)
  deriving BEq, Repr, FromJson, ToJson, Inhabited

/-- what the object bound to a helper global does (read off the callable object by the harness) -/
structure CallSpec where
  tag     : String
  recurse : Bool
  fault   : Fault
  tol     : Bool
  deriving DecidableEq, BEq, Repr, FromJson, ToJson, Inhabited

structure Script where
  body  : List Stmt
  /-- the helper globals the script was evaluated with, and what each is bound to -/
  globs : List (String × CallSpec)
  /-- every other free name of the code (sorted) and what it resolves to in the function's globals:
      `builtin` (the builtin of that name, bound in the globals), `attr._compat`, `attr.NOTHING`,
      `unpinned` (not in the globals: falls through to `__builtins__` / whatever the module defines
      later), `foreign:<type>` (something else, e.g. a global of the class's module) -/
  free  : List (String × String)
  deriving BEq, Repr, FromJson, ToJson, Inhabited

mutual
def Stmt.hasUnknown : Stmt → Bool
  | .tryAttr b h o => hasUnknownL b || hasUnknownL h || hasUnknownL o
  | .tryFinally b f => hasUnknownL b || hasUnknownL f
  | .ifIn t e => hasUnknownL t || hasUnknownL e
  | .unknown _ => true
  | _ => false
def hasUnknownL : List Stmt → Bool
  | [] => false
  | s :: rest => s.hasUnknown || hasUnknownL rest
end

/-- the bindings under which `execScript` is the meaning of the text -/
def bindingOk (nb : String × String) : Bool :=
  nb.2 == "unpinned" ||
  (match nb.1 with
   | "_compat" => nb.2 == "attr._compat"
   | "NOTHING" => nb.2 == "attr.NOTHING"
   | _ => nb.2 == "builtin")

/-- the script cannot be executed by `execScript`: an untranslated statement, or a free name bound
    to something `execScript` has no meaning for -/
def Script.hasUnknown (s : Script) : Bool := hasUnknownL s.body || !s.free.all bindingOk

/-! ### the generator -/

def helperGlobal (n : String) : String :=
  Generated.c17ReprAffix.1 ++ n ++ Generated.c17ReprAffix.2

def helperCall (n : String) : String :=
  Generated.c17ReprCallAffix.1 ++ n ++ Generated.c17ReprCallAffix.2

def genFragIR (a : Field) : Option FragIR :=
  match a.repr with
  | .off => none
  | .on => some { label := a.name, acc := if a.init then .selfDot a.name else .getattrNothing a.name,
                  fmt := .bangR }
  | .call _ _ _ _ =>
    some { label := a.name, acc := if a.init then .selfDot a.name else .getattrNothing a.name,
           fmt := .helper (helperCall a.name) }

def genGlob (a : Field) : Option (String × CallSpec) :=
  match a.repr with
  | .call t r f tol => some (helperGlobal a.name, { tag := t, recurse := r, fault := f, tol := tol })
  | _ => none

def genName : Option String → NameExpr
  | none => .qualRsplit
  | some ns => .nsName ns

/-- the free names of the emitted code and what `_make_repr_script`'s `globs` pin them to -/
def genFree (attrs : List Field) : List (String × String) :=
  if attrs.any (fun a => a.repr != .off && !a.init) then
    [("AttributeError", "builtin"), ("NOTHING", "attr.NOTHING"), ("_compat", "attr._compat"),
     ("getattr", "builtin"), ("id", "builtin")]
  else [("AttributeError", "builtin"), ("_compat", "attr._compat"), ("id", "builtin")]

/-- the script `_make_repr_script(attrs, ns)` emits -/
def genScript (attrs : List Field) (ns : Option String) : Script :=
  { body :=
      [ .tryAttr [.bindLookup] [.bindNewSelf, .storeCtx] [.ifIn [.retLit "..."] [.addSelf]],
        .tryFinally [.retF (genName ns) (attrs.filterMap genFragIR)] [.removeSelf] ],
    globs := attrs.filterMap genGlob,
    free := genFree attrs }

/-! ### meaning -/

/-- the local variable `already_repring` -/
inductive Loc where
  | unbound
  | alias                       -- the set object stored on `repr_context`
  | orphan (l : List Nat)       -- a set object nobody else refers to
  deriving DecidableEq, Repr, Inhabited

/-- how a statement ends: falls through, or the function is left with an outcome (return / raise) -/
inductive Ctl where
  | next
  | fin (o : Out)
  deriving DecidableEq, Repr, Inhabited

/-- the operands of one execution -/
structure Env where
  self  : Nat
  /-- the runtime class of `self` -/
  cls   : Cls
  vals  : List (String × Nat)
  armed : Bool
  /-- `repr` of a heap node -/
  sub   : Nat → Prog Out

/-- the text after the first `">."`, if any -/
def findAfterFirst : List Char → Option (List Char)
  | [] => none
  | c :: rest =>
    if c = '>' then (match rest with | '.' :: t => some t | _ => findAfterFirst rest)
    else findAfterFirst rest

def evalName (c : Cls) : NameExpr → String
  | .qualRsplit => String.ofList (rsplitLocals (qualChars c))
  | .qualSplit => String.ofList ((findAfterFirst (qualChars c)).getD (qualChars c))
  | .qualname => String.ofList (qualChars c)
  | .name => c.name
  | .nsName ns => ns ++ "." ++ c.name

def evalAcc (vals : List (String × Nat)) : AccIR → Acc
  | .selfDot n => (match vals.lookup n with | some i => .val i | none => .attrErr)
  | .getattrNothing n => (match vals.lookup n with | some i => .val i | none => .nothing)

def evalFragIR (env : Env) (globs : List (String × CallSpec)) (fr : FragIR) : Prog Out :=
  let value : Prog Out :=
    match evalAcc env.vals fr.acc with
    | .attrErr => .done (.exc "attributeError")
    | .val i => env.sub i
    | .nothing => .done (.ok "NOTHING")
  match fr.fmt with
  | .bangR => value
  | .helper g =>
    match globs.lookup g with
    | none => .done (.exc "nameError")
    | some sp =>
      match evalAcc env.vals fr.acc with
      | .attrErr => .done (.exc "attributeError")
      | _ => callRepr env.armed sp.tag sp.recurse sp.fault (tolerate sp.tol value)

def eraseSelf (id : Nat) (s : St) : St := { s with already := s.already.map (·.erase id) }

mutual
def execStmt (env : Env) (globs : List (String × CallSpec)) : Stmt → Loc → Prog (Loc × Ctl)
  | .tryAttr b h o, loc =>
    (execBlock env globs b loc).bind fun r =>
      match r.2 with
      | .next => execBlock env globs o r.1
      | .fin (.exc k) => if k = "attributeError" then execBlock env globs h r.1 else .done r
      | _ => .done r
  | .tryFinally b f, loc =>
    (execBlock env globs b loc).bind fun r =>
      (execBlock env globs f r.1).bind fun r' =>
        .done (r'.1, match r'.2 with | .next => r.2 | c => c)
  | .ifIn t e, loc =>
    match loc with
    | .unbound => .done (loc, .fin (.exc "nameError"))
    | .orphan l => if l.contains env.self then execBlock env globs t loc else execBlock env globs e loc
    | .alias =>
      .step (fun s => s) fun s =>
        if s.alreadyL.contains env.self then execBlock env globs t loc else execBlock env globs e loc
  | .bindLookup, loc =>
    .step (fun s => s) fun s =>
      match s.already with
      | none => .done (loc, .fin (.exc "attributeError"))
      | some _ => .done (.alias, .next)
  | .bindNewSelf, _ => .done (.orphan [env.self], .next)
  | .bindNewEmpty, _ => .done (.orphan [], .next)
  | .storeCtx, loc =>
    match loc with
    | .unbound => .done (loc, .fin (.exc "nameError"))
    | .alias => .done (loc, .next)
    | .orphan l => .step (fun s => { s with already := some l }) (fun _ => .done (.alias, .next))
  | .addSelf, loc =>
    match loc with
    | .unbound => .done (loc, .fin (.exc "nameError"))
    | .orphan l => .done (.orphan (addId env.self l), .next)
    | .alias =>
      .step (fun s => { s with already := some (addId env.self s.alreadyL) }) (fun _ => .done (.alias, .next))
  | .removeSelf, loc =>
    match loc with
    | .unbound => .done (loc, .fin (.exc "nameError"))
    | .orphan l =>
      if l.contains env.self then .done (.orphan (l.erase env.self), .next)
      else .done (loc, .fin (.exc "keyError"))
    | .alias =>
      .step (eraseSelf env.self)
        (fun s => .done (.alias, if s.alreadyL.contains env.self then .next else .fin (.exc "keyError")))
  | .discardSelf, loc =>
    match loc with
    | .unbound => .done (loc, .fin (.exc "nameError"))
    | .orphan l => .done (.orphan (l.erase env.self), .next)
    | .alias => .step (eraseSelf env.self) (fun _ => .done (.alias, .next))
  | .clear, loc =>
    match loc with
    | .unbound => .done (loc, .fin (.exc "nameError"))
    | .orphan _ => .done (.orphan [], .next)
    | .alias => .step (fun s => { s with already := s.already.map fun _ => [] }) (fun _ => .done (.alias, .next))
  | .retLit s, loc => .done (loc, .fin (.ok s))
  | .retF nm frags, loc =>
    (render (evalName env.cls nm ++ "(") ")"
      (frags.map fun fr => (fr.label ++ "=", evalFragIR env globs fr))).bind fun r => .done (loc, .fin r)
  | .unknown _, loc => .done (loc, .fin (.exc "unknown"))
def execBlock (env : Env) (globs : List (String × CallSpec)) : List Stmt → Loc → Prog (Loc × Ctl)
  | [], loc => .done (loc, .next)
  | s :: rest, loc =>
    (execStmt env globs s loc).bind fun r =>
      match r.2 with
      | .next => execBlock env globs rest r.1
      | _ => .done r
end

/-- calling the function: falling off the end returns `None`, which `repr()` rejects -/
def execScript (sc : Script) (env : Env) : Prog Out :=
  (execBlock env sc.globs sc.body .unbound).bind fun r =>
    .done (match r.2 with | .fin o => o | .next => .exc "typeError")

/-! ### a heap rendered with a given script for the instances of its (only) class -/

/-- `reprNode` with the generated `__repr__` of every attrs instance replaced by `sc` -/
def reprNodeS (sc : Script) (h : Heap) (armed : Bool) : Nat → Nat → Prog Out
  | 0, _ => .done .oof
  | fuel + 1, id =>
    match h.nodes[id]? with
    | none => .done (.exc "dangling")
    | some (.atom s) => .done (.ok s)
    | some (.list items) =>
      guarded id "[...]" (render "[" "]" (items.map fun i => ("", reprNodeS sc h armed fuel i)))
    | some (.tuple items) =>
      guarded id "(...)"
        (render "(" (if items.length = 1 then ",)" else ")")
          (items.map fun i => ("", reprNodeS sc h armed fuel i)))
    | some (.dict items) =>
      guarded id "{...}"
        (render "{" "}" (items.map fun kv => (kv.1 ++ ": ", reprNodeS sc h armed fuel kv.2)))
    | some (.inst ci vals) =>
      match h.classes[ci]? with
      | none => .done (.exc "dangling")
      | some c =>
        (execScript sc { self := id, cls := c, vals := vals, armed := armed,
                         sub := reprNodeS sc h armed fuel }).bind
          fun r => .done (mapOk (ovrText c) r)

end Attrs.C11.IR

namespace Attrs.C11.IR

/-- `strNode` over an arbitrary node renderer -/
def strNodeWith (R : Nat → Nat → Prog Out) (h : Heap) (fuel id : Nat) : Prog Out :=
  match h.nodes[id]? with
  | some (.inst ci _) =>
    match h.classes[ci]? with
    | some c => if c.str then R fuel id
                else if c.plainStr then .done (.ok "BASESTR")
                else R fuel id
    | none => R fuel id
  | _ => R fuel id

/-- `C11.model` over an arbitrary node renderer (`R armed fuel id`) -/
def modelWith (R : Bool → Nat → Nat → Prog Out) (c : Case) : Obs :=
  let h := c.heap
  let r1 := (R true h.fuel c.root).run (entry c.warm)
  let r2 := (R false h.fuel c.root).run r1.1
  let r3 := (strNodeWith (R false) h h.fuel c.root).run r2.1
  let y := ({ st := fun _ => entry c.warm, pr := fun _ => R false h.fuel c.root } : Sys).exec
    (c.sched.map (· % c.threads))
  { first := r1.2, res1 := r1.1.alreadyL, again := r2.2, res2 := r2.1.alreadyL,
    str := r3.2, res3 := r3.1.alreadyL,
    threads := (List.range c.threads).map fun t =>
      let f := y.finish t
      { out := f.2, residue := f.1.alreadyL } }

/-- what a case observes when the instances' `__repr__` is the script `sc` -/
def modelS (sc : Script) (c : Case) : Obs := modelWith (reprNodeS sc c.heap) c

end Attrs.C11.IR
