/-
  C13 — asdict / astuple.  Mirrors `asdict`, `_asdict_anything`, `astuple` (src/attr/_funcs.py), the
  `_make_collection` (as repaired by the K13a / K13b / K13c `fix:` commits: `is_key` passed down to the members
  of a key, namedtuples rebuilt from positional items, `astuple` passing `filter` into dict keys / values), the
  next-gen wrappers `attrs.asdict` / `attrs.astuple` (src/attr/_next_gen.py: retain_collection_types=True,
  default factories) and `filters.include` / `filters.exclude` (src/attr/filters.py).

  Values are trees (`PVal`): scalars, attrs instances (class id + the field list of `fields(cls)` with the
  current values), list / tuple / namedtuple / set / frozenset, dict / OrderedDict.  Results are trees (`Out`)
  that also say, for every container, whether it is the *very same object* as the corresponding part of the
  argument (`same = true`) or a newly built one, and where the symbolic `value_serializer` was applied
  (`ser`).  The fragment of Python that the functions lean on — which values are hashable, `==` between
  hashable values, what `set(items)` / `dict(pairs)` / `cf(items)` build or raise — is modelled in the first
  part of this file and shared by the model and the specification.
-/
import AttrsModel.Core

namespace Attrs.C13
open Lean

/-! ## Values -/

inductive Atom where
  | int (n : Nat)
  | str (n : Nat)
  | none
  /-- any other object that is neither an attrs instance nor a list / tuple / set / dict: an attrs *class*
      object, a plain class, an object with a catch-all `__getattr__`, a module, a function, … (`kind`, `n`
      name the object; it is handed through as the very same object) -/
  | obj (kind n : Nat)
  /-- twins of the scalars: equal (`==`, same hash) to `int` / `str` values but of another exact class -/
  | bool (b : Bool)          -- True == 1, False == 0
  | float (n : Nat)          -- float(n) == n
  | strsub (n : Nat)         -- an instance of a `str` subclass equal to `str n`
  deriving DecidableEq, Repr, FromJson, ToJson, Inhabited

/-- int / str / None: what the symbolic scalar-wrapping serializer wraps -/
def Atom.isScalar : Atom → Bool
  | .int _ | .str _ | .none => true
  | _ => false

/-- the representative of the `==` class of a leaf value (True ↦ 1, 2.0 ↦ 2, a str-subclass value ↦ the str) -/
def Atom.norm : Atom → Atom
  | .bool b => .int (if b then 1 else 0)
  | .float n => .int n
  | .strsub n => .str n
  | a => a

inductive CKind where
  | list | tuple
  | ntuple (ty : Nat)     -- a namedtuple type; the type is (ty, number of items)
  | set | frozenset
  deriving DecidableEq, Repr, FromJson, ToJson, Inhabited

inductive DKind where
  | dict | odict
  deriving DecidableEq, Repr, FromJson, ToJson, Inhabited

/-- What the functions can see of an `Attribute`: its name, the equivalence class of the `Attribute` object
    under `==` (`sig`, computed by the harness with the real `==`), and whether it is an `__init__` argument. -/
structure FI where
  name : String
  sig  : Nat
  init : Bool
  deriving DecidableEq, Repr, FromJson, ToJson, Inhabited

/-- A Python value.  `hsh = some h`: the instance's class is hashable (identity `==`, `hash` = h). -/
inductive PVal where
  | atom (a : Atom)
  | inst (cls : Nat) (hsh : Option Nat) (fields : List (FI × PVal))
  | coll (k : CKind) (items : List PVal)
  | dict (k : DKind) (items : List (PVal × PVal))
  deriving Repr, FromJson, ToJson, Inhabited

/-- A result value.  `same = true`: the object is (identical to) an object of the argument. -/
inductive Out where
  | atom (a : Atom)
  | inst (same : Bool) (cls : Nat) (hsh : Option Nat) (fields : List (FI × Out))
  /-- `value_serializer(inst, a, v)` of the symbolic serializer: class of `inst` / name of `a` (or None, None) -/
  | ser (cls : Option Nat) (fld : Option String) (v : Out)
  | coll (same : Bool) (k : CKind) (items : List Out)
  | dict (same : Bool) (k : DKind) (items : List (Out × Out))
  /-- a new mapping made by `dict_factory` whose keys are field names: the asdict of one instance -/
  | record (k : DKind) (items : List (String × Out))
  deriving Repr, FromJson, ToJson, Inhabited

/-- exact class of a value, as `value.__class__` -/
inductive TyTag where
  | int | str | noneType | list | tuple
  | ntuple (ty arity : Nat)
  | set | frozenset | dict | odict
  | cls (id : Nat)
  | obj (kind : Nat)      -- the class of an opaque object (never listed in a filter)
  | bool | float | strsub
  deriving DecidableEq, Repr, FromJson, ToJson, Inhabited

inductive Filter where
  | none
  | incl (types : List TyTag) (names : List String) (sigs : List Nat)   -- filters.include(*what)
  | excl (types : List TyTag) (names : List String) (sigs : List Nat)   -- filters.exclude(*what)
  | namePred (names : List String)                                       -- lambda a, v: a.name in names
  | notNone                                                              -- lambda a, v: v is not None
  deriving DecidableEq, Repr, FromJson, ToJson, Inhabited

/-- symbolic `value_serializer`: none / wraps every value / wraps int, str, None only / wraps every value that
    is not an attrs instance, list, tuple, set or dict (identity on everything else) -/
inductive SerMode where
  | off | wrap | wrapLeaf | wrapAtoms
  /-- the substituting serializer described by `Case.subst`: returns a given object for the inputs it targets
      and its argument for all others -/
  | subst
  deriving DecidableEq, Repr, FromJson, ToJson, Inhabited

inductive TF where
  | tuple | list
  deriving DecidableEq, Repr, FromJson, ToJson, Inhabited

inductive Api where
  | asdict | astuple
  deriving DecidableEq, Repr, FromJson, ToJson, Inhabited

/-- which inputs the substituting serializer replaces -/
inductive Target where
  | atomIs (a : Atom)        -- the value is this scalar / this object
  | scalars                  -- every int / str / None
  | field (name : String)    -- every field value of a field of that name (whatever the value)
  | all                      -- everything it is called with
  deriving DecidableEq, Repr, FromJson, ToJson, Inhabited

/-- a serializer whose *results* are hostile: for the inputs in `target` it returns the object `repl`
    (None, 0, "", NOTHING, a list, a dict, an attrs instance, …), for all others its argument itself -/
structure Subst where
  target : Target
  repl : PVal
  deriving Repr, FromJson, ToJson, Inhabited

/-- a callback of the call -/
inductive Site where
  | ser | filter | dictFactory | tupleFactory
  deriving DecidableEq, Repr, FromJson, ToJson, Inhabited

/-- fault injection: the `k`-th call (1-based) of the callback at `site` raises (which exception type is
    harness-only variation: every type propagates alike) -/
structure Fault where
  site : Site
  k : Nat
  deriving DecidableEq, Repr, FromJson, ToJson, Inhabited

structure Case where
  api : Api
  /-- `attrs.asdict` / `attrs.astuple` instead of `attr.asdict` / `attr.astuple` -/
  ng : Bool
  value : PVal
  recurse : Bool
  retain : Bool
  filter : Filter
  dictFactory : DKind
  tupleFactory : TF
  ser : SerMode
  fault : Option Fault
  subst : Option Subst
  deriving Repr, FromJson, ToJson, Inhabited

inductive Res where
  | ok (v : Out)
  | exc (e : String)
  deriving Repr, FromJson, ToJson, Inhabited

structure Obs where
  result : Res
  /-- deep snapshot (structure, values, identity of every container) of the argument equal before / after -/
  argUnchanged : Bool
  /-- `type(x)(**asdict(x)) == x`, observed only for flat public classes (else `none`) -/
  roundtrip : Option Bool
  /-- the injected fault was raised by the callback during the call -/
  faultFired : Bool
  /-- an identical second call (same argument, same options, after whatever ran in between) gave the same -/
  stable : Bool
  /-- how often the filter / the value_serializer was called (when passed, and the call returned) -/
  filterCalls : Option Nat
  serCalls : Option Nat
  deriving Repr, FromJson, ToJson, Inhabited

/-! ## The fragment of Python used: hashability, `==` on hashable values, container constructors -/

def CKind.isTupleish : CKind → Bool
  | .tuple | .ntuple _ => true
  | _ => false

def CKind.isSetish : CKind → Bool
  | .set | .frozenset => true
  | _ => false

mutual
def Out.size : Out → Nat
  | .atom _ => 1
  | .inst _ _ _ fs => 1 + sizeF fs
  | .ser _ _ v => 1 + Out.size v
  | .coll _ _ xs => 1 + sizeL xs
  | .dict _ _ ps => 1 + sizeP ps
  | .record _ ps => 1 + sizeR ps
def sizeF : List (FI × Out) → Nat
  | [] => 0
  | (_, v) :: r => Out.size v + sizeF r
def sizeL : List Out → Nat
  | [] => 0
  | v :: r => Out.size v + sizeL r
def sizeP : List (Out × Out) → Nat
  | [] => 0
  | (k, v) :: r => Out.size k + Out.size v + sizeP r
def sizeR : List (String × Out) → Nat
  | [] => 0
  | (_, v) :: r => Out.size v + sizeR r
end

mutual
/-- `hash(x)` does not raise -/
def hashable : Out → Bool
  | .atom _ => true
  | .inst _ _ h _ => h.isSome
  | .ser _ _ v => hashable v          -- the symbolic serializer's result hashes its payload
  | .coll _ k xs =>
    match k with
    | .tuple | .ntuple _ => hashableL xs
    | .frozenset => true
    | .list | .set => false
  | .dict _ _ _ => false
  | .record _ _ => false
def hashableL : List Out → Bool
  | [] => true
  | x :: r => hashable x && hashableL r
end

def all2 {α β : Type} (p : α → β → Bool) : List α → List β → Bool
  | [], [] => true
  | a :: as, b :: bs => p a b && all2 p as bs
  | _, _ => false

/-- Python `==` between two *distinct* hashable objects (fuel = size).  Scalars by value (the scalars used
    are pairwise different as Python values unless identical), tuples and namedtuples item-wise, sets and
    frozensets as sets, serializer results by payload, instances by identity (so never equal). -/
def pyEqN : Nat → Out → Out → Bool
  | 0, _, _ => false
  | _ + 1, .atom a, .atom b => a.norm == b.norm
  | n + 1, .ser c f v, .ser c' f' v' => c == c' && f == f' && pyEqN n v v'
  | n + 1, .coll _ k xs, .coll _ k' ys =>
    if k.isTupleish && k'.isTupleish then all2 (pyEqN n) xs ys
    else if k == .list && k' == .list then all2 (pyEqN n) xs ys
    else if k.isSetish && k'.isSetish then
      xs.length == ys.length && xs.all (fun x => ys.any (fun y => pyEqN n x y))
    else false
  | _ + 1, _, _ => false

def pyEq (x y : Out) : Bool := pyEqN (x.size + 1) x y

/-- `set(items)` keeps the first of equal members -/
def dedupe (items : List Out) : List Out :=
  items.foldl (fun acc x => if acc.any (fun y => pyEq y x) then acc else acc ++ [x]) []

/-- `d[k] = v` on an insertion-ordered dict: an equal key keeps its place and its key object -/
def dictInsert (acc : List (Out × Out)) (kv : Out × Out) : List (Out × Out) :=
  if acc.any (fun p => pyEq p.1 kv.1) then acc.map (fun p => if pyEq p.1 kv.1 then (p.1, kv.2) else p)
  else acc ++ [kv]

/-- `dict(pairs)` / `OrderedDict(pairs)` -/
def pyDict (k : DKind) (pairs : List (Out × Out)) : Except String Out :=
  if pairs.all (fun p => hashable p.1) then .ok (.dict false k (pairs.foldl dictInsert []))
  else .error "typeError"

/-- building a new collection of class `k` from already converted items, done right:
    `list(items)`, `tuple(items)`, `NT(*items)`, `set(items)`, `frozenset(items)` -/
def pyColl (k : CKind) (items : List Out) : Except String Out :=
  match k with
  | .list | .tuple | .ntuple _ => .ok (.coll false k items)
  | .set | .frozenset =>
    if items.all hashable then .ok (.coll false k (dedupe items)) else .error "typeError"

/-- what the code does (`_make_collection`): a namedtuple class gets its items as positional arguments,
    `cf(*items)`; everything else `cf(items)` (the `TypeError` fallback to `cf(*items)` that remains is for
    other tuple subclasses, which the model does not have). -/
def codeColl (k : CKind) (items : List Out) : Except String Out :=
  match k with
  | .ntuple ty => .ok (.coll false (.ntuple ty) items)
  | _ => pyColl k items

/-! ## The argument seen as a result: every object is the very same object
    (CPython has one empty tuple, so identity says nothing there: never flagged) -/

mutual
def embed : PVal → Out
  | .atom a => .atom a
  | .inst c h fs => .inst true c h (embedF fs)
  | .coll k xs =>
    match k, xs with
    | .tuple, [] => .coll false .tuple []
    | _, _ => .coll true k (embedL xs)
  | .dict k ps => .dict true k (embedP ps)
def embedF : List (FI × PVal) → List (FI × Out)
  | [] => []
  | (f, v) :: r => (f, embed v) :: embedF r
def embedL : List PVal → List Out
  | [] => []
  | v :: r => embed v :: embedL r
def embedP : List (PVal × PVal) → List (Out × Out)
  | [] => []
  | (k, v) :: r => (embed k, embed v) :: embedP r
end

/-! ## Classification of a value: attrs instance FIRST

    Every site — `asdict`'s own branch chain for a field value, `_asdict_anything`, `astuple`'s branch chain and
    its member test — asks `has(type(v))` (resolved through the MRO) *before* the `isinstance` tests for
    list / tuple / set / frozenset and dict.  So an instance of an attrs class that also derives from a builtin
    container (`@attr.s class Bag(list)`) is an attrs instance: `PVal.inst`; what it holds as a container plays
    no part (the harness keeps it as harness-only `content` of the node and checks that it is left alone). -/

/-- what the tests see of a Python value -/
structure Looks where
  hasAttrs : Bool     -- `has(type(v))`
  isColl : Bool       -- `isinstance(v, (tuple, list, set, frozenset))`
  isDict : Bool       -- `isinstance(v, dict)`
  deriving DecidableEq, Repr, Inhabited

inductive Branch where
  | instance | collection | mapping | leaf
  deriving DecidableEq, Repr, Inhabited

/-- the branch taken, at every site -/
def classify (l : Looks) : Branch :=
  if l.hasAttrs then .instance else if l.isColl then .collection else if l.isDict then .mapping else .leaf

/-- how a `PVal` (which is what `classify` made of the Python value when the case was encoded) looks -/
def looksOf : PVal → Looks
  | .atom _ => ⟨false, false, false⟩
  | .inst _ _ _ => ⟨true, false, false⟩     -- possibly also a container: irrelevant, see `classify`
  | .coll _ _ => ⟨false, true, false⟩
  | .dict _ _ => ⟨false, false, true⟩

/-! ## Filters (src/attr/filters.py) -/

def tyOf : PVal → TyTag
  | .atom (.int _) => .int
  | .atom (.str _) => .str
  | .atom .none => .noneType
  | .atom (.obj k _) => .obj k
  | .atom (.bool _) => .bool
  | .atom (.float _) => .float
  | .atom (.strsub _) => .strsub
  | .inst c _ _ => .cls c
  | .coll .list _ => .list
  | .coll .tuple _ => .tuple
  | .coll (.ntuple ty) xs => .ntuple ty xs.length
  | .coll .set _ => .set
  | .coll .frozenset _ => .frozenset
  | .dict .dict _ => .dict
  | .dict .odict _ => .odict

def isNone : PVal → Bool
  | .atom .none => true
  | _ => false

/-- `value.__class__ in cls or attribute.name in names or attribute in attrs` -/
def matchesWhat (types : List TyTag) (names : List String) (sigs : List Nat) (f : FI) (v : PVal) : Bool :=
  types.contains (tyOf v) || names.contains f.name || sigs.contains f.sig

/-- `filter is None or filter(a, v)` -/
def passes (flt : Filter) (f : FI) (v : PVal) : Bool :=
  match flt with
  | .none => true
  | .incl ts ns ss => matchesWhat ts ns ss f v
  | .excl ts ns ss => !matchesWhat ts ns ss f v
  | .namePred ns => ns.contains f.name
  | .notNone => !isNone v

/-! ## Options and the serializer -/

structure Opts where
  retain : Bool
  filter : Filter
  df : DKind
  tf : TF
  ser : SerMode
  deriving Repr, Inhabited

/-- does the symbolic serializer replace this leaf value (else it returns it as it is)? -/
def serApplies (m : SerMode) (a : Atom) : Bool :=
  match m with
  | .off => false
  | .wrap => true
  | .wrapLeaf => a.isScalar
  | .wrapAtoms => true
  | .subst => false

/-- `value_serializer(inst, a, v)` on a leaf field value -/
def serFieldAtom (m : SerMode) (c : Nat) (f : FI) (a : Atom) : Out :=
  if serApplies m a then .ser (some c) (some f.name) (.atom a) else .atom a

/-- `value_serializer(None, None, v)` on a leaf inside a container -/
def serLeaf (m : SerMode) (a : Atom) : Out :=
  if serApplies m a then .ser none none (.atom a) else .atom a

def consE {α : Type} (a : Except String α) (r : Except String (List α)) : Except String (List α) :=
  match a, r with
  | .ok x, .ok xs => .ok (x :: xs)
  | .error e, _ => .error e
  | .ok _, .error e => .error e

def pairE {α β : Type} (a : Except String α) (b : Except String β) : Except String (α × β) :=
  match a, b with
  | .ok x, .ok y => .ok (x, y)
  | .error e, _ => .error e
  | .ok _, .error e => .error e

/-! ## `asdict` (recurse=True) and `_asdict_anything` -/

mutual
/-- `_asdict_anything(val, is_key, filter, dict_factory, retain_collection_types, value_serializer)` -/
def anything (o : Opts) (isKey : Bool) : PVal → Except String Out
  | .atom a => .ok (serLeaf o.ser a)
  | .inst c _ fs => (fieldsD o c fs).map (Out.record o.df)
  | .coll k xs =>
    (itemsD o isKey xs).bind (codeColl (if o.retain then k else if isKey then .tuple else .list))
  | .dict _ ps => (pairsD o ps).bind (pyDict o.df)
/-- the body of `asdict`'s loop for one field that passed the filter, `recurse=True`:
    serializer first, then the four branches on the *serialized* value -/
def fieldD (o : Opts) (c : Nat) (f : FI) : PVal → Except String Out
  | .atom a => .ok (serFieldAtom o.ser c f a)
  | .inst c' h fs =>
    if o.ser == .wrap then .ok (.ser (some c) (some f.name) (embed (.inst c' h fs)))
    else (fieldsD o c' fs).map (Out.record o.df)
  | .coll k xs =>
    if o.ser == .wrap then .ok (.ser (some c) (some f.name) (embed (.coll k xs)))
    else (itemsD o false xs).bind (codeColl (if o.retain then k else .list))
  | .dict k ps =>
    if o.ser == .wrap then .ok (.ser (some c) (some f.name) (embed (.dict k ps)))
    else (pairsD o ps).bind (pyDict o.df)
/-- `asdict`'s loop over `fields(inst.__class__)` -/
def fieldsD (o : Opts) (c : Nat) : List (FI × PVal) → Except String (List (String × Out))
  | [] => .ok []
  | (f, v) :: r =>
    if passes o.filter f v then consE ((fieldD o c f v).map (fun x => (f.name, x))) (fieldsD o c r)
    else fieldsD o c r
/-- the members of a collection: `is_key` is passed down (a tuple key must stay hashable) -/
def itemsD (o : Opts) (isKey : Bool) : List PVal → Except String (List Out)
  | [] => .ok []
  | v :: r => consE (anything o isKey v) (itemsD o isKey r)
def pairsD (o : Opts) : List (PVal × PVal) → Except String (List (Out × Out))
  | [] => .ok []
  | (k, v) :: r => consE (pairE (anything o true k) (anything o false v)) (pairsD o r)
end

/-- `value_serializer(inst, a, v)` when nothing is recursed into afterwards -/
def serFlat (m : SerMode) (c : Nat) (f : FI) (v : PVal) : Out :=
  match m, v with
  | .off, v => embed v
  | .wrap, v => .ser (some c) (some f.name) (embed v)
  | .wrapLeaf, .atom a => if a.isScalar then .ser (some c) (some f.name) (.atom a) else .atom a
  | .wrapLeaf, v => embed v
  | .wrapAtoms, .atom a => .ser (some c) (some f.name) (.atom a)
  | .wrapAtoms, v => embed v
  | .subst, v => embed v

/-- `asdict`'s loop with `recurse=False` -/
def flatD (o : Opts) (c : Nat) : List (FI × PVal) → List (String × Out)
  | [] => []
  | (f, v) :: r => if passes o.filter f v then (f.name, serFlat o.ser c f v) :: flatD o c r else flatD o c r

/-- `asdict(inst, recurse, …)`; `fields(inst.__class__)` raises for anything but an attrs instance -/
def asdictTop (o : Opts) (recurse : Bool) : PVal → Except String Out
  | .inst c _ fs =>
    if recurse then (fieldsD o c fs).map (Out.record o.df) else .ok (.record o.df (flatD o c fs))
  | _ => .error "notAnAttrsClass"

/-! ## `astuple` -/

/-- `rv if tuple_factory is list else tuple_factory(rv)` -/
def tfOut (tf : TF) (items : List Out) : Out :=
  match tf with
  | .tuple => .coll false .tuple items
  | .list => .coll false .list items

mutual
/-- `astuple`'s loop (`recurse=True`) with filter `flt`: the list `rv` -/
def tupleOf (o : Opts) (flt : Filter) : List (FI × PVal) → Except String (List Out)
  | [] => .ok []
  | (f, v) :: r => if passes flt f v then consE (tfield o flt v) (tupleOf o flt r) else tupleOf o flt r
/-- the four branches for one field value -/
def tfield (o : Opts) (flt : Filter) : PVal → Except String Out
  | .atom a => .ok (.atom a)
  | .inst _ _ fs => (tupleOf o flt fs).map (tfOut o.tf)
  | .coll k xs => (tmembers o flt xs).bind (codeColl (if o.retain then k else .list))
  | .dict dk ps => (tpairs o flt ps).bind (pyDict (if o.retain then dk else .dict))
/-- `astuple(j, …) if has(j.__class__) else j` -/
def tmember (o : Opts) (flt : Filter) : PVal → Except String Out
  | .inst _ _ fs => (tupleOf o flt fs).map (tfOut o.tf)
  | .atom a => .ok (.atom a)
  | .coll k xs => .ok (embed (.coll k xs))
  | .dict k ps => .ok (embed (.dict k ps))
def tmembers (o : Opts) (flt : Filter) : List PVal → Except String (List Out)
  | [] => .ok []
  | v :: r => consE (tmember o flt v) (tmembers o flt r)
/-- dict keys and values: `astuple(kk, filter=filter, tuple_factory=…, retain_collection_types=…)` -/
def tpairs (o : Opts) (flt : Filter) : List (PVal × PVal) → Except String (List (Out × Out))
  | [] => .ok []
  | (k, v) :: r => consE (pairE (tmember o flt k) (tmember o flt v)) (tpairs o flt r)
end

/-- `astuple`'s loop with `recurse=False` -/
def flatT (flt : Filter) : List (FI × PVal) → List Out
  | [] => []
  | (f, v) :: r => if passes flt f v then embed v :: flatT flt r else flatT flt r

def astupleTop (o : Opts) (recurse : Bool) : PVal → Except String Out
  | .inst _ _ fs =>
    if recurse then (tupleOf o o.filter fs).map (tfOut o.tf) else .ok (tfOut o.tf (flatT o.filter fs))
  | _ => .error "notAnAttrsClass"

/-! ## One call -/

/-- the next-gen wrappers pass `retain_collection_types=True` and leave the factories at their defaults;
    `astuple` has no serializer -/
def Case.opts (c : Case) : Opts :=
  { retain := c.ng || c.retain, filter := c.filter,
    df := if c.ng then .dict else c.dictFactory,
    tf := if c.ng then .tuple else c.tupleFactory,
    ser := match c.api with | .asdict => c.ser | .astuple => .off }

/-! ## `asdict` with the substituting serializer (`ser = subst`)

    `v = value_serializer(inst, a, v)` comes first and the branches look at what it *returned*: at field level
    the replacement is converted like any field value (its own parts see the serializer again: `wf` makes sure
    it replaces nothing there, so that is the conversion without serializer); below field level the replacement is
    stored as it is. -/

def isScalarV' : PVal → Bool
  | .atom a => a.isScalar
  | _ => false

/-- is the serializer's argument one it replaces?  `fld` = name of the attribute it is called with (None below
    field level) -/
def Target.hits (t : Target) (fld : Option String) (v : PVal) : Bool :=
  match t with
  | .atomIs a => (match v with
    | .atom b => a == b
    | _ => false)
  | .scalars => isScalarV' v
  | .field n => fld == some n
  | .all => true

def Opts.noSer (o : Opts) : Opts := { o with ser := .off }

mutual
def anythingS (o : Opts) (s : Subst) (isKey : Bool) : PVal → Except String Out
  | .atom a => if s.target.hits none (.atom a) then .ok (embed s.repl) else .ok (.atom a)
  | .inst c _ fs => (fieldsS o s c fs).map (Out.record o.df)
  | .coll k xs =>
    (itemsS o s isKey xs).bind (codeColl (if o.retain then k else if isKey then .tuple else .list))
  | .dict _ ps => (pairsS o s ps).bind (pyDict o.df)
def fieldS (o : Opts) (s : Subst) (c : Nat) (f : FI) : PVal → Except String Out
  | .atom a =>
    if s.target.hits (some f.name) (.atom a) then fieldD o.noSer c f s.repl else .ok (.atom a)
  | .inst c' h fs =>
    if s.target.hits (some f.name) (.inst c' h fs) then fieldD o.noSer c f s.repl
    else (fieldsS o s c' fs).map (Out.record o.df)
  | .coll k xs =>
    if s.target.hits (some f.name) (.coll k xs) then fieldD o.noSer c f s.repl
    else (itemsS o s false xs).bind (codeColl (if o.retain then k else .list))
  | .dict k ps =>
    if s.target.hits (some f.name) (.dict k ps) then fieldD o.noSer c f s.repl
    else (pairsS o s ps).bind (pyDict o.df)
def fieldsS (o : Opts) (s : Subst) (c : Nat) : List (FI × PVal) → Except String (List (String × Out))
  | [] => .ok []
  | (f, v) :: r =>
    if passes o.filter f v then consE ((fieldS o s c f v).map (fun x => (f.name, x))) (fieldsS o s c r)
    else fieldsS o s c r
def itemsS (o : Opts) (s : Subst) (isKey : Bool) : List PVal → Except String (List Out)
  | [] => .ok []
  | v :: r => consE (anythingS o s isKey v) (itemsS o s isKey r)
def pairsS (o : Opts) (s : Subst) : List (PVal × PVal) → Except String (List (Out × Out))
  | [] => .ok []
  | (k, v) :: r => consE (pairE (anythingS o s true k) (anythingS o s false v)) (pairsS o s r)
end

/-- recurse=False: the serializer's result is stored as it is -/
def flatS (o : Opts) (s : Subst) : List (FI × PVal) → List (String × Out)
  | [] => []
  | (f, v) :: r =>
    if passes o.filter f v then
      (f.name, if s.target.hits (some f.name) v then embed s.repl else embed v) :: flatS o s r
    else flatS o s r

def asdictTopS (o : Opts) (s : Subst) (recurse : Bool) : PVal → Except String Out
  | .inst c _ fs =>
    if recurse then (fieldsS o s c fs).map (Out.record o.df) else .ok (.record o.df (flatS o s fs))
  | _ => .error "notAnAttrsClass"

/-- the substituting serializer in force (asdict only) -/
def Case.activeSubst (c : Case) : Option Subst :=
  if c.api == .asdict && c.ser == .subst then c.subst else none

/-- the call without fault injection -/
def runPlain (c : Case) : Except String Out :=
  match c.api with
  | .asdict =>
    (match c.activeSubst with
     | some s => asdictTopS c.opts s c.recurse c.value
     | none => asdictTop c.opts c.recurse c.value)
  | .astuple => astupleTop c.opts c.recurse c.value

/-! ## How often each callback is called by a call that completes -/

def one (b : Bool) : Nat := if b then 1 else 0

mutual
/-- calls of callback `s` made by `_asdict_anything(val, …)` -/
def cAny (o : Opts) (s : Site) : PVal → Nat
  | .atom _ => one (s == .ser && o.ser != .off)
  | .inst _ _ fs => one (s == .dictFactory) + cFields o s fs
  | .coll _ xs => cItems o s xs
  | .dict _ ps => one (s == .dictFactory) + cPairs o s ps
/-- … by the loop body of `asdict` (recurse=True) for a field that passed the filter -/
def cFieldVal (o : Opts) (s : Site) : PVal → Nat
  | .atom _ => one (s == .ser && o.ser != .off)
  | .inst _ _ fs =>
    one (s == .ser && o.ser != .off) +
      (if o.ser == .wrap then 0 else one (s == .dictFactory) + cFields o s fs)
  | .coll _ xs => one (s == .ser && o.ser != .off) + (if o.ser == .wrap then 0 else cItems o s xs)
  | .dict _ ps =>
    one (s == .ser && o.ser != .off) +
      (if o.ser == .wrap then 0 else one (s == .dictFactory) + cPairs o s ps)
def cFields (o : Opts) (s : Site) : List (FI × PVal) → Nat
  | [] => 0
  | (f, v) :: r =>
    one (s == .filter && o.filter != .none) + (if passes o.filter f v then cFieldVal o s v else 0) + cFields o s r
def cItems (o : Opts) (s : Site) : List PVal → Nat
  | [] => 0
  | v :: r => cAny o s v + cItems o s r
def cPairs (o : Opts) (s : Site) : List (PVal × PVal) → Nat
  | [] => 0
  | (k, v) :: r => cAny o s k + cAny o s v + cPairs o s r
end

/-- `asdict`, recurse=False: the filter for every field, the serializer for every passing one -/
def cFlat (o : Opts) (s : Site) : List (FI × PVal) → Nat
  | [] => 0
  | (f, v) :: r =>
    one (s == .filter && o.filter != .none) +
      (if passes o.filter f v then one (s == .ser && o.ser != .off) else 0) + cFlat o s r

mutual
/-- calls made by `astuple` for one field value (every `astuple` invocation ends with one `tuple_factory` call) -/
def cTField (o : Opts) (s : Site) : PVal → Nat
  | .atom _ => 0
  | .inst _ _ fs => one (s == .tupleFactory) + cTFields o s fs
  | .coll _ xs => cTMembers o s xs
  | .dict _ ps => cTPairs o s ps
def cTMember (o : Opts) (s : Site) : PVal → Nat
  | .inst _ _ fs => one (s == .tupleFactory) + cTFields o s fs
  | .atom _ => 0
  | .coll _ _ => 0
  | .dict _ _ => 0
def cTFields (o : Opts) (s : Site) : List (FI × PVal) → Nat
  | [] => 0
  | (f, v) :: r =>
    one (s == .filter && o.filter != .none) + (if passes o.filter f v then cTField o s v else 0) + cTFields o s r
def cTMembers (o : Opts) (s : Site) : List PVal → Nat
  | [] => 0
  | v :: r => cTMember o s v + cTMembers o s r
def cTPairs (o : Opts) (s : Site) : List (PVal × PVal) → Nat
  | [] => 0
  | (k, v) :: r => cTMember o s k + cTMember o s v + cTPairs o s r
end

def cTFlat (o : Opts) (s : Site) : List (FI × PVal) → Nat
  | [] => 0
  | _ :: r => one (s == .filter && o.filter != .none) + cTFlat o s r

/-- number of calls of callback `s` in a call on an attrs instance that runs to completion -/
def calls (c : Case) (s : Site) : Nat :=
  match c.value with
  | .inst _ _ fs =>
    (match c.api with
     | .asdict => one (s == .dictFactory) + (if c.recurse then cFields c.opts s fs else cFlat c.opts s fs)
     | .astuple => one (s == .tupleFactory) + (if c.recurse then cTFields c.opts s fs else cTFlat c.opts s fs))
  | _ => 0

/-- the injected fault is raised: the callback is called at least `k` times.  (Cases with a fault are only
    generated where the call completes without it — `wf` —, so every call of the fault-free run happens.) -/
def fires (c : Case) : Bool :=
  match c.fault with
  | none => false
  | some f => 1 ≤ f.k && f.k ≤ calls c f.site

/-- one call: an exception raised by a callback propagates -/
def run (c : Case) : Except String Out :=
  if fires c then .error "fault" else runPlain c

def Res.ofExcept : Except String Out → Res
  | .ok v => .ok v
  | .error e => .exc e

def isAtom : PVal → Bool
  | .atom _ => true
  | _ => false

def publicName (s : String) : Bool := !s.startsWith "_"

/-- "flat class with public names" (and `==` by value): where the round trip is observed -/
def roundtripApplies (c : Case) : Bool :=
  c.api == .asdict && c.filter == .none && c.ser == .off && c.fault.isNone &&
  match c.value with
  | .inst _ h fs => h.isNone && fs.all (fun p => isAtom p.2 && publicName p.1.name && p.1.init)
  | _ => false

/-- the filter and the serializer are consulted once per field occurrence (and the serializer once per leaf
    below field level): no memo, no skipping.  `none`: the callback is not passed, or its calls are not
    modelled (substituting serializer: it also runs inside the conversion of its own results). -/
def expectedCalls (c : Case) (s : Site) : Option Nat :=
  if c.activeSubst.isSome then none
  else match s with
    | .filter => if c.filter == .none then none else some (calls c .filter)
    | .ser => if c.api == .asdict && c.ser != .off then some (calls c .ser) else none
    | _ => none

def isOkE : Except String Out → Bool
  | .ok _ => true
  | .error _ => false

def model (c : Case) : Obs :=
  { result := Res.ofExcept (run c), argUnchanged := true,
    roundtrip := if roundtripApplies c then some true else none,
    faultFired := fires c, stable := true,
    filterCalls := if isOkE (run c) then expectedCalls c .filter else none,
    serCalls := if isOkE (run c) then expectedCalls c .ser else none }

end Attrs.C13
