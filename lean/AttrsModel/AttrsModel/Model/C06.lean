/-
  C06 — on_setattr.  Executable model of what the code in /repo/src/attr does:

  * `attrib()` / `attrs()`            list-valued `on_setattr` ⇒ `setters.pipe(*list)`                (`FieldOn`, `ClsOn`)
  * `_next_gen.define.wrap`           default `pipe(convert, validate)`, `NO_OP` below a frozen base,
                                      ValueError for explicit hooks below a frozen base              (`defineWrap`)
  * `_make.attrs.wrap`                `is_frozen`, `has_own_setattr`, "can't freeze custom __setattr__",
                                      `if not frozen: add_setattr()`                                 (`defineAttrs`)
  * `_ClassBuilder.__init__`          frozen ⇒ `_frozen_setattrs`; else drop `_DEFAULT_ON_SETATTR` /
                                      bare `setters.validate` / `setters.convert` when no field has a
                                      converter / validator                                          (`normalise`)
  * `_ClassBuilder.add_setattr`       `sa_attrs`, "can't combine custom __setattr__", the generated
                                      `__setattr__`, `__attrs_own_setattr__ = True`                   (`saAttrs`, `assign`)
  * `_make_init_script`               "Frozen classes can't use on_setattr" (class level, field level)
  * `_patch_original_class` /         reset of an inherited attrs-made `__setattr__` (`getattr` through the
    `_create_slots_class`             MRO for dict classes, own `__dict__` of the direct bases for slotted
                                      ones — the latter is what K6 is about)                          (`build`)
  * `setters.pipe/frozen/validate/convert`, `validators.and_`, `Converter.__call__`                  (`runSetter`, `runPipe`)

  Values are symbolic strings built exactly like the harness callbacks build them; the converter
  strings are *the initializer model's* (`Init.convVal`), so "assignment leaves what construction would"
  is a statement about the same terms.  Effects are a trace of callback events per assignment; a fault
  is "the k-th callback invocation of assignment s raises".
-/
import AttrsModel.Core
import AttrsModel.Model.Init

namespace Attrs.C06
open Lean
open Attrs.Init (Val Conv Event EventId)

/-! ## Specifications as written by the user -/

/-- one element of an `on_setattr` pipe -/
inductive Setter where
  | user (i : Nat)      -- an instrumented user hook with identity `i`
  | frozen              -- `setters.frozen`
  | validate            -- `setters.validate`
  | convert             -- `setters.convert`
  deriving DecidableEq, Repr, FromJson, ToJson, Inhabited

/-- field-level `on_setattr=`: `None` / `setters.NO_OP` / a callable or list (both become a pipe; a bare
    callable is the one-element chain) -/
inductive FieldOn where
  | unset | noop
  | chain (l : List Setter)
  deriving DecidableEq, Repr, FromJson, ToJson, Inhabited

/-- class-level `on_setattr=`.  A bare built-in setter and the one-element list differ: only the bare
    function is recognised by `_ClassBuilder.__init__`'s normalisation. -/
inductive ClsOn where
  | unset | noop
  | bare (s : Setter)
  | list (l : List Setter)
  deriving DecidableEq, Repr, FromJson, ToJson, Inhabited

/-- one field definition.  `tag` is the unique label of this *definition* (`name@class`): the harness puts
    it into the Attribute's metadata and names the field's callbacks after it, so the trace shows which
    Attribute object a hook was given. -/
structure Field where
  name : String
  tag : String
  conv : Option Conv
  /-- number of validators in the field's `and_` chain (0 = `validator=None`) -/
  validators : Nat
  onSet : FieldOn
  /-- `init=` -/
  init : Bool := true
  /-- the field has a default value (`dflt.<tag>`); only generated together with `init=False` -/
  dflt : Bool := false
  deriving DecidableEq, Repr, FromJson, ToJson, Inhabited

inductive Kind where
  | attrs | plain
  deriving DecidableEq, Repr, FromJson, ToJson, Inhabited

/-- one class of a single-inheritance chain -/
structure Cls where
  kind : Kind
  /-- next-gen API (`attrs.define`) rather than `attr.s` -/
  isDefine : Bool
  /-- the decorator's `frozen=` argument -/
  frozenArg : Bool
  /-- attrs class: `slots=`; plain class: the body has `__slots__ = ()` -/
  slots : Bool
  clsOn : ClsOn
  /-- the class body defines `__setattr__` -/
  ownSetattr : Bool
  autoDetect : Bool
  /-- own field definitions, in order -/
  fields : List Field
  /-- a second direct base: a fresh plain class deriving from `object` without `__setattr__`, fields or
      attrs data (`some true`: its body has `__slots__ = ()`, `some false`: it has a `__dict__`).  Whether it
      comes before or after the chain parent in `__bases__` is harness-only: the MRO puts `object` last, so
      `__setattr__`, `__attrs_own_setattr__` and `__attrs_attrs__` still resolve to the chain parent, and the
      `__bases__` loops of `define.wrap` / `_create_slots_class` find nothing in the mixin's own `__dict__`. -/
  mixin : Option Bool := none
  deriving DecidableEq, Repr, FromJson, ToJson, Inhabited

/-- this class adds a `__dict__` to the instance layout -/
def Cls.givesDict (c : Cls) : Bool := !c.slots || c.mixin == some false

inductive Exc where
  | user (tok : String)     -- the instrumented callback `tok` raised a UserError
  | frozenAttribute | frozenInstance | attributeError | valueError | typeError
  | keyError | lookupError | stopIteration | baseException | other
  deriving DecidableEq, Repr, FromJson, ToJson, Inhabited

/-- the type of the exception the faulty callback raises (`none` = the plain UserError) -/
inductive FaultKind where
  | user | keyError | lookupError | attributeError | typeError | valueError | stopIteration | baseException
  deriving DecidableEq, Repr, FromJson, ToJson, Inhabited

/-- the exception raised by callback `t` under fault kind `k` -/
def faultExc : Option FaultKind → String → Exc
  | none, t => .user t
  | some .user, t => .user t
  | some .keyError, _ => .keyError
  | some .lookupError, _ => .lookupError
  | some .attributeError, _ => .attributeError
  | some .typeError, _ => .typeError
  | some .valueError, _ => .valueError
  | some .stopIteration, _ => .stopIteration
  | some .baseException, _ => .baseException

/-- nothing between the callback and the caller of `setattr` looks at the exception: whatever type the
    faulty callback raises is what propagates (the machine below tracks it as `user tok`) -/
def retype (k : Option FaultKind) : Exc → Exc
  | .user t => faultExc k t
  | e => e

/-! ## Class definition -/

/-- entry of `sa_attrs`: the Attribute and its hook (a pipe, as a list) -/
structure Entry where
  field : Field
  hook : List Setter
  deriving DecidableEq, Repr, Inhabited

/-- which `__setattr__` attribute lookup on the class finds -/
inductive Impl where
  | object                         -- `object.__setattr__`
  | frozen                         -- `_frozen_setattrs`
  | user                           -- a `__setattr__` written by the user
  | hooked (table : List Entry)    -- the closure made by `add_setattr` over this `sa_attrs`
  deriving DecidableEq, Repr, Inhabited

def Impl.isHooked : Impl → Bool
  | .hooked _ => true
  | _ => false

/-- what later steps can see of a finished class -/
structure CState where
  impl : Impl
  /-- `__attrs_own_setattr__` in the class's own `__dict__` -/
  flagOwn : Option Bool
  /-- `getattr(cls, "__attrs_own_setattr__", False)` -/
  flagRes : Bool
  /-- resolved `__attrs_attrs__` (a plain class shows its base's) -/
  attrs : List Field
  /-- instances have a `__dict__` -/
  hasDict : Bool
  /-- names with a slot descriptor somewhere along the MRO -/
  slotNames : List String
  /-- this class itself wrote the hooked `__setattr__` it resolves to -/
  wroteHooks : Bool
  deriving DecidableEq, Repr, Inhabited

/-- `object` -/
def CState.root : CState :=
  { impl := .object, flagOwn := none, flagRes := false, attrs := [], hasDict := false, slotNames := [],
    wroteHooks := false }

/-- the class resolves to an attrs-generated hook table that it did not write itself -/
def CState.inheritsHooks (s : CState) : Bool := s.impl.isHooked && !s.wroteHooks

/-- `self._on_setattr` / the `on_setattr` argument `attrs()` receives -/
inductive Eff where
  | none | noop
  | dflt                    -- the object `_DEFAULT_ON_SETATTR`
  | bare (s : Setter)
  | list (l : List Setter)
  deriving DecidableEq, Repr, Inhabited

def ClsOn.toEff : ClsOn → Eff
  | .unset => .none
  | .noop => .noop
  | .bare s => .bare s
  | .list l => .list l

/-- `define.wrap`: `baseFrozen` = some direct base resolves `__setattr__` to `_frozen_setattrs` -/
def defineWrap (c : Cls) (baseFrozen : Bool) : Except Exc Eff :=
  let had := match c.clsOn with
    | .unset | .noop => false
    | _ => true
  let e := if !c.frozenArg && c.clsOn == .unset then Eff.dflt else c.clsOn.toEff
  if baseFrozen then (if had then .error .valueError else .ok .noop) else .ok e

/-- own definitions replace inherited ones of the same name; inherited first (`_transform_attrs` on a
    single-inheritance chain, either collection mode) -/
def resolveAttrs (base own : List Field) : List Field :=
  base.filter (fun b => !own.any (·.name == b.name)) ++ own

def anyValidator (attrs : List Field) : Bool := attrs.any (·.validators != 0)
def anyConverter (attrs : List Field) : Bool := attrs.any (·.conv.isSome)

/-- `_ClassBuilder.__init__` (mutable branch): pretend there is no class-level hook when it could not do
    anything.  Recognised by identity: `_DEFAULT_ON_SETATTR`, bare `setters.validate`, bare `setters.convert`. -/
def normalise (attrs : List Field) : Eff → Eff
  | .dflt => if anyValidator attrs || anyConverter attrs then .dflt else .none
  | .bare .validate => if anyValidator attrs then .bare .validate else .none
  | .bare .convert => if anyConverter attrs then .bare .convert else .none
  | e => e

/-- the callable behind a class-level value, as a pipe -/
def Eff.chain : Eff → Option (List Setter)
  | .none | .noop => Option.none
  | .dflt => some [.convert, .validate]
  | .bare s => some [s]
  | .list l => some l

/-- `has_cls_on_setattr` of `_make_init_script` -/
def Eff.hasCls : Eff → Bool
  | .none | .noop => false
  | _ => true

/-- `sa_attrs` of `add_setattr`: `a.on_setattr or self._on_setattr`, skipping `None` and `NO_OP` -/
def saAttrs (attrs : List Field) (e : Eff) : List Entry :=
  attrs.filterMap (fun a =>
    match a.onSet with
    | .chain l => some { field := a, hook := l }
    | .noop => none
    | .unset => e.chain.map (fun l => { field := a, hook := l }))

/-- the `on_setattr` that reaches `attrs()`: through `define.wrap` for the next-gen API -/
def eff0Of (base : CState) (c : Cls) : Except Exc Eff :=
  if c.isDefine then defineWrap c (base.impl == .frozen) else .ok c.clsOn.toEff

/-- `is_frozen = frozen or cls.__setattr__ is _frozen_setattrs` (an own `__setattr__` in the body hides the
    base's) -/
def isFrozenOf (base : CState) (c : Cls) : Bool := c.frozenArg || (!c.ownSetattr && base.impl == .frozen)

/-- `has_own_setattr = auto_detect and _has_own_attribute(cls, "__setattr__")` -/
def hasCustomOf (c : Cls) : Bool := c.autoDetect && c.ownSetattr

/-- `self._on_setattr` after `_ClassBuilder.__init__` (normalisation only in the mutable branch) -/
def effOf (base : CState) (c : Cls) (eff0 : Eff) : Eff :=
  if isFrozenOf base c then eff0 else normalise (resolveAttrs base.attrs c.fields) eff0

/-- `sa_attrs`, if `add_setattr` runs at all (`if not frozen:` tests the decorator argument) -/
def saOf (base : CState) (c : Cls) (eff0 : Eff) : List Entry :=
  if c.frozenArg then [] else saAttrs (resolveAttrs base.attrs c.fields) (effOf base c eff0)

/-- every `raise ValueError` of `attrs.wrap`, `add_setattr` and `_make_init_script` (always reached through
    `add_init` / `add_attrs_init`); they are all the same exception type, so their order is immaterial -/
def rejects (base : CState) (c : Cls) (eff0 : Eff) : Bool :=
  -- "Can't freeze a class with a custom __setattr__."
  (hasCustomOf c && isFrozenOf base c) ||
  -- "Can't combine custom __setattr__ with on_setattr hooks."
  (!(saOf base c eff0).isEmpty && hasCustomOf c) ||
  -- "Frozen classes can't use on_setattr." (class level, then field level: `a.on_setattr is not None`)
  (isFrozenOf base c && (effOf base c eff0).hasCls) ||
  (isFrozenOf base c && (resolveAttrs base.attrs c.fields).any (fun a => a.onSet != .unset))

/-- the class `build_class` returns -/
def finish (base : CState) (c : Cls) (eff0 : Eff) : CState :=
  let attrs := resolveAttrs base.attrs c.fields
  let sa := saOf base c eff0
  let hasDict := base.hasDict || c.givesDict
  let slotNames := if c.slots then base.slotNames ++ c.fields.map (·.name) else base.slotNames
  -- what the class body / the base provide before attrs touches `__setattr__`
  let inherited : Impl := if c.ownSetattr then .user else base.impl
  if !sa.isEmpty then
    -- add_setattr wrote the closure and the flag
    { impl := .hooked sa, flagOwn := some true, flagRes := true, attrs, hasDict, slotNames, wroteHooks := true }
  else if isFrozenOf base c then
    { impl := .frozen, flagOwn := none, flagRes := base.flagRes, attrs, hasDict, slotNames, wroteHooks := false }
  else if c.slots then
    -- `_create_slots_class`: only the direct bases' own `__dict__` is consulted
    { impl := if !hasCustomOf c && base.flagOwn == some true then Impl.object else inherited,
      flagOwn := some false, flagRes := false, attrs, hasDict, slotNames, wroteHooks := false }
  else if base.flagRes then
    -- `_patch_original_class`: `getattr(cls, "__attrs_own_setattr__", False)` walks the MRO
    { impl := if !hasCustomOf c then Impl.object else inherited,
      flagOwn := some false, flagRes := false, attrs, hasDict, slotNames, wroteHooks := false }
  else
    { impl := inherited, flagOwn := none, flagRes := false, attrs, hasDict, slotNames, wroteHooks := false }

/-- `define.wrap` / `attrs.wrap` / `_ClassBuilder` for one attrs class on top of the finished base -/
def defineAttrs (base : CState) (c : Cls) : Except Exc CState :=
  match eff0Of base c with
  | .error e => .error e
  | .ok eff0 => if rejects base c eff0 then .error .valueError else .ok (finish base c eff0)

/-- a class statement without a decorator: everything is inherited -/
def definePlain (base : CState) (c : Cls) : CState :=
  { base with flagOwn := none, hasDict := base.hasDict || c.givesDict, wroteHooks := false,
              impl := if c.ownSetattr then .user else base.impl }

def defineCls (base : CState) (c : Cls) : Except Exc CState :=
  match c.kind with
  | .plain => .ok (definePlain base c)
  | .attrs => defineAttrs base c

/-- define the chain root-first; stop at the first class whose definition raises (its index is reported) -/
def defineFrom (base : CState) (i : Nat) : List Cls → Except (Nat × Exc) CState
  | [] => .ok base
  | c :: rest =>
    match defineCls base c with
    | .error e => .error (i, e)
    | .ok s => defineFrom s (i + 1) rest

def defineChain (cs : List Cls) : Except (Nat × Exc) CState := defineFrom .root 0 cs

/-! ## Callbacks and the built-in setters -/

def Field.toInit (f : Field) : Init.Attr :=
  { name := f.tag, alias := f.name, dflt := if f.dflt then .value else .none, init := f.init, kwOnly := false,
    conv := f.conv,
    validators := f.validators, onSet := .unset, isSlot := false, type := none, convType := none }

/-- identities ≥ 900 are hooks that return `None` -/
def hookVal (i : Nat) (f : Field) (v : Val) : Val :=
  if i ≥ 900 then "None" else "h" ++ toString i ++ "." ++ f.tag ++ "(" ++ v ++ ")"

def hookEvent (i : Nat) (f : Field) (v : Val) : Event :=
  { id := { kind := "hook", field := f.tag, idx := i }, args := ["self", "attr." ++ f.tag, v] }

def convEvent (f : Field) (c : Conv) (v : Val) : Event :=
  { id := { kind := "conv", field := f.tag, idx := 0 }, args := Init.convEventArgs f.toInit c v }

def validatorEvent (f : Field) (i : Nat) (v : Val) : Event :=
  { id := { kind := "validator", field := f.tag, idx := i }, args := ["self", "attr." ++ f.tag, v] }

def tok (e : EventId) : String := e.kind ++ "." ++ e.field ++ "." ++ toString e.idx

/-- a callback is invoked: recorded; it raises iff it is the `fault`-th invocation of this assignment -/
def call (fault : Option Nat) (tr : List Event) (e : Event) : List Event × Option Exc :=
  (tr ++ [e], if fault = some tr.length then some (.user (tok e.id)) else none)

/-- `and_(v0, …)`: call the validators in order, stop at the first that raises -/
def runValidators (fault : Option Nat) (f : Field) (v : Val) : List Nat → List Event → List Event × Option Exc
  | [], tr => (tr, none)
  | i :: rest, tr =>
    match call fault tr (validatorEvent f i v) with
    | (tr', some x) => (tr', some x)
    | (tr', none) => runValidators fault f v rest tr'

/-- one setter applied to `v`; `rv` = `_config._run_validators` -/
def runSetter (rv : Bool) (fault : Option Nat) (f : Field) (s : Setter) (tr : List Event) (v : Val) :
    List Event × Except Exc Val :=
  match s with
  | .user i =>
    match call fault tr (hookEvent i f v) with
    | (tr', some x) => (tr', .error x)
    | (tr', none) => (tr', .ok (hookVal i f v))
  | .frozen => (tr, .error .frozenAttribute)
  | .validate =>
    if !rv then (tr, .ok v)
    else if f.validators == 0 then (tr, .ok v)
    else
      match runValidators fault f v (List.range f.validators) tr with
      | (tr', some x) => (tr', .error x)
      | (tr', none) => (tr', .ok v)
  | .convert =>
    match f.conv with
    | none => (tr, .ok v)
    | some c =>
      match call fault tr (convEvent f c v) with
      | (tr', some x) => (tr', .error x)
      | (tr', none) => (tr', .ok (Init.convVal f.toInit c v))

/-- `setters.pipe`: left to right, each setter gets the previous one's result; an exception ends it -/
def runPipe (rv : Bool) (fault : Option Nat) (f : Field) : List Setter → List Event → Val → List Event × Except Exc Val
  | [], tr, v => (tr, .ok v)
  | s :: rest, tr, v =>
    match runSetter rv fault f s tr v with
    | (tr', .ok v') => runPipe rv fault f rest tr' v'
    | (tr', .error x) => (tr', .error x)

/-! ## Instances and assignment -/

/-- instance storage as attribute lookup sees it -/
abbrev Store := List (String × Val)

def Store.get (st : Store) (n : String) : Option Val := Init.lookup n st

def Store.set (st : Store) (n : String) (v : Val) : Store :=
  (n, v) :: st.filter (fun kv => kv.1 != n)

structure StepRes where
  exc : Option Exc
  trace : List Event
  deriving DecidableEq, Repr, Inhabited

/-- `object.__setattr__(self, n, v)`: needs a slot of that name or a `__dict__` -/
def plainStore (rt : CState) (st : Store) (n : String) (v : Val) (tr : List Event) : Store × StepRes :=
  if rt.hasDict || rt.slotNames.contains n then (st.set n v, { exc := none, trace := tr })
  else (st, { exc := some .attributeError, trace := tr })

def ownEvent (n : String) (v : Val) : Event :=
  { id := { kind := "own", field := n, idx := 0 }, args := [v] }

/-- the closure `add_setattr` generates, over the table `sa_attrs` -/
def assignHooked (rt : CState) (rv : Bool) (fault : Option Nat) (st : Store) (n : String) (v : Val)
    (table : List Entry) : Store × StepRes :=
  match table.find? (fun e => e.field.name == n) with
  | none => plainStore rt st n v []
  | some e =>
    match runPipe rv fault e.field e.hook [] v with
    | (tr, .ok nv) => plainStore rt st n nv tr
    | (tr, .error x) => (st, { exc := some x, trace := tr })

/-- `obj.n = v` on an instance of the class with state `rt` -/
def assign (rt : CState) (rv : Bool) (fault : Option Nat) (st : Store) (n : String) (v : Val) : Store × StepRes :=
  match rt.impl with
  | .frozen => (st, { exc := some .frozenInstance, trace := [] })
  | .object => plainStore rt st n v []
  | .user =>
    -- the harness's user `__setattr__`: record, then `object.__setattr__`
    match call fault [] (ownEvent n v) with
    | (tr, some x) => (st, { exc := some x, trace := tr })
    | (tr, none) => plainStore rt st n v tr
  | .hooked table => assignHooked rt rv fault st n v table

/-! ## The case and its observation -/

structure Assign where
  name : String
  value : Val
  deriving DecidableEq, Repr, FromJson, ToJson, Inhabited

/-! ## Hook expressions as written: trees -/

/-- an `on_setattr` callable as written: a setter, or `setters.pipe(*members)` whose members are again such
    callables (a list / tuple argument is `pipe(*list)`: `attrib()` / `attrs()`) -/
inductive Hook where
  | leaf (s : Setter)
  | pipe (l : List Hook)
  deriving Repr, FromJson, ToJson, Inhabited

mutual
/-- the setters of a hook expression, depth-first, left to right -/
def Hook.flatten : Hook → List Setter
  | .leaf s => [s]
  | .pipe l => flattenList l
def flattenList : List Hook → List Setter
  | [] => []
  | h :: t => h.flatten ++ flattenList t
end

/-- an `on_setattr=` argument as written (field or class level) -/
inductive OnW where
  | unset | noop
  | hook (h : Hook)
  deriving Repr, FromJson, ToJson, Inhabited

def OnW.toField : OnW → FieldOn
  | .unset => .unset
  | .noop => .noop
  | .hook h => .chain h.flatten

/-- class level: only a bare built-in setter is recognised by the builder's normalisation (by identity) -/
def OnW.toCls : OnW → ClsOn
  | .unset => .unset
  | .noop => .noop
  | .hook (.leaf s) => .bare s
  | .hook (.pipe l) => .list (flattenList l)

structure FieldW where
  name : String
  tag : String
  conv : Option Conv
  validators : Nat
  onSet : OnW
  init : Bool := true
  dflt : Bool := false
  deriving Repr, FromJson, ToJson, Inhabited

def FieldW.flat (f : FieldW) : Field :=
  { name := f.name, tag := f.tag, conv := f.conv, validators := f.validators, onSet := f.onSet.toField,
    init := f.init, dflt := f.dflt }

structure ClsW where
  kind : Kind
  isDefine : Bool
  frozenArg : Bool
  slots : Bool
  clsOn : OnW
  ownSetattr : Bool
  autoDetect : Bool
  fields : List FieldW
  mixin : Option Bool := none
  deriving Repr, FromJson, ToJson, Inhabited

/-- the class with every hook expression flattened: what the rest of the model works on.  That running a
    nested expression the way `setters.pipe` does (members called in order, a member pipe running its own
    members) is running its flattening is `C06_tree_runs_flat`. -/
def ClsW.flat (c : ClsW) : Cls :=
  { kind := c.kind, isDefine := c.isDefine, frozenArg := c.frozenArg, slots := c.slots, clsOn := c.clsOn.toCls,
    ownSetattr := c.ownSetattr, autoDetect := c.autoDetect, fields := c.fields.map FieldW.flat, mixin := c.mixin }

mutual
/-- a hook expression called the way the real objects are: a pipe calls its members in order with the value
    so far; a member that is itself a pipe does the same with its own members -/
def runHook (rv : Bool) (fault : Option Nat) (f : Field) : Hook → List Event → Val → List Event × Except Exc Val
  | .leaf s, tr, v => runSetter rv fault f s tr v
  | .pipe l, tr, v => runHooks rv fault f l tr v
def runHooks (rv : Bool) (fault : Option Nat) (f : Field) : List Hook → List Event → Val → List Event × Except Exc Val
  | [], tr, v => (tr, .ok v)
  | h :: t, tr, v =>
    match runHook rv fault f h tr v with
    | (tr', .ok v') => runHooks rv fault f t tr' v'
    | (tr', .error x) => (tr', .error x)
end

structure Case where
  /-- the chain as written, root first; instances are made of the last class -/
  classes : List ClsW
  /-- every field preset to `i.<name>` with `object.__setattr__` before the history (else nothing is set) -/
  preset : Bool
  /-- the global validator switch during the history -/
  runValidators : Bool
  history : List Assign
  /-- (assignment index, callback position within that assignment) that raises -/
  fault : Option (Nat × Nat)
  /-- the type of exception that callback raises -/
  faultKind : Option FaultKind := none
  deriving Repr, FromJson, ToJson, Inhabited

/-- the chain the model works on -/
def Case.cls (c : Case) : List Cls := c.classes.map ClsW.flat

structure StepObs where
  exc : Option Exc
  trace : List Event
  /-- every probed name after the step: value, or unset -/
  values : List (String × Option Val)
  /-- after a successful assignment to an `init=True` field `f`: the value of `f` on a fresh instance *constructed* with
      `f = value` (others `i.<name>`), no faults; `none` if the name is not a field or construction raised -/
  ctor : Option Val
  deriving DecidableEq, Repr, FromJson, ToJson, Inhabited

structure Obs where
  /-- index and kind of the first class definition that raised -/
  defErr : Option (Nat × Exc)
  steps : List StepObs
  deriving DecidableEq, Repr, FromJson, ToJson, Inhabited

def dedup : List String → List String
  | [] => []
  | x :: xs => x :: (dedup xs).filter (· != x)

/-- names read back after every step: the fields, then the other names the history assigns -/
def probes (rt : CState) (h : List Assign) : List String :=
  let fs := rt.attrs.map (·.name)
  fs ++ dedup ((h.map (·.name)).filter (fun n => !fs.contains n))

def snapshot (ps : List String) (st : Store) : List (String × Option Val) := ps.map (fun n => (n, st.get n))

def initVal (n : String) : Val := "i." ++ n

def presetStore (rt : CState) : Store := rt.attrs.foldl (fun st f => st.set f.name (initVal f.name)) []

/-- the generated `__init__` stores `converter(argument)` per field.  It bypasses the class's own hooks
    (`_setattr`, see C02_no_hooks) — but a class that unknowingly inherits a hook table (K6) uses plain
    assignment, which then runs the inherited hooks. -/
def dfltVal (f : Field) : Val := "dflt." ++ f.tag

/-- the raw value the initializer has for a field: the argument for `init=True` fields, the declared default for
    `init=False` fields that have one, nothing (no statement is generated) otherwise -/
def ctorInput (arg : Field → Val) (f : Field) : Option Val :=
  if f.init then some (arg f) else if f.dflt then some (dfltVal f) else none

def construct (rt : CState) (rv : Bool) (arg : Field → Val) : Option Store :=
  rt.attrs.foldl (fun acc f =>
    match acc with
    | none => none
    | some st =>
      match ctorInput arg f with
      | none => some st
      | some raw =>
        let v := Init.convApply f.toInit raw
        if rt.inheritsHooks then
          match assign rt rv none st f.name v with
          | (st', { exc := none, .. }) => some st'
          | _ => none
        else some (st.set f.name v)) (some [])

def ctorVal (rt : CState) (rv : Bool) (a : Assign) : Option Val :=
  if rt.attrs.any (fun f => f.name == a.name && f.init) then
    match construct rt rv (fun f => if f.name == a.name then a.value else initVal f.name) with
    | some st => st.get a.name
    | none => none
  else none

def faultAt (fault : Option (Nat × Nat)) (i : Nat) : Option Nat :=
  match fault with
  | some (s, p) => if s = i then some p else none
  | none => none

def runHistory (rt : CState) (rv : Bool) (fault : Option (Nat × Nat)) (k : Option FaultKind) (ps : List String) :
    Nat → Store → List Assign → List StepObs
  | _, _, [] => []
  | i, st, a :: rest =>
    let r := assign rt rv (faultAt fault i) st a.name a.value
    { exc := r.2.exc.map (retype k), trace := r.2.trace, values := snapshot ps r.1,
      ctor := if r.2.exc.isNone then ctorVal rt rv a else none }
      :: runHistory rt rv fault k ps (i + 1) r.1 rest

def model (c : Case) : Obs :=
  match defineChain c.cls with
  | .error e => { defErr := some e, steps := [] }
  | .ok rt =>
    let st0 := if c.preset then presetStore rt else []
    { defErr := none, steps := runHistory rt c.runValidators c.fault c.faultKind (probes rt c.history) 0 st0 c.history }

end Attrs.C06
