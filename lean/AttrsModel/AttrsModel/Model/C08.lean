/-
  C08 — the slotted build.  Mirrors, in src/attr/_make.py:

  * `_ClassBuilder._create_slots_class`: the class-dict copy (field names, `__dict__`, `__weakref__`
    filtered out), the `__attrs_own_setattr__` / `__setattr__` reset, the walk over `__mro__[1:-1]`
    (existing slots, inherited `__weakref__`), the `__weakref__` rule, `functools.cached_property`
    handling (slot per cached property, generated `__getattr__`, the functions remembered for the cell
    rewrite), `slot_names` (own names minus inherited names minus re-used base slots, plus
    `_attrs_cached_hash`), `__slots__`, `__qualname__`, and the closure-cell rewriting loop exactly as
    written: plain functions, the `__func__` of classmethods / staticmethods, getter, setter and deleter of
    properties, the cached-property functions and the shadowed `__getattr__`;
  * `_make_cached_property_getattr` as a two-state machine per (instance, name);
  * `_ClassBuilder.build_class`: the `__attrs_init_subclass__` call.

  A class body is an association list name → item; every function carries the ids of its closure cells;
  the cell store says what each cell holds (the class being replaced, some other object, nothing).
  Bases are summarised by what the code (and CPython's layout rules) can see of them.

  What `type(cls)(name, bases, cd)` itself does (keeping name / module / doc / bases / metaclass, creating
  the member descriptors for `__slots__`) is CPython's: it is observed by the harness, not modelled beyond
  "one member descriptor per name in `__slots__`".
-/
import AttrsModel.Core
import AttrsModel.Generated.Tables

namespace Attrs.C08
open Lean

/-- content of a closure cell -/
inductive CellVal where
  | old      -- the original class (the one attrs replaces)
  | new      -- the class returned by the slotted build
  | other    -- any other object
  | empty    -- the cell is empty (`cell_contents` raises ValueError)
  deriving DecidableEq, Repr, FromJson, ToJson, Inhabited

/-- a Python function: the ids of its `__closure__` cells; `uses` = its code reads `__class__` or calls
    zero-argument `super()`, through its first cell -/
structure Fn where
  cells : List Nat
  uses : Bool
  deriving DecidableEq, Repr, FromJson, ToJson, Inhabited

inductive Item where
  | fn (f : Fn)
  | cm (f : Fn)                              -- classmethod(f)
  | sm (f : Fn)                              -- staticmethod(f)
  | prop (fget fset fdel : Option Fn)        -- property(fget, fset, fdel)
  | cprop (f : Fn)                           -- functools.cached_property(f)
  | opaque (f : Fn)                          -- f hidden in another object (functools.wraps wrapper, custom descriptor)
  | plain                                    -- any other class attribute
  deriving DecidableEq, Repr, FromJson, ToJson, Inhabited

/-- which `__setattr__` the builder wrote before the class is created -/
inductive SetattrMode where
  | none | frozen | hooks
  deriving DecidableEq, Repr, FromJson, ToJson, Inhabited

/-- one class of `cls.__mro__[1:-1]` (nearest first) -/
structure Base where
  /-- member of `cls.__bases__` -/
  direct : Bool
  /-- its own `__slots__`, if its `__dict__` has one -/
  slots : Option (List String)
  /-- its `__dict__` has a `__dict__` descriptor: instances get a dict from this class -/
  hasDict : Bool
  /-- its `__dict__` has a `__weakref__` entry that is not None -/
  hasWeakref : Bool
  /-- value of `__attrs_own_setattr__` in its own `__dict__` -/
  ownSetattr : Option Bool
  /-- its `__dict__` defines `__attrs_init_subclass__` -/
  initSubclass : Bool
  /-- cached properties reachable on instances through this class -/
  cprops : List String
  deriving DecidableEq, Repr, FromJson, ToJson, Inhabited

structure Access where
  inst : Nat
  name : String
  deriving DecidableEq, Repr, FromJson, ToJson, Inhabited

structure Case where
  /-- the original class's `__dict__` as the builder copies it — i.e. AFTER the user's `field_transformer` ran
      (`_transform_attrs` precedes `dict(cls.__dict__)` in `_ClassBuilder.__init__`) — user keys, `__module__`,
      `__dict__`, …, in order -/
  body : List (String × Item)
  /-- closure cells before the build -/
  cells : List (Nat × CellVal)
  /-- names of the class's own fields, and of the inherited ones (`base_attrs`) -/
  own : List String
  inherited : List String
  mro : List Base
  /-- `__slots__` written in the body itself, if any -/
  bodySlots : Option (List String)
  weakrefSlot : Bool
  cacheHash : Bool
  setattrMode : SetattrMode
  /-- `has_custom_setattr`: auto-detected user `__setattr__` in the body -/
  customSetattr : Bool
  /-- history of cached-property reads on instances 0, 1, … of the new class -/
  accesses : List Access
  deriving DecidableEq, Repr, FromJson, ToJson, Inhabited

/-! ## The new class dict -/

/-- a value of the new class's `__dict__` -/
inductive Entry where
  | orig (it : Item)                 -- the very object of the original body
  | generated                        -- a method attrs generated before (`__setattr__` of hooks / frozen …)
  | genGetattr (hasCell : Bool)      -- `_make_cached_property_getattr`; has a `__class__` cell iff it uses super()
  | reused (i : Nat)                 -- the member descriptor of `mro[i]`
  | member                           -- a member descriptor created for a name in `__slots__`
  | slotsTuple
  | qualname
  | flag (b : Bool)
  | objSetattr                       -- `object.__setattr__`
  deriving DecidableEq, Repr, Inhabited

abbrev Dict := List (String × Entry)

def Dict.get (d : Dict) (k : String) : Option Entry :=
  match d with
  | [] => none
  | (k', v) :: rest => if k' = k then some v else Dict.get rest k

def Dict.has (d : Dict) (k : String) : Bool := (Dict.get d k).isSome

/-- `d[k] = v`: replaces in place, else appends -/
def Dict.set (d : Dict) (k : String) (v : Entry) : Dict :=
  match d with
  | [] => [(k, v)]
  | (k', v') :: rest => if k' = k then (k, v) :: rest else (k', v') :: Dict.set rest k v

/-- `del d[k]` -/
def Dict.del (d : Dict) (k : String) : Dict :=
  match d with
  | [] => []
  | (k', v') :: rest => if k' = k then rest else (k', v') :: Dict.del rest k

def attrNames (c : Case) : List String := c.inherited ++ c.own

/-- `self._cls_dict` when `_create_slots_class` starts: the body plus what the builder already wrote
    (only the entries this model talks about) -/
def clsDict (c : Case) : Dict :=
  c.body.map (fun kv => (kv.1, Entry.orig kv.2)) ++
  (match c.setattrMode with
   | .none => []
   | .frozen => [("__setattr__", .generated), ("__delattr__", .generated)]
   | .hooks => [("__attrs_own_setattr__", .flag true), ("__setattr__", .generated)])

/-- `cd = {k: v for k, v in self._cls_dict.items() if k not in (*attr_names, "__dict__", "__weakref__")}` -/
def keepKey (c : Case) (k : String) : Bool :=
  !(attrNames c).contains k && k != "__dict__" && k != "__weakref__"

def cd0 (c : Case) : Dict := (clsDict c).filter (fun kv => keepKey c kv.1)

/-- a direct base carries an attrs-made `__setattr__` -/
def directHooked (c : Case) : Bool := c.mro.any (fun b => b.direct && b.ownSetattr == some true)

/-- the `if not self._wrote_own_setattr:` block -/
def cd1 (c : Case) : Dict :=
  match c.setattrMode with
  | .none =>
    let d := Dict.set (cd0 c) "__attrs_own_setattr__" (.flag false)
    if !c.customSetattr && directHooked c then Dict.set d "__setattr__" .objSetattr else d
  | _ => cd0 c

/-! ## MRO walk -/

def baseHasSlot (n : String) (b : Base) : Bool :=
  match b.slots with
  | some s => s.contains n
  | none => false

/-- `existing_slots`: later (farther) classes overwrite, so the farthest class declaring the name wins;
    the result is an index into `mro` (`i` = index of the list's head) -/
def existingSlotFrom (n : String) : List Base → Nat → Option Nat
  | [], _ => none
  | b :: rest, i =>
    match existingSlotFrom n rest (i + 1) with
    | some j => some j
    | none => if baseHasSlot n b then some i else none

def existingSlot (mro : List Base) (n : String) : Option Nat := existingSlotFrom n mro 0

def weakrefInherited (c : Case) : Bool := c.mro.any (·.hasWeakref)

/-- the weakref rule (after `fix: … K08b`): `weakref_slot` is on, no field is called `__weakref__`, and no class
    of the MRO provides one.  (A `__weakref__` listed in the body's own `__slots__` does not count: that tuple is
    rebuilt.) -/
def addsWeakref (c : Case) : Bool :=
  c.weakrefSlot && !(attrNames c).contains "__weakref__" && !weakrefInherited c

/-- `names` after the weakref rule -/
def names1 (c : Case) : List String := attrNames c ++ (if addsWeakref c then ["__weakref__"] else [])

/-! ## cached properties -/

def isCprop : Entry → Bool
  | .orig (.cprop _) => true
  | _ => false

/-- `cached_properties` (name → func), in dict order -/
def cachedProps (c : Case) : List (String × Fn) :=
  (cd1 c).filterMap (fun kv => match kv.2 with | .orig (.cprop f) => some (kv.1, f) | _ => none)

def cpropNames (c : Case) : List String := (cachedProps c).map (·.1)

/-- `original_getattr = cd.get("__getattr__")` (only looked at when there are cached properties) -/
def origGetattr (c : Case) : Option Entry := Dict.get (cd1 c) "__getattr__"

/-- the dict after the cached-property block -/
def cd2 (c : Case) : Dict :=
  if (cachedProps c).isEmpty then cd1 c else
  let d := (cpropNames c).foldl Dict.del (cd1 c)
  Dict.set d "__getattr__" (.genGetattr (origGetattr c).isNone)

def names2 (c : Case) : List String := names1 c ++ (if (cachedProps c).isEmpty then [] else cpropNames c)

/-! ## slot names -/

/-- `[name for name in names if name not in base_names]` -/
def slotNames0 (c : Case) : List String := (names2 c).filter (fun n => !c.inherited.contains n)

/-- `reused_slots`, as (name, index of the class whose descriptor is re-used) -/
def reusedSlots (c : Case) : List (String × Nat) :=
  (slotNames0 c).filterMap (fun n => (existingSlot c.mro n).map (fun i => (n, i)))

def slotNames (c : Case) : List String :=
  (slotNames0 c).filter (fun n => (existingSlot c.mro n).isNone) ++
  (if c.cacheHash then [Generated.hashCacheField] else [])

/-- `cd.update(reused_slots); cd["__slots__"] = …; cd["__qualname__"] = …` -/
def cd3 (c : Case) : Dict :=
  let d := (reusedSlots c).foldl (fun d ni => Dict.set d ni.1 (.reused ni.2)) (cd2 c)
  Dict.set (Dict.set d "__slots__" .slotsTuple) "__qualname__" .qualname

/-- what `type(cls)(name, bases, cd)` adds: one member descriptor per name in `__slots__` (which `__dict__` /
    `__weakref__` descriptors CPython creates is its layout business: not recorded) -/
def newDict (c : Case) : Dict :=
  ((slotNames c).filter (· != "__weakref__")).foldl (fun d n => Dict.set d n .member) (cd3 c)

/-! ## closure-cell rewriting -/

inductive CellId where
  | user (n : Nat)
  | gen                 -- the `__class__` cell of the generated `__getattr__`
  deriving DecidableEq, Repr, Inhabited

def Fn.ids (f : Fn) : List CellId := f.cells.map .user

def optIds : Option Fn → List CellId
  | some f => f.ids
  | none => []

/-- the closure cells the loop looks at for one item: `item.__func__.__closure__` for class/static methods,
    the closures of `fget`, `fset` and `fdel` for properties (after `fix: … K08a`), `item.__closure__` otherwise (None for everything that is not a
    plain function) -/
def entryCells : Entry → List CellId
  | .orig (.fn f) => f.ids
  | .orig (.cm f) => f.ids
  | .orig (.sm f) => f.ids
  | .orig (.prop g s d) => optIds g ++ optIds s ++ optIds d
  | .genGetattr hasCell => if hasCell then [.gen] else []
  | _ => []

/-- `additional_closure_functions_to_update`: the cached-property functions (plain functions), and the
    shadowed `__getattr__` item -/
def additional (c : Case) : List Entry :=
  if (cachedProps c).isEmpty then [] else
  (cachedProps c).map (fun nf => Entry.orig (.fn nf.2)) ++
  (match origGetattr c with | some e => [e] | none => [])

/-- every cell the loop inspects -/
def reachedCells (c : Case) : List CellId :=
  ((newDict c).map (·.2) ++ additional c).flatMap entryCells

/-- `if cell.cell_contents is self._cls: cell.cell_contents = cls` -/
def rewrite (reached : Bool) (v : CellVal) : CellVal :=
  if reached && v == .old then .new else v

def finalCells (c : Case) : List (Nat × CellVal) :=
  c.cells.map (fun iv => (iv.1, rewrite ((reachedCells c).contains (.user iv.1)) iv.2))

/-- content of a user cell after the build (`empty` for an id the store does not have) -/
def finalCell (c : Case) (i : Nat) : CellVal :=
  match (finalCells c).find? (·.1 == i) with
  | some iv => iv.2
  | none => .empty

/-- the generated `__getattr__`'s own `__class__` cell starts with the old class -/
def genCellFinal (c : Case) : CellVal := rewrite ((reachedCells c).contains .gen) .old

/-! ## what calling the class's functions shows -/

/-- which function of an item a call goes to -/
inductive Part where
  | whole | fget | fset | fdel
  deriving DecidableEq, Repr, FromJson, ToJson, Inhabited

abbrev Label := String × Part

/-- the function parts of an item that can be invoked through the class -/
def itemParts (k : String) : Item → List (Label × Fn)
  | .fn f | .cm f | .sm f | .cprop f | .opaque f => [((k, .whole), f)]
  | .prop g s d =>
    (match g with | some f => [((k, .fget), f)] | none => []) ++
    (match s with | some f => [((k, .fset), f)] | none => []) ++
    (match d with | some f => [((k, .fdel), f)] | none => [])
  | .plain => []

/-- body items that are still reachable on the new class: kept in the dict, a cached property (served by the
    generated `__getattr__`), or the shadowed `__getattr__` (called by the generated one) -/
def reachable (c : Case) (k : String) (it : Item) : Bool :=
  keepKey c k &&
  (Dict.get (newDict c) k == some (.orig it) || isCprop (.orig it) ||
   (k == "__getattr__" && !(cachedProps c).isEmpty))

/-- what one function sees through its first cell -/
def seen (c : Case) (f : Fn) : CellVal := finalCell c (f.cells.headD 0)

/-- what `__class__` / `super()` resolves to in each reachable function that uses it -/
def calls (c : Case) : List (Label × CellVal) :=
  c.body.flatMap (fun kv =>
    if reachable c kv.1 kv.2 then
      ((itemParts kv.1 kv.2).filter (·.2.uses)).map (fun lf => (lf.1, seen c lf.2))
    else [])

/-! ## cached properties at run time (`_make_cached_property_getattr`) -/

/-- the generated `__getattr__` on a miss: compute, store in the slot, return; later reads hit the slot.
    `stored` = slots already filled, `log` = compute events so far -/
structure CState where
  stored : List (Access × String)
  log : List Access
  deriving Repr

def token (a : Access) (k : Nat) : String := a.name ++ "@" ++ toString a.inst ++ "#" ++ toString k

def CState.read (st : CState) (a : Access) : CState × String :=
  match st.stored.find? (·.1 == a) with
  | some av => (st, av.2)
  | none =>
    let v := token a ((st.log.filter (· == a)).length + 1)
    ({ stored := (a, v) :: st.stored, log := st.log ++ [a] }, v)

def runAccesses : List Access → CState → CState × List String
  | [], st => (st, [])
  | a :: rest, st =>
    let r := st.read a
    let r2 := runAccesses rest r.1
    (r2.1, r.2 :: r2.2)

/-! ## observation -/

inductive KeyStatus where
  | same | absent | replaced
  deriving DecidableEq, Repr, FromJson, ToJson, Inhabited

/-- outcome of an attribute probe -/
inductive Probe where
  | ok | attributeError | typeError | other
  deriving DecidableEq, Repr, FromJson, ToJson, Inhabited

structure Obs where
  /-- for every key of the original body: the new class dict holds the identical object / nothing /
      something else under that key -/
  keys : List (String × KeyStatus)
  slots : List String
  /-- names bound in the new class dict to the member descriptor of `mro[i]` -/
  reused : List (String × Nat)
  /-- per own field: number of classes along the new MRO that define a member descriptor of that name -/
  slotCount : List (String × Nat)
  hasDict : Bool
  weakrefable : Bool
  /-- `inst.<unknown> = v` and `inst.<unknown>` -/
  setUnknown : Probe
  getUnknown : Probe
  cells : List (Nat × CellVal)
  calls : List (Label × CellVal)
  /-- value returned by each cached-property read, and the compute events in order -/
  cachedReturns : List String
  cachedComputes : List Access
  /-- the class each `__attrs_init_subclass__` call received -/
  initSubclass : List CellVal
  ownSetattrFlag : Option Bool
  setattrReset : Bool
  /-- what every reachable function that uses the class saw when it was invoked FROM INSIDE the inherited
      `__attrs_init_subclass__` hook (empty when no hook call happened) -/
  hookCalls : List (Label × CellVal)
  /-- checks on the class the hook received that failed at the time of the call (final `__slots__`, final
      class dict, `fields(cls)`): observed -/
  hookView : List String
  /-- assigning every field on an instance of the slotted build and of the dict build of the same class runs
      the same hooks with the same outcome -/
  assignAgree : Bool
  /-- derived lookups on an instance that did NOT behave as a failed lookup must (`hasattr(inst, unknown)` is
      False, `getattr(inst, unknown, d)` is `d`, `copy.copy` / `copy.deepcopy` work — they probe optional dunders on
      the instance): observed; all of them follow from "an unknown attribute raises AttributeError" -/
  lookupDiff : List String
  /-- user callbacks that run DURING class construction and change the class (a `field_transformer` setting /
      deleting / replacing class attributes, `__attrs_init_subclass__`, `__init_subclass__`, metaclass hooks,
      `__set_name__`): what they left on the class that the returned class does not reflect — a deleted attribute
      that is back, a mark of the inherited hook that is missing, a callback-made attribute on which the slotted
      and the dict build of the same class differ.  (What such callbacks ADD before the builder copies the class
      dict is simply part of `body`.)  Observed. -/
  callbackDiff : List String
  /-- runtime identity facts that do NOT hold (type, name, qualname, module, doc, bases): observed only -/
  runtimeDiff : List String
  deriving DecidableEq, Repr, FromJson, ToJson, Inhabited

def keyStatus (c : Case) (k : String) (it : Item) : KeyStatus :=
  match Dict.get (newDict c) k with
  | none => .absent
  | some e => if e = .orig it then .same else .replaced

def slotCountOf (c : Case) (n : String) : Nat :=
  (if (slotNames c).contains n then 1 else 0) + (c.mro.filter (baseHasSlot n)).length

def instHasDict (c : Case) : Bool := (slotNames c).contains "__dict__" || c.mro.any (·.hasDict)

def instWeakrefable (c : Case) : Bool := (slotNames c).contains "__weakref__" || weakrefInherited c

/-- `build_class`: `getattr(cls, "__attrs_init_subclass__", None)` resolves and the class's own dict does not
    have it ⇒ one call, on the class just built -/
def initSubclassCalls (c : Case) : List CellVal :=
  if c.mro.any (·.initSubclass) && !Dict.has (newDict c) "__attrs_init_subclass__" then [.new] else []

/-- what `_patch_original_class` decides for the same class: reset iff the builder wrote no `__setattr__`,
    the user has none, and the flag *resolved on the class* (along the MRO) is true -/
def dictReset (c : Case) : Bool :=
  c.setattrMode == .none && !c.customSetattr && ((c.mro.findSome? (·.ownSetattr)).getD false)

/-- the slotted build left `object.__setattr__` under `__setattr__` -/
def slotsResetOf (c : Case) : Bool := Dict.get (newDict c) "__setattr__" == some .objSetattr

/-- Order of steps in `_create_slots_class` / `build_class`: the class is created, THEN the closure cells are
    rewritten, THEN (back in `build_class`) the inherited `__attrs_init_subclass__` runs — so whatever the hook
    invokes on the class sees the rewritten cells. -/
def hookCalls (c : Case) : List (Label × CellVal) :=
  if (initSubclassCalls c).isEmpty then [] else calls c

def model (c : Case) : Obs :=
  let run := runAccesses c.accesses { stored := [], log := [] }
  { keys := c.body.map (fun kv => (kv.1, keyStatus c kv.1 kv.2)),
    slots := slotNames c,
    reused := reusedSlots c,
    slotCount := c.own.map (fun n => (n, slotCountOf c n)),
    hasDict := instHasDict c,
    weakrefable := instWeakrefable c,
    setUnknown := if c.setattrMode == .frozen || !instHasDict c then .attributeError else .ok,
    getUnknown := if Dict.get (newDict c) "__getattr__" == some (.genGetattr true) && genCellFinal c != .new
                  then .typeError else .attributeError,
    cells := finalCells c,
    calls := calls c,
    cachedReturns := run.2,
    cachedComputes := run.1.log,
    initSubclass := initSubclassCalls c,
    ownSetattrFlag := (match Dict.get (newDict c) "__attrs_own_setattr__" with
                       | some (.flag b) => some b | _ => none),
    setattrReset := slotsResetOf c,
    hookCalls := hookCalls c,
    hookView := [],
    -- both builds resolve the same `__setattr__` for every field iff they decide the reset alike
    assignAgree := slotsResetOf c == dictReset c,
    lookupDiff := [],
    callbackDiff := [],
    runtimeDiff := [] }

/-! ## `__attrs_init_subclass__` along a chain of builds (dict and slotted) -/

/-- one class of a single-inheritance chain, root first -/
structure Level where
  /-- built by attrs (otherwise a plain class statement) -/
  attrs : Bool
  slots : Bool
  /-- its body defines `__attrs_init_subclass__` -/
  defines : Bool
  deriving DecidableEq, Repr, FromJson, ToJson, Inhabited

structure ISubCase where
  chain : List Level
  deriving DecidableEq, Repr, FromJson, ToJson, Inhabited

/-- one observed call: the level whose definition ran, the level of the class it received, and whether
    that object is the class finally bound for that level -/
structure ISubCall where
  definer : Nat
  received : Nat
  final : Bool
  /-- probes made by the hook at the time of the call all succeeded: methods of the received class using
      `__class__` / `super()` see that class, its dict / `__slots__` / `fields()` are final -/
  probe : Bool
  deriving DecidableEq, Repr, FromJson, ToJson, Inhabited

structure ISubObs where
  calls : List ISubCall
  deriving DecidableEq, Repr, FromJson, ToJson, Inhabited

/-- classes are defined root first; `d` = nearest level above that defines the hook.  `build_class` at an
    attrs level without its own definition calls the inherited hook once with the class it returns. -/
def isubHead (l : Level) (k : Nat) (d : Option Nat) : List ISubCall :=
  if l.attrs && !l.defines then
    match d with
    | some j => [{ definer := j, received := k, final := true, probe := true }]
    | none => []
  else []

def isubGo : List Level → Nat → Option Nat → List ISubCall
  | [], _, _ => []
  | l :: rest, k, d => isubHead l k d ++ isubGo rest (k + 1) (if l.defines then some k else d)

def isubModel (c : ISubCase) : ISubObs := { calls := isubGo c.chain 0 none }

end Attrs.C08
