/-
  C07 — field collection.  Mirrors, in src/attr/_make.py: `_transform_attrs` (own-field discovery for
  `these=` / auto_attribs / counter sort, class-level kw_only, field_transformer, order check, alias
  defaulting), `_is_class_var`, `_collect_base_attrs`, `_collect_base_attrs_broken`,
  `_make_attr_tuple_class`, `fields`, `fields_dict`, `add_match_args`, the parameter order of
  `_attrs_to_init_script`, `Attribute.from_counting_attr`; in _funcs.py `has`; in _next_gen.py the
  auto_attribs inference of `define.wrap`; `make_class` (= `attr.s(these=…)` on an empty body).
  The MRO of every class is CPython's and is an input (class ids).  A class is a summary of what
  `_transform_attrs` can see of it: the items of its body, `these`, the decorator arguments.
-/
import AttrsModel.Core
import AttrsModel.Generated.Tables

namespace Attrs.C07
open Lean

/-- the part of `attr.ib(...)` that C07 observes -/
structure FOpts where
  hasDefault : Bool
  init : Bool
  kwOnly : Bool
  alias : Option String      -- explicit `alias=`
  tag : Option Nat           -- `metadata={"d": tag}`: the harness tags every declaration with its class id
  deriving DecidableEq, Repr, FromJson, ToJson, Inhabited

/-- what a name is bound to in a class body -/
inductive Val where
  | absent                   -- annotation only
  | plain                    -- some ordinary value
  | ib (counter : Nat)       -- an `attr.ib()` / `field()` object with its creation counter
  deriving DecidableEq, Repr, FromJson, ToJson, Inhabited

/-- one name of a class body, in source order -/
structure Item where
  name : String
  ann : Option String        -- `str(annotation)` if the name is annotated
  annTag : Option Nat        -- class-id tag carried by the annotation (marker type), if any
  val : Val
  opts : FOpts               -- arguments of the attr.ib (ignored unless `val = ib _`)
  deriving DecidableEq, Repr, FromJson, ToJson, Inhabited

/-- model of an `Attribute` (the observed part) -/
structure Attr where
  name : String
  tag : Option Nat
  ttag : Option Nat          -- tag read from `.type`
  inherited : Bool
  hasDefault : Bool
  init : Bool
  kwOnly : Bool
  alias : Option String
  deriving DecidableEq, Repr, FromJson, ToJson, Inhabited

/-- the user's field_transformer (an input: its semantics is the user's, not attrs's) -/
inductive Tr where
  | none                     -- field_transformer=None
  | ident
  | reverse
  | drop (n : String)
  | add (n : String) (o : FOpts)
  | kwOnly
  deriving DecidableEq, Repr, FromJson, ToJson, Inhabited

inductive Kind where
  | plain                    -- no attrs decorator
  | attrS                    -- attr.s / make_class
  | define                   -- attrs.define
  deriving DecidableEq, Repr, FromJson, ToJson, Inhabited

structure Cls where
  kind : Kind
  /-- `cls.__mro__[:-1]` as class ids (starts with the class itself) -/
  mro : List Nat
  items : List Item
  these : Option (List (String × FOpts))
  /-- attr.s: `some b`; define: `none` = infer -/
  autoAttribs : Option Bool
  collectByMro : Bool
  kwOnly : Bool
  tr : Tr
  deriving DecidableEq, Repr, FromJson, ToJson, Inhabited

inductive Frontend where
  | ib (rot : Nat)           -- attr.s + attr.ib, body assignment order rotated by `rot` against creation order
  | annot                    -- attr.s(auto_attribs=True) + annotations
  | these                    -- attr.s(these=…) / make_class(dict)
  | defineAnnot              -- define, every field annotated
  | defineField              -- define, unannotated field()s only
  deriving DecidableEq, Repr, FromJson, ToJson, Inhabited

/-- an abstract field declaration, independent of the front-end -/
structure Decl where
  name : String
  opts : FOpts
  deriving DecidableEq, Repr, FromJson, ToJson, Inhabited

structure Case where
  /-- the hierarchy in creation order; the class under test is the last one -/
  classes : List Cls
  /-- if present: the last class is `encodeCls last fe decls`, and `twins` are other front-ends to compare -/
  abs : Option (Frontend × List Decl)
  twins : List Frontend
  /-- names probed through `fields(C).<name>` -/
  probes : List String
  deriving DecidableEq, Repr, FromJson, ToJson, Inhabited

structure FieldObs where
  name : String
  tag : Option Nat
  ttag : Option Nat
  inherited : Bool
  hasDefault : Bool
  init : Bool
  kwOnly : Bool
  alias : Option String
  deriving DecidableEq, Repr, FromJson, ToJson, Inhabited

/-- exception kinds of class creation (subset of `common.exc_kind`) -/
inductive ErrKind where
  | valueError | unannotated | typeError | attributeError | other
  deriving DecidableEq, Repr, FromJson, ToJson, Inhabited

structure Obs where
  /-- creation of class `i` raised -/
  err : Option (Nat × ErrKind)
  fields : List FieldObs                  -- fields(C)
  received : Option (List FieldObs)       -- what the transformer was given
  returned : Option (List FieldObs)       -- what it returned
  byIndex : List String                   -- [fields(C)[i].name …]
  byName : List (Option Nat)              -- per probe: index i with `fields(C).<probe> is fields(C)[i]`
  dictKeys : List String                  -- list(fields_dict(C))
  dictAgree : Bool                        -- fields_dict(C)[n] is fields(C).<n> for every key
  histAgree : Bool                        -- after any history of introspection: has(cls) ⇔ fields(cls) works, for
                                          -- every class touched, and asdict recurses into instances of C
  has : List Bool                         -- attr.has(cls) per class of the hierarchy
  matchArgs : List String                 -- C.__match_args__
  initParams : List (String × Bool)       -- inspect.signature(C.__init__): (name, keyword-only)
  twins : List (Option (List FieldObs))   -- fields of the same declarations through other front-ends
  setattrKinds : List String              -- distinct outcomes of `setattr(a, slot, v)` over all fields/slots
  metaWriteKinds : List String            -- distinct outcomes of `a.metadata["k"] = v`
  afterMutation : List FieldObs           -- fields(C) re-read after mutating every user container
  deriving DecidableEq, Repr, FromJson, ToJson, Inhabited

/-! ### `_is_class_var` -/

def isQuote (c : Char) : Bool := c == '\'' || c == '"'

/-- `if annot.startswith(("'", '"')) and annot.endswith(("'", '"')): annot = annot[1:-1]` -/
def stripQuotes (s : List Char) : List Char :=
  if (s.head?.map isQuote).getD false && (s.getLast?.map isQuote).getD false then (s.drop 1).dropLast
  else s

def isClassVar (annot : String) : Bool :=
  Generated.classVarPrefixes.any (fun p => p.toList.isPrefixOf (stripQuotes annot.toList))

/-! ### own-field discovery (`_transform_attrs`, first half) -/

def attrOf (name : String) (o : FOpts) (ttag : Option Nat) : Attr :=
  { name := name, tag := o.tag, ttag := ttag, inherited := false, hasDefault := o.hasDefault,
    init := o.init, kwOnly := o.kwOnly, alias := o.alias }

/-- `attrib(default=a)` for an annotated plain value, `attrib(NOTHING)` for a bare annotation -/
def autoOpts (hasDefault : Bool) : FOpts :=
  { hasDefault := hasDefault, init := true, kwOnly := false, alias := none, tag := none }

/-- `anns.get(name)` reduced to the tag it carries -/
def annTagOf (items : List Item) (name : String) : Option Nat :=
  match items.find? (fun i => i.name == name && i.ann.isSome) with
  | some i => i.annTag
  | none => none

def Val.isIb : Val → Bool
  | .ib _ => true
  | _ => false

def Val.counter : Val → Nat
  | .ib c => c
  | _ => 0

/-- stable insertion sort by creation counter (`sorted(..., key=counter)`) -/
def insertByCounter (x : Item) : List Item → List Item
  | [] => [x]
  | y :: ys => if x.val.counter < y.val.counter then x :: y :: ys else y :: insertByCounter x ys

def sortByCounter : List Item → List Item
  | [] => []
  | x :: xs => insertByCounter x (sortByCounter xs)

def annotated (i : Item) : Bool :=
  match i.ann with
  | some s => !isClassVar s
  | none => false

/-- `attrib(default=a)` / the attr.ib found under an annotated name -/
def autoAttr (i : Item) : Attr :=
  match i.val with
  | .ib _ => attrOf i.name i.opts i.annTag
  | .plain => attrOf i.name (autoOpts true) i.annTag
  | .absent => attrOf i.name (autoOpts false) i.annTag

/-- the `auto_attribs is True` branch -/
def ownAuto (items : List Item) : Except ErrKind (List Attr) :=
  let annots := items.filter annotated
  let unannotated := items.filter (fun i => i.val.isIb && !annotated i)
  if unannotated.isEmpty then .ok (annots.map autoAttr) else .error .unannotated

/-- the counter-sorted branch -/
def ownCounter (items : List Item) : List Attr :=
  (sortByCounter (items.filter (fun i => i.val.isIb))).map
    (fun i => attrOf i.name i.opts (if i.ann.isSome then i.annTag else none))

def ownAttrs (c : Cls) (auto : Bool) : Except ErrKind (List Attr) :=
  match c.these with
  | some l => .ok (l.map (fun (n, o) => attrOf n o (annTagOf c.items n)))
  | none => if auto then ownAuto c.items else .ok (ownCounter c.items)

/-! ### base-class collection -/

abbrev Table := List (Option (List Attr))

def mroOf (cs : List Cls) (b : Nat) : List Nat :=
  match cs[b]? with
  | some c => c.mro
  | none => []

/-- the hierarchy as the collectors see it: the MRO (class ids) of every class -/
abbrev Mros := Nat → List Nat

/-- `getattr(base_cls, "__attrs_attrs__", [])` (legacy collector, `has`): Python resolves the attribute
    along `base_cls.__mro__`;
    `tbl[m] = some t` iff class `m` has its own `__attrs_attrs__` -/
def getattrAttrs (M : Mros) (tbl : Table) (b : Nat) : List Attr :=
  match (M b).findSome? (fun m => (tbl[m]?).join) with
  | some l => l
  | none => []

def inherit (a : Attr) : Attr := { a with inherited := true }

/-- `base_cls.__dict__.get("__attrs_attrs__", ())`: the tuple the class owns (nothing for a plain class) -/
def ownTuple (tbl : Table) (b : Nat) : List Attr :=
  match (tbl[b]?).join with
  | some l => l
  | none => []

/-- what the first loop of `_collect_base_attrs` appends for one base class: it reads the class's *own*
    tuple (a plain class resolves `__attrs_attrs__` from its attrs base, which is visited itself).
    `M` is kept for symmetry with the legacy collector, which still resolves with `getattr`. -/
def expose (_M : Mros) (tbl : Table) (taken : List String) (b : Nat) : List Attr :=
  ((ownTuple tbl b).filter (fun a => !(a.inherited || taken.contains a.name))).map inherit

/-- first loop of `_collect_base_attrs`: `for base_cls in reversed(cls.__mro__[1:-1])` -/
def mroGather (M : Mros) (tbl : Table) (taken : List String) (mroTail : List Nat) : List Attr :=
  mroTail.reverse.flatMap (expose M tbl taken)

/-- second loop, run on the reversed list: keep an element unless its name was seen -/
def keepFirst : List Attr → List String → List Attr
  | [], _ => []
  | a :: l, seen => if seen.contains a.name then keepFirst l seen else a :: keepFirst l (a.name :: seen)

/-- "only keep the freshest definition i.e. the furthest at the back" -/
def keepLast (l : List Attr) : List Attr := (keepFirst l.reverse []).reverse

def collectMro (M : Mros) (tbl : Table) (taken : List String) (mroTail : List Nat) : List Attr :=
  keepLast (mroGather M tbl taken mroTail)

/-- inner loop of `_collect_base_attrs_broken` over one base class; `taken` is mutated -/
def legacyInner : List Attr → List String → List Attr → List Attr × List String
  | [], taken, acc => (acc, taken)
  | a :: l, taken, acc =>
    if taken.contains a.name then legacyInner l taken acc
    else legacyInner l (a.name :: taken) (acc ++ [inherit a])

def legacyOuter (M : Mros) (tbl : Table) : List Nat → List String → List Attr → List Attr
  | [], _, acc => acc
  | b :: bs, taken, acc =>
    legacyOuter M tbl bs (legacyInner (getattrAttrs M tbl b) taken acc).2
      (legacyInner (getattrAttrs M tbl b) taken acc).1

def collectLegacy (M : Mros) (tbl : Table) (taken : List String) (mroTail : List Nat) : List Attr :=
  legacyOuter M tbl mroTail taken []

/-! ### the rest of `_transform_attrs` -/

def setKw (a : Attr) : Attr := { a with kwOnly := true }

def applyTr : Tr → Nat → List Attr → List Attr
  | .none, _, l => l
  | .ident, _, l => l
  | .reverse, _, l => l.reverse
  | .drop n, _, l => l.filter (fun a => a.name != n)
  | .add n o, _, l => l ++ [attrOf n o none]
  | .kwOnly, _, l => l.map setKw

/-- "No mandatory attributes allowed after an attribute with a default value or factory." -/
def badOrderFrom : Bool → List Attr → Bool
  | _, [] => false
  | hadDefault, a :: l =>
    if a.init && !a.kwOnly then
      if hadDefault && !a.hasDefault then true
      else badOrderFrom (hadDefault || a.hasDefault) l
    else badOrderFrom hadDefault l

def badOrder (l : List Attr) : Bool := badOrderFrom false l

/-- `str.lstrip("_")` -/
def lstripUnderscore (s : String) : String := String.ofList (s.toList.dropWhile (· == '_'))

/-- `if not a.alias: alias = _default_init_alias_for(a.name)` (an empty alias counts as missing) -/
def defaultAlias (a : Attr) : Attr :=
  match a.alias with
  | some s => if s.isEmpty then { a with alias := some (lstripUnderscore a.name) } else a
  | none => { a with alias := some (lstripUnderscore a.name) }

structure Built where
  attrs : List Attr
  received : Option (List Attr)
  returned : Option (List Attr)
  err : Option ErrKind
  deriving DecidableEq, Repr, Inhabited

def Built.fail (e : ErrKind) : Built := { attrs := [], received := none, returned := none, err := some e }

/-- `base_attrs + own_attrs` as handed to the transformer -/
def preList (M : Mros) (tbl : Table) (c : Cls) (byMro : Bool) (own : List Attr) : List Attr :=
  let taken := own.map (·.name)
  let base := if byMro then collectMro M tbl taken c.mro.tail else collectLegacy M tbl taken c.mro.tail
  (if c.kwOnly then base.map setKw else base) ++ (if c.kwOnly then own.map setKw else own)

/-- `_transform_attrs` after own-field discovery -/
def finish (M : Mros) (tbl : Table) (k : Nat) (c : Cls) (byMro : Bool) (own : List Attr) : Built :=
  let pre := preList M tbl c byMro own
  let post := applyTr c.tr k pre
  { attrs := if badOrder post then [] else post.map defaultAlias,
    received := if c.tr != .none then some pre else none,
    returned := if c.tr != .none then some post else none,
    err := if badOrder post then some .valueError else none }

/-- `_transform_attrs` for class `k` with a given `auto_attribs` -/
def transformAttrs (M : Mros) (tbl : Table) (k : Nat) (c : Cls) (auto : Bool) (byMro : Bool) : Built :=
  match ownAttrs c auto with
  | .error e => Built.fail e
  | .ok own => finish M tbl k c byMro own

/-- the decorator: attr.s passes its arguments on; define forces collect_by_mro and infers auto_attribs
    (`try do_it(cls, True) except UnannotatedAttributeError: do_it(cls, False)`) -/
def buildClass (M : Mros) (tbl : Table) (k : Nat) (c : Cls) : Built :=
  match c.kind with
  | .plain => { attrs := [], received := none, returned := none, err := none }
  | .attrS => transformAttrs M tbl k c (c.autoAttribs == some true) c.collectByMro
  | .define =>
    match c.autoAttribs with
    | some b => transformAttrs M tbl k c b true
    | none =>
      if (transformAttrs M tbl k c true true).err == some .unannotated then transformAttrs M tbl k c false true
      else transformAttrs M tbl k c true true

def tableEntry (c : Cls) (b : Built) : Option (List Attr) :=
  if c.kind == .plain then none else some b.attrs

/-- create the given classes in order on top of `tbl`; stop at the first failure -/
def buildTable (M : Mros) : List Cls → Table → Except (Nat × ErrKind) Table
  | [], tbl => .ok tbl
  | c :: rest, tbl =>
    match (buildClass M tbl tbl.length c).err with
    | some e => .error (tbl.length, e)
    | none => buildTable M rest (tbl ++ [tableEntry c (buildClass M tbl tbl.length c)])

/-! ### views -/

def toObs (a : Attr) : FieldObs :=
  { name := a.name, tag := a.tag, ttag := a.ttag, inherited := a.inherited, hasDefault := a.hasDefault,
    init := a.init, kwOnly := a.kwOnly, alias := a.alias }

/-- index of the first element satisfying `p` -/
def indexOf? (p : α → Bool) : List α → Option Nat
  | [] => none
  | a :: l => if p a then some 0 else (indexOf? p l).map (· + 1)

/-- `_make_attr_tuple_class`: one property per name (a later duplicate would overwrite an earlier one:
    the class body is a dict) reading `self[i]` -/
def tupleProp (names : List String) (n : String) : Option Nat :=
  (indexOf? (· == n) names.reverse).map (fun j => names.length - 1 - j)

/-- `{a.name: a for a in attrs}`: keys in first-insertion order -/
def dictKeys : List String → List String → List String
  | [], _ => []
  | n :: l, seen => if seen.contains n then dictKeys l seen else n :: dictKeys l (n :: seen)

def aliasOf (a : Attr) : String := a.alias.getD ""

def matchArgsOf (l : List Attr) : List String :=
  (l.filter (fun a => a.init && !a.kwOnly)).map (·.name)

def initParamsOf (l : List Attr) : List (String × Bool) :=
  (l.filter (fun a => a.init && !a.kwOnly)).map (fun a => (aliasOf a, false)) ++
  (l.filter (fun a => a.init && a.kwOnly)).map (fun a => (aliasOf a, true))

/-- `attr.has(cls)`: `getattr(cls, "__attrs_attrs__", None) is not None` -/
def hasOf (M : Mros) (tbl : Table) (b : Nat) : Bool :=
  ((M b).findSome? (fun m => (tbl[m]?).join)).isSome

/-! ### front-end encodings of one abstract declaration list -/

def rotate (l : List α) (r : Nat) : List α := l.drop (r % (l.length + 1)) ++ l.take (r % (l.length + 1))

def indexed : List α → Nat → List (α × Nat)
  | [], _ => []
  | a :: l, i => (a, i) :: indexed l (i + 1)

def encodeItems (fe : Frontend) (ds : List Decl) : List Item :=
  match fe with
  | .ib r => rotate ((indexed ds 1).map (fun (d, i) =>
      { name := d.name, ann := none, annTag := none, val := .ib i, opts := d.opts })) r
  | .annot | .defineAnnot => (indexed ds 1).map (fun (d, i) =>
      { name := d.name, ann := some "int", annTag := none, val := .ib i, opts := d.opts })
  | .these => []
  | .defineField => (indexed ds 1).map (fun (d, i) =>
      { name := d.name, ann := none, annTag := none, val := .ib i, opts := d.opts })

def feKind : Frontend → Kind
  | .ib _ => .attrS
  | .annot => .attrS
  | .these => .attrS
  | .defineAnnot => .define
  | .defineField => .define

def feAuto : Frontend → Option Bool
  | .ib _ => some false
  | .annot => some true
  | .these => some false
  | .defineAnnot => none
  | .defineField => none

def feThese (fe : Frontend) (ds : List Decl) : Option (List (String × FOpts)) :=
  match fe with
  | .these => some (ds.map (fun d => (d.name, d.opts)))
  | .ib _ => none
  | .annot => none
  | .defineAnnot => none
  | .defineField => none

/-- the class under test re-declared through front-end `fe` (bases, kw_only, transformer and the
    collect_by_mro argument unchanged; `define` always collects by MRO) -/
def encodeCls (c : Cls) (fe : Frontend) (ds : List Decl) : Cls :=
  { kind := feKind fe, mro := c.mro, items := encodeItems fe ds, these := feThese fe ds,
    autoAttribs := feAuto fe, collectByMro := c.collectByMro, kwOnly := c.kwOnly, tr := c.tr }

def replaceLast (cs : List Cls) (c : Cls) : List Cls := cs.dropLast ++ [c]

/-- build the whole hierarchy; the result for the last class -/
def resolve (cs : List Cls) : Except (Nat × ErrKind) (Table × Cls × Built) :=
  match cs.getLast? with
  | none => .error (0, .other)
  | some last =>
    match buildTable (mroOf cs) cs.dropLast [] with
    | .error e => .error e
    | .ok tbl => .ok (tbl, last, buildClass (mroOf cs) tbl tbl.length last)

def fieldsOf (cs : List Cls) : Option (List FieldObs) :=
  match resolve cs with
  | .ok (_, _, b) => if b.err.isSome then none else some (b.attrs.map toObs)
  | _ => none

def twinFields (c : Case) (fe : Frontend) : Option (List FieldObs) :=
  match c.classes.getLast?, c.abs with
  | some last, some (_, ds) => fieldsOf (replaceLast c.classes (encodeCls last fe ds))
  | _, _ => none

/-! ### the observation -/

def emptyObs : Obs :=
  { err := none, fields := [], received := none, returned := none, byIndex := [], byName := [],
    dictKeys := [], dictAgree := true, histAgree := true, has := [], matchArgs := [], initParams := [], twins := [],
    setattrKinds := [], metaWriteKinds := [], afterMutation := [] }

/-- observation when the class under test was created -/
def okObs (c : Case) (tbl : Table) (last : Cls) (b : Built) : Obs :=
  { err := none
    fields := b.attrs.map toObs
    received := b.received.map (·.map toObs)
    returned := b.returned.map (·.map toObs)
    byIndex := b.attrs.map (·.name)
    byName := c.probes.map (tupleProp (b.attrs.map (·.name)))
    dictKeys := dictKeys (b.attrs.map (·.name)) []
    dictAgree := true
    histAgree := true
    has := (List.range c.classes.length).map (hasOf (mroOf c.classes) (tbl ++ [tableEntry last b]))
    matchArgs := matchArgsOf b.attrs
    initParams := initParamsOf b.attrs
    twins := c.twins.map (twinFields c)
    setattrKinds := if b.attrs.isEmpty then [] else ["frozenInstance"]
    metaWriteKinds := if b.attrs.isEmpty then [] else ["typeError"]
    afterMutation := b.attrs.map toObs }

/-- observation when creating the class under test raised `e` (the transformer may have run) -/
def errObs (c : Case) (n : Nat) (e : ErrKind) (b : Built) : Obs :=
  { emptyObs with err := some (n, e), received := b.received.map (·.map toObs),
                  returned := b.returned.map (·.map toObs), twins := c.twins.map (twinFields c) }

def obsOf (c : Case) (tbl : Table) (last : Cls) (b : Built) : Obs :=
  match b.err with
  | some e => errObs c tbl.length e b
  | none => okObs c tbl last b

def model (c : Case) : Obs :=
  match resolve c.classes with
  | .error e => { emptyObs with err := some e }
  | .ok (tbl, last, b) => obsOf c tbl last b

end Attrs.C07
