/-
  C04 — hash/eq contract, hash inputs, caching, hashability decision table.

  Mirrors, in src/attr/_make.py: the keyword handling of `attrs()` (`_determine_attrs_eq_order`,
  `unsafe_hash` over `hash`), `_determine_whether_to_implement`, the hash block and the `init`/`cache_hash`
  check of `attrs.wrap`, `_has_frozen_base_class`, `_make_hash_script` (salt, participating fields,
  `eq_key`, the cache read / compute / write), the cache line at the end of `_attrs_to_init_script`, the
  cache slot of `_create_slots_class`, `_make_getstate_setstate` (cache reset) and
  `_CacheHashWrapper.__reduce__`; in src/attr/_next_gen.py: `define`/`frozen` keyword defaults (through
  Generated/Tables.lean).  Trusted CPython fragments: a class body defining `__eq__` gets `__hash__ = None`;
  attribute lookup prefers a slot descriptor found on the MRO over the instance `__dict__`;
  `copy.copy` shares / `copy.deepcopy` and `pickle` rebuild the `__dict__` of dict classes and go through
  `__getstate__`/`__setstate__` for slotted ones.

  A case is a linear chain of classes (root first); the last class is instantiated.  Values are indices
  into a scripted domain: `eqc v` is the `==`-class of value `v`, `hcode` the hash code of a class, `keyMap`
  the key function.  Hash results are modelled by their *inputs* (salt :: hash codes of the participating
  keyed values); observations only compare hashes for equality.
-/
import AttrsModel.Core
import AttrsModel.Generated.Tables

namespace Attrs.C04
open Lean

/-! ## Class specifications -/

inductive Api where
  | attrS      -- attr.s / attr.attrs
  | define     -- attrs.define (= attrs.mutable)
  | frozen     -- attrs.frozen = partial(define, frozen=True, on_setattr=None)
  | plain      -- an undecorated class statement
  deriving DecidableEq, Repr, FromJson, ToJson, Inhabited

/-- a decorator keyword as written: not passed / `None` / `True` / `False` -/
inductive Flag where
  | unset | pyNone | t | f
  deriving DecidableEq, Repr, FromJson, ToJson, Inhabited

/-- what the class body says about `__hash__` -/
inductive OwnHash where
  | no         -- nothing
  | func       -- `def __hash__(self): return <constant>`
  | noneVal    -- `__hash__ = None`
  | delegate   -- `def __hash__(self): return super().__hash__()`
  deriving DecidableEq, Repr, FromJson, ToJson, Inhabited

inductive EqArg where
  | t | f | key
  deriving DecidableEq, Repr, FromJson, ToJson, Inhabited

structure Field where
  name : String
  eq   : EqArg
  hash : Option Bool
  deriving DecidableEq, Repr, FromJson, ToJson, Inhabited

structure Cls where
  api        : Api
  eq         : Flag
  cmp        : Flag
  hash       : Flag
  unsafeHash : Flag
  init       : Flag
  frozen     : Flag
  slots      : Flag
  autoDetect : Flag
  autoExc    : Flag
  cacheHash  : Flag
  /-- `getstate_setstate=` -/
  getstateSetstate : Flag
  ownHash    : OwnHash
  ownEq      : Bool
  ownNe      : Bool
  ownInit    : Bool
  fields     : List Field
  deriving DecidableEq, Repr, FromJson, ToJson, Inhabited

inductive Op where
  /-- `hash(x_i)`; also compares with a fresh instance built from `alt` -/
  | hash (i : Nat) (alt : List Nat)
  | copy (i : Nat)
  | deepcopy (i : Nat)
  | pickle (i : Nat)
  /-- `attrs.evolve(x_i, **changes)`; changes are (field index, value) -/
  | evolve (i : Nat) (changes : List (Nat × Nat))
  /-- `x_i.<field f> = v` -/
  | set (i : Nat) (f : Nat) (v : Nat)
  /-- `attr.assoc(x_i, **changes)`: shallow copy, fields overwritten, a carried-over cached hash cleared -/
  | assoc (i : Nat) (changes : List (Nat × Nat))
  deriving DecidableEq, Repr, FromJson, ToJson, Inhabited

/-- a further base class of the LAST class of the chain (multiple inheritance): an attrs or plain class
    without fields, deriving from `object` or (diamond) from class `via` of the chain -/
structure Side where
  cls : Cls
  /-- derives from chain class `via` instead of `object` -/
  via : Option Nat
  /-- the last class lists an undecorated subclass of this class instead of the class itself -/
  plainAbove : Bool
  deriving DecidableEq, Repr, FromJson, ToJson, Inhabited

structure Case where
  /-- the root class derives from `Exception` instead of `object` -/
  excBase : Bool
  chain   : List Cls
  /-- further bases of the last class, and whether they are listed before its chain parent -/
  side      : List Side
  sideFirst : Bool
  eqc     : List Nat
  hcode   : List Nat
  keyMap  : List Nat
  /-- initial instances of the last class (constructor arguments) -/
  insts   : List (List Nat)
  ops     : List Op
  deriving DecidableEq, Repr, FromJson, ToJson, Inhabited

/-! ## Keyword resolution (defaults come from the source, T1) -/

def Flag.lit : Flag → Option Lit
  | .unset => Option.none
  | .pyNone => some Lit.none
  | .t => some (Lit.bool true)
  | .f => some (Lit.bool false)

/-- the keyword defaults of the decorator (`frozen` = `define` overridden by the partial's keywords) -/
def apiDefault (api : Api) (k : String) : Lit :=
  match api with
  | .attrS => (kwDefault Generated.attrsKw k).getD Lit.none
  | .define => (kwDefault Generated.defineKw k).getD Lit.none
  | .frozen =>
    match kwDefault Generated.frozenPartialKw k with
    | some l => l
    | Option.none => (kwDefault Generated.defineKw k).getD Lit.none
  | .plain => Lit.none

/-- the value the decorator body sees for keyword `k` -/
def argOf (api : Api) (k : String) (fl : Flag) : Lit := (fl.lit).getD (apiDefault api k)

/-- `x is True` / `x is False` / anything else (`None`) -/
def tri : Lit → Option Bool
  | .bool b => some b
  | _ => Option.none

def isTrue (l : Lit) : Bool := l == Lit.bool true

/-- Python truthiness of the literals that occur -/
def truthy : Lit → Bool
  | .bool b => b
  | _ => false

inductive Err where
  | typeError | valueError
  deriving DecidableEq, Repr, FromJson, ToJson, Inhabited

inductive Outcome where
  | generated | unhashable | untouched
  deriving DecidableEq, Repr, FromJson, ToJson, Inhabited

/-- what is known about one class when its decorator runs -/
structure Facts where
  /-- `_determine_attrs_eq_order(cmp, eq, order, None)` raised -/
  mixErr      : Bool
  /-- `hash` after `unsafe_hash` took precedence: None / True / False -/
  hashArg     : Option Bool
  /-- `eq` as `_determine_whether_to_implement` decides it -/
  eqOn        : Bool
  /-- `frozen or _has_frozen_base_class(cls)` -/
  frozenEff   : Bool
  /-- `auto_exc is True and issubclass(cls, BaseException)` -/
  isExc       : Bool
  /-- `hash is None and auto_detect is True and "__hash__" in cls.__dict__` -/
  detected    : Bool
  cacheOn     : Bool
  initOn      : Bool
  slotsEff    : Bool
  deriving DecidableEq, Repr, Inhabited

/-- CPython: a class body that defines `__eq__` and no `__hash__` gets `__hash__ = None` -/
def ownHashInDict (c : Cls) : Bool := c.ownHash != .no || c.ownEq

/-- `hash` after `unsafe_hash` took precedence (`if unsafe_hash is not None: hash = unsafe_hash`) -/
def hashArgOf (c : Cls) : Option Bool :=
  match tri (argOf c.api "unsafe_hash" c.unsafeHash) with
  | some b => some b
  | Option.none => tri (argOf c.api "hash" c.hash)

def facts (c : Cls) (frozenBase excBase : Bool) : Facts :=
  let a := c.api
  let cmp := tri (argOf a "cmp" c.cmp)
  let eqA := tri (argOf a "eq" c.eq)
  let ad := isTrue (argOf a "auto_detect" c.autoDetect)
  -- cmp takes precedence; otherwise eq stays None until `_determine_whether_to_implement`
  let eq_ := match cmp with | some b => some b | Option.none => eqA
  let hashA := hashArgOf c
  let initA := tri (argOf a "init" c.init)
  { mixErr := cmp.isSome && eqA.isSome,
    hashArg := hashA,
    eqOn := (match eq_ with
      | some b => b
      | Option.none => !(ad && (c.ownEq || c.ownNe))),
    frozenEff := truthy (argOf a "frozen" c.frozen) || frozenBase,
    isExc := isTrue (argOf a "auto_exc" c.autoExc) && excBase,
    detected := hashA.isNone && ad && ownHashInDict c,
    cacheOn := truthy (argOf a "cache_hash" c.cacheHash),
    initOn := (match initA with
      | some b => b
      | Option.none => !(ad && c.ownInit)),
    slotsEff := isTrue (argOf a "slots" c.slots) }

/-- the hash block of `attrs.wrap`, branch by branch -/
def codeOutcome (f : Facts) : Outcome :=
  let hash_ := if f.detected then some false else f.hashArg
  if hash_ == some false || (hash_ == Option.none && f.eqOn == false) || f.isExc then .untouched
  else if hash_ == some true || (hash_ == Option.none && f.eqOn == true && f.frozenEff == true) then .generated
  else .unhashable

/-- definition-time errors: `cmp` mixed with `eq`; `cache_hash` without a generated hash; `cache_hash`
    without a generated `__init__` -/
def defErr (f : Facts) (o : Outcome) : Option Err :=
  if f.mixErr then some .valueError
  else if f.cacheOn && o != .generated then some .typeError
  else if f.cacheOn && !f.initOn then some .typeError
  else Option.none

/-! ## The chain -/

/-- one class of the chain with everything later stages need -/
structure Node where
  k        : Nat
  cls      : Cls
  isAttrs  : Bool
  facts    : Facts
  outcome  : Outcome
  /-- `__attrs_attrs__` of the class: inherited fields first (names are distinct along the chain) -/
  fields   : List Field
  deriving DecidableEq, Repr, Inhabited

/-- the error the decorator raises for this class, if any (plain classes have no decorator) -/
def Node.err (n : Node) : Option Err := if n.isAttrs then defErr n.facts n.outcome else Option.none

def plainFacts (frozenBase : Bool) : Facts :=
  { mixErr := false, hashArg := Option.none, eqOn := false, frozenEff := frozenBase, isExc := false,
    detected := false, cacheOn := false, initOn := false, slotsEff := false }

/-- nodes root-first; `outF` is the decision table used (the code's, or the documented one).
    `sideFrozen`: some further base of the last class is frozen.  `cls.__setattr__ is _frozen_setattrs` looks
    `__setattr__` up along the whole MRO, and no class here defines another `__setattr__`, so a frozen class
    anywhere among the bases — whatever the order of the bases — makes the class frozen. -/
def nodesFrom (outF : Facts → Outcome) (excBase : Bool) (sideFrozen : Bool) :
    Nat → Bool → List Field → List Cls → List Node
  | _, _, _, [] => []
  | k, fz0, inh, c :: rest =>
    let fz := fz0 || (rest.isEmpty && sideFrozen)
    if c.api == .plain then
      { k := k, cls := c, isAttrs := false, facts := plainFacts fz, outcome := .untouched,
        fields := inh } :: nodesFrom outF excBase sideFrozen (k + 1) fz inh rest
    else
      let f := facts c fz excBase
      let o := outF f
      { k := k, cls := c, isAttrs := true, facts := f, outcome := o,
        fields := inh ++ c.fields } :: nodesFrom outF excBase sideFrozen (k + 1) f.frozenEff (inh ++ c.fields) rest

/-- is this further base frozen (by its own decorator; a frozen chain class it derives from already counts
    through the chain) -/
def Side.frozen (s : Side) : Bool :=
  s.cls.api != .plain && truthy (argOf s.cls.api "frozen" s.cls.frozen)

def nodesWith (outF : Facts → Outcome) (c : Case) : List Node :=
  nodesFrom outF c.excBase (c.side.any Side.frozen) 0 false [] c.chain

/-- what `C.__hash__` is after the class statement (and decorator) ran -/
inductive ClsObs where
  | generated    -- a method attrs generated for this very class
  | isNone       -- `__hash__ = None` in the class's own `__dict__`
  | own          -- the function written in the class body
  | inherited    -- not in the class's own `__dict__`
  | typeError | valueError   -- the decorator raised
  | other                    -- anything else (never produced by the model)
  deriving DecidableEq, Repr, FromJson, ToJson, Inhabited

/-- what the class has if attrs does not touch `__hash__` -/
def naturalKind (c : Cls) : ClsObs :=
  match c.ownHash with
  | .func | .delegate => .own
  | .noneVal => .isNone
  | .no => if c.ownEq then .isNone else .inherited

def kindOf (n : Node) : ClsObs :=
  match n.err with
  | some .typeError => .typeError
  | some .valueError => .valueError
  | Option.none =>
    match n.outcome with
    | .generated => .generated
    | .unhashable => .isNone
    | .untouched => naturalKind n.cls

/-- classes are defined root-first; definition stops at the first decorator that raises -/
def classObs : List Node → List ClsObs
  | [] => []
  | n :: rest => if n.err.isSome then [kindOf n] else kindOf n :: classObs rest

def built (ns : List Node) : Bool := ns.all (fun n => n.err.isNone)

/-! ## Hash inputs and equality over scripted values (generic in the value type) -/

def hashPart (f : Field) : Bool := f.hash == some true || (f.hash == Option.none && f.eq != .f)
def eqPart (f : Field) : Bool := f.eq != .f

/-- the operand of the generated line for field `f`: `_f_key(self.f)` or `self.f` -/
def keyed {V : Type} (key : V → V) (f : Field) (v : V) : V := if f.eq == .key then key v else v

/-- the (keyed) values of the hash-participating fields, in field order -/
def partVals {V : Type} (key : V → V) : List Field → List V → List V
  | f :: fs, v :: vs => if hashPart f then keyed key f v :: partVals key fs vs else partVals key fs vs
  | _, _ => []

/-- the tuple handed to `hash(...)`: type salt, then the participating operands' hash codes -/
def hashInputs {V : Type} (vh : V → Nat) (key : V → V) (salt : Nat) (fs : List Field) (vs : List V) : List Nat :=
  salt :: (partVals key fs vs).map vh

/-- generated `__eq__` on two instances of the same class: the `and` chain over eq fields -/
def eqChain {V : Type} (veq : V → V → Bool) (key : V → V) : List Field → List V → List V → Bool
  | [], _, _ => true
  | f :: fs, a :: as, b :: bs =>
    (if eqPart f then veq (keyed key f a) (keyed key f b) else true) && eqChain veq key fs as bs
  | _ :: _, _, _ => false   -- a field without a value: cannot happen for constructed instances

/-- the two value vectors agree (up to `==`) on every hash-participating field, through its key -/
def agreeOn {V : Type} (veq : V → V → Bool) (key : V → V) : List Field → List V → List V → Bool
  | [], _, _ => true
  | f :: fs, a :: as, b :: bs =>
    (!hashPart f || veq (keyed key f a) (keyed key f b)) && agreeOn veq key fs as bs
  | _ :: _, _, _ => false

/-- every hash-participating field also takes part in equality -/
def hashWithinEq (fs : List Field) : Bool := fs.all (fun f => !hashPart f || eqPart f)

def nKeyCalls (fs : List Field) : Nat := (fs.filter (fun f => hashPart f && f.eq == .key)).length
def nValHashes (fs : List Field) : Nat := (fs.filter hashPart).length

/-! ### the scripted domain of a case -/

def Case.veq (c : Case) (a b : Nat) : Bool := c.eqc.getD a a == c.eqc.getD b b
def Case.vh (c : Case) (v : Nat) : Nat := c.hcode.getD (c.eqc.getD v v) 0
def Case.key (c : Case) (v : Nat) : Nat := c.keyMap.getD v v

/-! ## Method resolution along the chain (leaf first) -/

inductive HRes where
  | gen (n : Node)   -- the `__hash__` attrs generated for class `n`
  | ident            -- `object.__hash__`
  | const            -- a user function returning a constant
  | unhashable       -- `__hash__` is None (somewhere on the way): TypeError
  deriving DecidableEq, Repr, Inhabited

def resolveHash : List Node → HRes
  | [] => .ident
  | n :: rest =>
    match n.outcome with
    | .generated => .gen n
    | .unhashable => .unhashable
    | .untouched =>
      match n.cls.ownHash with
      | .func => .const
      | .noneVal => .unhashable
      | .delegate => resolveHash rest
      | .no => if n.cls.ownEq then .unhashable else resolveHash rest

inductive ERes where
  | gen (n : Node)
  | ident            -- `object.__eq__` or a user `__eq__` written as `self is other`
  deriving DecidableEq, Repr, Inhabited

def resolveEq : List Node → ERes
  | [] => .ident
  | n :: rest =>
    if n.isAttrs && n.facts.eqOn && !n.facts.isExc then .gen n
    else if n.cls.ownEq then .ident
    else resolveEq rest

/-- How `copy.copy` / `copy.deepcopy` / `pickle` rebuild an instance of the last class. -/
inductive CopyMode where
  /-- through the `__getstate__`/`__setstate__` pair attrs generated for the class whose `__init__` runs:
      the state is the fields; `__setstate__` stores them and then re-arms the hash cache -/
  | state
  /-- no generated pair anywhere and no slotted class: the default protocol copies `__dict__` -/
  | dict
  /-- a pair generated for a *base* resolves (explicit `getstate_setstate=False` below it), or a slotted
      class opted out: fields are lost or the copy fails — C10's business, not exercised here -/
  | unsupported
  deriving DecidableEq, Repr, Inhabited

/-- does this class get its own generated `__getstate__`/`__setstate__`: the flag if given, else
    `slots or _inherits_generated_getstate(cls)` (no class body here defines the methods itself) -/
def ownsState (n : Node) (inherits : Bool) : Bool :=
  n.isAttrs &&
  (match tri (argOf n.cls.api "getstate_setstate" n.cls.getstateSetstate) with
   | some b => b
   | Option.none => n.facts.slotsEff || inherits)

/-- root-first: each node with "has its own generated state pair" -/
def withState : Bool → List Node → List (Node × Bool)
  | _, [] => []
  | inh, n :: rest => (n, ownsState n inh) :: withState (inh || ownsState n inh) rest

/-- facts about instances of the last class -/
structure Layout where
  /-- some class on the MRO has a `_attrs_cached_hash` slot -/
  hasSlot    : Bool
  /-- the `__init__` that runs ends with the cache line … -/
  initCache  : Bool
  /-- … written as `_inst_dict['_attrs_cached_hash'] = None` -/
  initDirect : Bool
  leafFrozen : Bool
  /-- how copy / deepcopy / pickle rebuild an instance -/
  copyMode   : CopyMode
  /-- the resolved `__setstate__` resets the cache -/
  stateReset : Bool
  hres       : HRes
  eres       : ERes
  nFields    : Nat
  deriving Repr, Inhabited

def lastAttrs (leafFirst : List Node) : Option Node := leafFirst.find? (·.isAttrs)

def layoutOf (ns : List Node) : Layout :=
  let lf := ns.reverse
  let ats := ns.filter (·.isAttrs)
  let m := lastAttrs lf
  { hasSlot := ats.any (fun n => n.facts.slotsEff && n.facts.cacheOn),
    initCache := (m.map (·.facts.cacheOn)).getD false,
    initDirect := (m.map (fun n => n.facts.frozenEff && !n.facts.slotsEff)).getD false,
    leafFrozen := (lf.head?.map (·.facts.frozenEff)).getD false,
    copyMode :=
      (let ws := withState false ns
       match ws.reverse.find? (fun p => p.1.isAttrs) with
       | some (_, true) => .state
       | _ => if ws.any (fun p => p.2) || ats.any (fun n => n.facts.slotsEff) then .unsupported else .dict),
    stateReset := (m.map (·.facts.cacheOn)).getD false,
    hres := resolveHash lf,
    eres := resolveEq lf,
    nFields := (m.map (·.fields.length)).getD 0 }

/-! ## Instances and the cache life cycle -/

/-- one storage location for `_attrs_cached_hash` -/
inductive Cell where
  | absent                 -- never written: reading raises AttributeError
  | empty                  -- None
  | full (h : List Nat)    -- a cached hash, modelled by the inputs it was computed from
  deriving DecidableEq, Repr, Inhabited

structure Inst where
  vals : List Nat
  slot : Cell
  dict : Cell
  deriving DecidableEq, Repr, Inhabited

def readCell (L : Layout) (x : Inst) : Cell := if L.hasSlot then x.slot else x.dict

/-- `setattr`-style write: the slot descriptor wins when there is one -/
def writeCell (L : Layout) (x : Inst) (v : Cell) : Inst :=
  if L.hasSlot then { x with slot := v } else { x with dict := v }

/-- the state `__init__` leaves behind -/
def newInst (L : Layout) (vals : List Nat) : Inst :=
  let x : Inst := { vals := vals, slot := .absent, dict := .absent }
  if L.initCache then
    if L.initDirect then { x with dict := .empty } else writeCell L x .empty
  else x

inductive Out where
  | ok | attributeError | typeError | frozenInstance | other
  deriving DecidableEq, Repr, FromJson, ToJson, Inhabited

/-- result of one operation of the history -/
structure Res where
  out          : Out
  /-- hash ops: the instance's current field values, read back -/
  vals         : List Nat
  /-- hash ops: `hash(x) == hash(T(*vals))`, `T` the same class built without cache_hash -/
  sameUncached : Bool
  /-- hash ops: `x == C(*alt)` -/
  eqAlt        : Bool
  /-- hash ops: `hash(x) == hash(C(*alt))` -/
  hashAlt      : Bool
  /-- hash ops: key-function calls and value `__hash__` calls made by `hash(x)` -/
  nKey         : Nat
  nVal         : Nat
  deriving DecidableEq, Repr, FromJson, ToJson, Inhabited

def Res.plain (o : Out) : Res :=
  { out := o, vals := [], sameUncached := false, eqAlt := false, hashAlt := false, nKey := 0, nVal := 0 }

/-- a fresh computation of the hash for the given field values -/
def fresh (c : Case) (n : Node) (vals : List Nat) : List Nat :=
  hashInputs c.vh c.key (n.k + 2) n.fields vals

/-- `hash(x)`: outcome, hash inputs of the value returned, whether it was computed, new instance state -/
def hashCall (c : Case) (L : Layout) (idx : Nat) (x : Inst) : Out × List Nat × Bool × Inst :=
  match L.hres with
  | .unhashable => (.typeError, [], false, x)
  | .ident => (.ok, [0, idx], false, x)
  | .const => (.ok, [1], false, x)
  | .gen n =>
    if n.facts.cacheOn then
      match readCell L x with
      | .absent => (.attributeError, [], false, x)
      | .full h => (.ok, h, false, x)
      | .empty =>
        let h := fresh c n x.vals
        -- written with `object.__setattr__` in the frozen variant, by plain assignment otherwise (the
        -- plain assignment cannot meet a frozen `__setattr__`: a caching hash that resolves and finds its
        -- cache belongs to the class whose `__init__` ran)
        (.ok, h, true, writeCell L x (.full h))
    else (.ok, fresh c n x.vals, true, x)

/-- `hash(C(*alt))` for a fresh instance, as hash inputs (`none` when it raises) -/
def hashOfFresh (c : Case) (L : Layout) (idx : Nat) (alt : List Nat) : Option (List Nat) :=
  let r := hashCall c L idx (newInst L alt)
  if r.1 == .ok then some r.2.1 else Option.none

def eqCall (c : Case) (L : Layout) (sameObj : Bool) (a b : List Nat) : Bool :=
  match L.eres with
  | .ident => sameObj
  | .gen n => eqChain c.veq c.key n.fields a b

def hashOp (c : Case) (L : Layout) (insts : List Inst) (i : Nat) (alt : List Nat) : Res × List Inst :=
  match insts[i]? with
  | Option.none => (Res.plain .other, insts)
  | some x =>
    let r := hashCall c L i x
    let out := r.1
    let h := r.2.1
    let computed := r.2.2.1
    let x' := r.2.2.2
    let unc : Bool := match L.hres with
      | .gen n => out == .ok && h == fresh c n x.vals
      | .const => out == .ok
      | _ => false
    let altH := hashOfFresh c L insts.length alt
    let cnt : Nat × Nat := match L.hres with
      | .gen n => if computed then (nKeyCalls n.fields, nValHashes n.fields) else (0, 0)
      | _ => (0, 0)
    ({ out := out, vals := x.vals, sameUncached := unc,
       eqAlt := eqCall c L false x.vals alt,
       hashAlt := out == .ok && altH == some h,
       nKey := cnt.1, nVal := cnt.2 }, insts.set i x')

/-- state of a shallow copy / of a deep copy or unpickled object -/
def copyInst (L : Layout) (deep : Bool) (x : Inst) : Inst :=
  match L.copyMode with
  | .state =>
    -- a new object; `__setstate__` stores the fields, then (if the class caches) sets the cache to None
    -- with `object.__setattr__`
    let y : Inst := { vals := x.vals, slot := .absent, dict := .absent }
    if L.stateReset then writeCell L y .empty else y
  | _ =>
    -- `__dict__` is copied; `_CacheHashWrapper` reduces to None when deep-copied or pickled
    { vals := x.vals, slot := .absent,
      dict := if deep then (match x.dict with | .full _ => .empty | d => d) else x.dict }

def applyChanges (vals : List Nat) : List (Nat × Nat) → List Nat
  | [] => vals
  | (f, v) :: rest => applyChanges (vals.set f v) rest

/-- `attr.assoc` (src/attr/_funcs.py): `copy.copy`, then `object.__setattr__` for every change, then — if
    `getattr(new, '_attrs_cached_hash', None) is not None` — the cache is set back to None -/
def assocInst (L : Layout) (x : Inst) (ch : List (Nat × Nat)) : Inst :=
  let y := copyInst L false x
  let y' : Inst := { y with vals := applyChanges y.vals ch }
  match readCell L y' with
  | .full _ => writeCell L y' .empty
  | _ => y'

def step (c : Case) (L : Layout) (insts : List Inst) : Op → Res × List Inst
  | .hash i alt => hashOp c L insts i alt
  | .copy i =>
    match insts[i]? with
    | some x => (Res.plain .ok, insts ++ [copyInst L false x])
    | Option.none => (Res.plain .other, insts)
  | .deepcopy i =>
    match insts[i]? with
    | some x => (Res.plain .ok, insts ++ [copyInst L true x])
    | Option.none => (Res.plain .other, insts)
  | .pickle i =>
    match insts[i]? with
    | some x => (Res.plain .ok, insts ++ [copyInst L true x])
    | Option.none => (Res.plain .other, insts)
  | .evolve i ch =>
    match insts[i]? with
    | some x => (Res.plain .ok, insts ++ [newInst L (applyChanges x.vals ch)])
    | Option.none => (Res.plain .other, insts)
  | .assoc i ch =>
    match insts[i]? with
    | some x => (Res.plain .ok, insts ++ [assocInst L x ch])
    | Option.none => (Res.plain .other, insts)
  | .set i f v =>
    match insts[i]? with
    | some x =>
      if L.leafFrozen then (Res.plain .frozenInstance, insts)
      else (Res.plain .ok, insts.set i { x with vals := x.vals.set f v })
    | Option.none => (Res.plain .other, insts)

def runOps (c : Case) (L : Layout) : List Inst → List Op → List Res
  | _, [] => []
  | insts, op :: rest =>
    let r := step c L insts op
    r.1 :: runOps c L r.2 rest

structure Obs where
  classes : List ClsObs
  results : List Res
  deriving DecidableEq, Repr, FromJson, ToJson, Inhabited

def model (c : Case) : Obs :=
  let ns := nodesWith codeOutcome c
  { classes := classObs ns,
    results := if built ns then
        let L := layoutOf ns
        runOps c L (c.insts.map (newInst L)) c.ops
      else [] }

end Attrs.C04
