/-
  C14 — method-generation decision table; what ends up in the class dict.

  Mirrors (src/attr/_make.py, src/attr/_next_gen.py):
    * keyword defaults of `attrs()` / `define()` / `frozen = partial(define, …)`   → `kw` (read from
      Generated/Tables.lean, T1)
    * `_determine_attrs_eq_order`                                                → `eqOrder`
    * `_has_own_attribute`, `_determine_whether_to_implement`                    → `hasOwn`, `determine`
    * `define.wrap` (default on_setattr, frozen base ⇒ NO_OP / ValueError)        → `clsOnSet`
    * `_has_frozen_base_class`                                                   → `isFrozen`
    * the body of `attrs.wrap`, group by group, in code order                    → `decisions`, `firstError`
    * `_ClassBuilder.__init__` (frozen writes, on_setattr reduction, getstate)   → `builderOnSet`, `builderWrites`
    * `add_setattr` / `__attrs_own_setattr__`                                    → `hooks`, `builderWrites`
    * `_patch_original_class` (setattr of generated names, reset to object.__setattr__) → `patchOriginal`
    * `_create_slots_class` (dict copy, dropped keys, reset) + CPython's `type()` rule
      "`__eq__` in the namespace and no `__hash__` ⇒ `__hash__ = None`"           → `createSlots`

  A class is summarised by the names its body defines (`body`, each bound to the user's own object), the
  shape of its bases (an optional attrs base that is hooked or frozen, an optional plain class in between that
  may define methods) and whether it derives from `BaseException`.  Core Lean only.
-/
import AttrsModel.Core
import AttrsModel.Generated.Tables

namespace Attrs.C14
open Lean

/-! ### Inputs -/

inductive Api where
  | attrS | define | frozen
  deriving DecidableEq, Repr, FromJson, ToJson, Inhabited

/-- a decorator flag as written: not passed / `None` / `True` / `False` -/
inductive Flag where
  | unset | non | t | f
  deriving DecidableEq, Repr, FromJson, ToJson, Inhabited

/-- `hash=` / `unsafe_hash=` as written; `bad` is a value that is neither None nor a bool -/
inductive HFlag where
  | unset | non | t | f | bad
  deriving DecidableEq, Repr, FromJson, ToJson, Inhabited

/-- class-level `on_setattr=` as written: a custom hook, `setters.validate`, `setters.NO_OP` -/
inductive OnSet where
  | unset | non | hook | validate | noOp
  deriving DecidableEq, Repr, FromJson, ToJson, Inhabited

/-- the attrs-made class at the far end of the base chain -/
inductive AttrsBase where
  | none      -- no attrs base
  | vanilla   -- an attrs class that wrote no `__setattr__` (its generated methods are inherited)
  | hooked    -- its `__setattr__` was written by `add_setattr` (`__attrs_own_setattr__ = True`)
  | frozen    -- `@attr.s(frozen=True)`
  deriving DecidableEq, Repr, FromJson, ToJson, Inhabited

structure Case where
  api          : Api
  oAutoDetect  : Option Bool
  fRepr        : Flag
  fEq          : Flag
  fOrder       : Flag
  fCmp         : Flag          -- attr.s only
  fInit        : Flag
  fGss         : Flag          -- getstate_setstate
  fHash        : HFlag
  fUnsafeHash  : HFlag
  oStr         : Option Bool
  oMatchArgs   : Option Bool
  oSlots       : Option Bool
  oFrozen      : Option Bool
  oCacheHash   : Option Bool
  oAutoExc     : Option Bool
  onSetattr    : OnSet
  /-- the class's field has a validator (what `define`'s default on_setattr looks for) -/
  fieldValidator : Bool
  /-- names bound in the class body; each is bound to the user's own object -/
  body         : List String
  attrsBase    : AttrsBase
  /-- a plain (undecorated) class sits between the class and its attrs base / `object` -/
  plainMid     : Bool
  /-- names the plain class in between defines (inherited by the class, never "own") -/
  baseDefines  : List String
  /-- the hierarchy is rooted at `Exception` -/
  excBase      : Bool
  /-- running interpreter ≥ 3.10 (`__match_args__` support) -/
  py310        : Bool
  /-- HISTORY of the decorator object: the bodies (bound names) of the classes the very same decorator object
      (`deco = attr.s(...)`, `deco = define(...)`) was applied to before this class.  The model never reads it:
      the decision table is a function of the class alone (`C14_history_irrelevant`); the harness really applies
      one decorator object to those classes first. -/
  history      : List (List String) := []
  deriving DecidableEq, Repr, FromJson, ToJson, Inhabited

/-! ### Observations -/

/-- what `C.__dict__[name]` is -/
inductive Slot where
  | absent          -- not in `C.__dict__` (inherited or nowhere)
  | user            -- the very object the class body bound to that name
  | gen             -- an attrs-generated function that behaves as such
  | genBroken       -- an attrs-made function that does not behave (never produced by the model)
  | pyNone          -- `None` (`__hash__`)
  | objSetattr      -- `object.__setattr__`
  | frozenSetattr   -- `_frozen_setattrs`
  | frozenDelattr   -- `_frozen_delattrs`
  | genTuple        -- the `__match_args__` tuple attrs computes
  | vTrue | vFalse  -- `__attrs_own_setattr__`
  | other
  deriving DecidableEq, Repr, FromJson, ToJson, Inhabited

structure Obs where
  /-- kind of the exception raised while decorating, if any -/
  err   : Option String
  /-- watched name ↦ content of the resulting class's own dict (empty when decorating raised) -/
  slots : List (String × Slot)
  deriving DecidableEq, Repr, FromJson, ToJson, Inhabited

/-! ### Class dicts as association lists -/

abbrev Dict := List (String × Slot)

def Dict.get (d : Dict) (k : String) : Slot :=
  match d.find? (fun p => p.1 == k) with
  | some p => p.2
  | none => .absent

def Dict.has (d : Dict) (k : String) : Bool := d.any (fun p => p.1 == k)

def Dict.erase (d : Dict) (k : String) : Dict := d.filter (fun p => p.1 != k)

def Dict.set (d : Dict) (k : String) (v : Slot) : Dict := (k, v) :: d.erase k

/-- `for name, value in writes: d[name] = value` -/
def applyWrites (d : Dict) (ws : List (String × Slot)) : Dict :=
  ws.foldl (fun acc w => acc.set w.1 w.2) d

/-- `_has_own_attribute(cls, name)`: `name in cls.__dict__` -/
def hasOwn (cd : Dict) (name : String) : Bool := cd.has name

/-- The class's own dict as CPython builds it from the body: every bound name, plus the implicit
    `__hash__ = None` that `type()` adds when the namespace has `__eq__` but no `__hash__`. -/
def implicitHash (d : Dict) : Dict :=
  if d.has "__eq__" && !d.has "__hash__" then d.set "__hash__" .pyNone else d

def classDict (body : List String) : Dict := implicitHash (body.map (fun n => (n, Slot.user)))

/-! ### Keyword defaults (T1 tables) -/

def kw (api : Api) (k : String) : Option Lit :=
  match api with
  | .attrS => kwDefault Generated.attrsKw k
  | .define => kwDefault Generated.defineKw k
  | .frozen =>
    match kwDefault Generated.frozenPartialKw k with
    | some v => some v
    | none => kwDefault Generated.defineKw k

/-- the value of a flag once defaults are filled in: `None` / `True` / `False` -/
inductive Tri where
  | non | t | f
  deriving DecidableEq, Repr, Inhabited

inductive HTri where
  | non | t | f | bad
  deriving DecidableEq, Repr, Inhabited

def litTri : Option Lit → Tri
  | some (.bool true) => .t
  | some (.bool false) => .f
  | _ => .non

def litBool : Option Lit → Bool
  | some (.bool b) => b
  | _ => false

def tri (api : Api) (k : String) : Flag → Tri
  | .unset => litTri (kw api k)
  | .non => .non
  | .t => .t
  | .f => .f

def htri (api : Api) (k : String) : HFlag → HTri
  | .unset => match litTri (kw api k) with | .t => .t | .f => .f | .non => .non
  | .non => .non
  | .t => .t
  | .f => .f
  | .bad => .bad

def optB (api : Api) (k : String) : Option Bool → Bool
  | some b => b
  | none => litBool (kw api k)

def autoDetect (c : Case) : Bool := optB c.api "auto_detect" c.oAutoDetect
def slots (c : Case) : Bool := optB c.api "slots" c.oSlots
def frozenFlag (c : Case) : Bool := optB c.api "frozen" c.oFrozen
def strFlag (c : Case) : Bool := optB c.api "str" c.oStr
def matchArgsFlag (c : Case) : Bool := optB c.api "match_args" c.oMatchArgs
def cacheHash (c : Case) : Bool := optB c.api "cache_hash" c.oCacheHash
def autoExc (c : Case) : Bool := optB c.api "auto_exc" c.oAutoExc

/-! ### `_determine_attrs_eq_order(cmp, eq, order, None)` -/

def eqOrder (cmp eq order : Tri) : Except String (Tri × Tri) :=
  if cmp != .non && (eq != .non || order != .non) then .error "valueError"
  else if cmp != .non then .ok (cmp, cmp)
  else
    -- `if eq is None: eq = default_eq` with default_eq = None
    let order' := if order == .non then eq else order
    if eq == .f && order' == .t then .error "valueError" else .ok (eq, order')

def eqOrderOf (c : Case) : Except String (Tri × Tri) :=
  eqOrder (tri c.api "cmp" c.fCmp) (tri c.api "eq" c.fEq) (tri c.api "order" c.fOrder)

def eqTri (c : Case) : Tri := match eqOrderOf c with | .ok p => p.1 | .error _ => .non
def orderTri (c : Case) : Tri := match eqOrderOf c with | .ok p => p.2 | .error _ => .non

/-- `if unsafe_hash is not None: hash = unsafe_hash` -/
def hashArg (c : Case) : HTri :=
  match htri c.api "unsafe_hash" c.fUnsafeHash with
  | .non => htri c.api "hash" c.fHash
  | u => u

/-! ### `_determine_whether_to_implement` -/

def determine (cd : Dict) (flag : Tri) (autoDetect : Bool) (dunders : List String) (dflt : Bool) : Bool :=
  match flag with
  | .t => true
  | .f => false
  | .non =>
    if !autoDetect then dflt
    else if dunders.any (hasOwn cd) then false
    else dflt

/-! ### `__setattr__` resolution over the bases, frozen-ness -/

/-- the plain class in between defines its own `__setattr__` -/
def midSetattr (c : Case) : Bool := c.plainMid && c.baseDefines.contains "__setattr__"

/-- `base_cls.__setattr__ is _frozen_setattrs` for the direct base (define.wrap) -/
def basesFrozen (c : Case) : Bool := c.attrsBase == .frozen && !midSetattr c

/-- `_has_frozen_base_class(cls)`: `cls.__setattr__ is _frozen_setattrs`, resolved through the MRO
    (an own `__setattr__` hides the base's) -/
def hasFrozenBase (c : Case) : Bool := !hasOwn (classDict c.body) "__setattr__" && basesFrozen c

def isFrozen (c : Case) : Bool := frozenFlag c || hasFrozenBase c

def isExc (c : Case) : Bool := autoExc c && c.excBase

/-- `has_own_setattr = auto_detect and _has_own_attribute(cls, "__setattr__")` -/
def hasCustomSetattr (c : Case) : Bool := autoDetect c && hasOwn (classDict c.body) "__setattr__"

/-! ### class-level on_setattr: `attrs()` argument, `define.wrap`, `_ClassBuilder.__init__` -/

inductive OnSetV where
  | non | hook | validate | noOp | dflt     -- dflt = `_DEFAULT_ON_SETATTR` (pipe(convert, validate))
  deriving DecidableEq, Repr, Inhabited

def onSetPassed (c : Case) : OnSetV :=
  match c.onSetattr with
  | .unset => .non        -- both signatures default to None (C14_defaults_documented checks the tables)
  | .non => .non
  | .hook => .hook
  | .validate => .validate
  | .noOp => .noOp

/-- `define.wrap`: the on_setattr handed to `attrs()`, or ValueError below a frozen base -/
def clsOnSet (c : Case) : Except String OnSetV :=
  match c.api with
  | .attrS => .ok (onSetPassed c)
  | _ =>
    let o := onSetPassed c
    let had := o != .non && o != .noOp
    let o1 := if frozenFlag c == false && o == .non then OnSetV.dflt else o
    if basesFrozen c then (if had then .error "valueError" else .ok .noOp) else .ok o1

def clsOnSetV (c : Case) : OnSetV := match clsOnSet c with | .ok o => o | .error _ => .non

/-- `_ClassBuilder.__init__`: convert/validate hooks without anything to convert/validate count as None
    (only looked at when the class is not frozen) -/
def builderOnSet (c : Case) : OnSetV :=
  let o := clsOnSetV c
  if isFrozen c then o
  else match o with
    | .dflt => if c.fieldValidator then .dflt else .non
    | .validate => if c.fieldValidator then .validate else .non
    | o => o

def effective (o : OnSetV) : Bool := o != .non && o != .noOp

/-- `add_setattr` is reached (`if not frozen`) and finds a field with an effective hook -/
def hooks (c : Case) : Bool := !frozenFlag c && effective (builderOnSet c)

/-! ### group by group, as `attrs.wrap` does it -/

def gssNames : List String := ["__getstate__", "__setstate__"]
def reprNames : List String := ["__repr__"]
def eqNames : List String := ["__eq__", "__ne__"]
def orderNames : List String := ["__lt__", "__le__", "__gt__", "__ge__"]
def initNames : List String := ["__init__"]

def gssDec (c : Case) : Bool :=
  determine (classDict c.body) (tri c.api "getstate_setstate" c.fGss) (autoDetect c) gssNames (slots c)

def reprDec (c : Case) : Bool :=
  determine (classDict c.body) (tri c.api "repr" c.fRepr) (autoDetect c) reprNames true

/-- the local `eq` of `wrap` -/
def eqDet (c : Case) : Bool := determine (classDict c.body) (eqTri c) (autoDetect c) eqNames true

def eqDec (c : Case) : Bool := !isExc c && eqDet c

def orderDec (c : Case) : Bool :=
  !isExc c && determine (classDict c.body) (orderTri c) (autoDetect c) orderNames true

/-- `hash_`: an auto-detected own `__hash__` counts as `hash=False` -/
def hashLocal (c : Case) : HTri :=
  if hashArg c == .non && autoDetect c && hasOwn (classDict c.body) "__hash__" then .f else hashArg c

inductive HashDec where
  | leave | gen | setNone
  deriving DecidableEq, Repr, Inhabited

def hashDec (c : Case) : HashDec :=
  let h := hashLocal c
  if h == .f || (h == .non && eqDet c == false) || isExc c then .leave
  else if h == .t || (h == .non && eqDet c == true && isFrozen c == true) then .gen
  else .setNone

def initDec (c : Case) : Bool :=
  determine (classDict c.body) (tri c.api "init" c.fInit) (autoDetect c) initNames true

def matchArgsDec (c : Case) : Bool :=
  c.py310 && matchArgsFlag c && !hasOwn (classDict c.body) "__match_args__"

/-- The checks that raise, in the order the code reaches them; the kind of the first that fires. -/
def firstError (c : Case) : Option String :=
  -- attrs(): _determine_attrs_eq_order  (for define this runs inside wrap, after the frozen-base check;
  -- both are ValueError)
  if (match eqOrderOf c with | .error _ => true | .ok _ => false) then some "valueError"
  -- define.wrap: frozen base and an explicit on_setattr
  else if (match clsOnSet c with | .error _ => true | .ok _ => false) then some "valueError"
  -- wrap: "Can't freeze a class with a custom __setattr__."
  else if hasCustomSetattr c && isFrozen c then some "valueError"
  -- add_str: "__str__ can only be generated if a __repr__ exists."
  else if strFlag c && !reprDec c && !hasOwn (classDict c.body) "__repr__" then some "valueError"
  -- add_setattr: "Can't combine custom __setattr__ with on_setattr hooks."
  else if hooks c && hasCustomSetattr c then some "valueError"
  -- "Invalid value for hash."
  else if hashLocal c == .bad then some "typeError"
  -- "Invalid value for cache_hash." (hashing neither explicitly nor implicitly enabled)
  else if cacheHash c && hashDec c != .gen then some "typeError"
  -- _make_init_script: "Frozen classes can't use on_setattr."
  else if isFrozen c && effective (builderOnSet c) then some "valueError"
  -- "Invalid value for cache_hash.  To use hash caching, init must be True."
  else if !initDec c && cacheHash c then some "typeError"
  else none

/-- what the builder was asked to add -/
structure Dec where
  isFrozen  : Bool
  gss       : Bool
  repr      : Bool
  str       : Bool
  eq        : Bool
  order     : Bool
  hooks     : Bool
  hash      : HashDec
  init      : Bool
  matchArgs : Bool
  deriving DecidableEq, Repr, Inhabited

def decisions (c : Case) : Dec :=
  { isFrozen := isFrozen c, gss := gssDec c, repr := reprDec c, str := strFlag c, eq := eqDec c,
    order := orderDec c, hooks := hooks c, hash := hashDec c, init := initDec c,
    matchArgs := matchArgsDec c }

/-- `wrapDecide`: the error raised while decorating, or the decisions taken -/
def wrapDecide (c : Case) : Except String Dec :=
  match firstError c with
  | some e => .error e
  | none => .ok (decisions c)

/-! ### what the builder writes into `_cls_dict`, in order -/

def builderWrites (d : Dec) : List (String × Slot) :=
  -- _ClassBuilder.__init__
  (if d.isFrozen then [("__setattr__", Slot.frozenSetattr), ("__delattr__", Slot.frozenDelattr)] else []) ++
  (if d.gss then [("__getstate__", Slot.gen), ("__setstate__", Slot.gen)] else []) ++
  -- add_str, add_eq (`__ne__`), add_order, add_setattr, make_unhashable, add_match_args
  (if d.str then [("__str__", Slot.gen)] else []) ++
  (if d.eq then [("__ne__", Slot.gen)] else []) ++
  (if d.order then [("__lt__", Slot.gen), ("__le__", Slot.gen), ("__gt__", Slot.gen), ("__ge__", Slot.gen)]
   else []) ++
  (if d.hooks then [("__attrs_own_setattr__", Slot.vTrue), ("__setattr__", Slot.gen)] else []) ++
  (if d.hash == .setNone then [("__hash__", Slot.pyNone)] else []) ++
  (if d.matchArgs then [("__match_args__", Slot.genTuple)] else []) ++
  -- _eval_snippets: the compiled methods are attached last, in registration order
  (if d.repr then [("__repr__", Slot.gen)] else []) ++
  (if d.eq then [("__eq__", Slot.gen)] else []) ++
  (if d.hash == .gen then [("__hash__", Slot.gen)] else []) ++
  (if d.init then [("__init__", Slot.gen)] else [("__attrs_init__", Slot.gen)])

def wroteOwnSetattr (d : Dec) : Bool := d.isFrozen || d.hooks

def ownSetattrKey : String := "__attrs_own_setattr__"

/-- names of the class's fields; `x = attr.ib()` is removed from the class, never copied into a slotted one -/
def fieldNames : List String := ["x"]

/-- keys `_create_slots_class` does not copy -/
def slotsDropped : List String := fieldNames ++ ["__dict__", "__weakref__"]

/-- `getattr(cls, "__attrs_own_setattr__", False)`: own entry, else the hooked base's `True` -/
def getattrOwnSetattr (d : Dict) (inherited : Bool) : Bool :=
  if d.has ownSetattrKey then d.get ownSetattrKey == .vTrue else inherited

/-- `_patch_original_class`: delete the field definitions, `setattr` every generated name, and reset an
    inherited attrs `__setattr__` — unless the class has a `__setattr__` of its own
    (`_has_own_attribute(cls, "__setattr__")`, whatever auto_detect says: the K8 repair).
    `inherited` = some class in the MRO has `__attrs_own_setattr__ = True`. -/
def patchOriginal (cd0 : Dict) (d : Dec) (inherited : Bool) : Dict :=
  let c0 := fieldNames.foldl Dict.erase cd0
  let c1 := applyWrites c0 (builderWrites d)
  if !wroteOwnSetattr d && getattrOwnSetattr c1 inherited then
    let c2 := c1.set ownSetattrKey .vFalse
    if !hasOwn c2 "__setattr__" then c2.set "__setattr__" .objSetattr else c2
  else c1

/-- `_create_slots_class`: copy of the class dict updated with the generated names, minus the dropped keys;
    `direct` = a direct base has `__attrs_own_setattr__ = True` in its own dict.  `type()` then adds the
    implicit `__hash__ = None`. -/
def createSlots (cd0 : Dict) (d : Dec) (direct : Bool) : Dict :=
  let c1 := applyWrites cd0 (builderWrites d)
  let c2 := slotsDropped.foldl Dict.erase c1
  let c3 :=
    if !wroteOwnSetattr d then
      let c := c2.set ownSetattrKey .vFalse
      -- `_has_own_attribute(self._cls, "__setattr__")`: the original class's own dict
      if !hasOwn cd0 "__setattr__" && direct then c.set "__setattr__" .objSetattr else c
    else c2
  implicitHash c3

/-- some class in the MRO carries `__attrs_own_setattr__ = True` -/
def inheritedOwnSetattr (c : Case) : Bool := c.attrsBase == .hooked

/-- a direct base carries it in its own `__dict__` -/
def directOwnSetattr (c : Case) : Bool := c.attrsBase == .hooked && !c.plainMid

def finalDict (c : Case) : Dict :=
  if slots c then createSlots (classDict c.body) (decisions c) (directOwnSetattr c)
  else patchOriginal (classDict c.body) (decisions c) (inheritedOwnSetattr c)

/-- names observed on every class (then the remaining names of the body) -/
def fixedWatch : List String :=
  ["__repr__", "__str__", "__eq__", "__ne__", "__lt__", "__le__", "__gt__", "__ge__", "__hash__",
   "__init__", "__attrs_init__", "__getstate__", "__setstate__", "__setattr__", "__delattr__",
   "__match_args__", "__attrs_own_setattr__"]

def watch (c : Case) : List String := fixedWatch ++ c.body.filter (fun n => !fixedWatch.contains n)

def model (c : Case) : Obs :=
  match wrapDecide c with
  | .error e => { err := some e, slots := [] }
  | .ok _ => { err := none, slots := (watch c).map (fun n => (n, (finalDict c).get n)) }

end Attrs.C14
