/-
  C17, part B — the fake `linecache` entries of generated methods.

  Mirrors `_generate_unique_filename`, `_linecache_and_compile` and `_compile_and_eval`
  (src/attr/_make.py) as a transition system of atomic steps over a shared cache, for any number of
  threads.  `dict.setdefault` is one atomic step (it is in CPython); everything else a thread does
  between two `setdefault`s touches only its own variables.  A cache entry
  `(len(script), None, script.splitlines(True), filename)` is abstracted to the script itself: for a
  fixed key the tuple and the script determine each other.

  A second transition system, `NA`, splits the insertion into "look" and "store" (what
  `if filename not in cache: cache[filename] = …` would do); it exists only to exhibit the schedule the
  theorems exclude.
-/
import AttrsModel.Core

namespace Attrs.C17
open Lean

/-- `linecache.cache`, restricted to attrs's fake files: filename ↦ script, in insertion order -/
abbrev Cache := List (String × String)

def Cache.get (c : Cache) (k : String) : Option String :=
  match c with
  | [] => none
  | (k', v) :: rest => if k' == k then some v else Cache.get rest k

/-- `dict.setdefault(k, v)`: the cache afterwards and the value returned -/
def Cache.setdefault (c : Cache) (k v : String) : Cache × String :=
  match c.get k with
  | some old => (c, old)
  | none => (c ++ [(k, v)], v)

/-- `_generate_unique_filename` -/
def uniqueFilename (func modul qual : String) : String :=
  "<attrs generated " ++ func ++ " " ++ modul ++ "." ++ qual ++ ">"

/-- the filename tried after `count` collisions: `base`, then `f"{base[:-1]}-{count}>"` -/
def candidate (base : String) (count : Nat) : String :=
  if count = 0 then base
  else String.ofList base.toList.dropLast ++ "-" ++ toString count ++ ">"

/-- what a compiled code object remembers -/
structure Code where
  filename : String
  source   : String
  deriving DecidableEq, Repr, FromJson, ToJson, Inhabited

inductive Phase where
  | looping                  -- inside `while True`
  | compiling (fn : String)  -- left the loop with this filename, `compile(script, filename)` not yet run
  | finished (code : Code)
  deriving DecidableEq, Repr, Inhabited

/-- one call of `_linecache_and_compile(script, base, …)` in progress -/
structure Thread where
  script : String
  base   : String
  count  : Nat := 0
  phase  : Phase := .looping
  deriving DecidableEq, Repr, Inhabited

def Thread.start (script base : String) : Thread := { script := script, base := base }

/-- one atomic step of one thread against the shared cache -/
def stepThread (cache : Cache) (t : Thread) : Cache × Thread :=
  match t.phase with
  | .looping =>
    let fn := candidate t.base t.count
    let r := cache.setdefault fn t.script
    if r.2 == t.script then (r.1, { t with phase := .compiling fn })
    else (r.1, { t with count := t.count + 1 })
  | .compiling fn => (cache, { t with phase := .finished { filename := fn, source := t.script } })
  | .finished _ => (cache, t)

structure State where
  cache   : Cache
  threads : List Thread
  deriving Repr, Inhabited

/-- thread `i` takes one step (no-op when there is no such thread) -/
def step (s : State) (i : Nat) : State :=
  match s.threads[i]? with
  | none => s
  | some t =>
    let r := stepThread s.cache t
    { cache := r.1, threads := s.threads.set i r.2 }

/-- an interleaving: the sequence of thread indices that move -/
def run (s : State) (sched : List Nat) : State := sched.foldl step s

def Thread.code? (t : Thread) : Option Code :=
  match t.phase with
  | .finished c => some c
  | _ => none

def Thread.isFinished (t : Thread) : Bool := t.code?.isSome

/-- thread `i` runs alone until it has its code object (at most `fuel` steps) -/
def finishThread (s : State) (i : Nat) : Nat → State
  | 0 => s
  | fuel + 1 =>
    match s.threads[i]? with
    | none => s
    | some t => if t.isFinished then s else finishThread (step s i) i fuel

/-- every thread in turn, lowest index first, runs to completion -/
def finishAll (s : State) : State :=
  (List.range s.threads.length).foldl
    (fun st i => finishThread st i (st.cache.length + 3)) s

/-- sequential history: the definitions happen one after the other -/
def defineAll (pre : Cache) (defs : List (String × String)) : State :=
  finishAll { cache := pre, threads := defs.map (fun d => Thread.start d.1 d.2) }

/-! ### the non-atomic variant (look, then store) -/

namespace NA

inductive Phase where
  | look
  | store (fn : String)          -- saw no entry under `fn`, about to write
  | finished (code : Code)
  deriving DecidableEq, Repr, Inhabited

structure Thread where
  script : String
  base   : String
  count  : Nat := 0
  phase  : Phase := .look
  deriving DecidableEq, Repr, Inhabited

def put (c : Cache) (k v : String) : Cache :=
  match c with
  | [] => [(k, v)]
  | (k', v') :: rest => if k' == k then (k, v) :: rest else (k', v') :: put rest k v

def stepThread (cache : Cache) (t : Thread) : Cache × Thread :=
  match t.phase with
  | .look =>
    let fn := candidate t.base t.count
    match cache.get fn with
    | none => (cache, { t with phase := .store fn })
    | some old =>
      if old == t.script then (cache, { t with phase := .finished { filename := fn, source := t.script } })
      else (cache, { t with count := t.count + 1 })
  | .store fn => (put cache fn t.script, { t with phase := .finished { filename := fn, source := t.script } })
  | .finished _ => (cache, t)

structure State where
  cache   : Cache
  threads : List Thread
  deriving Repr, Inhabited

def step (s : State) (i : Nat) : State :=
  match s.threads[i]? with
  | none => s
  | some t =>
    let r := stepThread s.cache t
    { cache := r.1, threads := s.threads.set i r.2 }

def run (s : State) (sched : List Nat) : State := sched.foldl step s

end NA

/-! ### cases and observations of the correspondence -/

/-- one class definition of a history / one thread of a concurrent run -/
structure Def where
  qual   : String
  /-- identifies the script text: equal ids ⇔ equal generated source -/
  script : Nat
  /-- the definition is refused AFTER its methods were generated and compiled (an inherited
      `__attrs_init_subclass__`, a base `__init_subclass__` or a metaclass raises): no class comes into
      existence.  Such a definition has gone through `_linecache_and_compile` like any other — it is a
      thread of the transition system — and the refusal itself is not a cache operation: there is no
      step for it, so it cannot change the cache. -/
  fails  : Option Bool := none
  /-- the class is slotted and has cached properties: it gets a second generated script, the
      `__getattr__` of `_make_cached_property_getattr`, cached under its own fake filename
      (`<attrs generated getattr …>`); this identifies that script's text -/
  gscript : Option Nat := none
  deriving DecidableEq, Repr, FromJson, ToJson, Inhabited

structure CacheCase where
  modul : String
  defs  : List Def
  /-- entries already present under this module's fake filenames: (qualname, collision count, script id) -/
  pre   : List (String × Nat × Nat)
  /-- order in which threads perform their `linecache.cache` operations; entries of threads that are
      already done are skipped; when it is exhausted the remaining threads run lowest index first.
      Empty for a sequential history. -/
  sched : List Nat
  /-- which generated script the filenames are for: `methods` (default) or `getattr` -/
  func  : Option String := none
  deriving DecidableEq, Repr, FromJson, ToJson, Inhabited

def CacheCase.funcName (c : CacheCase) : String := c.func.getD "methods"

structure CacheObs where
  /-- `co_filename` of each class's generated methods -/
  files    : List String
  /-- fake files of this module in `linecache.cache` afterwards, with the id of the script they hold -/
  entries  : List (String × Nat)
  /-- per class: the cached source recompiles to the running code object (every generated method,
      line numbers included), `inspect.getsource` returns those lines, the entry survives `checkcache` -/
  sourceOk : List Bool
  /-- per class: entries of earlier classes were not touched by this definition (histories) -/
  stable   : List Bool
  /-- the requested interleaving could be forced (else only the schedule-independent part is compared) -/
  realised : Bool
  deriving DecidableEq, Repr, FromJson, ToJson, Inhabited

def scriptText (n : Nat) : String := "script#" ++ toString n

def baseOf (c : CacheCase) (d : Def) : String := uniqueFilename c.funcName c.modul d.qual

def preCache (c : CacheCase) : Cache :=
  c.pre.map (fun p => (candidate (uniqueFilename c.funcName c.modul p.1) p.2.1, scriptText p.2.2))

def initState (c : CacheCase) : State :=
  { cache := preCache c, threads := c.defs.map (fun d => Thread.start (scriptText d.script) (baseOf c d)) }

/-- one scheduled cache operation of thread `i`: the `setdefault`, and — if it left the loop — the
    compile that follows without touching the cache -/
def stepOp (s : State) (i : Nat) : State :=
  match s.threads[i]? with
  | none => s
  | some t =>
    if t.isFinished then s else
    let s' := step s i
    match s'.threads[i]? with
    | some t' => (match t'.phase with | .compiling _ => step s' i | _ => s')
    | none => s'

def finalState (c : CacheCase) : State :=
  finishAll (c.sched.foldl stepOp (initState c))

def scriptId (c : CacheCase) (src : String) : Nat :=
  match (c.defs.map (·.script) ++ c.pre.map (·.2.2)).find? (fun n => scriptText n == src) with
  | some n => n
  | none => 999

def cacheModel (c : CacheCase) : CacheObs :=
  let s := finalState c
  { files := s.threads.map (fun t => match t.code? with | some k => k.filename | none => ""),
    entries := s.cache.map (fun e => (e.1, scriptId c e.2)),
    sourceOk := c.defs.map (fun _ => true),
    stable := c.defs.map (fun _ => true),
    realised := true }

/-! ### the second script of a definition: the cached-property `__getattr__`

  `build_class` runs `_linecache_and_compile` a second time for slotted classes with cached properties,
  with the base filename `<attrs generated getattr mod.Qual>`.  Those names never meet the `methods`
  names, so the definitions that have such a script form a history of their own over the same
  transition system. -/

def gcase (c : CacheCase) : CacheCase :=
  { modul := c.modul, func := some "getattr", pre := [], sched := [],
    defs := c.defs.filterMap (fun d => d.gscript.map (fun g => { qual := d.qual, script := g, fails := d.fails })) }

/-- what a history / a concurrent run shows: the `methods` files of all definitions and the `getattr`
    files of those that have one -/
structure HistObs where
  files    : List String
  entries  : List (String × Nat)
  /-- per class, at the END of the history: for EVERY generated function reachable from the class —
      methods of both scripts, code objects nested in them (`__getattr__` inside `wrapper`), closures —
      the code object's `co_filename` is an entry holding the text it was compiled from, `inspect.getsource`
      returns that text, the entry survives `checkcache` -/
  sourceOk : List Bool
  stable   : List Bool
  realised : Bool
  /-- `co_filename` of the generated `__getattr__` of each definition that has one (in order) -/
  gfiles   : List String
  gentries : List (String × Nat)
  deriving DecidableEq, Repr, FromJson, ToJson, Inhabited

def HistObs.main (o : HistObs) : CacheObs :=
  { files := o.files, entries := o.entries, sourceOk := o.sourceOk, stable := o.stable, realised := o.realised }

def HistObs.sub (c : CacheCase) (o : HistObs) : CacheObs :=
  { files := o.gfiles, entries := o.gentries, sourceOk := (gcase c).defs.map (fun _ => true),
    stable := (gcase c).defs.map (fun _ => true), realised := o.realised }

def histModel (c : CacheCase) : HistObs :=
  let m := cacheModel c
  let g := cacheModel (gcase c)
  { files := m.files, entries := m.entries, sourceOk := m.sourceOk, stable := m.stable, realised := m.realised,
    gfiles := g.files, gentries := g.entries }

end Attrs.C17
