/-
  C19 (a) — converter combinators.  Operational model of what the code in /repo *does*:

  * `build`      : what `Converter(...)`, `pipe(...)` (src/attr/_make.py), `optional(...)`,
                   `default_if_none(...)` (src/attr/converters.py) return: either a plain callable taking one
                   argument or a `Converter` instance (`isinstance(c, Converter)` is `Obj.isConverter`), with the
                   two variants of the closures `pipe_converter` / `optional_converter` chosen exactly as the
                   code chooses them (`return_instance = any(isinstance(c, Converter) ...)`).
  * `call`       : calling such an object with one or three positional arguments (arity mismatches are
                   `TypeError`, as in CPython); `Converter.__call__` is the 4-way lambda table of
                   `Converter.__init__` (`callArgs`); `pipe_converter`'s loop dispatches per child on
                   `isinstance(c, Converter)`.
  * `applyObj`   : how `setters.convert` (and a user) applies a converter object:
                   `c(v, inst, field)` if it is a `Converter` else `c(v)`.
  * `initApply`  : the generated `__init__` line: `Converter(a.converter)` unless it already is one, the global
                   `__attr_converter_<name>` bound to `converter.converter`, called as
                   `Converter._fmt_converter_call` formats it (`fmtArgs`).

  Values are symbolic: user functions are instrumented callbacks that log their call and return a term built from
  the rendering of their arguments (`f1(t0,self,attr.x)`), or `None`, or a falsy non-None value, or raise.
  Effects are a trace of calls threaded through evaluation; a factory result is numbered by the number of earlier
  calls of that factory in the history (freshness).
-/
import AttrsModel.Core

namespace Attrs.C19.Conv
open Lean

/-- what an instrumented user function does when called -/
inductive Beh where
  | term    -- returns the term `name(args)`
  | none    -- returns None
  | falsy   -- returns 0 (falsy, not None)
  | raise   -- raises UserError(name)
  deriving DecidableEq, Repr, FromJson, ToJson, Inhabited

/-- Python values as far as the combinators can tell them apart: `None` or something else (rendered). -/
inductive Val where
  | none
  | v (s : String)
  /-- the `n`-th object returned by the instrumented factory `g` (a new object per call) -/
  | fresh (g : String) (n : Nat)
  deriving DecidableEq, Repr, FromJson, ToJson, Inhabited

def callText (name : String) (args : List String) : String :=
  name ++ "(" ++ ",".intercalate args ++ ")"

def Val.render : Val → String
  | .none => "None"
  | .v s => s
  | .fresh g n => callText g [] ++ "#" ++ toString n

def Val.isNone : Val → Bool
  | .none => true
  | _ => false

inductive Exc where
  | user (f : String)
  | typeError
  | valueError
  | other
  deriving DecidableEq, Repr, FromJson, ToJson, Inhabited

inductive Res where
  | ok (v : Val)
  | exc (e : Exc)
  deriving DecidableEq, Repr, FromJson, ToJson, Inhabited

/-- canonical text of a result, as the harness reports it -/
def Res.render : Res → String
  | .ok v => "=" ++ v.render
  | .exc (.user f) => "!user:" ++ f
  | .exc .typeError => "!typeError"
  | .exc .valueError => "!valueError"
  | .exc .other => "!other"

abbrev Trace := List String
abbrev Out := Res × Trace

/-- an instrumented user function is called with already rendered arguments -/
def callFn (name : String) (beh : Beh) (args : List String) (tr : Trace) : Out :=
  let ev := callText name args
  match beh with
  | .term => (.ok (.v ev), tr ++ [ev])
  | .none => (.ok .none, tr ++ [ev])
  | .falsy => (.ok (.v "0"), tr ++ [ev])
  | .raise => (.exc (.user name), tr ++ [ev])

/-- a factory is called without arguments; a `term` factory returns a new object each time, numbered by the
    number of earlier calls of the same factory in the history -/
def callFactory (g : String) (beh : Beh) (tr : Trace) : Out :=
  let ev := callText g []
  match beh with
  | .term => (.ok (.fresh g (tr.count ev)), tr ++ [ev])
  | .none => (.ok .none, tr ++ [ev])
  | .falsy => (.ok (.v "0"), tr ++ [ev])
  | .raise => (.exc (.user g), tr ++ [ev])

/-- converter expressions as written by the user -/
inductive ConvTree where
  | fn (name : String) (beh : Beh)                          -- a plain unary function
  | conv (name : String) (beh : Beh) (ts tf : Bool)         -- Converter(fn, takes_self=ts, takes_field=tf)
  | pipe (cs : List ConvTree)                               -- pipe(*cs)
  | optional (c : ConvTree)                                 -- optional(c)
  | dinV (d : Val)                                          -- default_if_none(default=d)
  | dinF (g : String) (beh : Beh)                           -- default_if_none(factory=g) / default=Factory(g)
  deriving Repr, FromJson, ToJson, Inhabited

/-- the objects the constructors return -/
inductive Obj where
  | fn (name : String) (beh : Beh)                          -- user callable (accepts any arity)
  | userConv (name : String) (beh : Beh) (ts tf : Bool)     -- Converter instance around a user callable
  | wrapConv (inner : Obj)                                  -- Converter(inner, takes_self=True, takes_field=True)
  | pipe3 (cs : List Obj)                                   -- def pipe_converter(val, inst, field)
  | pipe1 (cs : List Obj)                                   -- def pipe_converter(val)
  | opt3 (c : Obj)                                          -- def optional_converter(val, inst, field)
  | opt1 (c : Obj)                                          -- def optional_converter(val)
  | dinV (d : Val)                                          -- default_if_none_converter (value)
  | dinF (g : String) (beh : Beh)                           -- default_if_none_converter (factory)
  deriving Repr, Inhabited

/-- `isinstance(o, Converter)` -/
def Obj.isConverter : Obj → Bool
  | .userConv .. => true
  | .wrapConv _ => true
  | _ => false

mutual
/-- the constructor calls, innermost first -/
def build : ConvTree → Obj
  | .fn n b => .fn n b
  | .conv n b ts tf => .userConv n b ts tf
  | .pipe cs =>
    -- return_instance = any(isinstance(c, Converter) for c in converters)
    if (buildL cs).any Obj.isConverter then .wrapConv (.pipe3 (buildL cs)) else .pipe1 (buildL cs)
  | .optional c =>
    if (build c).isConverter then .wrapConv (.opt3 (build c)) else .opt1 (build c)
  | .dinV d => .dinV d
  | .dinF g b => .dinF g b
def buildL : List ConvTree → List Obj
  | [] => []
  | c :: cs => build c :: buildL cs
end

/-- positional arguments of a call -/
inductive Args where
  | one (v : Val)
  | three (v : Val) (inst field : String)
  deriving Repr, Inhabited

/-- `Converter.__init__`: the lambda stored in `__call__`, by (takes_self, takes_field):
    which of (value, instance, field) reach the wrapped callable -/
def callArgs (ts tf : Bool) (v : Val) (i f : String) : List String :=
  if !(ts || tf) then [v.render]
  else if ts && !tf then [v.render, i]
  else if !ts && tf then [v.render, f]
  else [v.render, i, f]

/-- `Converter._fmt_converter_call`: the argument list of the generated `__init__` line -/
def fmtArgs (ts tf : Bool) (v : Val) (self fieldRef : String) : List String :=
  if !(ts || tf) then [v.render]
  else if ts && tf then [v.render, self, fieldRef]
  else if ts then [v.render, self]
  else [v.render, fieldRef]

mutual
def call : Obj → Args → Trace → Out
  | .fn n b, .one v, tr => callFn n b [v.render] tr
  | .fn n b, .three v i f, tr => callFn n b [v.render, i, f] tr
  | .userConv n b ts tf, .three v i f, tr => callFn n b (callArgs ts tf v i f) tr
  | .userConv .., .one _, tr => (.exc .typeError, tr)
  | .wrapConv inner, .three v i f, tr => call inner (.three v i f) tr
  | .wrapConv _, .one _, tr => (.exc .typeError, tr)
  | .pipe3 cs, .three v i f, tr => loop3 cs v i f tr
  | .pipe3 _, .one _, tr => (.exc .typeError, tr)
  | .pipe1 cs, .one v, tr => loop1 cs v tr
  | .pipe1 _, .three .., tr => (.exc .typeError, tr)
  | .opt3 c, .three v i f, tr =>
    match v with
    | .none => (.ok .none, tr)
    | v => call c (.three v i f) tr
  | .opt3 _, .one _, tr => (.exc .typeError, tr)
  | .opt1 c, .one v, tr =>
    match v with
    | .none => (.ok .none, tr)
    | v => call c (.one v) tr
  | .opt1 _, .three .., tr => (.exc .typeError, tr)
  | .dinV d, .one v, tr =>
    match v with
    | .none => (.ok d, tr)
    | v => (.ok v, tr)
  | .dinV _, .three .., tr => (.exc .typeError, tr)
  | .dinF g b, .one v, tr =>
    match v with
    | .none => callFactory g b tr
    | v => (.ok v, tr)
  | .dinF .., .three .., tr => (.exc .typeError, tr)
/-- `for c in converters: val = c(val, inst, field) if isinstance(c, Converter) else c(val)` -/
def loop3 : List Obj → Val → String → String → Trace → Out
  | [], v, _, _, tr => (.ok v, tr)
  | c :: cs, v, i, f, tr =>
    match (if c.isConverter then call c (.three v i f) tr else call c (.one v) tr) with
    | (.ok v', tr') => loop3 cs v' i f tr'
    | (.exc e, tr') => (.exc e, tr')
/-- `for c in converters: val = c(val)` -/
def loop1 : List Obj → Val → Trace → Out
  | [], v, tr => (.ok v, tr)
  | c :: cs, v, tr =>
    match call c (.one v) tr with
    | (.ok v', tr') => loop1 cs v' tr'
    | (.exc e, tr') => (.exc e, tr')
end

/-- `setters.convert` / a direct caller: `c(v, inst, field)` if `isinstance(c, Converter)` else `c(v)` -/
def applyObj (o : Obj) (v : Val) (i f : String) (tr : Trace) : Out :=
  if o.isConverter then call o (.three v i f) tr else call o (.one v) tr

def selfText : String := "self"
def fieldText (fname : String) : String := "attr." ++ fname

/-- the generated `__init__` line for a field with this converter -/
def initApply (o : Obj) (v : Val) (fname : String) (tr : Trace) : Out :=
  match o with
  | .userConv n b ts tf => callFn n b (fmtArgs ts tf v selfText (fieldText fname)) tr
  | .wrapConv inner => call inner (.three v selfText (fieldText fname)) tr   -- flags (True, True)
  | o => call o (.one v) tr                                                   -- Converter(o): flags (False, False)

inductive Mode where
  | standalone    -- the converter object called directly
  | init          -- C(x=v): generated __init__
  | initDefault   -- C() with default=v: generated __init__, converter applied to the default
  | assign        -- inst.x = v through the on_setattr hook setters.convert
  | setter        -- setters.convert(inst, field, v) called directly
  deriving DecidableEq, Repr, FromJson, ToJson, Inhabited

/-- what a field of the class carries -/
inductive FldKind where
  | shared      -- THE converter object built from the case's tree (several fields may share it); given the input value
  | own         -- a plain converter `fy` of its own
  | validator   -- a validator only (no converter)
  | plain       -- neither
  deriving DecidableEq, Repr, FromJson, ToJson, Inhabited

/-- one field of the class the converter is used in -/
structure Fld where
  name : String
  kind : FldKind
  deriving DecidableEq, Repr, FromJson, ToJson, Inhabited

def Fld.shared (f : Fld) : Bool := f.kind == .shared

structure Case where
  tree   : ConvTree
  mode   : Mode
  /-- the converter is used once per input (and per sharing field), in this order, in one history -/
  inputs : List Val
  /-- standalone: the tokens passed as instance and field -/
  inst   : String
  field  : String
  /-- the class's fields in definition order (init / assign / setter) -/
  flds   : List Fld
  /-- assign: the class's `on_setattr` configuration runs `setters.convert` for its converter fields (class-level
      `convert`, `[convert, validate]`, the `define` default, a pipe containing it, or the same on the fields);
      false for `validate` alone or a custom hook alone -/
  converts : Bool
  deriving Repr, FromJson, ToJson, Inhabited

structure Obs where
  /-- `Res.render` of the outcomes.  standalone: one per input.  init: per input either the stored value of every
      sharing field (in field order) or the one exception `__init__` raised.  assign / setter: per input one
      outcome per field of the class (every field is assigned to). -/
  results : List String
  trace   : List String     -- every user-function call, in order
  deriving DecidableEq, Repr, FromJson, ToJson, Inhabited

def bgEvent : String := "fy(ty)"

/-- the body of the generated `__init__`: the fields in definition order, each through its converter line
    (fields without a converter have none); the first exception ends it (and there is no instance to look at) -/
def initFields (apply : String → Val → Trace → Out) : List Fld → Val → Trace → Option Exc × List String × Trace
  | [], _, tr => (none, [], tr)
  | f :: fs, v, tr =>
    match f.kind with
    | .shared =>
      match apply f.name v tr with
      | (.ok r, tr') =>
        let rest := initFields apply fs v tr'
        (rest.1, (Res.ok r).render :: rest.2.1, rest.2.2)
      | (.exc e, tr') => (some e, [], tr')
    | .own => initFields apply fs v (tr ++ [bgEvent])
    | _ => initFields apply fs v tr

def initRun (apply : String → Val → Trace → Out) (fs : List Fld) (v : Val) (tr : Trace) : List String × Trace :=
  match initFields apply fs v tr with
  | (some e, _, tr') => ([(Res.exc e).render], tr')
  | (none, rs, tr') => (rs, tr')

/-- the value is assigned to every field of the class in turn (or `setters.convert` is called for it), each with
    its own outcome: a field with a converter is converted when the hook runs (`conv`), every other field — and
    every field when no convert hook is configured — just stores the value, calling nothing -/
def assignFields (conv : Bool) (apply : String → Val → Trace → Out) : List Fld → Val → Trace → List String × Trace
  | [], _, tr => ([], tr)
  | f :: fs, v, tr =>
    let r : Out :=
      match f.kind, conv with
      | .shared, true => apply f.name v tr
      | .own, true => callFn "fy" .term [v.render] tr
      | _, _ => (.ok v, tr)
    let rest := assignFields conv apply fs v r.2
    (r.1.render :: rest.1, rest.2)

/-- one input in the given mode -/
def step (c : Case) (o : Obj) (v : Val) (tr : Trace) : List String × Trace :=
  match c.mode with
  | .standalone =>
    let r := applyObj o v c.inst c.field tr
    ([r.1.render], r.2)
  | .init | .initDefault => initRun (fun name v tr => initApply o v name tr) c.flds v tr
  | .assign =>
    assignFields c.converts (fun name v tr => applyObj o v selfText (fieldText name) tr) c.flds v tr
  | .setter => assignFields true (fun name v tr => applyObj o v selfText (fieldText name) tr) c.flds v tr

def runInputs (stp : Val → Trace → List String × Trace) : List Val → Trace → List String × Trace
  | [], tr => ([], tr)
  | v :: vs, tr =>
    let r := stp v tr
    let rest := runInputs stp vs r.2
    (r.1 ++ rest.1, rest.2)

def model (c : Case) : Obs :=
  let r := runInputs (step c (build c.tree)) c.inputs []
  { results := r.1, trace := r.2 }

end Attrs.C19.Conv
