/-
  C15 — definition-time rejection of contradictory specifications.

  Mirrors, in code order, every definition-time check of src/attr/_make.py and _next_gen.py:

    attrib()                      `_determine_attrib_eq_order` (cmp mixed; order without eq) → ValueError,
                                  non-bool hash → TypeError, default + factory → ValueError
    _CountingAttr.default         second default → DefaultAlreadySetError
    define.wrap                   hooks below a frozen base → ValueError; default on_setattr; frozen base ⇒ NO_OP;
                                  auto_attribs=None ⇒ try True, on UnannotatedAttributeError retry with False
    attrs() / make_class()        `_determine_attrs_eq_order` (default_eq None / True) → ValueError
    attrs.wrap                    own __setattr__ + frozen → ValueError
      _ClassBuilder.__init__      `_transform_attrs`: unannotated → UnannotatedAttributeError,
                                  `Attribute.from_counting_attr` annotation + type= → ValueError,
                                  base-attribute collection, class kw_only, field_transformer,
                                  mandatory-after-default loop → ValueError; reset of the default on_setattr
      add_str                     str while no __repr__ exists (none generated, none in the class body) → ValueError
      add_setattr                 hooks + own __setattr__ → ValueError       (only `if not frozen`)
      hash block                  non-bool hash → TypeError, cache_hash without generated hash → TypeError
      add_init/add_attrs_init     `_make_init_script`: class hooks on frozen → ValueError, any field-level
                                  on_setattr on frozen → ValueError (before the init=False skip: fix 059f6c6)
      cache_hash without init     → TypeError
      build_class                 only now is the class patched / re-created

  Each phase is a list of `(condition, exception)` pairs in code order; the outcome is the first pair whose
  condition holds (`firstFail`).  `Steps`/`run` model the builder's staging discipline (`_cls_dict` is filled
  while checks still run; the class itself is written only by the final patch step).
-/
import AttrsModel.Core
import AttrsModel.Generated.Tables

namespace Attrs.C15
open Lean

/-- exception kinds (names are those of `harness/common.exc_kind`) -/
inductive Exc where
  | typeError | valueError | unannotated | defaultAlreadySet | other
  deriving DecidableEq, Repr, FromJson, ToJson, Inhabited

/-- field-level `cmp=` / `eq=` / `order=` as written: not passed (None) / True / False / a key callable -/
inductive Flag where
  | none | t | f | key
  deriving DecidableEq, Repr, FromJson, ToJson, Inhabited

/-- `hash=` / `unsafe_hash=` as written; `bad` = a non-bool, non-None object (1, 0, "yes") -/
inductive HashArg where
  | none | t | f | bad
  deriving DecidableEq, Repr, FromJson, ToJson, Inhabited

/-- field-level `on_setattr=`: not passed / a hook (or list of hooks) / `setters.NO_OP` -/
inductive FHook where
  | none | hook | noop
  deriving DecidableEq, Repr, FromJson, ToJson, Inhabited

/-- class-level three-state flag (None / True / False) -/
inductive F3 where
  | none | t | f
  deriving DecidableEq, Repr, FromJson, ToJson, Inhabited

/-- a keyword that may be left out (the decorator's own default then applies) -/
inductive OptB where
  | unset | t | f
  deriving DecidableEq, Repr, FromJson, ToJson, Inhabited

/-- class-level `order=`: left out / None / True / False (left out ≠ None for `define`) -/
inductive CFlag where
  | unset | none | t | f
  deriving DecidableEq, Repr, FromJson, ToJson, Inhabited

/-- class-level `on_setattr=`; `dflt` is `_DEFAULT_ON_SETATTR`, which only `define.wrap` produces -/
inductive CHook where
  | none | hook | noop | validate | convert | dflt
  deriving DecidableEq, Repr, FromJson, ToJson, Inhabited

inductive Api where
  | attrS | define | makeClass
  deriving DecidableEq, Repr, FromJson, ToJson, Inhabited

/-- an edit of a Boolean property of an attribute (`a.evolve(kw_only=…)`, `…(init=…)`,
    `…(default=0 / NOTHING)`): leave it, set it, clear it -/
inductive BEdit where
  | keep | setT | setF
  deriving DecidableEq, Repr, FromJson, ToJson, Inhabited

/-- an edit of the field-level on_setattr: leave it, `evolve(on_setattr=None)`, `evolve(on_setattr=hook)` -/
inductive HEdit where
  | keep | strip | setHook
  deriving DecidableEq, Repr, FromJson, ToJson, Inhabited

/-- what a transformer does to one attribute -/
structure AttrEdit where
  kwOnly : BEdit
  dflt : BEdit
  init : BEdit
  hooks : HEdit
  deriving DecidableEq, Repr, FromJson, ToJson, Inhabited

/-- what a transformer does to the list as a whole (after the per-attribute edits) -/
inductive Shape where
  | none
  | reverse          -- reversed(attrs)
  | dropFirst        -- attrs[1:]
  | dropLast         -- attrs[:-1]
  | mandatoryFirst   -- stable sort: mandatory before defaulted
  deriving DecidableEq, Repr, FromJson, ToJson, Inhabited

/-- a new `Attribute` "zz" the transformer adds -/
inductive Add where
  | none
  | mandatoryLast    -- attrs + [mandatory positional]
  | defaultedFirst   -- [defaulted positional] + attrs
  | kwMandatoryLast  -- attrs + [mandatory keyword-only]
  deriving DecidableEq, Repr, FromJson, ToJson, Inhabited

/-- A field transformer, by what it returns for the list it is given: every attribute edited by `all`, the
    leading `nFirst` ones then also by `first`, the list reshaped, an attribute added.  (The harness builds the
    real callable from the same description.) -/
structure Tr where
  shape : Shape
  all : AttrEdit
  first : AttrEdit
  nFirst : Nat
  add : Add
  deriving DecidableEq, Repr, FromJson, ToJson, Inhabited

/-- One attribute definition as written in the class body (or in `these=` / the `make_class` dict). -/
structure Field where
  name : String
  /-- annotation only: `x: int` or `x: int = v`, no `attr.ib()` / `field()` call -/
  bare : Bool
  /-- the class body has an annotation for this name -/
  annotated : Bool
  /-- `default=v` (for a bare field: a class-level value) -/
  dflt : Bool
  factory : Bool
  /-- `@x.default` applied after creation -/
  deco : Bool
  /-- further applications of `@x.default` after the first one -/
  decoMore : Nat
  /-- number of `@x.validator` applications (valid any number of times: validators accumulate) -/
  valDeco : Nat
  init : Bool
  kwOnly : Bool
  cmp : Flag
  eq : Flag
  order : Flag
  hash : HashArg
  onSetattr : FHook
  /-- `type=` passed -/
  typeArg : Bool
  validator : Bool
  converter : Bool
  deriving DecidableEq, Repr, FromJson, ToJson, Inhabited

/-- What the later checks see of an `Attribute`. -/
structure Attr where
  name : String
  dflt : Bool
  init : Bool
  kwOnly : Bool
  onSetattr : FHook
  validator : Bool
  converter : Bool
  deriving DecidableEq, Repr, FromJson, ToJson, Inhabited

structure Case where
  api : Api
  /-- fields are passed through `these=` (always so for `make_class`) -/
  these : Bool
  autoAttribs : OptB
  /-- the annotations of the class body are in the reverse of the creation order of the fields -/
  annReversed : Bool
  slots : OptB
  frozen : Bool
  kwOnly : Bool
  cacheHash : Bool
  autoExc : OptB
  /-- the class derives from BaseException -/
  isBaseExc : Bool
  autoDetect : OptB
  cmp : F3
  eq : F3
  order : CFlag
  hash : HashArg
  unsafeHash : HashArg
  init : F3
  repr : F3
  str : Bool
  onSetattr : CHook
  transformer : Tr
  /-- own (class-body) methods -/
  ownSetattr : Bool
  ownEq : Bool
  ownHash : Bool
  ownInit : Bool
  ownRepr : Bool
  /-- a direct base resolves `__setattr__` to `_frozen_setattrs` -/
  baseFrozen : Bool
  /-- resolved `__attrs_attrs__` of the attrs base class (root → leaf) -/
  baseAttrs : List Attr
  fields : List Field
  deriving DecidableEq, Repr, FromJson, ToJson, Inhabited

structure Obs where
  /-- exception raised while defining (`none` = the class was defined) -/
  exc : Option Exc
  /-- after a failed decoration: keys of `vars(cls)` (plus `__setattr__`, `__slots__`, annotations) that
      differ from the snapshot taken before -/
  touched : List String
  deriving DecidableEq, Repr, FromJson, ToJson, Inhabited

/-! ### outcome of a sequence of checks -/

/-- first check (in code order) whose condition holds -/
def firstFail : List (Bool × Exc) → Option Exc
  | [] => none
  | (true, e) :: _ => some e
  | (false, _) :: rest => firstFail rest

/-! ### `attrib()` and `_CountingAttr.default` -/

/-- `decide_callable_or_boolean` followed by the None-defaults of `_determine_attrib_eq_order(…, True)` -/
def Flag.truth (dflt : Bool) : Flag → Bool
  | .none => dflt
  | .t | .key => true
  | .f => false

def Field.effEq (f : Field) : Bool := f.eq.truth true
def Field.effOrder (f : Field) : Bool := f.order.truth f.effEq

/-- the checks of one field in code order: `attrib()`, then the `@x.default` decorator -/
def fieldChecks (f : Field) : List (Bool × Exc) :=
  if f.bare then [] else
  [ (f.cmp != .none && (f.eq != .none || f.order != .none), .valueError),
    (f.cmp == .none && !f.effEq && f.effOrder, .valueError),
    (f.hash == .bad, .typeError),
    (f.factory && f.dflt, .valueError),
    -- `_CountingAttr.default`: the first application fails iff `_default` is already set by `default=` /
    -- `factory=`; it sets `_default`, so every further application fails
    (f.deco && (f.dflt || f.factory || f.decoMore != 0), .defaultAlreadySet) ]

/-- fields are created one after the other while the class body runs -/
def phase1 (c : Case) : Option Exc := firstFail (c.fields.flatMap fieldChecks)

/-! ### keyword defaults (from the source, T1) -/

def kwBool (tbl : List (String × Lit)) (k : String) : Bool :=
  kwDefault tbl k == some (Lit.bool true)

def Case.tbl (c : Case) : List (String × Lit) :=
  match c.api with
  | .define => Generated.defineKw
  | _ => Generated.attrsKw

def OptB.get (o : OptB) (dflt : Bool) : Bool :=
  match o with | .unset => dflt | .t => true | .f => false

def Case.autoDetectB (c : Case) : Bool := c.autoDetect.get (kwBool c.tbl "auto_detect")
def Case.autoExcB (c : Case) : Bool := c.autoExc.get (kwBool c.tbl "auto_exc")
def Case.slotsB (c : Case) : Bool := c.slots.get (kwBool c.tbl "slots")

/-- `order=` as the decorator receives it -/
def Case.orderArg (c : Case) : F3 :=
  match c.order with
  | .none => .none | .t => .t | .f => .f
  | .unset =>
    match kwDefault c.tbl "order" with
    | some (Lit.bool true) => .t
    | some (Lit.bool false) => .f
    | _ => .none

/-! ### `_determine_attrs_eq_order` -/

/-- `none` when it raises ValueError, else `(eq, order)` (eq may stay None when `default_eq` is None) -/
def detEqOrder (cmp eq order dfltEq : F3) : Option (F3 × F3) :=
  if cmp != .none && (eq != .none || order != .none) then none
  else if cmp != .none then some (cmp, cmp)
  else
    let eq' := if eq == .none then dfltEq else eq
    let order' := if order == .none then eq' else order
    if eq' == .f && order' == .t then none else some (eq', order')

/-- the `eq=` that reaches `attrs.wrap` -/
def Case.eqPassed (c : Case) : F3 :=
  match detEqOrder c.cmp c.eq c.orderArg (if c.api == .makeClass then .t else .none) with
  | some (e, _) => e
  | none => .none

def Case.eqOrderFails (c : Case) : Bool :=
  (detEqOrder c.cmp c.eq c.orderArg (if c.api == .makeClass then .t else .none)).isNone

/-! ### `_determine_whether_to_implement` (default = True) -/

def whether (flag : F3) (autoDetect own : Bool) : Bool :=
  match flag with
  | .t => true
  | .f => false
  | .none => if autoDetect then !own else true

/-! ### class facts computed in `attrs.wrap` -/

/-- `frozen or _has_frozen_base_class(cls)`; an own `__setattr__` hides the base's -/
def Case.isFrozen (c : Case) : Bool := c.frozen || (c.baseFrozen && !c.ownSetattr)
def Case.isExc (c : Case) : Bool := c.autoExcB && c.isBaseExc
def Case.hasOwnSetattr (c : Case) : Bool := c.autoDetectB && c.ownSetattr
def Case.genRepr (c : Case) : Bool := whether c.repr c.autoDetectB c.ownRepr
def Case.genEq (c : Case) : Bool := whether c.eqPassed c.autoDetectB c.ownEq
def Case.genInit (c : Case) : Bool := whether c.init c.autoDetectB c.ownInit

/-- `hash_` after `unsafe_hash` precedence and the auto-detected own `__hash__` -/
def Case.hashArg (c : Case) : HashArg :=
  let h := if c.unsafeHash != .none then c.unsafeHash else c.hash
  if h == .none && c.autoDetectB && c.ownHash then .f else h

/-- the three-way hash block: is `add_hash` reached? -/
def Case.addsHash (c : Case) : Bool :=
  let h := c.hashArg
  if h == .f || (h == .none && !c.genEq) || c.isExc then false
  else if h == .t || (h == .none && c.genEq && c.isFrozen) then true
  else false

/-! ### `_transform_attrs` -/

def Field.toAttr (f : Field) : Attr :=
  { name := f.name, dflt := f.dflt || f.factory || f.deco, init := f.init, kwOnly := f.kwOnly,
    onSetattr := f.onSetattr, validator := f.validator || f.valDeco != 0, converter := f.converter }

/-- a `field()` / `attr.ib()` without annotation -/
def Field.unann (f : Field) : Bool := !f.bare && !f.annotated

/-- `ca_list`: the definitions `_transform_attrs` turns into own attributes, in its order -/
def ownSource (c : Case) (aa : Bool) : List Field :=
  if c.these then c.fields.filter (fun f => !f.bare)
  else if aa then
    let l := c.fields.filter (·.annotated)
    if c.annReversed then l.reverse else l
  else c.fields.filter (fun f => !f.bare)

def addedAttr : Attr :=
  { name := "zz", dflt := false, init := true, kwOnly := false, onSetattr := .none,
    validator := false, converter := false }

def BEdit.ap : BEdit → Bool → Bool
  | .keep, b => b
  | .setT, _ => true
  | .setF, _ => false

def HEdit.ap : HEdit → FHook → FHook
  | .keep, h => h
  | .strip, _ => .none
  | .setHook, _ => .hook

def AttrEdit.ap (e : AttrEdit) (a : Attr) : Attr :=
  { a with kwOnly := e.kwOnly.ap a.kwOnly, dflt := e.dflt.ap a.dflt, init := e.init.ap a.init,
           onSetattr := e.hooks.ap a.onSetattr }

def AttrEdit.id : AttrEdit := { kwOnly := .keep, dflt := .keep, init := .keep, hooks := .keep }

/-- edit the leading `n` attributes -/
def editFirst (e : AttrEdit) : Nat → List Attr → List Attr
  | 0, l => l
  | _, [] => []
  | n + 1, a :: rest => e.ap a :: editFirst e n rest

def Shape.ap : Shape → List Attr → List Attr
  | .none, l => l
  | .reverse, l => l.reverse
  | .dropFirst, l => l.drop 1
  | .dropLast, l => l.dropLast
  | .mandatoryFirst, l => l.filter (fun a => !a.dflt) ++ l.filter (·.dflt)

def Add.ap : Add → List Attr → List Attr
  | .none, l => l
  | .mandatoryLast, l => l ++ [addedAttr]
  | .defaultedFirst, l => { addedAttr with dflt := true } :: l
  | .kwMandatoryLast, l => l ++ [{ addedAttr with kwOnly := true }]

/-- what the transformer returns: the later checks are made on THIS list -/
def applyTr (t : Tr) (l : List Attr) : List Attr :=
  t.add.ap (t.shape.ap (editFirst t.first t.nFirst (l.map t.all.ap)))

/-- no transformer (or one that returns what it was given) -/
def Tr.id : Tr := { shape := .none, all := AttrEdit.id, first := AttrEdit.id, nFirst := 0, add := .none }

def Tr.ofShape (s : Shape) : Tr := { Tr.id with shape := s }

def kwAll (on : Bool) (l : List Attr) : List Attr :=
  if on then l.map (fun a => { a with kwOnly := true }) else l

/-- the attribute list after base collection, class-level kw_only and the field transformer -/
def effAttrs (c : Case) (aa : Bool) : List Attr :=
  let own := (ownSource c aa).map Field.toAttr
  let base := c.baseAttrs.filter (fun b => !own.any (fun a => a.name == b.name))
  applyTr c.transformer (kwAll c.kwOnly base ++ kwAll c.kwOnly own)

/-- part of the `__init__` signature and not keyword-only -/
def Attr.positional (a : Attr) : Bool := a.init && !a.kwOnly

/-- the `had_default` loop of `_transform_attrs`: does it raise? -/
def orderLoop : Bool → List Attr → Bool
  | _, [] => false
  | had, a :: rest =>
    if a.positional then
      if had && !a.dflt then true else orderLoop (had || a.dflt) rest
    else orderLoop had rest

/-! ### class-level on_setattr as it travels -/

def CHook.isHook (h : CHook) : Bool := h != .none && h != .noop

/-- what `define.wrap` hands to `attrs()` -/
def Case.passedOn (c : Case) : CHook :=
  match c.api with
  | .define =>
    if c.baseFrozen then .noop
    else if !c.frozen && c.onSetattr == .none then .dflt
    else c.onSetattr
  | _ => c.onSetattr

/-- `_ClassBuilder._on_setattr` after `__init__` (the default / validate / convert hooks are dropped when
    no field needs them — only on non-frozen classes) -/
def builderOn (c : Case) (attrs : List Attr) : CHook :=
  let p := c.passedOn
  if c.isFrozen then p
  else
    let hasV := attrs.any (·.validator)
    let hasC := attrs.any (·.converter)
    if (p == .dflt && !(hasV || hasC)) || (p == .validate && !hasV) || (p == .convert && !hasC)
    then .none else p

/-- `add_setattr`: some attribute ends up with a hook -/
def saNonEmpty (attrs : List Attr) (on : CHook) : Bool :=
  attrs.any (fun a => a.onSetattr == .hook || (a.onSetattr == .none && on.isHook))

/-! ### `attrs.wrap` -/

def wrapChecks (c : Case) (aa : Bool) : List (Bool × Exc) :=
  let attrs := effAttrs c aa
  let on := builderOn c attrs
  [ (c.hasOwnSetattr && c.isFrozen, .valueError),
    (!c.these && aa && c.fields.any Field.unann, .unannotated),
    ((ownSource c aa).any (fun f => f.annotated && f.typeArg), .valueError),
    (orderLoop false attrs, .valueError),
    (c.str && !c.genRepr && !c.ownRepr, .valueError),
    (!c.frozen && saNonEmpty attrs on && c.hasOwnSetattr, .valueError),
    (c.hashArg == .bad, .typeError),
    (c.cacheHash && !c.addsHash, .typeError),
    (c.isFrozen && on.isHook, .valueError),
    (c.isFrozen && attrs.any (fun a => a.onSetattr != .none), .valueError),
    (c.cacheHash && !c.genInit, .typeError) ]

/-- `attrs(...)(cls)`: the eq/order validation happens when the decorator is made -/
def attrsErr (c : Case) (aa : Bool) : Option Exc :=
  firstFail ((c.eqOrderFails, .valueError) :: wrapChecks c aa)

/-- `define.wrap` -/
def defineErr (c : Case) : Option Exc :=
  if c.baseFrozen && c.onSetattr.isHook then some .valueError
  else
    match c.autoAttribs with
    | .t => attrsErr c true
    | .f => attrsErr c false
    | .unset =>
      match attrsErr c true with
      | some .unannotated => attrsErr c false
      | r => r

def phase2 (c : Case) : Option Exc :=
  match c.api with
  | .define => defineErr c
  | _ => attrsErr c (c.autoAttribs == .t)

/-- first failing check in code order, `none` when the class is defined -/
def defError (c : Case) : Option Exc :=
  match phase1 c with
  | some e => some e
  | none => phase2 c

def model (c : Case) : Obs := { exc := defError c, touched := [] }

/-! ### the builder's staging discipline

  `_ClassBuilder` collects everything it is going to write in `_cls_dict` / `_script_snippets`; the class
  object is written by `build_class` only.  `Step.check` is a validation that may raise, `Step.stage` an
  `add_*` call, `Step.patch` is `_patch_original_class` (for `slots=True` a new class is made instead and the
  original is never written). -/

abbrev ClassDict := List (String × Nat)

inductive Step where
  | check (fails : Bool) (e : Exc)
  | stage (key : String) (val : Nat)
  | patch (slots : Bool)
  deriving DecidableEq, Repr, Inhabited

structure BState where
  cls : ClassDict
  staged : ClassDict
  exc : Option Exc
  deriving DecidableEq, Repr, Inhabited

def setKey (d : ClassDict) (k : String) (v : Nat) : ClassDict :=
  (k, v) :: d.filter (fun kv => kv.1 != k)

def step (s : BState) : Step → BState
  | .check fails e => if s.exc.isNone && fails then { s with exc := some e } else s
  | .stage k v => if s.exc.isNone then { s with staged := setKey s.staged k v } else s
  | .patch slots =>
    if s.exc.isNone && !slots then { s with cls := s.staged.foldl (fun d kv => setKey d kv.1 kv.2) s.cls }
    else s

def run (steps : List Step) (s : BState) : BState := steps.foldl step s

/-- the calls of `attrs.wrap` in code order before `build_class`: checks interleaved with staging -/
def wrapPre (c : Case) (aa : Bool) : List Step :=
  match wrapChecks c aa with
  | [c0, c1, c2, c3, c4, c5, c6, c7, c8, c9, c10] =>
    [ .check c0.1 c0.2,                                 -- wrap: own __setattr__ + frozen
      .check c1.1 c1.2, .check c2.1 c2.2, .check c3.1 c3.2,   -- _ClassBuilder.__init__ → _transform_attrs
      .stage "__attrs_attrs__" 1,
      .stage "__repr__" 2,                               -- add_repr (when generated)
      .check c4.1 c4.2,                                 -- add_str
      .stage "__eq__" 3, .stage "__lt__" 4,             -- add_eq / add_order
      .check c5.1 c5.2, .stage "__setattr__" 5,         -- add_setattr
      .check c6.1 c6.2, .check c7.1 c7.2, .stage "__hash__" 6,
      .check c8.1 c8.2, .check c9.1 c9.2, .stage "__init__" 7,   -- add_init / add_attrs_init
      .check c10.1 c10.2,
      .stage "__match_args__" 8 ]
  | _ => []

/-- … and `build_class` last -/
def wrapSteps (c : Case) (aa : Bool) : List Step := wrapPre c aa ++ [.patch c.slotsB]

/-- the validations among a list of steps -/
def checksOf : List Step → List (Bool × Exc)
  | [] => []
  | .check b e :: rest => (b, e) :: checksOf rest
  | _ :: rest => checksOf rest

end Attrs.C15
