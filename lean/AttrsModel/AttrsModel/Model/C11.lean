/-
  C11 — generated `__repr__` / `__str__`.  Mirrors `_make_repr_script`, `_ClassBuilder.add_repr`,
  `_ClassBuilder.add_str`, the `repr_ns` handling (src/attr/_make.py) and the per-thread
  `_compat.repr_context` (src/attr/_compat.py), plus the fragment of CPython that the property
  talks about: `repr` of list / tuple / dict with their own per-thread recursion guard
  (`Py_ReprEnter` / `Py_ReprLeave`: `[...]`, `(...)`, `{...}`), `object.__str__` falling back to
  `repr`, and `str.rsplit(">.", 1)[-1]`.

  Object graphs are heaps of nodes with arbitrary cycles.  A rendering is a *resumption*
  (`Prog`): a tree of atomic steps, each of which reads and updates the bookkeeping state `St`
  (`already_repring` of attrs, CPython's guard list).  Running a resumption alone is the sequential
  semantics (`Prog.run`); a thread system interleaves the atomic steps of several resumptions
  (`Sys`: every thread has its own `St`, as with `threading.local`; `ShSys`: one `already_repring`
  for all threads — exists only to exhibit the schedule that breaks it).
-/
import AttrsModel.Core

namespace Attrs.C11
open Lean

/-! ### results -/

/-- Result of a `repr()` / `str()` call: the exact string, an exception (kind as in
    `common.exc_kind`), or fuel exhaustion (model-internal; proved not to occur). -/
inductive Out where
  | ok (s : String)
  | exc (k : String)
  | oof
  deriving DecidableEq, Repr, FromJson, ToJson, Inhabited

/-! ### classes -/

/-- when the instrumented repr callable raises (only while faults are armed) -/
inductive Fault where
  | no
  | pre     -- raises before looking at the value
  | post    -- raises after it has rendered the value
  deriving DecidableEq, Repr, FromJson, ToJson, Inhabited

/-- the per-field `repr=` argument -/
inductive ReprArg where
  | on
  | off
  /-- a callable: returns `tag` (`recurse = false`) or `tag<repr(value)>` (`recurse = true`);
      `tol`: it is tolerant — `try: r = repr(value) except BaseException: r = "!"` -/
  | call (tag : String) (recurse : Bool) (fault : Fault) (tol : Bool)
  deriving DecidableEq, Repr, FromJson, ToJson, Inhabited

structure Field where
  name : String
  repr : ReprArg
  init : Bool
  deriving DecidableEq, Repr, FromJson, ToJson, Inhabited

/-- an enclosing scope of the class statement: a function (`f.<locals>.`) or a class (`Outer.`) -/
structure Scope where
  name : String
  fn   : Bool
  deriving DecidableEq, Repr, FromJson, ToJson, Inhabited

/-- What `__repr__` can see of the *runtime* class of an instance (which may be a plain subclass of
    the attrs class that owns the generated method). -/
structure Cls where
  scopes   : List Scope
  name     : String
  /-- `repr_ns=` of the class owning the generated `__repr__` -/
  reprNs   : Option String
  /-- field lists of the attrs classes in the chain, root first; the last one is the owner's own -/
  layers   : List (List Field)
  /-- some attrs class in the chain was built with `str=True` -/
  str      : Bool
  /-- a plain root class defines `__str__` returning `"BASESTR"` -/
  plainStr : Bool
  /-- the runtime class is a plain subclass that overrides `__repr__` as
      `"OVR<" + super().__repr__() + ">"` -/
  ovr      : Bool
  deriving DecidableEq, Repr, FromJson, ToJson, Inhabited

/-- `__attrs_attrs__` of the owner: inherited fields first (`_transform_attrs`, distinct names) -/
def Cls.fields (c : Cls) : List Field := c.layers.flatten

/-! ### heaps -/

inductive Node where
  /-- an object whose `repr` is the bare text `s` (ints, token objects) -/
  | atom (s : String)
  | list (items : List Nat)
  | tuple (items : List Nat)
  /-- keys are atoms (given by their text) -/
  | dict (items : List (String × Nat))
  /-- attrs instance: class index, attributes that are set (name ↦ node) -/
  | inst (cls : Nat) (vals : List (String × Nat))
  deriving DecidableEq, Repr, FromJson, ToJson, Inhabited

structure Heap where
  classes : List Cls
  nodes   : List Node
  deriving DecidableEq, Repr, FromJson, ToJson, Inhabited

/-! ### bookkeeping state and resumptions -/

/-- per-thread state touched by a rendering -/
structure St where
  /-- `_compat.repr_context.already_repring`; `none` = attribute not yet created in this thread -/
  already : Option (List Nat)
  /-- CPython's `Py_Repr` list of containers being rendered -/
  guard   : List Nat
  deriving DecidableEq, Repr, Inhabited

def St.alreadyL (s : St) : List Nat := s.already.getD []

/-- A computation as a tree of atomic steps.  `step upd k`: atomically replace the state `s` by
    `upd s` and continue with `k s` (the continuation sees what was read). -/
inductive Prog (α : Type) where
  | done (a : α)
  | step (upd : St → St) (k : St → Prog α)

def Prog.bind : Prog α → (α → Prog β) → Prog β
  | .done a, g => g a
  | .step u k, g => .step u (fun s => (k s).bind g)

/-- sequential semantics: run all steps without interference -/
def Prog.run : Prog α → St → St × α
  | .done a, s => (s, a)
  | .step u k, s => (k s).run (u s)

def Prog.result? : Prog α → Option α
  | .done a => some a
  | .step _ _ => none

/-! ### the generated script (`_make_repr_script`) -/

/-- how a fragment formats its value: `{acc!r}` or `{name_repr(acc)}` -/
inductive Fmt where
  | bangR
  | callG (tag : String) (recurse : Bool) (fault : Fault) (tol : Bool)
  deriving DecidableEq, Repr, Inhabited

/-- one `name={…}` fragment of the f-string -/
structure Frag where
  name       : String
  /-- accessor is `getattr(self, "name", NOTHING)` (for `init=False`) rather than `self.name` -/
  viaGetattr : Bool
  fmt        : Fmt
  deriving DecidableEq, Repr, Inhabited

/-- `attr_names_with_reprs` + `attribute_fragments`: fields with `repr is not False`, in order -/
def genFrags (attrs : List Field) : List Frag :=
  attrs.filterMap fun a =>
    match a.repr with
    | .off => none
    | .on => some { name := a.name, viaGetattr := !a.init, fmt := .bangR }
    | .call t r f c => some { name := a.name, viaGetattr := !a.init, fmt := .callG t r f c }

/-- `type.__qualname__` as CPython computes it from the nesting of the class statement -/
def qualChars (c : Cls) : List Char :=
  (c.scopes.map fun s => s.name.toList ++ (if s.fn then ".<locals>.".toList else ['.'])).flatten
    ++ c.name.toList

/-- the text after the last occurrence of `">."`, if there is one -/
def findAfterLast : List Char → Option (List Char)
  | [] => none
  | c :: rest =>
    match findAfterLast rest with
    | some t => some t
    | none => if c = '>' then (match rest with | '.' :: t => some t | _ => none) else none

/-- `s.rsplit(">.", 1)[-1]` -/
def rsplitLocals (s : List Char) : List Char := (findAfterLast s).getD s

/-- `cls_name_fragment` evaluated on the runtime class -/
def displayName (c : Cls) : String :=
  match c.reprNs with
  | none => String.ofList (rsplitLocals (qualChars c))
  | some ns => ns ++ "." ++ c.name

/-- what the accessor of a fragment evaluates to -/
inductive Acc where
  | val (i : Nat)
  | nothing      -- the `NOTHING` default of `getattr`
  | attrErr      -- `self.name` on an unset attribute

def access (vals : List (String × Nat)) (fr : Frag) : Acc :=
  match vals.lookup fr.name with
  | some i => .val i
  | none => if fr.viaGetattr then .nothing else .attrErr

/-- what a tolerant callable makes of the outcome of `repr(value)`: any exception becomes `!`
    (fuel exhaustion is not an exception of the modelled program and is never swallowed) -/
def swallow : Out → Out
  | .exc _ => .ok "!"
  | r => r

/-- `try: repr(value) except BaseException: "!"` — a catch node of the resumption tree: the
    bookkeeping state is whatever the failed rendering left behind -/
def tolerate (tol : Bool) (inner : Prog Out) : Prog Out :=
  if tol then inner.bind fun r => .done (swallow r) else inner

/-- the instrumented repr callable of the harness, applied to an already evaluated accessor -/
def callRepr (armed : Bool) (tag : String) (recurse : Bool) (fault : Fault) (inner : Prog Out) :
    Prog Out :=
  if armed && fault == .pre then .done (.exc ("user:" ++ tag))
  else if recurse then
    inner.bind fun r =>
      match r with
      | .ok s => if armed && fault == .post then .done (.exc ("user:" ++ tag))
                 else .done (.ok (tag ++ "<" ++ s ++ ">"))
      | e => .done e
  else if armed && fault == .post then .done (.exc ("user:" ++ tag))
  else .done (.ok tag)

/-- evaluate the `{…}` of one fragment; `rec` is `repr` of a heap node -/
def evalFrag (rec : Nat → Prog Out) (armed : Bool) (vals : List (String × Nat)) (fr : Frag) :
    Prog Out :=
  match access vals fr with
  | .attrErr => .done (.exc "attributeError")
  | acc =>
    let inner : Prog Out := match acc with
      | .val i => rec i
      | _ => .done (.ok "NOTHING")
    match fr.fmt with
    | .bangR => inner
    | .callG tag rc fault tol => callRepr armed tag rc fault (tolerate tol inner)

/-- evaluate labelled parts left to right; the first non-`ok` result ends the evaluation -/
def seqP : List (String × Prog Out) → Prog (Except Out (List String))
  | [] => .done (.ok [])
  | (lbl, p) :: rest =>
    p.bind fun r =>
      match r with
      | .ok s =>
        (seqP rest).bind fun rs =>
          match rs with
          | .ok l => .done (.ok ((lbl ++ s) :: l))
          | .error e => .done (.error e)
      | e => .done (.error e)

/-- `a, b, c` the way an f-string / CPython's list_repr writes it: pieces separated by `", "` -/
def joinSep : List String → String
  | [] => ""
  | [a] => a
  | a :: b :: rest => a ++ ", " ++ joinSep (b :: rest)

def render (pre post : String) (parts : List (String × Prog Out)) : Prog Out :=
  (seqP parts).bind fun rs =>
    match rs with
    | .ok l => .done (.ok (pre ++ joinSep l ++ post))
    | .error e => .done e

def addId (id : Nat) (l : List Nat) : List Nat := if l.contains id then l else id :: l

/-- the `try: return … finally: already_repring.remove(id(self))` part -/
def withFinally (id : Nat) (body : Prog Out) : Prog Out :=
  body.bind fun r =>
    .step (fun s => { s with already := s.already.map (·.erase id) })
      (fun s => .done (if s.alreadyL.contains id then r else .exc "keyError"))

/-- the bookkeeping prologue of the generated `__repr__` around the f-string `body` -/
def attrsRepr (id : Nat) (body : Prog Out) : Prog Out :=
  -- try: already_repring = _compat.repr_context.already_repring
  .step (fun s => s) fun s =>
    match s.already with
    | none =>
      -- except AttributeError: already_repring = {id(self),}; repr_context.already_repring = …
      .step (fun s => { s with already := some [id] }) (fun _ => withFinally id body)
    | some _ =>
      -- else: if id(self) in already_repring  (a second look at the set object: its content now)
      .step (fun s => s) fun s =>
        if s.alreadyL.contains id then .done (.ok "...")
        else
          -- already_repring.add(id(self))
          .step (fun s => { s with already := some (addId id s.alreadyL) })
            (fun _ => withFinally id body)

/-- CPython: `Py_ReprEnter` / body / `Py_ReprLeave` (one C call each, so one atomic step each) -/
def guarded (id : Nat) (dots : String) (body : Prog Out) : Prog Out :=
  .step (fun s => if s.guard.contains id then s else { s with guard := id :: s.guard }) fun s =>
    if s.guard.contains id then .done (.ok dots)
    else body.bind fun r =>
      .step (fun s => { s with guard := s.guard.erase id }) (fun _ => .done r)

/-- what the runtime class's own `__repr__` (if it overrides the generated one) makes of it -/
def ovrText (c : Cls) (s : String) : String := if c.ovr then "OVR<" ++ s ++ ">" else s

def mapOk (f : String → String) : Out → Out
  | .ok s => .ok (f s)
  | e => e

/-- `repr(node id)`; `fuel` bounds the nesting depth -/
def reprNode (h : Heap) (armed : Bool) : Nat → Nat → Prog Out
  | 0, _ => .done .oof
  | fuel + 1, id =>
    match h.nodes[id]? with
    | none => .done (.exc "dangling")
    | some (.atom s) => .done (.ok s)
    | some (.list items) =>
      guarded id "[...]" (render "[" "]" (items.map fun i => ("", reprNode h armed fuel i)))
    | some (.tuple items) =>
      guarded id "(...)"
        (render "(" (if items.length = 1 then ",)" else ")")
          (items.map fun i => ("", reprNode h armed fuel i)))
    | some (.dict items) =>
      guarded id "{...}"
        (render "{" "}" (items.map fun kv => (kv.1 ++ ": ", reprNode h armed fuel kv.2)))
    | some (.inst ci vals) =>
      match h.classes[ci]? with
      | none => .done (.exc "dangling")
      | some c =>
        (attrsRepr id
          (render (displayName c ++ "(") ")"
            ((genFrags c.fields).map fun fr =>
              (fr.name ++ "=", evalFrag (reprNode h armed fuel) armed vals fr)))).bind
          fun r => .done (mapOk (ovrText c) r)

/-- enough fuel for every graph over this heap (`C11_terminates`) -/
def Heap.fuel (h : Heap) : Nat := h.nodes.length + 1

/-- `str(node id)`: the generated `__str__` is `return self.__repr__()` (so an overriding
    `__repr__` of the runtime class is what it calls); without it the plain base's `__str__`, else
    `object.__str__` which is `repr` -/
def strNode (h : Heap) (armed : Bool) (fuel id : Nat) : Prog Out :=
  match h.nodes[id]? with
  | some (.inst ci _) =>
    match h.classes[ci]? with
    | some c => if c.str then reprNode h armed fuel id
                else if c.plainStr then .done (.ok "BASESTR")
                else reprNode h armed fuel id
    | none => reprNode h armed fuel id
  | _ => reprNode h armed fuel id

/-! ### thread systems -/

/-- every thread has its own bookkeeping state (`threading.local`) -/
structure Sys where
  st : Nat → St
  pr : Nat → Prog Out

/-- thread `t` performs its next atomic step (nothing if it has finished) -/
def Sys.step (y : Sys) (t : Nat) : Sys :=
  match y.pr t with
  | .done _ => y
  | .step u k =>
    { st := fun i => if i = t then u (y.st t) else y.st i,
      pr := fun i => if i = t then k (y.st t) else y.pr i }

def Sys.exec (y : Sys) (sched : List Nat) : Sys := sched.foldl Sys.step y

/-- let thread `t` run to completion from where it stands -/
def Sys.finish (y : Sys) (t : Nat) : St × Out := (y.pr t).run (y.st t)

/-- ONE `already_repring` for all threads (what a module-level set, or a class attribute of the
    `threading.local` subclass, would be); CPython's guard stays per thread -/
structure ShSys where
  already : Option (List Nat)
  guard   : Nat → List Nat
  pr      : Nat → Prog Out

def ShSys.step (y : ShSys) (t : Nat) : ShSys :=
  match y.pr t with
  | .done _ => y
  | .step u k =>
    let s : St := { already := y.already, guard := y.guard t }
    let s' := u s
    { already := s'.already,
      guard := fun i => if i = t then s'.guard else y.guard i,
      pr := fun i => if i = t then k s else y.pr i }

def ShSys.exec (y : ShSys) (sched : List Nat) : ShSys := sched.foldl ShSys.step y

/-! ### the case protocol -/

structure Case where
  heap    : Heap
  root    : Nat
  /-- the thread has rendered some attrs instance before (the attribute exists, empty) -/
  warm    : Bool
  /-- number of threads that render `root` concurrently (0 = no thread scenario) -/
  threads : Nat
  /-- interleaving of the threads' atomic steps used by the model (thread = entry mod `threads`);
      afterwards the threads finish one after the other -/
  sched   : List Nat
  deriving DecidableEq, Repr, FromJson, ToJson, Inhabited

structure ThreadObs where
  out     : Out
  residue : List Nat
  deriving DecidableEq, Repr, FromJson, ToJson, Inhabited

structure Obs where
  /-- `repr(root)` with the faults armed -/
  first   : Out
  /-- content of `already_repring` afterwards (absent = empty), as node indices -/
  res1    : List Nat
  /-- `repr(root)` again, faults disarmed -/
  again   : Out
  res2    : List Nat
  /-- `str(root)`, faults disarmed -/
  str     : Out
  res3    : List Nat
  /-- concurrent `repr(root)` from `threads` fresh threads, faults disarmed -/
  threads : List ThreadObs
  deriving DecidableEq, Repr, FromJson, ToJson, Inhabited

def entry (warm : Bool) : St := { already := if warm then some [] else none, guard := [] }

def threadSys (c : Case) : Sys :=
  { st := fun _ => entry c.warm, pr := fun _ => reprNode c.heap false c.heap.fuel c.root }

def model (c : Case) : Obs :=
  let h := c.heap
  let r1 := (reprNode h true h.fuel c.root).run (entry c.warm)
  let r2 := (reprNode h false h.fuel c.root).run r1.1
  let r3 := (strNode h false h.fuel c.root).run r2.1
  let y := (threadSys c).exec (c.sched.map (· % c.threads))
  { first := r1.2, res1 := r1.1.alreadyL, again := r2.2, res2 := r2.1.alreadyL,
    str := r3.2, res3 := r3.1.alreadyL,
    threads := (List.range c.threads).map fun t =>
      let f := y.finish t
      { out := f.2, residue := f.1.alreadyL } }

end Attrs.C11
