/-
  C05 — frozen instances cannot be mutated; frozenness is inherited.

  Mirrors, in src/attr/_make.py: `_frozen_setattrs`, `_frozen_delattrs` (with the BaseException bookkeeping
  names taken from the T1 tables `Generated.frozenExcSetNames` / `frozenExcDelNames`), `_has_frozen_base_class`,
  the `__setattr__`-related part of `attrs.wrap` (`is_frozen`, `has_own_setattr`, `if not frozen: add_setattr`),
  `_ClassBuilder.__init__` (frozen pair, `_wrote_own_setattr`, normalisation of the default on_setattr),
  `add_setattr` (`sa_attrs`), the on_setattr checks of `_make_init_script`, the `__attrs_own_setattr__` reset in
  `_patch_original_class` / `_create_slots_class`; in src/attr/_next_gen.py: `define.wrap` (default pipe,
  NO_OP below a frozen direct base, the "frozen-ness was inherited" error).  Construction and `evolve` go
  through the shared initializer model (`Model/Init.lean`, `Model/C12.lean`).

  Trusted-as-CPython fragments (diff-tested by the correspondence): attribute lookup (a slot anywhere on the
  MRO shadows `__dict__`), `object.__setattr__/__delattr__`, BaseException's bookkeeping attributes
  (`__cause__` sets `__suppress_context__`; `raise`, `raise … from`, implicit chaining, `with_traceback` write
  their fields at C level, `add_note` goes through `__setattr__` the first time), and the three ways `copy`/
  `pickle` restore state (default `__dict__` state, attrs' `__getstate__/__setstate__`, slots without
  `__getstate__` = `setattr` per slot).  The MRO of every class is CPython's and is passed in.
-/
import AttrsModel.Model.Init
import AttrsModel.Model.C12

namespace Attrs.C05
open Attrs.Init Lean

/-! ## Classes: who defines `__setattr__` / `__delattr__` -/

/-- what a `__setattr__` entry of a class `__dict__` is -/
inductive SetK where
  | obj      -- `object.__setattr__` (attrs resets an inherited hooking `__setattr__` to it)
  | frozen   -- `_frozen_setattrs`
  | hooks    -- the closure written by `add_setattr`
  | user     -- written in the class body
  deriving DecidableEq, Repr, FromJson, ToJson, Inhabited

inductive DelK where
  | obj | frozen | user
  deriving DecidableEq, Repr, FromJson, ToJson, Inhabited

inductive Api where
  | attrS     -- attr.s / attr.attrs / these= / make_class
  | define    -- attrs.define / attrs.mutable / attrs.frozen (= define with frozen=True)
  deriving DecidableEq, Repr, FromJson, ToJson, Inhabited

/-- class-level `on_setattr=` as written (`pipe` = an explicit list or `setters.pipe(...)` object, which is
    never identical to the module's `_DEFAULT_ON_SETATTR`); `dflt` is that default pipe itself, which only
    `define.wrap` puts in. -/
inductive ClsOn where
  | unset | noop | hook | validate | convert | pipe | dflt
  deriving DecidableEq, Repr, FromJson, ToJson, Inhabited

/-- what the setattr logic looks at in one `Attribute` of the class (own or inherited) -/
structure FieldFacts where
  name : String
  onSet : OnSet
  hasValidator : Bool
  hasConverter : Bool
  deriving DecidableEq, Repr, FromJson, ToJson, Inhabited

/-- One class of the hierarchy, in definition order.  `bases` / `mro` are `cls.__bases__` / `cls.__mro__[1:]`
    restricted to the classes of the table, as *relative* indices: 0 is the class defined just before this
    one, 1 the one before that, … (for a single-inheritance chain `mro = [0, 1, …, i-1]`, `bases = [0]`). -/
structure ClassSpec where
  attrs : Bool            -- decorated with attrs (otherwise a plain class)
  api : Api
  frozenArg : Bool        -- `frozen=True` was passed (attrs.frozen passes it)
  slots : Bool
  clsOnSet : ClsOn
  autoDetect : Bool
  userSet : Bool          -- the class body defines `__setattr__`
  userDel : Bool          -- the class body defines `__delattr__`
  builtin : Bool          -- the builtin root `BaseException`/`Exception`: has its own (object-like) pair
  stateArg : Option Bool  -- `getstate_setstate=` as written (`none` = left at None)
  fields : List FieldFacts
  bases : List Nat
  mro : List Nat
  deriving DecidableEq, Repr, FromJson, ToJson, Inhabited

/-- a class after its definition: own `__dict__` entries and what attribute lookup on the class resolves -/
structure Node where
  set : Option SetK
  del : Option DelK
  own : Option Bool       -- `__attrs_own_setattr__` in the class's own `__dict__`
  rset : SetK             -- `cls.__setattr__`
  rdel : DelK             -- `cls.__delattr__`
  rown : Bool             -- `getattr(cls, "__attrs_own_setattr__", False)`
  frozen : Bool           -- the builder's `is_frozen` (attrs classes)
  ownState : Bool         -- attrs generated `__getstate__`/`__setstate__` for this very class
  deriving DecidableEq, Repr, FromJson, ToJson, Inhabited

/-- attribute lookup along an MRO: the first class that has the entry -/
def firstSome {α : Type} : List (Option α) → Option α
  | [] => none
  | some a :: _ => some a
  | none :: rest => firstSome rest

def resolveSet (own : Option SetK) (mro : List Node) : SetK := (firstSome (own :: mro.map (·.set))).getD .obj
def resolveDel (own : Option DelK) (mro : List Node) : DelK := (firstSome (own :: mro.map (·.del))).getD .obj
def resolveOwn (own : Option Bool) (mro : List Node) : Bool := (firstSome (own :: mro.map (·.own))).getD false

/-- neither `None` nor `setters.NO_OP` -/
def hookish (k : ClsOn) : Bool := k != .unset && k != .noop

/-- `define.wrap`: the class-level on_setattr handed to `attrs()`; `basesN` are the direct bases -/
def defineOnSet (s : ClassSpec) (basesN : List Node) : Except Exc ClsOn :=
  let had := hookish s.clsOnSet
  let eff := if !s.frozenArg && s.clsOnSet == .unset then ClsOn.dflt else s.clsOnSet
  if basesN.any (·.rset == .frozen) then
    if had then .error .valueError else .ok .noop
  else .ok eff

/-- `_ClassBuilder.__init__` (mutable classes): convert/validate hooks with nothing to convert/validate
    are dropped -/
def normalise (k : ClsOn) (fields : List FieldFacts) : ClsOn :=
  let anyV := fields.any (·.hasValidator)
  let anyC := fields.any (·.hasConverter)
  match k with
  | .dflt => if anyV || anyC then .dflt else .unset
  | .validate => if anyV then .validate else .unset
  | .convert => if anyC then .convert else .unset
  | k => k

/-- `sa_attrs` of `add_setattr` is non-empty -/
def anyHooked (k : ClsOn) (fields : List FieldFacts) : Bool :=
  fields.any (fun f => match f.onSet with
    | .hooks => true
    | .noop => false
    | .unset => hookish k)

/-- the class body's own entries -/
def bodySet (s : ClassSpec) : Option SetK := if s.userSet then some .user else if s.builtin then some .obj else none
def bodyDel (s : ClassSpec) : Option DelK := if s.userDel then some .user else if s.builtin then some .obj else none

/-- the class-level on_setattr that reaches `attrs.wrap` -/
def classOnSet (s : ClassSpec) (basesN : List Node) : Except Exc ClsOn :=
  match s.api with
  | .define => defineOnSet s basesN
  | .attrS => .ok s.clsOnSet

/-- `attrs.wrap`: `is_frozen = frozen or _has_frozen_base_class(cls)` -/
def isFrozenCls (s : ClassSpec) (mroN : List Node) : Bool :=
  s.frozenArg || resolveSet (bodySet s) mroN == .frozen

/-- `has_own_setattr = auto_detect and _has_own_attribute(cls, "__setattr__")` -/
def hasOwnSet (s : ClassSpec) : Bool := s.autoDetect && s.userSet

/-- `self._on_setattr` after `_ClassBuilder.__init__` -/
def builderOnSet (s : ClassSpec) (mroN : List Node) (k : ClsOn) : ClsOn :=
  if isFrozenCls s mroN then k else normalise k s.fields

/-- `if not frozen: builder.add_setattr()` (the *argument* `frozen`, not `is_frozen`) writes a hooking
    `__setattr__` -/
def runsAdd (s : ClassSpec) (mroN : List Node) (k : ClsOn) : Bool :=
  !s.frozenArg && anyHooked (builderOnSet s mroN k) s.fields

/-- every way the definition is refused with ValueError: "Can't freeze a class with a custom __setattr__",
    "Can't combine custom __setattr__ with on_setattr hooks", "Frozen classes can't use on_setattr" (class
    level and field level, in `_make_init_script`, which also runs for `init=False`) -/
def rejects (s : ClassSpec) (mroN : List Node) (k : ClsOn) : Bool :=
  (hasOwnSet s && isFrozenCls s mroN) ||
  (runsAdd s mroN k && hasOwnSet s) ||
  (isFrozenCls s mroN && hookish (builderOnSet s mroN k)) ||
  (isFrozenCls s mroN && s.fields.any (·.onSet != .unset))

/-- the `__setattr__` entry of the finished class: the frozen one, the hook closure, `object.__setattr__`
    where an inherited attrs-made `__setattr__` is reset (`_patch_original_class` looks the marker up with
    `getattr`, `_create_slots_class` in the direct bases' own `__dict__`; a `__setattr__` written in the class
    body is never replaced, with or without auto_detect), else the body's -/
def ownSetOf (s : ClassSpec) (mroN basesN : List Node) (k : ClsOn) : Option SetK :=
  if isFrozenCls s mroN then
    (if runsAdd s mroN k then some .hooks else some .frozen)
  else if runsAdd s mroN k then some .hooks
  else if s.slots then
    (if !s.userSet && basesN.any (·.own == some true) then some .obj else bodySet s)
  else if resolveOwn none mroN then
    (if !s.userSet then some .obj else bodySet s)
  else bodySet s

def ownDelOf (s : ClassSpec) (mroN : List Node) : Option DelK :=
  if isFrozenCls s mroN then some .frozen else bodyDel s

/-- the `__attrs_own_setattr__` entry -/
def ownFlagOf (s : ClassSpec) (mroN : List Node) (k : ClsOn) : Option Bool :=
  if runsAdd s mroN k then some true
  else if isFrozenCls s mroN then none
  else if s.slots then some false
  else if resolveOwn none mroN then some false
  else none

/-- `_determine_whether_to_implement(cls, getstate_setstate, auto_detect, ("__getstate__", "__setstate__"),
    default=slots or _inherits_generated_getstate(cls))` for class bodies without state methods of their own:
    the class gets its own generated pair when asked to, and by default when it is slotted or would otherwise
    inherit the pair generated for a base (which only knows the base's fields and hash cache) -/
def ownStateOf (s : ClassSpec) (mroN : List Node) : Bool :=
  match s.stateArg with
  | some b => b
  | none => s.slots || mroN.any (·.ownState)

def nodeOf (s : ClassSpec) (mroN basesN : List Node) (k : ClsOn) : Node :=
  { set := ownSetOf s mroN basesN k, del := ownDelOf s mroN, own := ownFlagOf s mroN k,
    rset := resolveSet (ownSetOf s mroN basesN k) mroN, rdel := resolveDel (ownDelOf s mroN) mroN,
    rown := resolveOwn (ownFlagOf s mroN k) mroN, frozen := isFrozenCls s mroN,
    ownState := ownStateOf s mroN }

/-- Decorating one class: `define.wrap` (next-gen only), `attrs.wrap`, the builder, `build_class`.
    `mroN` = the nodes of `cls.__mro__[1:]`, `basesN` = the nodes of `cls.__bases__`.
    `.error .valueError` = the definition is rejected. -/
def decorate (s : ClassSpec) (mroN basesN : List Node) : Except Exc Node :=
  match classOnSet s basesN with
  | .error e => .error e
  | .ok k => if rejects s mroN k then .error .valueError else .ok (nodeOf s mroN basesN k)

/-- a plain (undecorated) class -/
def plainNode (s : ClassSpec) (mroN : List Node) : Node :=
  { set := bodySet s, del := bodyDel s, own := none,
    rset := resolveSet (bodySet s) mroN, rdel := resolveDel (bodyDel s) mroN, rown := resolveOwn none mroN,
    frozen := false, ownState := false }

def pick (acc : List Node) (idx : List Nat) : List Node := idx.filterMap (acc[·]?)

def defineClass (acc : List Node) (s : ClassSpec) : Except Exc Node :=
  if s.attrs then decorate s (pick acc s.mro) (pick acc s.bases) else .ok (plainNode s (pick acc s.mro))

/-- define the classes in order; `acc` holds the classes defined so far, most recent first.
    `.error (i, e)`: the i-th remaining class was rejected with `e`. -/
def buildFrom (acc : List Node) : List ClassSpec → Nat → Except (Nat × Exc) (List Node)
  | [], _ => .ok acc
  | s :: rest, i =>
    match defineClass acc s with
    | .error e => .error (i, e)
    | .ok n => buildFrom (n :: acc) rest (i + 1)

/-! ## Instances -/

/-- BaseException's own bookkeeping -/
structure ExcSnap where
  args : List Val
  cause : Option Val
  context : Option Val
  suppress : Bool
  tb : Bool
  notes : Option (List Val)
  deriving DecidableEq, Repr, FromJson, ToJson, Inhabited

def ExcSnap.empty : ExcSnap := { args := [], cause := none, context := none, suppress := false, tb := false, notes := none }

/-- the full observable state of an instance -/
structure Snap where
  /-- `vars(inst)` (without `__notes__`), sorted by name; empty when there is no `__dict__` -/
  dict : List (String × Val)
  /-- every slot along the MRO (without `__weakref__`), sorted by name, with its value or unset -/
  slots : List (String × Option Val)
  ex : ExcSnap
  deriving DecidableEq, Repr, FromJson, ToJson, Inhabited

structure IState where
  mem : String → Loc → Option Val
  ex : ExcSnap

/-- which state protocol `copy` / `pickle` find on the leaf class -/
inductive Gs where
  | dflt      -- object's `__reduce_ex__` over `__dict__`; no slot holds state
  | attrs     -- the attrs-generated `__getstate__/__setstate__` of the class that provides the initializer
  | optOut    -- slots, but no `__getstate__`: CPython restores slot state with `setattr`
  | other     -- anything else (C10's business): no copy operation is generated
  deriving DecidableEq, Repr, FromJson, ToJson, Inhabited

inductive Op where
  | set (name : String) (v : Val)
  | del (name : String)
  | aug (name : String) (v : Val)        -- `obj.name += v`  = read; setattr
  | hash
  | copy | deepcopy
  | pickle (proto : Nat)
  | evolve (changes : List (String × Val))
  | raise_                               -- raise obj / except
  | raiseFrom                            -- raise obj from E1
  | chain                                -- raise obj while handling E2
  | withTb (present : Bool)                -- obj.with_traceback(tb | None)
  | addNote (v : Val)
  deriving DecidableEq, Repr, FromJson, ToJson, Inhabited

structure Case where
  /-- the leaf's whole hierarchy in definition order; the last class is the one instantiated -/
  classes : List ClassSpec
  /-- the hierarchy is rooted in `Exception` instead of `object` -/
  excRoot : Bool
  /-- the initializer the leaf resolves (its `cfg.frozen` is recomputed from the class logic) and the
      constructor call -/
  init : Init.Case
  /-- which class provides that initializer: 0 = the leaf, 1 = the class defined before it, … -/
  owner : Nat
  /-- layout facts of the leaf (read from the real class; C08 checks them) -/
  hasDict : Bool
  slotNames : List String
  /-- every name that can appear in `vars(inst)`, sorted (rendering order) -/
  names : List String
  /-- some class along the MRO has a non-empty `__slots__` (a lone `__weakref__` counts) -/
  anySlots : Bool
  /-- the state protocol the leaf resolves, as the class logic predicts it (`wf` checks it against
      `predictedGs`) -/
  gs : Gs
  /-- the fields the resolved `__hash__` reads (`none`: identity hash) -/
  hashNames : Option (List String)
  ops : List Op
  deriving Repr, FromJson, ToJson, Inhabited

structure StepObs where
  exc : Option Exc
  snap : Snap
  /-- field values of the object an operation returned (copy / deepcopy / pickle / evolve) -/
  values : Option (List (String × Option Val))
  /-- facts observed about the operation: fresh, frozen, stable, caught, self -/
  flags : List String
  deriving DecidableEq, Repr, FromJson, ToJson, Inhabited

structure DefErr where
  idx : Nat
  exc : Exc
  deriving DecidableEq, Repr, FromJson, ToJson, Inhabited

structure Obs where
  /-- a class definition was rejected -/
  defErr : Option DefErr
  /-- what `type(inst).__setattr__` / `.__delattr__` resolve to (frozenness is detected through this identity) -/
  rset : Option SetK
  rdel : Option DelK
  /-- the constructor raised -/
  ctor : Option Exc
  start : Option Snap
  steps : List StepObs
  deriving DecidableEq, Repr, FromJson, ToJson, Inhabited

/-! ### rendering and reading -/

def render (c : Case) (s : IState) : Snap :=
  { dict := if c.hasDict then c.names.filterMap (fun n => (s.mem n .dict).map (fun v => (n, v))) else [],
    slots := c.slotNames.map (fun n => (n, s.mem n .slot)),
    ex := s.ex }

def lookupO (k : String) : List (String × Option Val) → Option Val
  | [] => none
  | (k', v) :: rest => if k' == k then v else lookupO k rest

/-- attribute lookup on a snapshot: a slot of that name shadows the instance dict -/
def readSnap (c : Case) (s : Snap) (n : String) : Option Val :=
  if c.slotNames.contains n then lookupO n s.slots else lookup n s.dict

def fieldVals (c : Case) (s : Snap) : List (String × Option Val) :=
  c.init.run.attrs.map (fun a => (a.name, readSnap c s a.name))

/-! ### CPython fragments -/

/-- the names BaseException keeps outside `__dict__`/slots, plus `__notes__` -/
def bookNames : List String := ["__cause__", "__context__", "__traceback__", "__suppress_context__", "__notes__"]

def optVal (v : Val) : Option Val := if v == "None" then none else some v

/-- assignment to a bookkeeping attribute of a BaseException -/
def bookSet (ex : ExcSnap) (n : String) (v : Val) : ExcSnap :=
  if n == "__cause__" then { ex with cause := optVal v, suppress := true }
  else if n == "__context__" then { ex with context := optVal v }
  else if n == "__traceback__" then { ex with tb := v != "None" }
  else if n == "__suppress_context__" then { ex with suppress := v == "True" }
  else if n == "__notes__" then { ex with notes := some [v] }
  else ex

def IState.write (s : IState) (n : String) (l : Loc) (v : Option Val) : IState :=
  { s with mem := fun n' l' => if n' = n ∧ l' = l then v else s.mem n' l' }

/-- `object.__setattr__` / `BaseException.__setattr__` -/
def genericSet (c : Case) (s : IState) (n : String) (v : Val) : Option Exc × IState :=
  if c.excRoot && bookNames.contains n then (none, { s with ex := bookSet s.ex n v })
  else if c.slotNames.contains n then (none, s.write n .slot (some v))
  else if c.hasDict then (none, s.write n .dict (some v))
  else (some .attributeError, s)

/-- `object.__delattr__` / `BaseException.__delattr__` -/
def genericDel (c : Case) (s : IState) (n : String) : Option Exc × IState :=
  if c.excRoot && bookNames.contains n then
    if n == "__notes__" then
      (if s.ex.notes.isSome then (none, { s with ex := { s.ex with notes := none } }) else (some .attributeError, s))
    else (some .typeError, s)
  else if c.slotNames.contains n then
    (if (s.mem n .slot).isSome then (none, s.write n .slot none) else (some .attributeError, s))
  else if c.hasDict && (s.mem n .dict).isSome then (none, s.write n .dict none)
  else (some .attributeError, s)

/-! ### the frozen pair -/

/-- `_frozen_setattrs` -/
def frozenSetattr (c : Case) (s : IState) (n : String) (v : Val) : Option Exc × IState :=
  if c.excRoot && Generated.frozenExcSetNames.contains n then genericSet c s n v
  else (some .frozenInstance, s)

/-- `_frozen_delattrs` -/
def frozenDelattr (c : Case) (s : IState) (n : String) : Option Exc × IState :=
  if c.excRoot && Generated.frozenExcDelNames.contains n then genericDel c s n
  else (some .frozenInstance, s)

/-- `setattr(inst, n, v)` on an instance of a class whose `__setattr__` resolves to `k` -/
def doSet (c : Case) (k : SetK) (s : IState) (n : String) (v : Val) : Option Exc × IState :=
  match k with
  | .frozen => frozenSetattr c s n v
  | _ => genericSet c s n v       -- object's, a pass-through user method, or a hook closure on a non-field

def doDel (c : Case) (k : DelK) (s : IState) (n : String) : Option Exc × IState :=
  match k with
  | .frozen => frozenDelattr c s n
  | _ => genericDel c s n

/-! ### life-cycle operations -/

/-- the run input of the initializer with `frozen` as the class logic computed it -/
def effInit (c : Case) (frozen : Bool) : Init.Case :=
  { c.init with run := { c.init.run with cfg := { c.init.run.cfg with frozen := frozen } } }

def cacheName : String := Generated.hashCacheField

def cacheLoc (c : Case) : Loc := if c.slotNames.contains cacheName then .slot else .dict

/-- K2 shape: the initializer put the cache into `__dict__` while a slot of that name shadows it -/
def cacheMisplaced (c : Case) (frozen : Bool) : Bool :=
  c.init.run.cfg.cacheHash && frozen && !c.init.run.cfg.slots && c.slotNames.contains cacheName

def isCopyOp : Op → Bool
  | .copy | .deepcopy | .pickle _ => true
  | _ => false

structure Leaf where
  rset : SetK
  rdel : DelK
  frozen : Bool         -- the initializer's class was built frozen

/-- `copy.copy` / `copy.deepcopy` / `pickle` round trip: exception kind or the copy's field values -/
def copyResult (c : Case) (lf : Leaf) (s : IState) : Option Exc × Option (List (String × Option Val)) :=
  let snap := render c s
  match c.gs with
  | .attrs =>
    -- slots_getstate reads every field with getattr
    if (fieldVals c snap).all (·.2.isSome) then (none, some (fieldVals c snap)) else (some .attributeError, none)
  | .optOut =>
    -- slot state is restored with setattr(copy, name, value)
    if lf.rset == .frozen && snap.slots.any (·.2.isSome) then (some .frozenInstance, none)
    else (none, some (fieldVals c snap))
  | _ => (none, some (fieldVals c snap))

def resFlags (lf : Leaf) : List String := if lf.rset == .frozen then ["fresh", "frozen"] else ["fresh"]

/-- a copy made now can be hashed through the generated `__hash__`: the hashed fields are set, and a
    hash-caching class finds its cache — carried over with `__dict__`, or re-created by the generated
    `__setstate__` -/
def hashReady (c : Case) (s : Snap) : Bool :=
  match c.hashNames with
  | none => false
  | some ns =>
    ns.all (fun n => (readSnap c s n).isSome) &&
    (!c.init.run.cfg.cacheHash || c.gs == .attrs || (readSnap c s cacheName).isSome)

/-- what is observed of a returned object that can be hashed: `reshash` (hash() works and is stable) and
    `twin` (it hashes like, and is found in a dict keyed by, a freshly built instance with the same field
    values — a stale cached hash code would break this) -/
def hashFlags : List String := ["reshash", "twin"]

def copyFlags (c : Case) (lf : Leaf) (s : IState) : List String :=
  resFlags lf ++ (if hashReady c (render c s) then hashFlags else [])

/-- an instance that came out of the initializer (evolve) with these field values can be hashed through the
    generated `__hash__`: the hashed fields are set and the cache is where `__hash__` looks (not the K2 layout) -/
def evolveReady (c : Case) (vals : List (String × Option Val)) : Bool :=
  match c.hashNames with
  | none => false
  | some ns =>
    ns.all (fun n => (lookupO n vals).isSome) &&
    !(c.init.run.cfg.cacheHash && !c.init.run.cfg.slots && c.slotNames.contains cacheName)

def evolveFlags (c : Case) (lf : Leaf) (vals : List (String × Option Val)) : List String :=
  resFlags lf ++ (if evolveReady c vals then hashFlags else [])

def step (c : Case) (lf : Leaf) (s : IState) (op : Op) : StepObs × IState :=
  let plain (r : Option Exc × IState) : StepObs × IState :=
    ({ exc := r.1, snap := render c r.2, values := none, flags := [] }, r.2)
  match op with
  | .set n v => plain (doSet c lf.rset s n v)
  | .del n => plain (doDel c lf.rdel s n)
  | .aug n v =>
    match readSnap c (render c s) n with
    | none => plain (some .attributeError, s)
    | some cur => plain (doSet c lf.rset s n (cur ++ v))
  | .hash =>
    match c.hashNames with
    | none => ({ exc := none, snap := render c s, values := none, flags := ["stable"] }, s)
    | some ns =>
      if c.init.run.cfg.cacheHash && (readSnap c (render c s) cacheName).isNone then
        plain (some .attributeError, s)           -- `self._attrs_cached_hash` is not there (K2)
      else if c.init.run.cfg.cacheHash && readSnap c (render c s) cacheName != some "None" then
        ({ exc := none, snap := render c s, values := none, flags := ["stable"] }, s)   -- cache hit
      else if ns.all (fun n => (readSnap c (render c s) n).isSome) then
        let s' := if c.init.run.cfg.cacheHash then s.write cacheName (cacheLoc c) (some "int") else s
        ({ exc := none, snap := render c s', values := none, flags := ["stable"] }, s')
      else plain (some .attributeError, s)
  | .copy | .deepcopy | .pickle _ =>
    let r := copyResult c lf s
    ({ exc := r.1, snap := render c s, values := r.2, flags := if r.1.isNone then copyFlags c lf s else [] }, s)
  | .evolve ch =>
    let cur := fieldVals c (render c s)
    let attrs := c.init.run.attrs
    if C12.evolveMissing attrs cur ch then plain (some .attributeError, s) else
    let o := runInit { effInit c lf.frozen with call := C12.evolveCall attrs cur ch }
    match o.exc with
    | some e => plain (some e, s)
    | none => ({ exc := none, snap := render c s, values := some o.values, flags := evolveFlags c lf o.values }, s)
  | .raise_ =>
    let s' := { s with ex := { s.ex with tb := true } }
    ({ exc := none, snap := render c s', values := none, flags := ["caught"] }, s')
  | .raiseFrom =>
    let s' := { s with ex := { s.ex with tb := true, cause := some "E1", suppress := true } }
    ({ exc := none, snap := render c s', values := none, flags := ["caught"] }, s')
  | .chain =>
    let s' := { s with ex := { s.ex with tb := true, context := some "E2" } }
    ({ exc := none, snap := render c s', values := none, flags := ["caught"] }, s')
  | .withTb b =>
    let s' := { s with ex := { s.ex with tb := b } }
    ({ exc := none, snap := render c s', values := none, flags := ["self"] }, s')
  | .addNote v =>
    match s.ex.notes with
    | some l =>
      let s' := { s with ex := { s.ex with notes := some (l ++ [v]) } }
      ({ exc := none, snap := render c s', values := none, flags := [] }, s')
    | none => plain (doSet c lf.rset s "__notes__" v)     -- first note: setattr(self, "__notes__", [v])

def runOps (c : Case) (lf : Leaf) : IState → List Op → List StepObs
  | _, [] => []
  | s, op :: rest => (step c lf s op).1 :: runOps c lf (step c lf s op).2 rest

def finalState (c : Case) (lf : Leaf) : IState → List Op → IState
  | s, [] => s
  | s, op :: rest => finalState c lf (step c lf s op).2 rest

/-- which state protocol the leaf resolves: the first class along its MRO (itself first) for which attrs
    generated a `__getstate__/__setstate__` pair — fine when that is the class that provides the initializer
    (the pair knows every field), C10's business otherwise; with no such class object's protocol applies. -/
def stateDefiner (c : Case) (nodes : List Node) : Option Nat :=
  -- the leaf (index 0 of `nodes`), then its MRO as CPython linearised it
  let order := 0 :: ((c.classes.getLast?.map (·.mro)).getD []).map (· + 1)
  order.find? (fun i => (nodes[i]?.map (·.ownState)).getD false)

def predictedGs (c : Case) (nodes : List Node) : Gs :=
  match stateDefiner c nodes with
  | some i => if i == c.owner then .attrs else .other
  | none => if c.anySlots then .optOut else .dflt

/-- the leaf and the class that provides its initializer, after all definitions -/
def leafOf (c : Case) (nodes : List Node) : Option Leaf :=
  match nodes.head?, nodes[c.owner]? with
  | some l, some o => some { rset := l.rset, rdel := l.rdel, frozen := o.frozen }
  | _, _ => none

def model (c : Case) : Obs :=
  match buildFrom [] c.classes 0 with
  | .error (i, e) => { defErr := some { idx := i, exc := e }, rset := none, rdel := none, ctor := none, start := none, steps := [] }
  | .ok nodes =>
    match leafOf c nodes with
    | none => { defErr := none, rset := none, rdel := none, ctor := some .other, start := none, steps := [] }
    | some lf =>
      let ic := effInit c lf.frozen
      let o := runInit ic
      match o.exc, bind (params ic.eff.attrs) ic.call with
      | some e, _ => { defErr := none, rset := some lf.rset, rdel := some lf.rdel, ctor := some e, start := none, steps := [] }
      | none, none => { defErr := none, rset := some lf.rset, rdel := some lf.rdel, ctor := some .typeError, start := none, steps := [] }
      | none, some env =>
        let st := body ic.eff env
        let s0 : IState := { mem := st.mem, ex := { ExcSnap.empty with args := o.excArgs.getD [] } }
        { defErr := none, rset := some lf.rset, rdel := some lf.rdel, ctor := none, start := some (render c s0),
          steps := runOps c lf s0 c.ops }

end Attrs.C05
