/-
  C09 — generated ordering.  Mirrors, from src/attr/_make.py and _next_gen.py:
    * `_determine_attrib_eq_order` (per-field cmp/eq/order arguments, key functions) as it is run by
      `attrib()` (default_eq = True),
    * `_determine_attrs_eq_order` as it is run by `attrs()` (default_eq = None), by `define()` (which
      forwards eq/order, no cmp) and by `make_class()` (default_eq = True, then `attrs()` again),
      with the keyword defaults read from `Generated/Tables.lean` (T1),
    * `_determine_whether_to_implement` for ("__lt__", "__le__", "__gt__", "__ge__") with auto_detect,
    * `_make_order`: `attrs_to_tuple` over the fields with `a.order`, `key(value) if key else value`,
      the four closures with `other.__class__ is self.__class__`, else `NotImplemented`,
  plus two CPython fragments the property talks about: tuple rich comparison (`tuplerichcompare`:
  first index whose items are neither identical nor `==`, the operator applied to that pair, else
  the lengths) and the rich-comparison dispatch of `x < y` (`do_richcompare`: reflected method of a
  proper subclass first, left method, reflected method, TypeError).
  Values are scripted: the outcome of every comparison between two (keyed) field values is part of
  the case, so the results are parametric in the data; the comparisons performed are traced.
  The model is a pure function of the *current* values: the harness also runs histories (earlier
  comparisons, then key results / field values changed behind the instance, assoc/evolve/copy) and
  every comparison must still be the tuple comparison of the values current at that time.
  The values' reflected comparisons are assumed to agree (`yv > xv` is `xv < yv` …), as Python's data
  model asks: the case gives the outcomes of `xv ∘ yv`, those of `yv ∘ xv` are their mirror.
-/
import AttrsModel.Core
import AttrsModel.Generated.Tables

namespace Attrs.C09
open Lean

/-- a per-field `cmp=` / `eq=` / `order=` argument as written: not passed (None) / True / False / a key callable -/
inductive FArg where
  | unset | t | f | key
  deriving DecidableEq, Repr, FromJson, ToJson, Inhabited

/-- a class-level `cmp=` / `eq=` / `order=` argument: not passed / None / True / False -/
inductive Arg4 where
  | unset | non | t | f
  deriving DecidableEq, Repr, FromJson, ToJson, Inhabited

/-- `auto_detect=`: not passed / True / False -/
inductive Arg3 where
  | unset | t | f
  deriving DecidableEq, Repr, FromJson, ToJson, Inhabited

inductive Api where
  | attrS | define | makeClass
  deriving DecidableEq, Repr, FromJson, ToJson, Inhabited

inductive Op where
  | lt | le | gt | ge
  deriving DecidableEq, Repr, FromJson, ToJson, Inhabited

def Op.swap : Op → Op
  | .lt => .gt | .le => .ge | .gt => .lt | .ge => .le

def Op.name : Op → String
  | .lt => "lt" | .le => "le" | .gt => "gt" | .ge => "ge"

/-- outcome of one scripted comparison `a ∘ b` between two values (`raises`: the comparison raises) -/
inductive Out where
  | T | F | truthy | falsy | raises
  deriving DecidableEq, Repr, FromJson, ToJson, Inhabited

def Out.isTruthy : Out → Bool
  | .T | .truthy => true
  | _ => false

/-- outcomes of `a == b`, `a < b`, `a <= b`, `a > b`, `a >= b` for one ordered pair of values -/
structure Script where
  eq : Out
  lt : Out
  le : Out
  gt : Out
  ge : Out
  deriving DecidableEq, Repr, FromJson, ToJson, Inhabited

def Script.get (s : Script) : Op → Out
  | .lt => s.lt | .le => s.le | .gt => s.gt | .ge => s.ge

/-- the comparisons of `b ∘ a`, given those of `a ∘ b`, for values whose reflected comparisons agree
    (`b > a` is `a < b`, `b >= a` is `a <= b`, `b == a` is `a == b`) -/
def Script.mirror (s : Script) : Script := { eq := s.eq, lt := s.gt, le := s.ge, gt := s.lt, ge := s.le }

/-- the two values of one field in one view: `s` scripts `xv ∘ yv` (the converse `yv ∘ xv` is its
    mirror); `same`: both are the very same object -/
structure Pair where
  same : Bool
  s    : Script
  deriving DecidableEq, Repr, FromJson, ToJson, Inhabited

/-- which object of a field value the ordering looks at: the raw value, or the value mapped through
    the key function given as `eq=`, as `order=`, or as `cmp=` -/
inductive View where
  | raw | ek | ok | ck
  deriving DecidableEq, Repr, FromJson, ToJson, Inhabited

/-- concrete natural-number values behind the scripts (small totally ordered domain), per view -/
structure NatVals where
  rx : Nat
  ry : Nat
  ex : Nat
  ey : Nat
  ox : Nat
  oy : Nat
  deriving DecidableEq, Repr, FromJson, ToJson, Inhabited

structure Field where
  name   : String
  cmp    : FArg
  eq     : FArg
  order  : FArg
  /-- defined on the attrs base class `Base` (inherited by `C`) rather than in `C`'s body -/
  inBase : Bool
  /-- scripts for the raw values, for the values keyed by the `eq=` key, and for the values keyed
      by the `order=` (or `cmp=`) key -/
  raw    : Pair
  ek     : Pair
  ok     : Pair
  /-- when present: the scripts are those of these natural numbers (checked by `wf`) -/
  nat    : Option NatVals
  deriving DecidableEq, Repr, FromJson, ToJson, Inhabited

/-- What the right operand `y` is, relative to the left operand `x : C`. -/
inductive Rhs where
  | same       -- another instance of exactly C
  | identical  -- x itself
  | sub        -- instance of a subclass D of C
  | super      -- instance of the attrs base class Base of C
  | foreign    -- instance of an unrelated class
  deriving DecidableEq, Repr, FromJson, ToJson, Inhabited

structure Case where
  api         : Api
  cmp         : Arg4
  eq          : Arg4
  order       : Arg4
  autoDetect  : Arg3
  /-- ordering methods written by the user in C's own body (each returns a marker object) -/
  own         : List Op
  /-- the attrs base class `Base` has attrs-generated ordering methods (over its own fields) -/
  baseOrdered : Bool
  /-- the subclass D is itself an attrs class with generated ordering (else a plain subclass) -/
  subOrdered  : Bool
  fields      : List Field
  rhs         : Rhs
  deriving DecidableEq, Repr, FromJson, ToJson, Inhabited

/-- definition-time outcome of a decorator / `attr.ib` call -/
inductive DefErr where
  | ok | valueError | typeError
  deriving DecidableEq, Repr, FromJson, ToJson, Inhabited

/-- Result of a comparison method or operator. -/
inductive Res where
  | T | F | truthy | falsy
  | NI        -- NotImplemented
  | user      -- the marker returned by a user-written method
  | raised    -- a scripted value comparison raised
  | typeErr   -- Python's TypeError: both sides returned NotImplemented
  | other     -- anything else (never produced by the model)
  deriving DecidableEq, Repr, FromJson, ToJson, Inhabited

def Res.ofOut : Out → Res
  | .T => .T | .F => .F | .truthy => .truthy | .falsy => .falsy | .raises => .raised

def Res.ofBool (b : Bool) : Res := if b then .T else .F

def Res.isTruthy : Res → Bool
  | .T | .truthy => true
  | _ => false

/-- where an ordering method of C comes from -/
inductive Status where
  | gen      -- in C's own dict, written by attrs
  | user     -- in C's own dict, written by the user
  | inh      -- not in C's dict; resolves to Base's attrs-generated method
  | dflt     -- resolves to `object`'s (returns NotImplemented)
  deriving DecidableEq, Repr, FromJson, ToJson, Inhabited

structure ResQ where
  lt : Res
  le : Res
  gt : Res
  ge : Res
  deriving DecidableEq, Repr, FromJson, ToJson, Inhabited

structure TrQ where
  lt : List String
  le : List String
  gt : List String
  ge : List String
  deriving DecidableEq, Repr, FromJson, ToJson, Inhabited

structure StQ where
  lt : Status
  le : Status
  gt : Status
  ge : Status
  deriving DecidableEq, Repr, FromJson, ToJson, Inhabited

structure Obs where
  /-- outcome of the class-level call (`attr.s(...)`, `define(...)`, `make_class(...)`) -/
  clsErr    : DefErr
  /-- names of the fields whose `attr.ib(...)` call raised ValueError -/
  fieldErrs : List String
  /-- the class could be built (no definition-time error); everything below is default otherwise -/
  built     : Bool
  status    : StQ
  /-- `C.__lt__(x, y)` … called directly -/
  direct    : ResQ
  /-- value comparisons performed by each direct call, in order: `tag:eq` (an `==`) / `tag:ord` (an ordering operator) -/
  trace     : TrQ
  /-- `x < y`, `x <= y`, `x > y`, `x >= y` -/
  ops       : ResQ
  /-- `y < x`, `y <= x`, `y > x`, `y >= x` -/
  rops      : ResQ
  /-- attributes found on the operands after the comparisons that are not fields (comparing is pure:
      `_make_order`'s closures store nothing on the instances) -/
  residue   : List String
  /-- applications of key functions during each direct call, in order: `name:view` (the key of every
      keyed order field is applied to self's value, then to other's, on every comparison) -/
  keys      : TrQ
  deriving DecidableEq, Repr, FromJson, ToJson, Inhabited

/-! ### `_determine_attrib_eq_order(cmp, eq, order, default_eq=True)` -/

/-- `decide_callable_or_boolean`: (value, has key) -/
def decideCallable : FArg → Bool × Bool
  | .key => (true, true)
  | .t => (true, false)
  | _ => (false, false)     -- `.f`; `.unset` is never passed here

/-- Effective per-field settings: `(eq, eqView, order, orderView)`, or `none` when the call raises
    ValueError.  The view names the key function that ended up in `eq_key` / `order_key`. -/
def determineAttrib (cmp eq order : FArg) : Option (Bool × View × Bool × View) :=
  if cmp != .unset && (eq != .unset || order != .unset) then none
  else if cmp != .unset then
    let (v, k) := decideCallable cmp
    let vw := if k then View.ck else View.raw
    some (v, vw, v, vw)
  else
    let (e, ev) :=
      if eq == .unset then (true, View.raw)
      else let (v, k) := decideCallable eq; (v, if k then View.ek else View.raw)
    let (o, ov) :=
      if order == .unset then (e, ev)
      else let (v, k) := decideCallable order; (v, if k then View.ok else View.raw)
    if e == false && o == true then none else some (e, ev, o, ov)

def Field.resolved (f : Field) : Option (Bool × View × Bool × View) := determineAttrib f.cmp f.eq f.order

/-- `a.order` -/
def Field.orderPart (f : Field) : Bool := match f.resolved with | some (_, _, o, _) => o | none => false
/-- which object `attrs_to_tuple` puts in the tuple (`a.order_key`) -/
def Field.orderView (f : Field) : View := match f.resolved with | some (_, _, _, v) => v | none => .raw

/-! ### class level: `_determine_attrs_eq_order`, `_determine_whether_to_implement` -/

/-- an argument as the callee sees it: the keyword default (from the T1 table) when not passed;
    `none` is Python's None.  A keyword the callee does not have is a TypeError when passed. -/
def argValue (tbl : List (String × Lit)) (kw : String) (a : Arg4) : Except DefErr (Option Bool) :=
  match kwDefault tbl kw, a with
  | none, .unset => .ok none
  | none, _ => .error .typeError
  | some (.bool b), .unset => .ok (some b)
  | some _, .unset => .ok none
  | some _, .non => .ok none
  | some _, .t => .ok (some true)
  | some _, .f => .ok (some false)

def autoDetectValue (tbl : List (String × Lit)) (a : Arg3) : Bool :=
  match a with
  | .t => true
  | .f => false
  | .unset => match kwDefault tbl "auto_detect" with | some (.bool b) => b | _ => false

/-- `_determine_attrs_eq_order(cmp, eq, order, default_eq)` -/
def determineAttrs (cmp eq order defaultEq : Option Bool) : Except DefErr (Option Bool × Option Bool) :=
  if cmp.isSome && (eq.isSome || order.isSome) then .error .valueError
  else match cmp with
  | some b => .ok (some b, some b)
  | none =>
    let eq := if eq.isNone then defaultEq else eq
    let order := if order.isNone then eq else order
    if eq == some false && order == some true then .error .valueError else .ok (eq, order)

/-- `_determine_whether_to_implement(cls, flag, auto_detect, dunders, default=True)` -/
def whetherToImplement (flag : Option Bool) (autoDetect hasOwn : Bool) : Bool :=
  match flag with
  | some b => b
  | none => if !autoDetect then true else !hasOwn

/-- effective class-level `(eq_, order_)` of `attrs(...)` for each front-end -/
def classFlags (c : Case) : Except DefErr (Option Bool × Option Bool) :=
  match c.api with
  | .attrS => do
    let cmp ← argValue Generated.attrsKw "cmp" c.cmp
    let eq ← argValue Generated.attrsKw "eq" c.eq
    let order ← argValue Generated.attrsKw "order" c.order
    determineAttrs cmp eq order none
  | .define => do
    let _ ← argValue Generated.defineKw "cmp" c.cmp
    let eq ← argValue Generated.defineKw "eq" c.eq
    let order ← argValue Generated.defineKw "order" c.order
    determineAttrs none eq order none
  | .makeClass => do
    -- make_class: `attributes_arguments.pop("cmp", None)`, `.get("eq")`, `.get("order")`, default_eq = True;
    -- the results are then passed on to `attrs(eq=…, order=…)`
    let cmp ← argValue Generated.attrsKw "cmp" (if c.cmp == .unset then .non else c.cmp)
    let eq ← argValue Generated.attrsKw "eq" (if c.eq == .unset then .non else c.eq)
    let order ← argValue Generated.attrsKw "order" (if c.order == .unset then .non else c.order)
    let (e, o) ← determineAttrs cmp eq order (some true)
    determineAttrs none e o none

def autoDetect (c : Case) : Bool :=
  match c.api with
  | .define => autoDetectValue Generated.defineKw c.autoDetect
  | _ => autoDetectValue Generated.attrsKw c.autoDetect

def clsErr (c : Case) : DefErr := match classFlags c with | .ok _ => .ok | .error e => e

/-- does `wrap` call `builder.add_order()` for C -/
def generated (c : Case) : Bool :=
  match classFlags c with
  | .ok (_, order) => whetherToImplement order (autoDetect c) (!c.own.isEmpty)
  | .error _ => false

def fieldErrs (c : Case) : List String := (c.fields.filter (fun f => f.resolved.isNone)).map (·.name)

def built (c : Case) : Bool := clsErr c == .ok && (fieldErrs c).isEmpty

def statusOf (c : Case) (op : Op) : Status :=
  if generated c then .gen
  else if c.own.contains op then .user
  else if c.baseOrdered then .inh
  else .dflt

/-! ### `_make_order` and tuple comparison -/

/-- one position of the two order tuples, as the tuple comparison sees it -/
structure Item where
  tag  : String
  same : Bool
  s    : Script
  deriving DecidableEq, Repr, Inhabited

def View.suffix : View → String
  | .raw => "" | .ek => ":ek" | .ok => ":ok" | .ck => ":ck"

def Field.pair (f : Field) : View → Pair
  | .raw => f.raw | .ek => f.ek | .ok => f.ok | .ck => f.ok

/-- the item for field `f` when the left tuple belongs to `x` (`fwd = true`) or to `y` -/
def mkItem (fwd identical : Bool) (f : Field) : Item :=
  let v := f.orderView
  let p := f.pair v
  { tag := f.name ++ v.suffix,
    same := identical || f.raw.same || (v != .raw && p.same),
    s := if fwd then p.s else p.s.mirror }

/-- the attribute list of C (`baseOnly = false`: inherited fields first, then own) or of Base -/
def attrList (c : Case) (baseOnly : Bool) : List Field :=
  if baseOnly then c.fields.filter (·.inBase)
  else c.fields.filter (·.inBase) ++ c.fields.filter (fun f => !f.inBase)

/-- `attrs = [a for a in attrs if a.order]` zipped over both operands -/
def orderItems (c : Case) (baseOnly fwd : Bool) : List Item :=
  ((attrList c baseOnly).filter Field.orderPart).map (mkItem fwd (c.rhs == .identical))

/-- both tuples have the same length here: `<`/`>` of equal lengths is False, `<=`/`>=` True -/
def lenRes : Op → Res
  | .lt | .gt => .F
  | .le | .ge => .T

/-- CPython's `tuplerichcompare` for `<`, `<=`, `>`, `>=` on two tuples of equal length:
    result and the value comparisons performed. -/
def tupleCmp (op : Op) : List Item → Res × List String
  | [] => (lenRes op, [])
  | it :: rest =>
    if it.same then tupleCmp op rest                    -- identity shortcut of RichCompareBool
    else if it.s.eq == .raises then (.raised, [it.tag ++ ":eq"])
    else if it.s.eq.isTruthy then
      let r := tupleCmp op rest
      (r.1, (it.tag ++ ":eq") :: r.2)
    else (Res.ofOut (it.s.get op), [it.tag ++ ":eq", it.tag ++ ":ord"])

/-! ### methods and operators -/

inductive Kls where
  | C | D | B | F
  deriving DecidableEq, Repr, Inhabited

/-- the implementation a method name resolves to on a class -/
inductive Impl where
  | gen (baseOnly : Bool)   -- attrs closure over C's (or Base's) order attributes
  | user
  | dflt                    -- object's: NotImplemented
  deriving DecidableEq, Repr, Inhabited

def rhsKls : Rhs → Kls
  | .same | .identical => .C
  | .sub => .D
  | .super => .B
  | .foreign => .F

def implOfStatus : Status → Impl
  | .gen => .gen false
  | .user => .user
  | .inh => .gen true
  | .dflt => .dflt

def resolve (c : Case) : Kls → Op → Impl
  | .C, op => implOfStatus (statusOf c op)
  | .D, op => if c.subOrdered then .gen false else implOfStatus (statusOf c op)
  | .B, _ => if c.baseOrdered then .gen true else .dflt
  | .F, _ => .dflt      -- an unrelated class: its methods (attrs-generated or object's) say NotImplemented

/-- `K.__op__(self, other)` where `self` is `x` (`selfIsX`) or `y`; the other operand is the other one -/
def callImpl (c : Case) (impl : Impl) (op : Op) (selfIsX : Bool) : Res × List String :=
  match impl with
  | .gen baseOnly =>
    if rhsKls c.rhs == .C then tupleCmp op (orderItems c baseOnly selfIsX) else (.NI, [])
  | .user => (.user, [])
  | .dflt => (.NI, [])

/-- `T` is a proper subclass of `S` -/
def properSub : Kls → Kls → Bool
  | .D, .C | .D, .B | .C, .B => true
  | _, _ => false

/-- CPython's `do_richcompare` for `l op r`, `l` being `x` (`lIsX`) or `y` -/
def binop (c : Case) (op : Op) (lIsX : Bool) : Res :=
  let kx := Kls.C
  let ky := rhsKls c.rhs
  let (kl, kr) := if lIsX then (kx, ky) else (ky, kx)
  let reflected := (callImpl c (resolve c kr op.swap) op.swap (!lIsX)).1
  let direct := (callImpl c (resolve c kl op) op lIsX).1
  if properSub kr kl then
    if reflected != .NI then reflected
    else if direct != .NI then direct
    else .typeErr
  else
    if direct != .NI then direct
    else if reflected != .NI then reflected
    else .typeErr

/-- the order fields that go through a key function, as `name:view`, in tuple order -/
def keyTags (c : Case) (baseOnly : Bool) : List String :=
  ((attrList c baseOnly).filter (fun f => f.orderPart && f.orderView != .raw)).map
    (fun f => f.name ++ f.orderView.suffix)

/-- key applications of one method call: `attrs_to_tuple(self)` then `attrs_to_tuple(other)`, after
    the class test; nothing is remembered between calls -/
def keyCalls (c : Case) (impl : Impl) : List String :=
  match impl with
  | .gen baseOnly => if rhsKls c.rhs == .C then keyTags c baseOnly ++ keyTags c baseOnly else []
  | _ => []

def directCall (c : Case) (op : Op) : Res × List String := callImpl c (resolve c .C op) op true

def model (c : Case) : Obs :=
  if built c then
    { clsErr := .ok, fieldErrs := [], built := true,
      status := ⟨statusOf c .lt, statusOf c .le, statusOf c .gt, statusOf c .ge⟩,
      direct := ⟨(directCall c .lt).1, (directCall c .le).1, (directCall c .gt).1, (directCall c .ge).1⟩,
      trace := ⟨(directCall c .lt).2, (directCall c .le).2, (directCall c .gt).2, (directCall c .ge).2⟩,
      ops := ⟨binop c .lt true, binop c .le true, binop c .gt true, binop c .ge true⟩,
      rops := ⟨binop c .lt false, binop c .le false, binop c .gt false, binop c .ge false⟩,
      residue := [],
      keys := ⟨keyCalls c (resolve c .C .lt), keyCalls c (resolve c .C .le), keyCalls c (resolve c .C .gt),
               keyCalls c (resolve c .C .ge)⟩ }
  else
    { clsErr := clsErr c, fieldErrs := fieldErrs c, built := false,
      status := ⟨.dflt, .dflt, .dflt, .dflt⟩,
      direct := ⟨.other, .other, .other, .other⟩,
      trace := ⟨[], [], [], []⟩,
      ops := ⟨.other, .other, .other, .other⟩,
      rops := ⟨.other, .other, .other, .other⟩,
      residue := [],
      keys := ⟨[], [], [], []⟩ }

end Attrs.C09
