/-
  Shared model of the generated initializer (C01, C02, C05, C06, C12).

  Mirrors, in src/attr/_make.py: `_make_init_script` (filtering, `needs_cached_setattr`),
  `_attrs_to_init_script` (parameter list, per-field statements, validator block, post-init, hash-cache
  reset, BaseException.__init__, pre-init argument list), `_determine_setters` / `_assign` / `_setattr`
  (store technique), `_is_slot_attr` with `base_attr_map` as `_collect_base_attrs{,_broken}` build it,
  `Converter._fmt_converter_call`, `pipe` (converter chains run member by member), `_ClassBuilder.add_setattr` (which names get a hook), and CPython's
  argument binding for this parameter shape.

  Values are symbolic strings built the same way by the harness callbacks (`conv.x(t1,self)`), so
  results are parametric in the data.  Effects are a trace of callback events; a fault is "this
  callback raises".
-/
import AttrsModel.Core
import AttrsModel.Generated.Tables

namespace Attrs.Init
open Lean

abbrev Val := String

inductive Dflt where
  | none | value | factory (takesSelf : Bool)
  deriving DecidableEq, Repr, FromJson, ToJson, Inhabited

structure Conv where
  takesSelf : Bool
  takesField : Bool
  deriving DecidableEq, Repr, FromJson, ToJson, Inhabited

/-- field-level `on_setattr`: not given / `setters.NO_OP` / a hook or list of hooks -/
inductive OnSet where
  | unset | noop | hooks
  deriving DecidableEq, Repr, FromJson, ToJson, Inhabited

inductive Pre where
  | none | noArgs | withArgs
  deriving DecidableEq, Repr, FromJson, ToJson, Inhabited

structure Attr where
  name : String
  alias : String
  dflt : Dflt
  init : Bool
  kwOnly : Bool
  conv : Option Conv
  /-- number of validators in the field's `and_` chain (0 = no validator) -/
  validators : Nat
  onSet : OnSet
  /-- CPython layout truth: a slot descriptor of that name exists along the MRO of the class -/
  isSlot : Bool
  /-- the field's type annotation and the converter's first-parameter annotation (as reprs) -/
  type : Option String
  convType : Option String
  /-- `converter=[c0, c1, …]` / `converters.pipe(c0, c1, …)`: the members of the chain, left to right (what each asks
      for: `Converter(takes_self, takes_field)`, a plain callable asks for nothing).  `conv` is then the shape of the
      ONE call the generated initializer makes (`pipe()` returns a plain callable if no member is a `Converter`,
      otherwise `Converter(pipe_converter, takes_self=True, takes_field=True)`); `none` = a single converter. -/
  pipe : Option (List Conv) := none
  deriving DecidableEq, Repr, FromJson, ToJson, Inhabited

/-- What `_collect_base_attrs*` sees of one class of `cls.__mro__[1:-1]`: whether `__slots__` is in its
    own `__dict__`, and the `__attrs_attrs__` the collector in use reads from it as (name, inherited flag):
    the class's *own* tuple for `_collect_base_attrs` (empty for a plain class), the *resolved* one
    (`getattr`) for `_collect_base_attrs_broken`. -/
structure BaseInfo where
  hasSlotsDunder : Bool
  attrs : List (String × Bool)
  deriving DecidableEq, Repr, FromJson, ToJson, Inhabited

structure Cfg where
  frozen : Bool
  slots : Bool
  cacheHash : Bool
  isExc : Bool
  pre : Pre
  post : Bool
  /-- `has_cls_on_setattr`: class-level on_setattr that is neither None nor NO_OP, after the builder's
      "nothing to convert/validate" normalisation -/
  clsHook : Bool
  runValidators : Bool
  collectByMro : Bool
  deriving DecidableEq, Repr, FromJson, ToJson, Inhabited

/-- identifies one callback invocation: kind ∈ pre | factory | conv | validator | post | hook -/
structure EventId where
  kind : String
  field : String
  idx : Nat
  deriving DecidableEq, Repr, FromJson, ToJson, Inhabited

structure Event where
  id : EventId
  args : List Val
  deriving DecidableEq, Repr, FromJson, ToJson, Inhabited

structure Call where
  pos : List Val
  kw : List (String × Val)
  deriving DecidableEq, Repr, FromJson, ToJson, Inhabited

inductive Exc where
  | typeError | attributeError | user | frozenInstance | valueError | notFound | other
  deriving DecidableEq, Repr, FromJson, ToJson, Inhabited

/-! ## Parameters and binding -/

structure Param where
  name : String
  kwOnly : Bool
  /-- the default expression's value if the parameter is optional -/
  dflt : Option Val
  deriving DecidableEq, Repr, FromJson, ToJson, Inhabited

def NOTHING : Val := "NOTHING"
def dfltVal (a : Attr) : Val := "dflt." ++ a.name

def paramOf (a : Attr) : Param :=
  { name := a.alias, kwOnly := a.kwOnly,
    dflt := match a.dflt with
      | .none => Option.none
      | .value => some (dfltVal a)
      | .factory _ => some NOTHING }

/-- `args` then `kw_only_args` of `_attrs_to_init_script`: init fields only, positional ones in field
    order first, keyword-only ones in field order after them. -/
def params (attrs : List Attr) : List Param :=
  let ps := (attrs.filter (·.init)).map paramOf
  ps.filter (!·.kwOnly) ++ ps.filter (·.kwOnly)

def lookup (k : String) : List (String × Val) → Option Val
  | [] => none
  | (k', v) :: rest => if k' == k then some v else lookup k rest

/-- the positional parameters that receive the call's positional arguments -/
def posTaken (ps : List Param) (c : Call) : List Param := (ps.filter (!·.kwOnly)).take c.pos.length

def supplied (ps : List Param) (c : Call) (p : Param) : Bool :=
  (posTaken ps c).any (·.name == p.name) || c.kw.any (·.1 == p.name)

/-- CPython accepts a call of `def __init__(self, p1, …, *, k1, …)` iff: not too many positional arguments,
    every keyword names a parameter, no parameter gets two values, no mandatory parameter is left without
    one.  (Keyword names within one call are distinct by Python's syntax.) -/
def callOk (ps : List Param) (c : Call) : Bool :=
  c.pos.length ≤ (ps.filter (!·.kwOnly)).length &&
  c.kw.all (fun kv => ps.any (·.name == kv.1)) &&
  c.kw.all (fun kv => !(posTaken ps c).any (·.name == kv.1)) &&
  ps.all (fun p => p.dflt.isSome || supplied ps c p)

/-- the value passed for parameter `n`, if any: positional first, then keyword -/
def passed (ps : List Param) (c : Call) (n : String) : Option Val :=
  match lookup n ((posTaken ps c).map (·.name) |>.zip c.pos) with
  | some v => some v
  | none => lookup n c.kw

/-- CPython's binding of `call` to the parameter list: `none` = TypeError, otherwise every parameter bound to
    the passed value or its default.  This is the trusted-as-Python fragment (stated declaratively; the
    correspondence check compares it with real calls, malformed ones included). -/
def bind (ps : List Param) (c : Call) : Option (List (String × Val)) :=
  if callOk ps c then
    some (ps.map (fun p => (p.name, (passed ps c p.name).getD (p.dflt.getD "?"))))
  else none

/-! ## Slot belief (`_is_slot_attr` over `base_attr_map`) -/

/-- `_collect_base_attrs`: walk `reversed(mro[1:-1])`, later (nearer) classes overwrite. `bases` is
    `mro[1:-1]` in MRO order. Returns the class recorded for `n`. -/
def baseMapMro (own : List String) (bases : List BaseInfo) (n : String) : Option BaseInfo :=
  bases.find? (fun b => b.attrs.any (fun (m, inh) => m == n && !inh && !own.contains m))

/-- `_collect_base_attrs_broken`: walk `mro[1:-1]` front to back, first class mentioning the name wins
    (inherited copies count). -/
def baseMapLegacy (own : List String) (bases : List BaseInfo) (n : String) : Option BaseInfo :=
  if own.contains n then none else bases.find? (fun b => b.attrs.any (fun (m, _) => m == n))

def slotBelief (collectByMro : Bool) (own : List String) (bases : List BaseInfo) (n : String) : Bool :=
  match (if collectByMro then baseMapMro own bases n else baseMapLegacy own bases n) with
  | some b => b.hasSlotsDunder
  | none => false

/-! ## Store techniques -/

/-- `has_on_setattr` of `_attrs_to_init_script` -/
def hasOnSetattr (cfg : Cfg) (a : Attr) : Bool :=
  a.onSet != .unset || (a.onSet != .noop && cfg.clsHook)

/-- `sa_attrs` of `add_setattr`: the names whose assignment runs a hook -/
def inSaAttrs (cfg : Cfg) (a : Attr) : Bool :=
  match a.onSet with
  | .hooks => true
  | .noop => false
  | .unset => cfg.clsHook

inductive Tech where
  | assign      -- `self.x = v`            (goes through the class's `__setattr__`)
  | setattr     -- `_setattr('x', v)`      (cached `object.__setattr__`)
  | instDict    -- `_inst_dict['x'] = v`
  deriving DecidableEq, Repr, Inhabited

/-- `_determine_setters`; `belief` is `_is_slot_attr(name, base_attr_map)` -/
def tech (cfg : Cfg) (belief : Bool) (a : Attr) : Tech :=
  if cfg.frozen then
    if cfg.slots then .setattr
    else if (a.conv.isSome && hasOnSetattr cfg a) || belief then .setattr
    else .instDict
  else if hasOnSetattr cfg a then .setattr else .assign

/-! ## Machine state -/

/-- where a value physically lives -/
inductive Loc where
  | dict | slot
  deriving DecidableEq, Repr, Inhabited

structure St where
  mem : String → Loc → Option Val
  trace : List Event
  raised : Option Exc

def St.init : St := { mem := fun _ _ => none, trace := [], raised := none }

def St.write (st : St) (n : String) (l : Loc) (v : Val) : St :=
  { st with mem := fun n' l' => if n' = n ∧ l' = l then some v else st.mem n' l' }

def readLoc (a : Attr) : Loc := if a.isSlot then .slot else .dict

/-- attribute lookup: a slot descriptor on the class shadows the instance dict -/
def St.read (st : St) (a : Attr) : Option Val := st.mem a.name (readLoc a)

/-- a callback runs: it is recorded, and raises if it is the faulty one -/
def St.emit (st : St) (fault : Option EventId) (e : Event) : St :=
  { st with trace := st.trace ++ [e], raised := if fault = some e.id then some .user else st.raised }

/-- where each technique puts the value.  `assign` on a class whose `__setattr__` hooks the name would run
    the hook (recorded as a `hook` event): `C02_no_hooks` shows this never happens. -/
def St.store (st : St) (cfg : Cfg) (fault : Option EventId) (t : Tech) (a : Attr) (v : Val) : St :=
  match t with
  | .instDict => st.write a.name .dict v
  | .setattr => st.write a.name (readLoc a) v
  | .assign =>
    if inSaAttrs cfg a then
      let st' := st.emit fault { id := { kind := "hook", field := a.name, idx := 0 }, args := [v] }
      if st'.raised.isSome then st' else st'.write a.name (readLoc a) ("hook." ++ a.name ++ "(" ++ v ++ ")")
    else st.write a.name (readLoc a) v

/-! ## Symbolic callbacks -/

def factoryArgs (ts : Bool) : List Val := if ts then ["self"] else []
def factoryVal (a : Attr) (ts : Bool) : Val :=
  "factory." ++ a.name ++ "(" ++ (if ts then "self" else "") ++ ")"

def convArgs (c : Conv) (v : Val) : List Val :=
  [v] ++ (if c.takesSelf then ["self"] else []) ++ (if c.takesField then ["attr." ++ "field"] else [])

/-- `Converter._fmt_converter_call`: value, then instance and/or field if requested -/
def convVal (a : Attr) (c : Conv) (v : Val) : Val :=
  "conv." ++ a.name ++ "(" ++ v ++ (if c.takesSelf then ",self" else "")
    ++ (if c.takesField then ",attr." ++ a.name else "") ++ ")"

def convEventArgs (a : Attr) (c : Conv) (v : Val) : List Val :=
  [v] ++ (if c.takesSelf then ["self"] else []) ++ (if c.takesField then ["attr." ++ a.name] else [])

/-! ## Converter chains (`pipe`) -/

/-- the arguments a converter of field `n` receives: the value, then instance and/or field if requested -/
def convEventArgsN (n : String) (c : Conv) (v : Val) : List Val :=
  [v] ++ (if c.takesSelf then ["self"] else []) ++ (if c.takesField then ["attr." ++ n] else [])

/-- the symbolic result of member `i` of the converter chain of field `n`; member 0 prints like a single converter -/
def convValAt (n : String) (i : Nat) (c : Conv) (v : Val) : Val :=
  (if i = 0 then "conv." else "conv" ++ toString i ++ ".") ++ n ++ "(" ++ v ++ (if c.takesSelf then ",self" else "")
    ++ (if c.takesField then ",attr." ++ n else "") ++ ")"

/-- `pipe_converter` of `pipe()` for field `n`: the members run left to right, each on the result of the previous
    one, each given the instance and/or the field if it asked for them; member `i` is event `conv`/`idx i`.  A member
    that raises ends the chain (the value returned alongside is then meaningless). -/
def runConvs (fault : Option EventId) (n : String) : Nat → List Conv → Val → St → St × Val
  | _, [], v, st => (st, v)
  | i, c :: cs, v, st =>
    let st1 := st.emit fault { id := { kind := "conv", field := n, idx := i }, args := convEventArgsN n c v }
    if st1.raised.isSome then (st1, v) else runConvs fault n (i + 1) cs (convValAt n i c v) st1

/-- the value a chain of members starting at index `i` turns `v` into -/
def pipeVal (n : String) : Nat → List Conv → Val → Val
  | _, [], v => v
  | i, c :: cs, v => pipeVal n (i + 1) cs (convValAt n i c v)

/-- the callbacks of a chain of members starting at index `i`, with the value each receives -/
def pipeEvents (n : String) : Nat → List Conv → Val → List Event
  | _, [], _ => []
  | i, c :: cs, v =>
    { id := { kind := "conv", field := n, idx := i }, args := convEventArgsN n c v } :: pipeEvents n (i + 1) cs (convValAt n i c v)

/-- the value a field ends up with for raw input `v`: once through its converter -- every member of a chain, left
    to right -- if any -/
def convApply (a : Attr) (v : Val) : Val :=
  match a.conv with
  | none => v
  | some c =>
    match a.pipe with
    | none => convVal a c v
    | some ms => pipeVal a.name 0 ms v

/-- the converter callbacks of a field for raw input `v`, with the value each receives: one event for a single
    converter, one per member (`idx` = position) for a chain -/
def convEventsOf (a : Attr) (v : Val) : List Event :=
  match a.conv with
  | none => []
  | some c =>
    match a.pipe with
    | none => [{ id := { kind := "conv", field := a.name, idx := 0 }, args := convEventArgs a c v }]
    | some ms => pipeEvents a.name 0 ms v

/-- how many converter callbacks a field has: the members of its chain, 1 for a single converter -/
def convCount (a : Attr) : Nat :=
  match a.conv with
  | none => 0
  | some _ =>
    match a.pipe with
    | none => 1
    | some ms => ms.length

/-! ## The initializer -/

/-- `x = conv(v)` through technique `t`: converter event(s) (may raise), then the store -/
def setField (cfg : Cfg) (fault : Option EventId) (belief : Bool) (a : Attr) (v : Val) (st : St) : St :=
  match a.conv with
  | none => st.store cfg fault (tech cfg belief a) a v
  | some c =>
    match a.pipe with
    | none =>
      let st1 := st.emit fault { id := { kind := "conv", field := a.name, idx := 0 }, args := convEventArgs a c v }
      if st1.raised.isSome then st1 else st1.store cfg fault (tech cfg belief a) a (convVal a c v)
    | some ms =>
      let r := runConvs fault a.name 0 ms v st
      if r.1.raised.isSome then r.1 else r.1.store cfg fault (tech cfg belief a) a r.2

def callFactory (fault : Option EventId) (a : Attr) (ts : Bool) (st : St) : St :=
  st.emit fault { id := { kind := "factory", field := a.name, idx := 0 }, args := factoryArgs ts }

/-- the statements generated for one attribute -/
def stepAttr (cfg : Cfg) (fault : Option EventId) (belief : String → Bool) (env : List (String × Val))
    (st : St) (a : Attr) : St :=
  if st.raised.isSome then st else
  let viaFactory (ts : Bool) : St :=
    let st1 := callFactory fault a ts st
    if st1.raised.isSome then st1 else setField cfg fault (belief a.name) a (factoryVal a ts) st1
  if !a.init then
    match a.dflt with
    | .none => st                                   -- filtered out: no statement
    | .value => setField cfg fault (belief a.name) a (dfltVal a) st
    | .factory ts => viaFactory ts
  else
    match a.dflt, lookup a.alias env with
    | .factory ts, some v => if v = NOTHING then viaFactory ts else setField cfg fault (belief a.name) a v st
    | _, some v => setField cfg fault (belief a.name) a v st
    | _, none => { st with raised := some .other }   -- unreachable after a successful bind

/-- one validator call per entry of each field's chain, in field order: `v(inst, attr, inst.x)` -/
def validatorEvents (attrs : List Attr) : List (Attr × Nat) :=
  attrs.flatMap (fun a => (List.range a.validators).map (fun i => (a, i)))

def runValidator (fault : Option EventId) (st : St) (ai : Attr × Nat) : St :=
  if st.raised.isSome then st else
  match st.read ai.1 with
  | none => { st with raised := some .attributeError }   -- `self.x` on an unset attribute
  | some v => st.emit fault { id := { kind := "validator", field := ai.1.name, idx := ai.2 },
                              args := ["self", "attr." ++ ai.1.name, v] }

/-- attributes that get a statement: `filtered_attrs` of `_make_init_script` -/
def participates (a : Attr) : Bool := a.init || a.dflt != .none

def preArgs (attrs : List Attr) (env : List (String × Val)) : List Val :=
  let ps := params attrs
  (ps.filter (!·.kwOnly)).map (fun p => (lookup p.name env).getD "?") ++
  (ps.filter (·.kwOnly)).map (fun p => p.name ++ "=" ++ (lookup p.name env).getD "?")

def hashCacheAttr : Attr :=
  { name := Generated.hashCacheField, alias := "", dflt := .none, init := false, kwOnly := false,
    conv := none, validators := 0, onSet := .unset, isSlot := false, type := none, convType := none }

structure RunIn where
  cfg : Cfg
  attrs : List Attr
  own : List String          -- names of the class's own (non-inherited) fields
  bases : List BaseInfo
  /-- the hash cache field is a slot somewhere along the MRO -/
  cacheIsSlot : Bool
  fault : Option EventId
  deriving Repr, FromJson, ToJson, Inhabited

def RunIn.belief (r : RunIn) (n : String) : Bool := slotBelief r.cfg.collectByMro r.own r.bases n

/-- the body of the generated `__init__`, after argument binding -/
def body (r : RunIn) (env : List (String × Val)) : St :=
  let cfg := r.cfg
  let st0 := St.init
  -- self.__attrs_pre_init__(…)
  let st1 := match cfg.pre with
    | .none => st0
    | .noArgs => st0.emit r.fault { id := { kind := "pre", field := "", idx := 0 }, args := [] }
    | .withArgs => st0.emit r.fault { id := { kind := "pre", field := "", idx := 0 }, args := preArgs r.attrs env }
  -- per-field statements
  let st2 := (r.attrs.filter participates).foldl (stepAttr cfg r.fault r.belief env) st1
  -- if _config._run_validators is True: …
  let st3 := if cfg.runValidators then
      (validatorEvents (r.attrs.filter participates)).foldl (runValidator r.fault) st2 else st2
  -- self.__attrs_post_init__()
  let st4 := if st3.raised.isSome || !cfg.post then st3 else
      st3.emit r.fault { id := { kind := "post", field := "", idx := 0 }, args := [] }
  -- hash cache reset
  let st5 := if st4.raised.isSome || !cfg.cacheHash then st4 else
      let c := { hashCacheAttr with isSlot := r.cacheIsSlot }
      if cfg.frozen && !cfg.slots then st4.write c.name .dict "None" else st4.write c.name (readLoc c) "None"
  st5

/-- `BaseException.__init__(self, self.x, …)` for init fields: `args`, or AttributeError if one is unset -/
def excArgs (attrs : List Attr) (st : St) : Option (List Val) :=
  ((attrs.filter participates).filter (·.init)).mapM st.read

/-! ## Observation of one constructor call -/

structure ParamObs where
  name : String
  kwOnly : Bool
  optional : Bool
  deriving DecidableEq, Repr, FromJson, ToJson, Inhabited

structure Obs where
  /-- `inspect.signature` of the initializer without `self` -/
  sig : List ParamObs
  /-- `__init__.__annotations__` without `return`, sorted by name -/
  annotations : List (String × String)
  /-- exception kind if the call raised -/
  exc : Option Exc
  /-- for every field, in field order: the value found on the instance afterwards, or unset -/
  values : List (String × Option Val)
  trace : List Event
  /-- `inst.args` for auto_exc exception classes when the call returned -/
  excArgs : Option (List Val)
  /-- the hash cache attribute as attribute lookup sees it (cache_hash classes) -/
  cache : Option Val
  deriving DecidableEq, Repr, FromJson, ToJson, Inhabited

def sigOf (attrs : List Attr) : List ParamObs :=
  (params attrs).map (fun p => { name := p.name, kwOnly := p.kwOnly, optional := p.dflt.isSome })

/-- insertion sort by key (annotations are compared as a sorted list) -/
def insertKV (kv : String × String) : List (String × String) → List (String × String)
  | [] => [kv]
  | x :: xs => if kv.1 < x.1 then kv :: x :: xs else x :: insertKV kv xs

def sortKV (l : List (String × String)) : List (String × String) := l.foldr insertKV []

/-- `annotations` of `_attrs_to_init_script`: the field type without a converter, the converter's
    first-parameter annotation with one -/
def annotationOf (a : Attr) : Option (String × String) :=
  if a.init then
    match a.conv, a.type, a.convType with
    | none, some t, _ => some (a.alias, t)
    | some _, _, some t => some (a.alias, t)
    | _, _, _ => none
  else none

def annotationsOf (attrs : List Attr) : List (String × String) :=
  sortKV ((attrs.filter participates).filterMap annotationOf)

/-- class-level `on_setattr=` as written -/
inductive ClsOnSet where
  | unset | noop | hook | validate | convert | pipeCV
  deriving DecidableEq, Repr, FromJson, ToJson, Inhabited

/-- `has_cls_on_setattr` as `define.wrap` (default pipe for mutable classes, NO_OP below a frozen base),
    `_ClassBuilder.__init__` (drop convert/validate hooks when there is nothing to convert/validate) and
    `_make_init_script` compute it.  `isDefine`: the next-gen API; `frozen`: the class is frozen (own or
    inherited). -/
def clsHookOf (isDefine : Bool) (frozen : Bool) (k : ClsOnSet) (attrs : List Attr) : Bool :=
  let anyV := attrs.any (fun a => a.validators != 0)
  let anyC := attrs.any (fun a => a.conv.isSome)
  if frozen then false else
  -- define's implicit default is the `_DEFAULT_ON_SETATTR` object itself, which the builder drops when there
  -- is nothing to convert or validate (an identity test, as for the bare `setters.validate`/`convert`);
  -- an explicitly written `[convert, validate]` list is a fresh pipe object and is always kept
  if isDefine && k == .unset then anyV || anyC else
  match k with
  | .unset | .noop => false
  | .hook | .pipeCV => true
  | .validate => anyV
  | .convert => anyC

structure Case where
  run : RunIn
  call : Call
  isDefine : Bool
  clsOnSet : ClsOnSet
  deriving Repr, FromJson, ToJson, Inhabited

/-- the run input with `clsHook` derived from the class-level arguments -/
def Case.eff (c : Case) : RunIn :=
  { c.run with cfg := { c.run.cfg with
      clsHook := clsHookOf c.isDefine c.run.cfg.frozen c.clsOnSet c.run.attrs } }

def runInit (c : Case) : Obs :=
  let r := c.eff
  let unset := r.attrs.map (fun a => (a.name, (none : Option Val)))
  match bind (params r.attrs) c.call with
  | none => { sig := sigOf r.attrs, annotations := annotationsOf r.attrs, exc := some .typeError,
              values := unset, trace := [], excArgs := none, cache := none }
  | some env =>
    let st := body r env
    let vals := r.attrs.map (fun a => (a.name, st.read a))
    let cache := if r.cfg.cacheHash then st.read { hashCacheAttr with isSlot := r.cacheIsSlot } else none
    match st.raised with
    | some e => { sig := sigOf r.attrs, annotations := annotationsOf r.attrs, exc := some e,
                  values := vals, trace := st.trace, excArgs := none, cache := cache }
    | none =>
      if r.cfg.isExc then
        match excArgs r.attrs st with
        | some args => { sig := sigOf r.attrs, annotations := annotationsOf r.attrs, exc := none,
                         values := vals, trace := st.trace, excArgs := some args, cache := cache }
        | none => { sig := sigOf r.attrs, annotations := annotationsOf r.attrs, exc := some .attributeError,
                    values := vals, trace := st.trace, excArgs := none, cache := cache }
      else { sig := sigOf r.attrs, annotations := annotationsOf r.attrs, exc := none,
             values := vals, trace := st.trace, excArgs := none, cache := cache }

end Attrs.Init
