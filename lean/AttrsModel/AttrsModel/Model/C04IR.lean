/-
  C04, T3 — an IR for exactly the text `_make_hash_script` (src/attr/_make.py) emits, the model's generator of
  that IR, and the IR's meaning over the value domain of `Model/C04.lean`.

  The emitted method is

      def __hash__(self):                                   -- or, with cache_hash:
      def __hash__(self, *, _cache_wrapper=__import__('attr._make')._make._CacheHashWrapper):
          return hash((                                     --     if self._attrs_cached_hash is None:
              <type salt>,                                  --         self._attrs_cached_hash = _cache_wrapper(hash((
              self.<f>,                                     --           … )))            (non-frozen)
              __attr_key_<g>(self.<g>),                     --         object.__setattr__(self, '_attrs_cached_hash',
          ))                                                --           _cache_wrapper(hash(( … ))))   (frozen)
                                                            --     return self._attrs_cached_hash

  Fields are referred to by position in `__attrs_attrs__` (the parser resolves attribute names strictly: the name
  read must be the attribute name of that field).  For every helper global the parser records what the name is
  bound to in the globals the method really runs with.  Exception classes never get a generated `__hash__`
  (auto_exc) or get the same text (auto_exc off); frozen-ness only changes how the cache is stored.
-/
import AttrsModel.Model.C04

namespace Attrs.C04.IR
open Lean Attrs.C04

/-- what a helper global is bound to in the method's `__globals__` -/
inductive Binding where
  | own       -- the key function object given to this very field of this very class
  | foreign   -- some other object
  | missing   -- not bound at all
  deriving DecidableEq, Repr, FromJson, ToJson, Inhabited

/-- one element of the hashed tuple -/
inductive Operand where
  /-- the integer literal `hash("<attrs generated hash <module>.<qualname>>")` of this class -/
  | salt
  /-- any other integer literal in the salt position -/
  | otherInt
  /-- `self.<name of field i>` -/
  | field (i : Nat)
  /-- `<key helper of field h>(self.<name of field i>)` -/
  | keyed (h : Nat) (bound : Binding) (i : Nat)
  /-- `self.<x>` for an `x` that is not the attribute name of any field -/
  | noSuchAttr (name : String)
  | unknown (src : String)
  deriving DecidableEq, Repr, FromJson, ToJson, Inhabited

/-- `hash(( … ))`, possibly inside `_cache_wrapper( … )` -/
structure HashExpr where
  wrapped  : Bool
  operands : List Operand
  deriving DecidableEq, Repr, FromJson, ToJson, Inhabited

inductive Store where
  | assign       -- `self.<cache> = <e>`
  | objSetattr   -- `object.__setattr__(self, '<cache>', <e>)`
  deriving DecidableEq, Repr, FromJson, ToJson, Inhabited

inductive Stmt where
  /-- `return hash(( … ))` -/
  | retHash (e : HashExpr)
  /-- `if self.<cache> is None: <store of e into cache>` -/
  | fillCache (cache : String) (how : Store) (e : HashExpr)
  /-- `return self.<cache>` -/
  | retCache (cache : String)
  | unknown (src : String)
  deriving DecidableEq, Repr, FromJson, ToJson, Inhabited

inductive Params where
  | plain    -- `(self)`
  /-- `(self, *, _cache_wrapper=__import__('attr._make')._make._CacheHashWrapper)`; `isWrapper`: the default
      really is `attr._make._CacheHashWrapper` -/
  | cached (isWrapper : Bool)
  | unknown (src : String)
  deriving DecidableEq, Repr, FromJson, ToJson, Inhabited

structure HashScript where
  params : Params
  body   : List Stmt
  /-- `hash` and `object` in the method's globals are the builtins -/
  builtinsOk : Bool
  deriving DecidableEq, Repr, FromJson, ToJson, Inhabited

def Operand.isUnknown : Operand → Bool
  | .unknown _ => true
  | _ => false

def HashExpr.hasUnknown (e : HashExpr) : Bool := e.operands.any Operand.isUnknown

def Stmt.hasUnknown : Stmt → Bool
  | .retHash e => e.hasUnknown
  | .fillCache _ _ e => e.hasUnknown
  | .retCache _ => false
  | .unknown _ => true

def HashScript.hasUnknown (s : HashScript) : Bool :=
  (match s.params with | .unknown _ => true | _ => false) || s.body.any Stmt.hasUnknown

/-! ## The model's generator -/

/-- the tuple elements after the salt, fields numbered from `k` -/
def genOperands : Nat → List Field → List Operand
  | _, [] => []
  | k, f :: fs =>
    if hashPart f then
      (if f.eq == .key then Operand.keyed k .own k else Operand.field k) :: genOperands (k + 1) fs
    else genOperands (k + 1) fs

/-- what `_make_hash_script(cls, attrs, frozen, cache_hash)` emits -/
def genHash (fields : List Field) (frozen cacheHash : Bool) : HashScript :=
  let ops := Operand.salt :: genOperands 0 fields
  if cacheHash then
    { params := .cached true,
      body := [.fillCache Generated.hashCacheField (if frozen then .objSetattr else .assign)
                 { wrapped := true, operands := ops },
               .retCache Generated.hashCacheField],
      builtinsOk := true }
  else
    { params := .plain, body := [.retHash { wrapped := false, operands := ops }], builtinsOk := true }

def genHashOf (n : Node) : HashScript := genHash n.fields n.facts.frozenEff n.facts.cacheOn

/-! ## Meaning -/

/-- the salt an `otherInt` literal stands for (differs from every class salt `k + 2`) -/
def otherSalt : Nat := 1

def evalOperand (c : Case) (salt : Nat) (vals : List Nat) : Operand → Except Out Nat
  | .salt => .ok salt
  | .otherInt => .ok otherSalt
  | .field i =>
    match vals[i]? with
    | some v => .ok (c.vh v)
    | none => .error .attributeError
  | .keyed _ b i =>
    -- `own`: the helper is bound to the key function given to the field it is named after (the parser
    -- says so only for a field that has one); the scripted domain has one key function
    match b, vals[i]? with
    | .own, some v => .ok (c.vh (c.key v))
    | .own, none => .error .attributeError
    | .foreign, _ => .error .typeError      -- somebody else's key function: anything may happen
    | .missing, _ => .error .other          -- NameError
  | .noSuchAttr _ => .error .attributeError
  | .unknown _ => .error .other

def evalOperands (c : Case) (salt : Nat) (vals : List Nat) : List Operand → Except Out (List Nat)
  | [] => .ok []
  | o :: os =>
    match evalOperand c salt vals o with
    | .error e => .error e
    | .ok v =>
      match evalOperands c salt vals os with
      | .error e => .error e
      | .ok vs => .ok (v :: vs)

/-- the name `self.<cache>` reads: the real cache field, or an attribute nobody ever sets -/
def readNamed (L : Layout) (x : Inst) (cache : String) : Cell :=
  if cache == Generated.hashCacheField then readCell L x else .absent

/-- run the statements; `none` = fell off the end (the method returns None) -/
def execStmts (c : Case) (L : Layout) (salt : Nat) :
    List Stmt → Bool → Inst → Out × List Nat × Bool × Inst
  | [], computed, x => (.typeError, [], computed, x)            -- `__hash__` returned None
  | .retHash e :: _, _, x =>
    (match evalOperands c salt x.vals e.operands with
     | .ok h => (.ok, h, true, x)
     | .error err => (err, [], true, x))
  | .fillCache cache _ e :: rest, computed, x =>
    (match readNamed L x cache with
     | .absent => (.attributeError, [], computed, x)
     | .full _ => execStmts c L salt rest computed x
     | .empty =>
       match evalOperands c salt x.vals e.operands with
       | .ok h =>
         if cache == Generated.hashCacheField then execStmts c L salt rest true (writeCell L x (.full h))
         else execStmts c L salt rest true x
       | .error err => (err, [], true, x))
  | .retCache cache :: _, computed, x =>
    (match readNamed L x cache with
     | .absent => (.attributeError, [], computed, x)
     | .empty => (.typeError, [], computed, x)
     | .full h => (.ok, h, computed, x))
  | .unknown _ :: _, computed, x => (.other, [], computed, x)

/-- `hash(x)` through the script: outcome, hash inputs returned, whether they were computed, new state -/
def execScript (c : Case) (L : Layout) (salt : Nat) (s : HashScript) (x : Inst) :
    Out × List Nat × Bool × Inst :=
  if !s.builtinsOk then (.other, [], false, x)
  else match s.params with
    | .unknown _ => (.other, [], false, x)
    | _ => execStmts c L salt s.body false x

/-- key-function calls / value `__hash__` calls a computing run of the expression makes -/
def HashExpr.nKey (e : HashExpr) : Nat :=
  (e.operands.filter (fun o => match o with | .keyed _ _ _ => true | _ => false)).length
def HashExpr.nVal (e : HashExpr) : Nat :=
  (e.operands.filter (fun o => match o with | .keyed _ _ _ => true | .field _ => true | _ => false)).length

def HashScript.counts (s : HashScript) : Nat × Nat :=
  match s.body.findSome? (fun st => match st with
      | .retHash e => some e | .fillCache _ _ e => some e | _ => none) with
  | some e => (e.nKey, e.nVal)
  | none => (0, 0)

end Attrs.C04.IR
