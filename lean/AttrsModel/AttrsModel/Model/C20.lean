/-
  C20 — the global validator switch.  Mirrors

  * src/attr/_config.py: the single cell `_run_validators`, `set_run_validators` (TypeError for a non-bool,
    cell untouched), `get_run_validators`;
  * src/attr/validators.py: `set_disabled` (`set_run_validators(not disabled)`: any argument is reduced to
    its truthiness first), `get_disabled`, and the generator context manager `disabled()`
    (`previous = get_run_validators(); set_run_validators(False); try: yield finally: set_run_validators(previous)`),
    one fresh manager object per `enter`; under LIFO use the saved `previous` values form a stack;
  * the three readers of the cell: the generated `__init__` / `__attrs_init__` (`if _config._run_validators is True:` block of
    `_attrs_to_init_script`, between the per-field statements — factories, converters — and the
    `__attrs_post_init__` call, after `__attrs_pre_init__`; through the shared initializer model
    `Model/Init.lean`, `Cfg.runValidators`/`pre`/`post`),
    `attr.validate(inst)` (`_make.py`) and `setters.validate` (`setters.py`);
  * which hook an assignment runs: `define.wrap` (default `[convert, validate]` for `on_setattr=None`),
    `attrib()`/`attrs()` (lists become `setters.pipe`), `_ClassBuilder.add_setattr`
    (`a.on_setattr or cls_on_setattr`, skipped for `NO_OP`), `setters.pipe`, `setters.convert`,
    `_AndValidator.__call__`.

  Callbacks are recorded as `Init.EventId`s (`conv`/`validator`/`hook`, field, index); `fault` names the one
  callback that raises whenever it is called.
-/
import AttrsModel.Model.Init

namespace Attrs.C20
open Attrs.Init Lean

/-- values passed to the two setters -/
inductive Arg where
  | T | F | int0 | int1 | float1 | pyNone | str | emptyStr
  deriving DecidableEq, Repr, FromJson, ToJson, Inhabited

/-- `isinstance(v, bool)` and then which one -/
def Arg.asBool : Arg → Option Bool
  | .T => some true
  | .F => some false
  | _ => none

/-- Python truthiness (what `not v` looks at) -/
def Arg.truthy : Arg → Bool
  | .T | .int1 | .float1 | .str => true
  | .F | .int0 | .pyNone | .emptyStr => false

/-- the elementary `on_setattr` hooks: a user hook, `setters.convert`, `setters.validate` -/
inductive Prim where
  | custom | convert | validate
  deriving DecidableEq, Repr, FromJson, ToJson, Inhabited

/-- an `on_setattr=` argument as written: not given (`None`), `setters.NO_OP`, a hook or list of hooks -/
inductive Hook where
  | unset | noOp | chain (l : List Prim)
  deriving DecidableEq, Repr, FromJson, ToJson, Inhabited

structure Field where
  name : String
  /-- length of the field's validator chain (0 = no validator; ≥ 2 = `and_`/list) -/
  validators : Nat
  conv : Bool
  onSet : Hook
  /-- `init=False`: not an `__init__` parameter (the initializer still sets and validates it if it has a default) -/
  init : Bool
  /-- no default / a plain default value / `Factory(f[, takes_self=True])` (also what `@x.default` makes);
      constructions leave the arguments of defaulted parameters out, so the default is used / the factory runs -/
  dflt : Dflt
  deriving DecidableEq, Repr, FromJson, ToJson, Inhabited

structure Cls where
  /-- `attrs.define` (true) or `attr.s` (false) -/
  isDefine : Bool
  clsOnSet : Hook
  /-- class-level `kw_only=True` (every field keyword-only) -/
  kwOnly : Bool
  /-- `__attrs_pre_init__` resolvable on the class: none / without / with parameters -/
  pre : Pre
  /-- `__attrs_post_init__` resolvable on the class -/
  post : Bool
  /-- all fields in `__attrs_attrs__` order (inherited ones first) -/
  fields : List Field
  deriving DecidableEq, Repr, FromJson, ToJson, Inhabited

/-- the object an assignment binds the attribute to, relative to what the instance currently holds there
    (which may have been stored while validators were disabled, or without any validation at all) -/
inductive AssignVal where
  | fresh      -- a new object
  | same       -- the very object currently stored (`c.x = c.x`)
  | equal      -- an equal but distinct object
  | iadd       -- augmented assignment on the (mutable) stored object: `c.x += [...]`
  deriving DecidableEq, Repr, FromJson, ToJson, Inhabited

inductive Op where
  | setDisabled (a : Arg)        -- validators.set_disabled(a)
  | setRun (a : Arg)             -- attr.set_run_validators(a)
  | getDisabled                  -- validators.get_disabled()
  | getRun                       -- attr.get_run_validators()
  | enter                        -- cm = validators.disabled(); cm.__enter__()
  | exit                         -- innermost open cm.__exit__(None, None, None)
  | exitExc                      -- innermost open cm.__exit__(type(e), e, tb)
  | construct (k : Nat)          -- K(**values) for class k of the hierarchy
  | assign (k i : Nat) (v : AssignVal)   -- inst_k.<field i> = value   (inst_k: an instance of class k)
  | validate (k : Nat)           -- attr.validate(inst_k)
  deriving DecidableEq, Repr, FromJson, ToJson, Inhabited

def Op.isEnter : Op → Bool
  | .enter => true
  | _ => false

def Op.isExit : Op → Bool
  | .exit | .exitExc => true
  | _ => false

structure Case where
  /-- the attrs classes of one hierarchy (base classes and subclasses that add or re-declare fields), each
      with its resolved field list; reader operations name the class whose instance they work on -/
  classes : List Cls
  /-- the callback that raises whenever it runs -/
  fault : Option EventId
  /-- the callback (validator, converter, factory, hook, pre or post init — of any class) whose body performs
      the nested operations `body` every time it is called during an operation of the history -/
  probe : Option EventId
  /-- what the probing callback does before it returns (or raises): construct / assign / validate other
      instances, read the switch, flip it inside a `disabled()` block of its own … -/
  body : List Op
  /-- validators enabled when the history starts -/
  start : Bool
  ops : List Op
  deriving DecidableEq, Repr, FromJson, ToJson, Inhabited

/-- an observed Python value that ought to be a bool -/
inductive B3 where
  | t | f | other
  deriving DecidableEq, Repr, FromJson, ToJson, Inhabited

def B3.ofBool (b : Bool) : B3 := if b then .t else .f

def B3.toBool? : B3 → Option Bool
  | .t => some true
  | .f => some false
  | .other => none

/-- what is observed around one operation -/
structure Step where
  /-- `validators.get_disabled()` right after the operation -/
  disabled : B3
  /-- `attr.get_run_validators()` right after the operation -/
  run : B3
  /-- the value returned by a get operation -/
  ret : Option B3
  /-- exception kind the operation raised -/
  exc : Option Exc
  /-- `__exit__` returned a truthy value (the exception would be swallowed) -/
  swallowed : Bool
  /-- callbacks that ran during the operation, in order -/
  events : List EventId
  deriving DecidableEq, Repr, FromJson, ToJson, Inhabited

structure Obs where
  steps : List Step
  /-- per operation of the history, per call of the probing callback during it: what the nested operations
      observed (the callbacks of nested readers have no bodies of their own) -/
  nested : List (List (List Step))
  deriving DecidableEq, Repr, FromJson, ToJson, Inhabited

/-! ## The switch -/

/-- `_config._run_validators` and the `previous` locals of the open `disabled()` generators, innermost first -/
structure St where
  run : Bool
  stack : List Bool
  deriving DecidableEq, Repr, Inhabited

def stepSt (st : St) : Op → St
  -- set_run_validators(not disabled)
  | .setDisabled a => { st with run := !a.truthy }
  -- isinstance check, then the store
  | .setRun a => match a.asBool with
    | some b => { st with run := b }
    | none => st
  -- previous = get_run_validators(); set_run_validators(False); yield
  | .enter => { run := false, stack := st.run :: st.stack }
  -- finally: set_run_validators(previous)
  | .exit | .exitExc => match st.stack with
    | p :: rest => { run := p, stack := rest }
    | [] => st
  | _ => st

def runSt (st : St) (ops : List Op) : St := ops.foldl stepSt st

/-- NOT the model of the code: the context manager as it was before fix ee5b683
    (`finally: set_run_validators(True)`).  Kept only to show what `C20_restore` excludes. -/
def stepStOld (st : St) : Op → St
  | .exit | .exitExc => match st.stack with
    | _ :: rest => { run := true, stack := rest }
    | [] => st
  | op => stepSt st op

/-! ## Callbacks run one after the other; the first that raises ends the operation -/

structure Run where
  events : List EventId
  raised : Bool
  deriving DecidableEq, Repr, Inhabited

def Run.start : Run := { events := [], raised := false }

def Run.call (fault : Option EventId) (r : Run) (e : EventId) : Run :=
  if r.raised then r else { events := r.events ++ [e], raised := decide (fault = some e) }

def Run.exc (r : Run) : Option Exc := if r.raised then some .user else none

def convId (f : Field) : EventId := { kind := "conv", field := f.name, idx := 0 }
def valId (f : Field) (i : Nat) : EventId := { kind := "validator", field := f.name, idx := i }
def hookId (f : Field) (pos : Nat) : EventId := { kind := "hook", field := f.name, idx := pos }

/-- the field's validator called once: `_AndValidator.__call__` runs its members in order -/
def callValidators (fault : Option EventId) (f : Field) (r : Run) : Run :=
  (List.range f.validators).foldl (fun r i => r.call fault (valId f i)) r

/-- `attr.validate(inst)`: `if _config._run_validators is False: return`, then every field's validator -/
def runValidate (run : Bool) (fault : Option EventId) (fields : List Field) : Run :=
  if !run then Run.start else fields.foldl (fun r f => callValidators fault f r) Run.start

/-- one member of a hook pipe; `pos` is its position in the pipe -/
def runPrim (run : Bool) (fault : Option EventId) (f : Field) (r : Run) (pos : Nat) : Prim → Run
  | .custom => r.call fault (hookId f pos)
  -- setters.convert: `if c: return c(new_value)`
  | .convert => if f.conv then r.call fault (convId f) else r
  -- setters.validate: `if _config._run_validators is False: return new_value`; `if not v: return new_value`
  | .validate => if !run then r else callValidators fault f r

/-- `setters.pipe`: `for setter in setters: rv = setter(instance, attrib, rv)` -/
def runChain (run : Bool) (fault : Option EventId) (f : Field) : Nat → List Prim → Run → Run
  | _, [], r => r
  | pos, p :: ps, r => runChain run fault f (pos + 1) ps (runPrim run fault f r pos p)

def primOfName : String → Option Prim
  | "convert" => some .convert
  | "validate" => some .validate
  | _ => none

/-- `_DEFAULT_ON_SETATTR = setters.pipe(…)` as extracted from the source (T1) -/
def defaultChain : List Prim := Generated.defaultOnSetattr.filterMap primOfName

/-- class-level `on_setattr` after `define.wrap`: a mutable `define` class without the argument gets
    `_DEFAULT_ON_SETATTR` -/
def clsLevel (cls : Cls) : Hook :=
  if cls.isDefine && cls.clsOnSet == .unset then .chain defaultChain else cls.clsOnSet

/-- `sa_attrs` of `add_setattr`: `on_setattr = a.on_setattr or self._on_setattr`, kept if set and not `NO_OP` -/
def saHook (cls : Cls) (f : Field) : Option (List Prim) :=
  match (if f.onSet != .unset then f.onSet else clsLevel cls) with
  | .chain l => some l
  | _ => none

/-- the generated `__setattr__`: the hook if the name is in `sa_attrs`, then the store -/
def runAssign (cls : Cls) (run : Bool) (fault : Option EventId) (f : Field) : Run :=
  match saHook cls f with
  | some l => runChain run fault f 0 l Run.start
  | none => Run.start

/-! ## Construction goes through the shared initializer model -/

/-- a construction passes exactly the mandatory parameters -/
def Field.passed (f : Field) : Bool := f.init && f.dflt == .none

/-- `filtered_attrs` of `_make_init_script`: fields the initializer has a statement for -/
def Field.participates (f : Field) : Bool := f.init || f.dflt != .none

def toAttr (kw : Bool) (f : Field) : Attr :=
  { name := f.name, alias := f.name, dflt := f.dflt, init := f.init,
    kwOnly := kw,
    conv := if f.conv then some { takesSelf := false, takesField := false } else none,
    validators := f.validators,
    onSet := match f.onSet with
      | .unset => .unset
      | .noOp => .noop
      | .chain _ => .hooks,
    isSlot := false, type := none, convType := none }

def clsOnSetOf : Hook → ClsOnSet
  | .unset => .unset
  | .noOp => .noop
  | .chain [.validate] => .validate
  | .chain [.convert] => .convert
  | .chain _ => .hook

/-- the call `C(x=v.x, y=v.y, …)` on the class (defaulted parameters left out), with the switch in
    position `run`; pre and post init hooks as the class has them -/
def initCase (cls : Cls) (run : Bool) (fault : Option EventId) : Init.Case :=
  { run := { cfg := { frozen := false, slots := false, cacheHash := false, isExc := false, pre := cls.pre,
                      post := cls.post, clsHook := false, runValidators := run, collectByMro := true },
             attrs := cls.fields.map (toAttr cls.kwOnly),
             own := cls.fields.map (·.name), bases := [], cacheIsSlot := false, fault := fault },
    call := { pos := [], kw := (cls.fields.filter Field.passed).map (fun f => (f.name, "v." ++ f.name)) },
    isDefine := cls.isDefine,
    clsOnSet := clsOnSetOf cls.clsOnSet }

/-! ## One operation -/

def mkStep (st' : St) (ret : Option B3) (exc : Option Exc) (events : List EventId) : Step :=
  { disabled := B3.ofBool (!st'.run), run := B3.ofBool st'.run, ret := ret, exc := exc,
    swallowed := false, events := events }

/-! ## Callback bodies that leave the switch flipped

  FIXED READING of an ambiguity of the property ("validators run iff globally enabled" — at which instant?):
  a construction follows the switch as it is **when the validators step is reached**, i.e. after the
  pre-init hook, the factories and the converters of that construction have run (this is what the generated
  `if _config._run_validators is True:` line does, standing where it stands).  A `set_disabled` call made
  by a converter of the same construction is a switch operation like any other. -/

/-- net effect of one run of the probing callback's body on the cell (nested readers do not move it) -/
def bodyStep (c : Case) (b : Bool) : Bool := (runSt { run := b, stack := [] } c.body).run

def iterB : Nat → (Bool → Bool) → Bool → Bool
  | 0, _, b => b
  | n + 1, g, b => iterB n g (g b)

def probeCount (c : Case) (es : List EventId) : Nat :=
  match c.probe with
  | none => 0
  | some p => es.count p

/-- the cell as `__init__` finds it at the validators step: the position at the start of the call, moved by
    every run of the probing callback's body among the callbacks that come first (pre-init hook, factories,
    converters — what a construction with validators disabled runs before its post-init hook) -/
def guardRun (c : Case) (cls : Cls) (run : Bool) : Bool :=
  let before := ((runInit (initCase cls false c.fault)).trace.map (·.id)).filter (fun e => e.kind != "post")
  iterB (probeCount c before) (bodyStep c) run

/-- what is observed when `op` runs in state `st` and the switch moves to `st'` -/
def stepObs (c : Case) (st st' : St) : Op → Step
  | .setDisabled _ => mkStep st' none none []
  | .setRun a => mkStep st' none (if a.asBool.isSome then none else some .typeError) []
  | .getDisabled => mkStep st' (some (B3.ofBool (!st.run))) none []
  | .getRun => mkStep st' (some (B3.ofBool st.run)) none []
  | .enter => mkStep st' none none []
  -- `__exit__` returns False: an exception passed in propagates
  | .exit | .exitExc => mkStep st' none (if st.stack.isEmpty then some .other else none) []
  | .construct k => match c.classes[k]? with
    | some cls =>
      let o := runInit (initCase cls (guardRun c cls st.run) c.fault)
      mkStep st' none o.exc (o.trace.map (·.id))
    | none => mkStep st' none (some .other) []
  -- no hook looks at what the attribute currently holds: the value's identity plays no role
  | .assign k i _ => match c.classes[k]? with
    | some cls => (match cls.fields[i]? with
      | some f => let r := runAssign cls st.run c.fault f; mkStep st' none r.exc r.events
      | none => mkStep st' none (some .other) [])
    | none => mkStep st' none (some .other) []
  | .validate k => match c.classes[k]? with
    | some cls => let r := runValidate st.run c.fault cls.fields; mkStep st' none r.exc r.events
    | none => mkStep st' none (some .other) []

/-- the observations of a history, for a given transition function of the switch -/
def runOpsWith (stf : St → Op → St) (c : Case) : St → List Op → List Step
  | _, [] => []
  | st, op :: ops => stepObs c st (stf st op) op :: runOpsWith stf c (stf st op) ops

def St.init (c : Case) : St := { run := c.start, stack := [] }

/-- a callback body runs under the switch exactly as it is when the callback is called — no reader touches
    `_config._run_validators` on the way to its callbacks — with a bracket frame of its own -/
def runBody (c : Case) (run : Bool) : List Step :=
  runOpsWith stepSt { c with probe := none } { run := run, stack := [] } c.body

/-- one body run per call of the probing callback during `op`; each run starts where the previous one left
    the cell (a neutral body leaves it where it was) -/
def nestedOf (c : Case) (st : St) (op : Op) : List (List Step) :=
  (List.range (probeCount c (stepObs c st st op).events)).map
    (fun j => runBody c (iterB j (bodyStep c) st.run))

def runNestedWith (stf : St → Op → St) (c : Case) : St → List Op → List (List (List Step))
  | _, [] => []
  | st, op :: ops => nestedOf c st op :: runNestedWith stf c (stf st op) ops

def model (c : Case) : Obs :=
  { steps := runOpsWith stepSt c (St.init c) c.ops, nested := runNestedWith stepSt c (St.init c) c.ops }

/-- NOT the model of the code: the history under the pre-ee5b683 context manager -/
def modelOld (c : Case) : Obs :=
  { steps := runOpsWith stepStOld c (St.init c) c.ops, nested := runNestedWith stepStOld c (St.init c) c.ops }

end Attrs.C20
