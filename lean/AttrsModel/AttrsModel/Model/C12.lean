/-
  C12 — evolve / assoc.  Mirrors `evolve` (src/attr/_make.py: collect current values of the init fields by
  alias unless overridden, then call the class) and `assoc` (src/attr/_funcs.py: shallow copy, raw
  `object.__setattr__` per change, cached hash reset).  Besides the values the model says which *object* each
  field of the result holds (the one passed, the original's, another one).  `evolve` is *defined* through the initializer model
  of `Model/Init.lean`, so everything proved about construction applies to its result.
-/
import AttrsModel.Model.Init

namespace Attrs.C12
open Attrs.Init Lean

inductive Op where
  | evolve | assoc
  deriving DecidableEq, Repr, FromJson, ToJson, Inhabited

/-- which object a field of the result holds: the very object passed as the change, the very object the original
    holds, some other object (e.g. a converter's result), or nothing -/
inductive Ident where
  | passed | orig | other | unset
  deriving DecidableEq, Repr, FromJson, ToJson, Inhabited

/-- what a validator of the class does: validator number `idx` of field `field` REJECTS (raises) whenever the
    instance it is given currently holds, in field `watch` (its own field or another one), a value marked bad -/
structure Veto where
  field : String
  idx : Nat
  watch : String
  deriving DecidableEq, Repr, FromJson, ToJson, Inhabited

structure Case where
  /-- class description (its `call` is ignored) -/
  base : Init.Case
  op : Op
  /-- the original's current field values, in field order (after any earlier reassignment) -/
  cur : List (String × Option Val)
  /-- `**changes`: by init alias for evolve, by field name for assoc -/
  changes : List (String × Val)
  /-- the validators whose verdict depends on the instance's state -/
  veto : List Veto
  /-- layout fact of the instance's class, read from the real class: copying goes through an attrs-generated
      `__getstate__`, which reads every field -/
  copyNeedsAll : Bool
  deriving Repr, FromJson, ToJson, Inhabited

structure Obs where
  exc : Option Exc
  /-- the result's field values, in field order -/
  values : List (String × Option Val)
  /-- the original's field values afterwards -/
  orig : List (String × Option Val)
  /-- the result is a distinct object of exactly the same class -/
  fresh : Bool
  /-- the result equals, and hashes like, an instance rebuilt from its own field values, and is frozen
      iff its class is -/
  invariants : Bool
  /-- per judged field (evolve: the init fields; assoc: every field), in field order: which *object* the result
      holds there (compared by identity with the object passed as the change and with the original's) -/
  ident : List (String × Ident)
  /-- the user callbacks (pre-init, factories, converters, validators, post-init) that ran during the
      operation, in order, with their arguments -/
  trace : List Event
  /-- evolve only: exception kind, result values and callback trace are those of calling the class directly
      with the same arguments (`cls(**{alias: current value, **changes})`) -/
  likeDirect : Bool
  deriving DecidableEq, Repr, FromJson, ToJson, Inhabited

def curOf (cur : List (String × Option Val)) (n : String) : Option Val :=
  match cur.find? (·.1 == n) with
  | some (_, v) => v
  | none => none

/-- the keyword call `evolve` makes: the changes, then every other init field's current value by alias -/
def evolveCall (attrs : List Attr) (cur : List (String × Option Val)) (changes : List (String × Val)) : Call :=
  { pos := [],
    kw := changes ++ (attrs.filter (·.init)).filterMap (fun a =>
      if changes.any (·.1 == a.alias) then none else (curOf cur a.name).map (fun v => (a.alias, v))) }

/-- `getattr(inst, name)` fails for an init field that is currently unset and not overridden -/
def evolveMissing (attrs : List Attr) (cur : List (String × Option Val)) (changes : List (String × Val)) : Bool :=
  (attrs.filter (·.init)).any (fun a => !changes.any (·.1 == a.alias) && (curOf cur a.name).isNone)

def evolveCase (c : Case) : Init.Case :=
  { c.base with call := evolveCall c.base.run.attrs c.cur c.changes }

/-- `assoc`: unknown field name ⇒ AttrsAttributeNotFoundError; otherwise the copy with raw replacements -/
def assocValues (cur : List (String × Option Val)) (changes : List (String × Val)) : List (String × Option Val) :=
  cur.map (fun (n, v) => (n, match lookup n changes with | some w => some w | none => v))

/-- the object a stored field holds: a converter's result is a new object; without converter the initializer
    (and `object.__setattr__`) store the argument itself — the change if there is one, else the original's -/
def identOf (changed converted : Bool) (v : Option Val) : Ident :=
  match v with
  | none => .unset
  | some _ => if converted then .other else if changed then .passed else .orig

/-- `evolve`: every init field is an argument of the initializer call (by alias) -/
def evolveIdent (attrs : List Attr) (changes : List (String × Val)) (values : List (String × Option Val)) :
    List (String × Ident) :=
  (attrs.zip values).filterMap (fun av =>
    if av.1.init then some (av.1.name, identOf (changes.any (·.1 == av.1.alias)) av.1.conv.isSome av.2.2) else none)

/-- `assoc`: a shallow copy (every field holds the original's object) with raw replacements by field name -/
def assocIdent (cur : List (String × Option Val)) (changes : List (String × Val)) : List (String × Ident) :=
  cur.map (fun kv => (kv.1, identOf (changes.any (·.1 == kv.1)) false
    (match lookup kv.1 changes with | some w => some w | none => kv.2)))

/-- K2: a frozen dict hash-caching class below a slotted hash-caching class initialises the cache in
    `__dict__` while `__hash__` reads the (empty) slot: hashing an instance built by `__init__` (so also an
    `evolve` result) raises AttributeError.  An `assoc` result is a copy: such a class has its own generated
    `__setstate__` (it would otherwise inherit the slotted base's), which resets the cache with
    `object.__setattr__`, i.e. in the slot — the copy hashes. -/
def cacheMisplaced (r : RunIn) : Bool :=
  r.cfg.cacheHash && r.cfg.frozen && !r.cfg.slots && r.cacheIsSlot

/-! ### validators whose verdict depends on the instance -/

/-- the text contains `bad` -/
def containsBad : List Char → Bool
  | [] => false
  | c :: cs => ['b', 'a', 'd'].isPrefixOf (c :: cs) || containsBad cs

/-- a value is marked bad if its text contains `bad` (so a converted bad value is still bad) -/
def isBad (v : Option Val) : Bool :=
  match v with
  | some s => containsBad s.toList
  | none => false

/-- validator `i` of field `n` rejects an instance holding `vals` -/
def vetoFires (veto : List Veto) (vals : List (String × Option Val)) (n : String) (i : Nat) : Bool :=
  veto.any (fun r => r.field == n && r.idx == i && isBad (curOf vals r.watch))

/-- the validator calls of the generated initializer, in order: after every field is stored, per field with a
    statement in field order, the field's validators by index (`_attrs_to_init_script`, validator block) -/
def validatorIds (attrs : List Attr) : List (String × Nat) :=
  (attrs.filter participates).flatMap (fun a => (List.range a.validators).map (fun i => (a.name, i)))

/-- the first validator call that rejects an instance holding `vals` -/
def vetoFault (r : RunIn) (veto : List Veto) (vals : List (String × Option Val)) : Option EventId :=
  if r.cfg.runValidators then
    ((validatorIds r.attrs).find? (fun ni => vetoFires veto vals ni.1 ni.2)).map
      (fun ni => { kind := "validator", field := ni.1, idx := ni.2 })
  else none

/-- the initializer run in which callback `f` raises -/
def withFault (k : Init.Case) (f : EventId) : Init.Case := { k with run := { k.run with fault := some f } }

/-! ### assoc's name check -/

/-- `assoc`'s loop over `**changes`, in order: a name is a field iff `getattr(fields(cls), name, NOTHING)` is an
    `Attribute` — whatever else the name resolves to on the fields tuple (`count`, `index`, `__len__`, `__doc__` …:
    attributes of every tuple), on the instance or on its class (methods, properties, constants, instance
    attributes, dunders), it raises AttrsAttributeNotFoundError -/
def assocLoop (isField : String → Bool) : List (String × Val) → Option Exc
  | [] => none
  | kv :: rest => if isField kv.1 then assocLoop isField rest else some .notFound

def failed (c : Case) (e : Exc) (trace : List Event) : Obs :=
  { exc := some e, values := [], orig := c.cur, fresh := false, invariants := false, ident := [],
    trace := trace, likeDirect := true }

def model (c : Case) : Obs :=
  match c.op with
  | .evolve =>
    if evolveMissing c.base.run.attrs c.cur c.changes then failed c .attributeError []
    else
      let k := evolveCase c
      let o := runInit k
      match o.exc with
      | some e => failed c e o.trace
      | none =>
        -- every field is stored; now the validators run: the first that rejects the new instance raises
        match vetoFault k.run c.veto o.values with
        | some f =>
          let o1 := runInit (withFault k f)
          { exc := o1.exc, values := [], orig := c.cur, fresh := false, invariants := false, ident := [],
            trace := o1.trace, likeDirect := true }
        | none =>
          { exc := none, values := o.values, orig := c.cur, fresh := true,
            -- eq/hash are only comparable when every field is set
            invariants := !(cacheMisplaced c.base.run && o.values.all (·.2.isSome)),
            ident := evolveIdent c.base.run.attrs c.changes o.values,
            trace := o.trace, likeDirect := true }
  | .assoc =>
    -- a shallow copy and raw writes: no callback of the class runs, whatever the values are
    match assocLoop (fun n => c.cur.any (·.1 == n)) c.changes with
    | none =>
      { exc := none, values := assocValues c.cur c.changes, orig := c.cur, fresh := true,
        invariants := true,
        ident := assocIdent c.cur c.changes, trace := [], likeDirect := true }
    | some e => failed c e []

end Attrs.C12
