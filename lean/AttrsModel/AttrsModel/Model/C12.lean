/-
  C12 — evolve / assoc.  Mirrors `evolve` (src/attr/_make.py: collect current values of the init fields by
  alias unless overridden, then call the class) and `assoc` (src/attr/_funcs.py: shallow copy, raw
  `object.__setattr__` per change, cached hash reset).  `evolve` is *defined* through the initializer model
  of `Model/Init.lean`, so everything proved about construction applies to its result.
-/
import AttrsModel.Model.Init

namespace Attrs.C12
open Attrs.Init Lean

inductive Op where
  | evolve | assoc
  deriving DecidableEq, Repr, FromJson, ToJson, Inhabited

structure Case where
  /-- class description (its `call` is ignored) -/
  base : Init.Case
  op : Op
  /-- the original's current field values, in field order (after any earlier reassignment) -/
  cur : List (String × Option Val)
  /-- `**changes`: by init alias for evolve, by field name for assoc -/
  changes : List (String × Val)
  deriving Repr, FromJson, ToJson, Inhabited

structure Obs where
  exc : Option Exc
  /-- the result's field values, in field order -/
  values : List (String × Option Val)
  /-- the original's field values afterwards -/
  orig : List (String × Option Val)
  /-- the result is a distinct object of exactly the same class -/
  fresh : Bool
  /-- the result equals, and hashes like, an instance rebuilt from its own field values, and is frozen
      iff its class is -/
  invariants : Bool
  deriving DecidableEq, Repr, FromJson, ToJson, Inhabited

def curOf (cur : List (String × Option Val)) (n : String) : Option Val :=
  match cur.find? (·.1 == n) with
  | some (_, v) => v
  | none => none

/-- the keyword call `evolve` makes: the changes, then every other init field's current value by alias -/
def evolveCall (attrs : List Attr) (cur : List (String × Option Val)) (changes : List (String × Val)) : Call :=
  { pos := [],
    kw := changes ++ (attrs.filter (·.init)).filterMap (fun a =>
      if changes.any (·.1 == a.alias) then none else (curOf cur a.name).map (fun v => (a.alias, v))) }

/-- `getattr(inst, name)` fails for an init field that is currently unset and not overridden -/
def evolveMissing (attrs : List Attr) (cur : List (String × Option Val)) (changes : List (String × Val)) : Bool :=
  (attrs.filter (·.init)).any (fun a => !changes.any (·.1 == a.alias) && (curOf cur a.name).isNone)

def evolveCase (c : Case) : Init.Case :=
  { c.base with call := evolveCall c.base.run.attrs c.cur c.changes }

/-- `assoc`: unknown field name ⇒ AttrsAttributeNotFoundError; otherwise the copy with raw replacements -/
def assocValues (cur : List (String × Option Val)) (changes : List (String × Val)) : List (String × Option Val) :=
  cur.map (fun (n, v) => (n, match lookup n changes with | some w => some w | none => v))

/-- K2: a frozen dict hash-caching class below a slotted hash-caching class initialises the cache in
    `__dict__` while `__hash__` reads the (empty) slot: hashing any instance raises AttributeError. -/
def cacheMisplaced (r : RunIn) : Bool :=
  r.cfg.cacheHash && r.cfg.frozen && !r.cfg.slots && r.cacheIsSlot

def model (c : Case) : Obs :=
  match c.op with
  | .evolve =>
    if evolveMissing c.base.run.attrs c.cur c.changes then
      { exc := some .attributeError, values := [], orig := c.cur, fresh := false, invariants := false }
    else
      let o := runInit (evolveCase c)
      match o.exc with
      | some e => { exc := some e, values := [], orig := c.cur, fresh := false, invariants := false }
      | none => { exc := none, values := o.values, orig := c.cur, fresh := true,
                  -- eq/hash are only comparable when every field is set
                  invariants := !(cacheMisplaced c.base.run && o.values.all (·.2.isSome)) }
  | .assoc =>
    if c.changes.all (fun kv => c.cur.any (·.1 == kv.1)) then
      { exc := none, values := assocValues c.cur c.changes, orig := c.cur, fresh := true,
        invariants := !(cacheMisplaced c.base.run && (assocValues c.cur c.changes).all (·.2.isSome)) }
    else { exc := some .notFound, values := [], orig := c.cur, fresh := false, invariants := false }

end Attrs.C12
