/-
  C17, part A — hermeticity of generated methods.

  Mirrors, in src/attr/_make.py: the globals assembly of `_ClassBuilder._eval_snippets` and
  `_make_init_script` (the order in which the defining module's `__dict__`, the per-script helper
  dicts and the fixed helper names are merged — read from the source by T1), the helper naming scheme
  (`_INIT_FACTORY_PAT`, `"__attr_validator_" + name`, `"__attr_attribute_" + name`,
  `Converter._get_global_name`, `__attr_key_{name}` in `_make_eq_script`/`_make_hash_script`,
  `"__attr_repr_" + name` in `_make_repr_script` — affixes read from the source by T1) and, for every generated method, the
  set of global names its code object loads (`_attrs_to_init_script`, `_make_eq_script`,
  `_make_hash_script`, `_make_repr_script`).

  Python's `dict.update` is modelled as list append with last-binding-wins lookup; LOAD_GLOBAL's
  fallback to builtins is CPython's and appears only as "not bound ⇒ builtin".
-/
import AttrsModel.Core
import AttrsModel.Generated.Tables

namespace Attrs.C17
open Lean

/-! ### class specification (what decides which helper globals exist) -/

inductive Dflt where
  | none | value | factory | factorySelf
  deriving DecidableEq, Repr, FromJson, ToJson, Inhabited

inductive Conv where
  | none | plain | self | field | both
  deriving DecidableEq, Repr, FromJson, ToJson, Inhabited

inductive ReprK where
  | off | std | custom
  deriving DecidableEq, Repr, FromJson, ToJson, Inhabited

inductive Tri where
  | unset | t | f
  deriving DecidableEq, Repr, FromJson, ToJson, Inhabited

inductive OnSet where
  | unset | hook | noop
  deriving DecidableEq, Repr, FromJson, ToJson, Inhabited

/-- the class-level `on_setattr` as it reaches `attrs()`: `dflt` is `_DEFAULT_ON_SETATTR` -/
inductive ClsOnSet where
  | none | hook | noop | dflt
  deriving DecidableEq, Repr, FromJson, ToJson, Inhabited

structure Field where
  name      : String
  /-- `__init__` parameter name (explicit, or derived by stripping leading underscores) -/
  alias     : String
  init      : Bool
  kwOnly    : Bool
  dflt      : Dflt
  conv      : Conv
  validator : Bool
  eq        : Bool
  eqKey     : Bool
  hash      : Tri
  repr      : ReprK
  onSetattr : OnSet
  deriving DecidableEq, Repr, FromJson, ToJson, Inhabited

structure Cls where
  frozen       : Bool
  slots        : Bool
  cacheHash    : Bool
  isExc        : Bool
  preInit      : Bool
  preInitArgs  : Bool
  postInit     : Bool
  clsOnSetattr : ClsOnSet
  genRepr      : Bool
  genEq        : Bool
  genHash      : Bool
  /-- `true`: `__init__` is generated; `false`: `__attrs_init__` is -/
  genInit      : Bool
  deriving DecidableEq, Repr, FromJson, ToJson, Inhabited

/-- which of the names the generated code loads are pre-bound in the defining module -/
inductive Poison where
  | none          -- clean module
  | all           -- every referenced name
  | helpersOnly   -- every referenced name that attrs injects itself (not the plain builtins)
  deriving DecidableEq, Repr, FromJson, ToJson, Inhabited

structure Case where
  cls    : Cls
  fields : List Field
  poison : Poison
  /-- the class body has a `functools.cached_property` (matters on slotted classes only: they get a
      generated `__getattr__`, `_make_cached_property_getattr`) -/
  cachedProp : Option Bool := none
  /-- the class body has its own `__getattr__` (the generated one then delegates to it) -/
  ownGetattr : Option Bool := none
  deriving DecidableEq, Repr, FromJson, ToJson, Inhabited

/-! ### objects a global name can be bound to -/

inductive Kind where
  | module      -- whatever the defining module bound under that name
  | factory | validator | attribute | converter | key | reprFn   -- the callback / Attribute of field `arg`
  | fixed       -- the attrs-provided object meant by the fixed helper name `arg`
  | builtin     -- not bound in the globals: LOAD_GLOBAL falls through to builtins
  | unbound | other
  deriving DecidableEq, Repr, FromJson, ToJson, Inhabited

structure Obj where
  kind : Kind
  arg  : String
  deriving DecidableEq, Repr, FromJson, ToJson, Inhabited

/-- one global load of one generated method and what it resolves to -/
structure Entry where
  meth : String     -- "init" | "eq" | "hash" | "repr" | "top" (def-time: default expressions)
  name : String
  obj  : Obj
  deriving DecidableEq, Repr, FromJson, ToJson, Inhabited

structure Obs where
  /-- exception kind if the class definition itself failed, else "" -/
  defErr    : String
  table     : List Entry
  /-- names in the functions' globals that do not come from the module namespace -/
  injected  : List String
  /-- behaviour in the poisoned module = behaviour in a clean module -/
  poisonOk  : Bool
  /-- behaviour = behaviour of the same specification with neutral field names `f0, f1, …` -/
  neutralOk : Bool
  /-- `inspect.getsource` of every generated method recompiles to the running code object and the
      cache entry under its filename holds that source (observed; part B's model is about the loop) -/
  sourceOk  : Bool
  /-- the class built from user objects (Factory / Converter instances, validator, key, repr, hook
      callables) that are shared between its fields and were used before, under other field names, by
      earlier classes behaves like its twin built from fresh objects.  A `Case` carries no object
      identities and no history: the model is a function of the field specification alone, which is
      what the property says the code must be. -/
  sharedOk  : Bool
  deriving DecidableEq, Repr, FromJson, ToJson, Inhabited

/-! ### globals as ordered merges -/

abbrev Globs := List (String × Obj)

/-- lookup after a sequence of `dict.update`s: the last binding of the name wins -/
def lookup : Globs → String → Option Obj
  | [], _ => none
  | (k, v) :: rest, n =>
    match lookup rest n with
    | some o => some o
    | none => if k == n then some v else none

/-! ### naming scheme (affixes from Generated/Tables.lean) -/

def affix (a : String × String) (n : String) : String := a.1 ++ n ++ a.2

def factoryName   (n : String) : String := affix Generated.c17FactoryAffix n
def validatorName (n : String) : String := affix Generated.c17ValidatorAffix n
def attributeName (n : String) : String := affix Generated.c17AttributeAffix n
def converterName (n : String) : String := affix Generated.c17ConverterAffix n
def eqKeyName     (n : String) : String := affix Generated.c17EqKeyAffix n
def hashKeyName   (n : String) : String := affix Generated.c17HashKeyAffix n
/-- key under which a custom repr callable is injected -/
def reprName      (n : String) : String := affix Generated.c17ReprAffix n
/-- name the repr f-string calls -/
def reprCallName  (n : String) : String := affix Generated.c17ReprCallAffix n

def fixedObj (n : String) : Obj := ⟨.fixed, n⟩
def fixedBinds (ns : List String) : Globs := ns.map (fun n => (n, fixedObj n))

/-! ### field predicates -/

def hasFactory (f : Field) : Bool := f.dflt == .factory || f.dflt == .factorySelf
def hasConv (f : Field) : Bool := f.conv != .none
def takesField (f : Field) : Bool := f.conv == .field || f.conv == .both
/-- `filtered_attrs` of `_make_init_script`: `init=False` fields without default are skipped -/
def inInit (f : Field) : Bool := f.init || f.dflt != .none
def hashPart (f : Field) : Bool := f.hash == .t || (f.hash == .unset && f.eq)
def reprOn (f : Field) : Bool := f.repr != .off

def filtered (c : Case) : List Field := c.fields.filter inInit

/-- `_ClassBuilder.__init__`: the default pipe is dropped when nothing converts or validates -/
def effClsOnSet (c : Case) : ClsOnSet :=
  if !c.cls.frozen && c.cls.clsOnSetattr == .dflt
      && !(c.fields.any (fun f => f.validator || hasConv f)) then .none
  else c.cls.clsOnSetattr

def hasClsOnSetattr (c : Case) : Bool := effClsOnSet c == .hook || effClsOnSet c == .dflt

/-- `needs_cached_setattr` of `_make_init_script` -/
def needsCached (c : Case) : Bool :=
  c.cls.cacheHash || c.cls.frozen ||
  (filtered c).any (fun f => f.onSetattr != .unset || hasClsOnSetattr c)

def eqGenerated (c : Case) : Bool := c.cls.genEq && !c.cls.isExc
def hashGenerated (c : Case) : Bool := c.cls.genHash && !c.cls.isExc
def anyValidator (c : Case) : Bool := (filtered c).any (·.validator)

/-! ### helper dicts of the four scripts, in insertion order -/

def reprGlobs (c : Case) : Globs :=
  ((c.fields.filter (fun f => f.repr == .custom)).map (fun f => (reprName f.name, (⟨.reprFn, f.name⟩ : Obj))))
  ++ fixedBinds Generated.c17ReprFixed

def eqGlobs (c : Case) : Globs :=
  fixedBinds Generated.c17EqFixed ++
  (c.fields.filter (fun f => f.eq && f.eqKey)).map (fun f => (eqKeyName f.name, (⟨.key, f.name⟩ : Obj)))

def hashGlobs (c : Case) : Globs :=
  fixedBinds Generated.c17HashFixed ++
  (c.fields.filter (fun f => hashPart f && f.eqKey)).map (fun f => (hashKeyName f.name, (⟨.key, f.name⟩ : Obj)))

/-- `names_for_globals` entries one field contributes in the attribute loop -/
def fieldInitBinds (f : Field) : Globs :=
  (if hasConv f then [(converterName f.name, (⟨.converter, f.name⟩ : Obj))] else []) ++
  (if hasFactory f then [(factoryName f.name, (⟨.factory, f.name⟩ : Obj))] else [])

def fieldValBinds (f : Field) : Globs :=
  if f.validator then
    [(validatorName f.name, (⟨.validator, f.name⟩ : Obj)), (attributeName f.name, (⟨.attribute, f.name⟩ : Obj))]
  else []

/-- `names_for_globals` of `_attrs_to_init_script` -/
def initNames (c : Case) : Globs :=
  (filtered c).flatMap fieldInitBinds ++
  (if anyValidator c then
      ("_config", fixedObj "_config") :: ((filtered c).filter (·.validator)).flatMap fieldValBinds
   else [])

/-- what `_make_init_script` adds after the merge steps listed in `c17InitMergeOrder` -/
def initTail (c : Case) : Globs :=
  (if c.cls.isExc then [("BaseException", fixedObj "BaseException")] else []) ++
  (if needsCached c then [("_cached_setattr_get", fixedObj "_cached_setattr_get")] else [])

def initPart (c : Case) (modul : Globs) : String → Globs
  | "names" => initNames c
  | "fixed" => fixedBinds Generated.c17InitFixed
  | "module" => modul
  | _ => []

/-- globals of the init script; `io` is the order of the merge steps of `_make_init_script` -/
def initGlobsWith (io : List String) (c : Case) (modul : Globs) : Globs :=
  io.flatMap (initPart c modul) ++ initTail c

/-- the snippets in the order `attrs()` registers them: repr, eq, hash, init -/
def snippetGlobsWith (io : List String) (c : Case) (modul : Globs) : Globs :=
  (if c.cls.genRepr then reprGlobs c else []) ++
  (if eqGenerated c then eqGlobs c else []) ++
  (if hashGenerated c then hashGlobs c else []) ++
  initGlobsWith io c modul

def evalPart (io : List String) (c : Case) (modul : Globs) : String → Globs
  | "module" => modul
  | "snippets" => snippetGlobsWith io c modul
  | _ => []

/-- the globals dict of every generated method of the class; `eo` is the order of the merge steps of
    `_ClassBuilder._eval_snippets` -/
def assembleWith (eo io : List String) (c : Case) (modul : Globs) : Globs :=
  eo.flatMap (evalPart io c modul)

/-- with the merge orders the current source has (T1) -/
def assemble (c : Case) (modul : Globs) : Globs :=
  assembleWith Generated.c17EvalMergeOrder Generated.c17InitMergeOrder c modul

/-- helper names attrs injects for this class (what the functions' globals hold beyond the module) -/
def helperGlobs (c : Case) : Globs := snippetGlobsWith Generated.c17InitMergeOrder c []

/-! ### names loaded by each generated method, each with the object its own script binds it to -/

def use (m n : String) (o : Obj) : Entry := { meth := m, name := n, obj := o }
/-- a fixed helper name: the script means attrs's own object (or the builtin it passes explicitly) -/
def fx (m n : String) : Entry := { meth := m, name := n, obj := fixedObj n }

def reprUses (c : Case) : List Entry :=
  [fx "repr" "_compat", fx "repr" "AttributeError", fx "repr" "id"] ++
  (c.fields.filter reprOn).flatMap (fun f =>
    (if f.repr == .custom then [use "repr" (reprCallName f.name) ⟨.reprFn, f.name⟩] else []) ++
    (if !f.init then [fx "repr" "getattr", fx "repr" "NOTHING"] else []))

/-- `return NotImplemented`: passed explicitly by `_make_eq_script`, like the other builtins -/
def eqNotImplemented : Entry := fx "eq" "NotImplemented"

def eqUses (c : Case) : List Entry :=
  eqNotImplemented ::
  (c.fields.filter (fun f => f.eq && f.eqKey)).map (fun f => use "eq" (eqKeyName f.name) ⟨.key, f.name⟩)

def hashUses (c : Case) : List Entry :=
  [fx "hash" "hash"] ++
  (if c.cls.cacheHash && c.cls.frozen then [fx "hash" "object"] else []) ++
  (c.fields.filter (fun f => hashPart f && f.eqKey)).map (fun f => use "hash" (hashKeyName f.name) ⟨.key, f.name⟩) ++
  (if c.cls.cacheHash then [fx "top" "__import__"] else [])

/-- global names in the lines one field contributes to the body of `__init__` -/
def fieldBodyUses (f : Field) : List Entry :=
  (if f.init && hasFactory f then [fx "init" "NOTHING"] else []) ++
  (if hasConv f then [use "init" (converterName f.name) ⟨.converter, f.name⟩] else []) ++
  (if hasFactory f then [use "init" (factoryName f.name) ⟨.factory, f.name⟩] else []) ++
  (if (!f.init && f.dflt == .value) || takesField f then [fx "init" "attr_dict"] else [])

def fieldValUses (f : Field) : List Entry :=
  if f.validator then
    [use "init" (validatorName f.name) ⟨.validator, f.name⟩, use "init" (attributeName f.name) ⟨.attribute, f.name⟩]
  else []

/-- every global-looking name in the body of `__init__`, before local variables are taken out -/
def initBodyUses (c : Case) : List Entry :=
  (if needsCached c then [fx "init" "_cached_setattr_get"] else []) ++
  (filtered c).flatMap fieldBodyUses ++
  (if anyValidator c then fx "init" "_config" :: ((filtered c).filter (·.validator)).flatMap fieldValUses else []) ++
  (if c.cls.isExc then [fx "init" "BaseException"] else [])

def initBodyNames (c : Case) : List String := (initBodyUses c).map (·.name)

/-- parameters of `__init__` -/
def params (c : Case) : List String := ((filtered c).filter (·.init)).map (·.alias)

/-- local variables the body assigns itself -/
def assignedLocals (c : Case) : List String :=
  (if needsCached c then ["_setattr"] else []) ++
  (if c.cls.frozen && !c.cls.slots then ["_inst_dict"] else [])

/-- default expressions, evaluated once when the `def` statement runs -/
def initTopUses (c : Case) : List Entry :=
  ((filtered c).filter (·.init)).flatMap (fun f =>
    if f.dflt == .value then [fx "top" "attr_dict"] else if hasFactory f then [fx "top" "NOTHING"] else [])

/-- a name that is also a parameter is a local variable of `__init__`: no global load -/
def initUses (c : Case) : List Entry :=
  (initBodyUses c).filter (fun u => !(params c).contains u.name) ++ initTopUses c

def uses (c : Case) : List Entry :=
  (if c.cls.genRepr then reprUses c else []) ++
  (if eqGenerated c then eqUses c else []) ++
  (if hashGenerated c then hashUses c else []) ++
  initUses c

/-! ### the cached-property `__getattr__` of slotted classes: a script of its own, own globals -/

def hasCachedGetattr (c : Case) : Bool := c.cls.slots && c.cachedProp == some true

/-- a name the script means as the plain builtin -/
def bi (m n : String) : Entry := { meth := m, name := n, obj := ⟨.builtin, n⟩ }

/-- loads of `wrapper` (the default expressions of `__getattr__`'s helper parameters) and of
    `__getattr__` itself (only the fallback branch, absent when the class has its own `__getattr__`) -/
def getattrUses (c : Case) : List Entry :=
  if hasCachedGetattr c then
    [fx "getattrTop" "cached_properties", fx "getattrTop" "original_getattr",
     fx "getattrTop" "_cached_setattr_get"] ++
    (if c.ownGetattr == some true then []
     else [bi "getattr" "super", bi "getattr" "AttributeError", bi "getattr" "hasattr"])
  else []

def getattrPart (modul : Globs) : String → Globs
  | "fixed" => fixedBinds Generated.c17GetattrFixed
  | "module" => modul
  | _ => []

/-- globals of the `__getattr__` script; `go` is the order of the sources of its `glob` dict -/
def getattrGlobsWith (go : List String) (modul : Globs) : Globs := go.flatMap (getattrPart modul)

def getattrGlobs (modul : Globs) : Globs := getattrGlobsWith Generated.c17GetattrMergeOrder modul

abbrev Load := String × String    -- (method, global name)

def loads (c : Case) : List Load := (uses c ++ getattrUses c).map (fun u => (u.meth, u.name))

/-! ### the poisoned module and the resolution table -/

def moduleObj (n : String) : Obj := ⟨.module, n⟩

def moduleGlobs (c : Case) : Globs :=
  match c.poison with
  | .none => []
  | .all => (loads c).map (fun l => (l.2, moduleObj l.2))
  | .helpersOnly =>
    ((loads c).filter (fun l => (lookup (helperGlobs c ++ getattrGlobs []) l.2).isSome)).map
      (fun l => (l.2, moduleObj l.2))

def resolveIn (g : Globs) (n : String) : Obj :=
  match lookup g n with
  | some o => o
  | none => ⟨.builtin, n⟩

def globalsOf (c : Case) : Globs := assemble c (moduleGlobs c)

/-- what every load actually finds -/
def table (c : Case) : List Entry :=
  (uses c).map (fun u => { u with obj := resolveIn (globalsOf c) u.name })

/-- what the loads of the `__getattr__` script find, in that script's own globals -/
def getattrTable (c : Case) : List Entry :=
  (getattrUses c).map (fun u => { u with obj := resolveIn (getattrGlobs (moduleGlobs c)) u.name })

def injected (c : Case) : List String := (helperGlobs c).map (·.1)

/-! ### naming hazards -/

/-- some helper name is bound to two different objects by the helper dicts of the class (all scripts
    share one globals dict, so the later binding would win for every method) -/
def helperClash (c : Case) : Bool :=
  (helperGlobs c).any (fun a => (helperGlobs c).any (fun b => a.1 == b.1 && a.2 != b.2))

/-- an `__init__` parameter is called like a global the body needs, or like a local it assigns -/
def paramShadows (c : Case) : Bool :=
  (params c).any (fun p => (initBodyNames c).contains p || (assignedLocals c).contains p)

def model (c : Case) : Obs :=
  { defErr := "", table := table c ++ getattrTable c, injected := injected c,
    poisonOk := !(table c ++ getattrTable c).any (fun e => e.obj.kind == .module),
    neutralOk := !(helperClash c || paramShadows c),
    sourceOk := true,
    sharedOk := true }

end Attrs.C17
