/-
  C08, metamorphic part — one class specification built twice (slots on / off) and operated on identically.
  Construction is predicted by the shared initializer model (`Model/Init.lean`) for each build from its own
  layout facts; everything else the two builds do (==, hash pattern, ordering, repr, assignments with their
  hook traces, evolve, asdict/astuple, copy/deepcopy/pickle round trips) is compared by the harness and
  reported as the list of observable groups on which the two builds differ.
-/
import AttrsModel.Model.Init

namespace Attrs.C08
open Attrs.Init Lean

structure MetaCase where
  /-- the specification built with `slots=True`, layout facts read from that class -/
  on : Init.Case
  /-- the same specification built with `slots=False` -/
  off : Init.Case
  deriving Repr, FromJson, ToJson, Inhabited

structure MetaObs where
  on : Init.Obs
  off : Init.Obs
  /-- groups of further observables on which the two builds differ -/
  diff : List String
  deriving DecidableEq, Repr, FromJson, ToJson, Inhabited

/-- construction observables compared here; the hash cache attribute belongs to C04 -/
def ctorObs (c : Init.Case) : Init.Obs := { runInit c with cache := none }

def metaModel (c : MetaCase) : MetaObs :=
  { on := ctorObs c.on, off := ctorObs c.off, diff := [] }

end Attrs.C08
