/-
  C08, metamorphic part — one class specification built twice (slots on / off) and operated on identically.
  Construction is predicted by the shared initializer model (`Model/Init.lean`) for each build from its own
  layout facts; everything else the two builds do (==, hash pattern, ordering, repr, assignments with their
  hook traces, evolve, asdict/astuple, copy/deepcopy/pickle round trips) is compared by the harness and
  reported as the list of observable groups on which the two builds differ.
-/
import AttrsModel.Model.Init

namespace Attrs.C08
open Attrs.Init Lean

/-- what the `__setattr__` reset looks at in one class of the leaf's `__mro__[1:-1]` (nearest first; the same
    classes for both builds) -/
structure HookBase where
  /-- member of the leaf's `__bases__` -/
  direct : Bool
  /-- value of `__attrs_own_setattr__` in its own `__dict__` -/
  ownSetattr : Option Bool
  deriving DecidableEq, Repr, FromJson, ToJson, Inhabited

structure MetaCase where
  /-- the specification built with `slots=True`, layout facts read from that class -/
  on : Init.Case
  /-- the same specification built with `slots=False` -/
  off : Init.Case
  mro : List HookBase
  deriving Repr, FromJson, ToJson, Inhabited

structure MetaObs where
  on : Init.Obs
  off : Init.Obs
  /-- groups of further observables on which the two builds differ -/
  diff : List String
  /-- the build put `object.__setattr__` into the class dict (reset of an inherited attrs-made `__setattr__`) -/
  resetOn : Bool
  resetOff : Bool
  deriving DecidableEq, Repr, FromJson, ToJson, Inhabited

/-- construction observables compared here; the hash cache attribute belongs to C04 -/
def ctorObs (c : Init.Case) : Init.Obs := { runInit c with cache := none }

/-- the builder writes its own `__setattr__`: frozen, or some field's assignment runs a hook (`add_setattr`) -/
def wroteSetattr (c : Init.Case) : Bool := c.eff.cfg.frozen || c.eff.attrs.any (inSaAttrs c.eff.cfg)

/-- `_create_slots_class`: reset iff nothing written and a *direct* base's own flag is true -/
def metaSlotsReset (c : MetaCase) : Bool :=
  !wroteSetattr c.on && c.mro.any (fun b => b.direct && b.ownSetattr == some true)

/-- `_patch_original_class`: reset iff nothing written and the flag *resolved along the MRO* is true -/
def metaDictReset (c : MetaCase) : Bool :=
  !wroteSetattr c.off && ((c.mro.findSome? (·.ownSetattr)).getD false)

def metaModel (c : MetaCase) : MetaObs :=
  { on := ctorObs c.on, off := ctorObs c.off, diff := [],
    resetOn := metaSlotsReset c, resetOff := metaDictReset c }

end Attrs.C08
