/-
  C18 — validators.  Mirrors src/attr/validators.py (every validator class' `__call__`, every factory
  function incl. its constructor-time argument checks) and `and_` / `_AndValidator` of src/attr/_make.py,
  plus the generated `__eq__` / `__hash__` of the validator classes (and-chain of field `==`, hash of the
  field tuple).

  The *primitive* tests (isinstance, `in`, the comparison operator, `len`, the `re` function, `callable`,
  iteration, `value[key]`) are not modelled: their results — `True`, `False` or the exception raised — are
  supplied by an `Oracle`, which the harness fills per case by evaluating the documented definition with
  plain Python.  The model is the *composition*: which primitive is asked about which value, in which
  order, what a failure turns into, which exceptions are swallowed, what propagates.

  Core Lean only.
-/
import AttrsModel.Core
import AttrsModel.Generated.Tables

namespace Attrs.C18
open Lean

/-! ### exceptions: exact classes and the `except` relation -/

/-- exact class of a raised exception (the universe the harness' hostile objects raise from) -/
inductive ExcKind where
  | typeError | notCallable | userTypeErr      -- NotCallableError and UserTypeErr are TypeError subclasses
  | valueError | userValErr                    -- UserValErr(ValueError)
  | keyError | indexError                      -- LookupError subclasses
  | attributeError | zeroDiv | runtimeError
  | userExc                                    -- UserExc(Exception)
  | reError                                    -- re.error(Exception)
  | userBase                                   -- UserBase(BaseException): not an `Exception`
  | other                                      -- anything else (never produced by a complete oracle)
  deriving DecidableEq, Repr, FromJson, ToJson, Inhabited

/-- what may be written in an `except` clause / in `not_(exc_types=…)` -/
inductive ExcClass where
  | exception | typeError | notCallable | userTypeErr | valueError | userValErr | lookupError
  | keyError | indexError | attributeError | arithmeticError | zeroDiv | runtimeError | userExc | reError
  | baseException | userBase     -- classes, but not subclasses of `Exception`
  | notExc                       -- a class that is no exception at all (`int`)
  | nonClass                     -- not a class (`"a"`, `5`)
  deriving DecidableEq, Repr, FromJson, ToJson, Inhabited

/-- `issubclass(c, Exception)` succeeds and is true -/
def ExcClass.valid : ExcClass → Bool
  | .baseException | .userBase | .notExc | .nonClass => false
  | _ => true

/-- `isinstance(<exception of exact class k>, c)` -/
def isSub : ExcKind → ExcClass → Bool
  | _, .baseException => true
  | _, .notExc => false
  | _, .nonClass => false
  | .userBase, c => c == .userBase
  | _, .userBase => false
  | _, .exception => true
  | .typeError, c => c == .typeError
  | .notCallable, c => c == .typeError || c == .notCallable
  | .userTypeErr, c => c == .typeError || c == .userTypeErr
  | .valueError, c => c == .valueError
  | .userValErr, c => c == .valueError || c == .userValErr
  | .keyError, c => c == .lookupError || c == .keyError
  | .indexError, c => c == .lookupError || c == .indexError
  | .attributeError, c => c == .attributeError
  | .zeroDiv, c => c == .arithmeticError || c == .zeroDiv
  | .runtimeError, c => c == .runtimeError
  | .userExc, c => c == .userExc
  | .reError, c => c == .reError
  | .other, _ => false

/-- result of a primitive test: a truth value or the exception it raised -/
inductive PrimRes where
  | t | f
  | exc (k : ExcKind)
  deriving DecidableEq, Repr, FromJson, ToJson, Inhabited

def PrimRes.ofBool (b : Bool) : PrimRes := if b then .t else .f

/-! ### validator expressions -/

inductive Op where
  | lt | le | ge | gt
  deriving DecidableEq, Repr, FromJson, ToJson, Inhabited

def Op.code : Op → Nat
  | .lt => 0 | .le => 1 | .ge => 2 | .gt => 3

/-- the `func` argument of `matches_re`: not given / `None`, or `re.<name>` -/
inductive ReFuncArg where
  | dflt
  | named (s : String)
  deriving DecidableEq, Repr, FromJson, ToJson, Inhabited

/-- length bound of `max_len` / `min_len`: an int (compared here) or any other object (oracle) -/
inductive Bound where
  | int (n : Int)
  | opaque (id : Nat)
  deriving DecidableEq, Repr, FromJson, ToJson, Inhabited

/-- the `exc_types` argument of `not_` -/
inductive ExcArg where
  | dflt                                      -- (ValueError, TypeError)
  | seq (isList : Bool) (cs : List ExcClass)  -- an iterable of objects
  | single (c : ExcClass)                     -- one non-iterable object
  deriving DecidableEq, Repr, FromJson, ToJson, Inhabited

def ExcArg.classes : ExcArg → List ExcClass
  | .dflt => [.valueError, .typeError]
  | .seq _ cs => cs
  | .single c => [c]

/-- A validator expression as written against the public API, or (constructor `andRaw`) as built.
    Parameters are ids into the case's parameter tables; what they are is only visible through the oracle. -/
inductive V where
  | instOf (t : Nat)
  | matchesRe (r : Nat) (flags : Nat) (func : ReFuncArg)
  | optional (v : V)
  | optionalSeq (isTuple : Bool) (vs : List V)          -- `optional([v1, v2])` / `optional((v1, v2))`
  | in_ (o : Nat)
  | isCallable
  | deepIter (m : V) (it : V)                           -- `it = noneV`: no iterable validator
  | deepIterSeq (isTuple : Bool) (ms : List V) (it : V) -- `deep_iterable([m1, m2], it)`
  | deepMap (k : V) (v : V) (m : V)
  | num (op : Op) (b : Nat)
  | maxLen (b : Bound)
  | minLen (b : Bound)
  | not_ (v : V) (msg : Nat) (exc : ExcArg)
  | or_ (vs : List V)
  | and_ (vs : List V)
  | andRaw (isTuple : Bool) (vs : List V)               -- built form: `_AndValidator(<tuple or list>)`
  | probe (p : Nat) (retv : Bool)                       -- a user-written validator with a scripted outcome
  | junk                                                -- an object that is not callable (`5`)
  | noneV                                               -- `None`
  deriving Repr, FromJson, ToJson, Inhabited

def V.isNoneV : V → Bool
  | .noneV => true
  | _ => false

/-- the object is callable (every validator is; `5`, `None` are not) -/
def V.callable : V → Bool
  | .junk | .noneV => false
  | _ => true

/-! ### the oracle: results of the primitives -/

inductive LenRes where
  | ok (n : Nat)
  | exc (k : ExcKind)
  deriving DecidableEq, Repr, FromJson, ToJson, Inhabited

/-- result of `value[key]` for one key yielded by iteration; `na`: not computed -/
inductive GetRes where
  | ok (v : Nat)
  | exc (k : ExcKind)
  | na
  deriving DecidableEq, Repr, FromJson, ToJson, Inhabited

structure Item where
  key : Nat
  get : GetRes
  deriving DecidableEq, Repr, FromJson, ToJson, Inhabited

/-- `for m in value`: the members yielded (as value ids) and how iteration ended -/
structure IterRes where
  items : List Item
  stop  : Option ExcKind
  deriving DecidableEq, Repr, FromJson, ToJson, Inhabited

structure Oracle where
  isNone   : Nat → Bool
  callable : Nat → Bool
  len      : Nat → LenRes
  iter     : Nat → IterRes
  /-- `isinstance(value, type)` -/
  isinst   : Nat → Nat → PrimRes
  /-- `value in options` (list/dict/set options read as the documented tuple) -/
  member   : Nat → Nat → PrimRes
  /-- `operator.<op>(value, bound)` -/
  cmp      : Op → Nat → Nat → PrimRes
  /-- `re.<func>(regex, value, flags) is not None`; func 0 fullmatch, 1 search, 2 match -/
  rematch  : Nat → Nat → Nat → Nat → PrimRes
  /-- for a non-int bound: `not (n > bound)` (max) / `not (n < bound)` (min) -/
  lenCmp   : Bool → Nat → Nat → PrimRes
  /-- scripted user validator: `t` returns, `exc k` raises -/
  probe    : Nat → Nat → PrimRes

/-! ### evaluation: `validator(inst, attr, value)` -/

/-- one call of a scripted user validator: (probe id, value id) -/
abbrev Ev := Nat × Nat
/-- outcome (`none`: returned) and the probe calls made, in order -/
abbrev R := Option ExcKind × List Ev

def ok : R := (none, [])
def raise (k : ExcKind) : R := (some k, [])

/-- statement sequencing: `b` runs only if `a` returned -/
def andThen (a b : R) : R :=
  match a.1 with
  | none => (b.1, a.2 ++ b.2)
  | some k => (some k, a.2)

/-- `for y in ys: f(y)` -/
def forEach {α : Type} (f : α → R) : List α → R
  | [] => ok
  | y :: ys => andThen (f y) (forEach f ys)

/-- `if not <prim>: raise kf` -/
def ofPrim (p : PrimRes) (kf : ExcKind) : R :=
  match p with
  | .t => ok
  | .f => raise kf
  | .exc k => raise k

def stopR : Option ExcKind → R
  | none => ok
  | some k => raise k

def effFunc : ReFuncArg → Nat
  | .dflt => 0
  | .named s => if s == "search" then 1 else if s == "match" then 2 else 0

/-- `len(value) > max_length` / `len(value) < min_length` negated: the value passes -/
def lenTest (o : Oracle) (isMax : Bool) (b : Bound) (n : Nat) : PrimRes :=
  match b with
  | .int m => PrimRes.ofBool (if isMax then decide ((n : Int) ≤ m) else decide (m ≤ (n : Int)))
  | .opaque id => o.lenCmp isMax id n

def lenVal (o : Oracle) (isMax : Bool) (b : Bound) (x : Nat) : R :=
  match o.len x with
  | .exc k => raise k
  | .ok n => ofPrim (lenTest o isMax b n) .valueError

/-- `except self.exc_types` -/
def captures (e : ExcArg) (k : ExcKind) : Bool := e.classes.any (isSub k)

/-- `_NotValidator.__call__` given the child's result -/
def notR (e : ExcArg) (r : R) : R :=
  match r.1 with
  | none => (some .valueError, r.2)
  | some k => if captures e k then (none, r.2) else (some k, r.2)

/-- `_InValidator.__call__` -/
def inR (p : PrimRes) : R :=
  match p with
  | .t => ok
  | .f => raise .valueError
  | .exc k => if isSub k .typeError then raise .valueError else raise k

def getR (g : GetRes) (f : Nat → R) : R :=
  match g with
  | .ok y => f y
  | .exc k => raise k
  | .na => raise .other

mutual
/-- `v(inst, attr, x)` for the validator object denoted by the expression -/
def eval (o : Oracle) : V → Nat → R
  | .instOf t, x => ofPrim (o.isinst t x) .typeError
  | .matchesRe r fl fn, x => ofPrim (o.rematch r fl (effFunc fn) x) .valueError
  | .optional v, x => if o.isNone x then ok else eval o v x
  | .optionalSeq _ vs, x => if o.isNone x then ok else evalAll o vs x
  | .in_ p, x => inR (o.member p x)
  | .isCallable, x => if o.callable x then ok else raise .notCallable
  | .deepIter m it, x =>
      andThen (if it.isNoneV then ok else eval o it x)
        (andThen (forEach (fun i => eval o m i.key) (o.iter x).items) (stopR (o.iter x).stop))
  | .deepIterSeq _ ms it, x =>
      andThen (if it.isNoneV then ok else eval o it x)
        (andThen (forEach (fun i => evalAll o ms i.key) (o.iter x).items) (stopR (o.iter x).stop))
  | .deepMap kv vv mv, x =>
      andThen (if mv.isNoneV then ok else eval o mv x)
        (andThen
          (forEach (fun i => andThen (eval o kv i.key) (getR i.get (fun y => eval o vv y))) (o.iter x).items)
          (stopR (o.iter x).stop))
  | .num op b, x => ofPrim (o.cmp op b x) .valueError
  | .maxLen b, x => lenVal o true b x
  | .minLen b, x => lenVal o false b x
  | .not_ v _ e, x => notR e (eval o v x)
  | .or_ vs, x => evalAny o vs x
  | .and_ vs, x => evalAll o vs x
  | .andRaw _ vs, x => evalAll o vs x
  | .probe p _, x => ((match o.probe p x with | .exc k => some k | _ => none), [(p, x)])
  | .junk, _ => raise .typeError        -- 'int' object is not callable
  | .noneV, _ => raise .typeError       -- 'NoneType' object is not callable
/-- `_AndValidator.__call__`: `for v in self._validators: v(inst, attr, value)` -/
def evalAll (o : Oracle) : List V → Nat → R
  | [], _ => ok
  | v :: vs, x => andThen (eval o v x) (evalAll o vs x)
/-- `_OrValidator.__call__`: first that returns wins, `except Exception: continue`, else ValueError -/
def evalAny (o : Oracle) : List V → Nat → R
  | [], _ => raise .valueError
  | v :: vs, x =>
    match (eval o v x).1 with
    | none => (none, (eval o v x).2)
    | some k =>
      if isSub k .exception then ((evalAny o vs x).1, (eval o v x).2 ++ (evalAny o vs x).2)
      else (some k, (eval o v x).2)
end

/-! ### construction: argument checks and normal form of the built object -/

structure BuildOracle where
  /-- the regex argument is a compiled `re.Pattern` -/
  isPattern : Nat → Bool
  /-- `re.compile(regex, flags)`: `t` succeeds, `exc k` raises -/
  compile   : Nat → Nat → PrimRes

def funcValid : ReFuncArg → Bool
  | .dflt => true
  | .named s => Generated.matchesReFuncs.contains s

/-- first of two optional errors -/
def first (a b : Option ExcKind) : Option ExcKind :=
  match a with
  | some k => some k
  | none => b

def needCallable (v : V) : Option ExcKind := if v.callable then none else some .notCallable
def needCallableOrNone (v : V) : Option ExcKind := if v.isNoneV || v.callable then none else some .notCallable

def matchesReErr (bo : BuildOracle) (r fl : Nat) (fn : ReFuncArg) : Option ExcKind :=
  if !funcValid fn then some .valueError
  else if bo.isPattern r then (if fl != 0 then some .typeError else none)
  else match bo.compile r fl with
    | .t => none
    | .f => some .other
    | .exc k => some k

/-- `_NotValidator`'s validator on `exc_types`: every member a subclass of `Exception` -/
def excArgErr (e : ExcArg) : Option ExcKind := if e.classes.all ExcClass.valid then none else some .typeError

mutual
/-- the exception raised while evaluating the constructor expression (arguments left to right, then
    the factory's own checks), `none` if a validator object results -/
def buildErr (bo : BuildOracle) : V → Option ExcKind
  | .matchesRe r fl fn => matchesReErr bo r fl fn
  | .optional v => buildErr bo v
  | .optionalSeq _ vs => buildErrL bo vs
  | .deepIter m it =>
      first (buildErr bo m) (first (buildErr bo it) (first (needCallable m) (needCallableOrNone it)))
  | .deepIterSeq _ ms it =>
      first (buildErrL bo ms) (first (buildErr bo it) (needCallableOrNone it))
  | .deepMap k v m =>
      first (buildErr bo k) (first (buildErr bo v) (first (buildErr bo m)
        (first (needCallable k) (first (needCallable v) (needCallableOrNone m)))))
  | .not_ v _ e => first (buildErr bo v) (excArgErr e)
  | .or_ vs => buildErrL bo vs
  | .and_ vs => buildErrL bo vs
  | .andRaw _ vs => buildErrL bo vs
  | _ => none
def buildErrL (bo : BuildOracle) : List V → Option ExcKind
  | [] => none
  | v :: vs => first (buildErr bo v) (buildErrL bo vs)
end

/-- `validator._validators if isinstance(validator, _AndValidator) else [validator]` -/
def andItems : V → List V
  | .andRaw _ ws => ws
  | v => [v]

/-- `v.validators if isinstance(v, _OrValidator) else [v]` -/
def orItems : V → List V
  | .or_ ws => ws
  | v => [v]

mutual
/-- the object the constructor expression builds (given that no argument check failed):
    `and_` / `or_` / `deep_iterable([...])` splice nested conjunctions / disjunctions,
    `optional([...])` wraps the sequence as it is -/
def norm : V → V
  | .optional v => .optional (norm v)
  | .optionalSeq t vs => .optional (.andRaw t (normL vs))
  | .deepIter m it => .deepIter (norm m) (norm it)
  | .deepIterSeq _ ms it => .deepIter (.andRaw true ((normL ms).flatMap andItems)) (norm it)
  | .deepMap k v m => .deepMap (norm k) (norm v) (norm m)
  | .not_ v m e => .not_ (norm v) m e
  | .or_ vs => .or_ ((normL vs).flatMap orItems)
  | .and_ vs => .andRaw true ((normL vs).flatMap andItems)
  | .andRaw t vs => .andRaw t (normL vs)
  | .instOf t => .instOf t
  | .matchesRe r fl fn => .matchesRe r fl fn
  | .in_ p => .in_ p
  | .isCallable => .isCallable
  | .num op b => .num op b
  | .maxLen b => .maxLen b
  | .minLen b => .minLen b
  | .probe p r => .probe p r
  | .junk => .junk
  | .noneV => .noneV
def normL : List V → List V
  | [] => []
  | v :: vs => norm v :: normL vs
end

/-! ### generated `__eq__` / `__hash__` of the built objects -/

structure EqOracle where
  /-- `p == p'` between two parameters of one sort (0 type, 1 options as given, 2 options as stored,
      3 bound, 4 length bound, 5 regex argument) -/
  peq      : Nat → Nat → Nat → PrimRes
  /-- `re.compile(r, fl) == re.compile(r', fl')` -/
  patEq    : Nat → Nat → Nat → Nat → PrimRes
  /-- `hash(re.compile(r, fl)) == hash(re.compile(r', fl'))` -/
  patHashEq : Nat → Nat → Nat → Nat → Bool
  /-- `hash(p)`: `t` works, `exc k` raises -/
  phash    : Nat → Nat → PrimRes
  /-- `hash(p) == hash(p')` -/
  phashEq  : Nat → Nat → Nat → Bool

/-- Python's `a and b` on truth values with exceptions -/
def pand (a b : PrimRes) : PrimRes :=
  match a with
  | .t => b
  | r => r

def boundEq (eo : EqOracle) : Bound → Bound → PrimRes
  | .int n, .int m => PrimRes.ofBool (n == m)
  | .opaque a, .opaque b => eo.peq 4 a b
  | _, _ => .f

mutual
/-- `v == v'` for built validator objects: same class, then the and-chain of field `==`;
    a different class gives NotImplemented twice and Python answers False -/
def veq (eo : EqOracle) : V → V → PrimRes
  | .instOf t, w => (match w with | .instOf t' => eo.peq 0 t t' | _ => .f)
  | .matchesRe r fl fn, w =>
      (match w with
       | .matchesRe r' fl' fn' =>
         -- `match_func` is compared (and hashed) by the method's name: fullmatch / search / match
         pand (eo.patEq r fl r' fl') (PrimRes.ofBool (effFunc fn == effFunc fn'))
       | _ => .f)
  | .optional v, w => (match w with | .optional v' => veq eo v v' | _ => .f)
  | .in_ p, w => (match w with | .in_ p' => pand (eo.peq 2 p p') (eo.peq 1 p p') | _ => .f)
  | .isCallable, w => (match w with | .isCallable => .t | _ => .f)
  | .deepIter m it, w =>
      (match w with | .deepIter m' it' => pand (veq eo m m') (veq eo it it') | _ => .f)
  | .deepMap k v m, w =>
      (match w with
       | .deepMap k' v' m' => pand (veq eo k k') (pand (veq eo v v') (veq eo m m'))
       | _ => .f)
  | .num op b, w =>
      (match w with | .num op' b' => pand (eo.peq 3 b b') (PrimRes.ofBool (op == op')) | _ => .f)
  | .maxLen b, w => (match w with | .maxLen b' => boundEq eo b b' | _ => .f)
  | .minLen b, w => (match w with | .minLen b' => boundEq eo b b' | _ => .f)
  | .not_ v m e, w =>
      (match w with
       | .not_ v' m' e' => pand (veq eo v v') (PrimRes.ofBool (m == m' && e.classes == e'.classes))
       | _ => .f)
  | .or_ vs, w => (match w with | .or_ vs' => veqL eo true vs vs' | _ => .f)
  | .andRaw t vs, w =>
      (match w with
       | .andRaw t' vs' => if t == t' then veqL eo t vs vs' else .f
       | _ => .f)
  | .probe p r, w => (match w with | .probe p' r' => PrimRes.ofBool (p == p' && r == r') | _ => .f)
  | .junk, w => (match w with | .junk => .t | _ => .f)
  | .noneV, w => (match w with | .noneV => .t | _ => .f)
  -- not built forms
  | .optionalSeq _ _, _ => .f
  | .deepIterSeq _ _ _, _ => .f
  | .and_ _, _ => .f
/-- tuple / list `==`: a list answers False at once when the lengths differ; a tuple compares the common
    prefix first (and may raise there) -/
def veqL (eo : EqOracle) (isTuple : Bool) : List V → List V → PrimRes
  | [], ws => PrimRes.ofBool ws.isEmpty
  | v :: vs, ws =>
    (match ws with
     | [] => .f
     | w :: ws' =>
       if !isTuple && vs.length != ws'.length then .f
       else pand (veq eo v w) (veqL eo isTuple vs ws'))
end

def primErr : PrimRes → Option ExcKind
  | .exc k => some k
  | _ => none

def boundHash (eo : EqOracle) : Bound → Option ExcKind
  | .int _ => none
  | .opaque a => primErr (eo.phash 4 a)

mutual
/-- `hash(v)`: `none` works, `some k` raises (field hashes are taken left to right) -/
def vhash (eo : EqOracle) : V → Option ExcKind
  | .instOf t => primErr (eo.phash 0 t)
  | .optional v => vhash eo v
  | .in_ p => primErr (eo.phash 2 p)                -- `_original_options` is excluded from the hash
  | .deepIter m it => first (vhash eo m) (vhash eo it)
  | .deepMap k v m => first (vhash eo k) (first (vhash eo v) (vhash eo m))
  | .num _ b => primErr (eo.phash 3 b)
  | .maxLen b => boundHash eo b
  | .minLen b => boundHash eo b
  | .not_ v _ _ => vhash eo v
  | .or_ vs => vhashL eo vs
  | .andRaw t vs => if t then vhashL eo vs else some .typeError   -- a list is unhashable
  | _ => none
def vhashL (eo : EqOracle) : List V → Option ExcKind
  | [] => none
  | v :: vs => first (vhash eo v) (vhashL eo vs)
end

def boundHashEq (eo : EqOracle) : Bound → Bound → Bool
  | .int n, .int m => n == m
  | .opaque a, .opaque b => eo.phashEq 4 a b
  | _, _ => false

mutual
/-- `hash(v) == hash(v')` as far as it follows from the fields (same class, field hashes equal) -/
def vhashEq (eo : EqOracle) : V → V → Bool
  | .instOf t, w => (match w with | .instOf t' => eo.phashEq 0 t t' | _ => false)
  | .matchesRe r fl fn, w =>
      (match w with
       | .matchesRe r' fl' fn' => eo.patHashEq r fl r' fl' && effFunc fn == effFunc fn'
       | _ => false)
  | .optional v, w => (match w with | .optional v' => vhashEq eo v v' | _ => false)
  | .in_ p, w => (match w with | .in_ p' => eo.phashEq 2 p p' | _ => false)
  | .isCallable, w => (match w with | .isCallable => true | _ => false)
  | .deepIter m it, w =>
      (match w with | .deepIter m' it' => vhashEq eo m m' && vhashEq eo it it' | _ => false)
  | .deepMap k v m, w =>
      (match w with
       | .deepMap k' v' m' => vhashEq eo k k' && vhashEq eo v v' && vhashEq eo m m'
       | _ => false)
  | .num op b, w => (match w with | .num op' b' => eo.phashEq 3 b b' && op == op' | _ => false)
  | .maxLen b, w => (match w with | .maxLen b' => boundHashEq eo b b' | _ => false)
  | .minLen b, w => (match w with | .minLen b' => boundHashEq eo b b' | _ => false)
  | .not_ v m e, w =>
      (match w with
       | .not_ v' m' e' => vhashEq eo v v' && m == m' && e.classes == e'.classes
       | _ => false)
  | .or_ vs, w => (match w with | .or_ vs' => vhashEqL eo vs vs' | _ => false)
  | .andRaw _ vs, w => (match w with | .andRaw _ vs' => vhashEqL eo vs vs' | _ => false)
  | .probe p r, w => (match w with | .probe p' r' => p == p' && r == r' | _ => false)
  | .junk, w => (match w with | .junk => true | _ => false)
  | .noneV, w => (match w with | .noneV => true | _ => false)
  | .optionalSeq _ _, _ => false
  | .deepIterSeq _ _ _, _ => false
  | .and_ _, _ => false
def vhashEqL (eo : EqOracle) : List V → List V → Bool
  | [], ws => ws.isEmpty
  | v :: vs, ws =>
    (match ws with
     | [] => false
     | w :: ws' => vhashEq eo v w && vhashEqL eo vs ws')
end

/-! ### cases and observations -/

structure VRow where
  id       : Nat
  fp       : String          -- canonical description of the value (what a probe logs)
  isNone   : Bool
  callable : Bool
  len      : LenRes
  iter     : Option IterRes
  deriving Repr, FromJson, ToJson, Inhabited

/-- one oracle row: key (table tag :: arguments) and result -/
structure Row where
  k : List Nat
  r : PrimRes
  deriving Repr, FromJson, ToJson, Inhabited

structure Case where
  tree  : V
  /-- a second expression, compared with the first by `==` / `hash` -/
  tree2 : V
  /-- the harness purges re's compile cache between the two constructions, so that equal regexes compile
      to distinct pattern objects (nothing in the model depends on it: `C18_purge_irrelevant`) -/
  purge : Bool
  /-- the history after the first call: further values (ids into `vals`; the same object after a change
      of the world — an ABC registration, an attribute set or deleted, a list grown — is a new id, with the
      primitives evaluated at the time of that call) handed, in this order, to the very same validator
      object or to one freshly built from the same expression (harness-only: the model has no state) -/
  more  : List Nat
  vals  : List VRow
  prim  : List Row
  deriving Repr, FromJson, ToJson, Inhabited

def lookup (t : List Row) (k : List Nat) : PrimRes :=
  match t.find? (fun r => r.k == k) with
  | some r => r.r
  | none => .exc .other

def vrow (c : Case) (x : Nat) : Option VRow := c.vals.find? (fun r => r.id == x)

def Case.oracle (c : Case) : Oracle where
  isNone x := match vrow c x with | some r => r.isNone | none => false
  callable x := match vrow c x with | some r => r.callable | none => false
  len x := match vrow c x with | some r => r.len | none => .exc .other
  iter x := match vrow c x with
    | some r => (match r.iter with | some i => i | none => { items := [], stop := some .other })
    | none => { items := [], stop := some .other }
  isinst t x := lookup c.prim [0, t, x]
  member p x := lookup c.prim [1, p, x]
  cmp op b x := lookup c.prim [2, op.code, b, x]
  rematch r fl f x := lookup c.prim [3, r, fl, f, x]
  lenCmp isMax b n := lookup c.prim [4, if isMax then 1 else 0, b, n]
  probe p x := lookup c.prim [5, p, x]

def Case.buildOracle (c : Case) : BuildOracle where
  isPattern r := lookup c.prim [6, r] == .t
  compile r fl := lookup c.prim [7, r, fl]

def Case.eqOracle (c : Case) : EqOracle where
  peq s p p' := lookup c.prim [10, s, p, p']
  patEq r fl r' fl' := lookup c.prim [11, r, fl, r', fl']
  patHashEq r fl r' fl' := lookup c.prim [15, r, fl, r', fl'] == .t
  phash s p := lookup c.prim [13, s, p]
  phashEq s p p' := lookup c.prim [14, s, p, p'] == .t

/-- one later call of the history -/
structure StepObs where
  outcome   : Option ExcKind
  retNone   : Bool
  unchanged : Bool
  trace     : List (Nat × String)
  deriving DecidableEq, Repr, FromJson, ToJson, Inhabited

structure Obs where
  /-- exception raised while constructing the first validator -/
  build     : Option ExcKind
  /-- `v(inst, attr, value)`: `none` returned, `some k` raised -/
  outcome   : Option ExcKind
  /-- the call returned `None` (true when it raised) -/
  retNone   : Bool
  /-- the value object is as it was before the call -/
  unchanged : Bool
  /-- calls of scripted user validators: (probe id, description of the value passed) -/
  trace     : List (Nat × String)
  build2    : Option ExcKind
  /-- truth value of `v == v2` -/
  eq        : PrimRes
  hash1     : Option ExcKind
  hash2     : Option ExcKind
  /-- `v == v2` true and both hashable ⇒ the hashes are equal -/
  hashAgree : Bool
  /-- the later calls of the history, in order -/
  more      : List StepObs
  deriving DecidableEq, Repr, FromJson, ToJson, Inhabited

def fpOf (c : Case) (x : Nat) : String := match vrow c x with | some r => r.fp | none => "?"

/-- what the call returns when it returns: `None`, except a bare user validator returning something -/
def retNoneOf (t : V) (out : Option ExcKind) : Bool :=
  match t with
  | .probe _ retv => out.isSome || !retv
  | _ => true

/-- a later call: the same function of (built object, oracle at that time, value) as the first one —
    validators keep no state between calls -/
def stepOf (c : Case) (x : Nat) : StepObs :=
  let r := eval c.oracle (norm c.tree) x
  { outcome := r.1, retNone := retNoneOf c.tree r.1, unchanged := true,
    trace := r.2.map (fun e => (e.1, fpOf c e.2)) }

def model (c : Case) : Obs :=
  match buildErr c.buildOracle c.tree with
  | some k =>
    { build := some k, outcome := none, retNone := true, unchanged := true, trace := [],
      build2 := none, eq := .f, hash1 := none, hash2 := none, hashAgree := true, more := [] }
  | none =>
    let b := norm c.tree
    let r := eval c.oracle b 0
    let tr := r.2.map (fun e => (e.1, fpOf c e.2))
    match buildErr c.buildOracle c.tree2 with
    | some k =>
      { build := none, outcome := r.1, retNone := retNoneOf c.tree r.1, unchanged := true, trace := tr,
        build2 := some k, eq := .f, hash1 := none, hash2 := none, hashAgree := true,
        more := c.more.map (stepOf c) }
    | none =>
      let b2 := norm c.tree2
      let eo := c.eqOracle
      let e := veq eo b b2
      let h1 := vhash eo b
      let h2 := vhash eo b2
      { build := none, outcome := r.1, retNone := retNoneOf c.tree r.1, unchanged := true, trace := tr,
        build2 := none, eq := e, hash1 := h1, hash2 := h2,
        hashAgree := if e == .t && h1 == none && h2 == none then vhashEq eo b b2 else true,
        more := c.more.map (stepOf c) }

end Attrs.C18
