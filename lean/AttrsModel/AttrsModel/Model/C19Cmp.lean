/-
  C19 (d) — `cmp_using` (src/attr/_cmp.py): `_make_operator`, `_is_comparable_to`, `_check_same_type`, the shared
  `__ne__` of src/attr/_make.py, the `ValueError` for ordering functions without `eq`, and the part of CPython that
  the resulting class relies on: `functools.total_ordering` (3.12: root = max(roots), i.e. prefer `__lt__` to
  `__le__` to `__gt__` to `__ge__`; the twelve `_x_from_y` derivations with their `and`/`or` short-circuits and
  their use of the `==` / `!=` *operators*; NotImplemented from the root is passed on), `object`'s default rich
  comparisons, and the operator protocol (method, reflected method, then identity for `==`/`!=` and `TypeError`
  for the orderings).  The supplied functions compute one of nine relations on the integer payloads.
-/
import AttrsModel.Core

namespace Attrs.C19.Cmp
open Lean

/-- what a supplied function computes on the two `.value`s -/
inductive Rel where
  | eq | ne | lt | le | gt | ge
  | tt | ff      -- constant True / False
  | ni           -- returns NotImplemented
  | boom         -- raises (an exception of a class chosen by the harness: KeyError, StopIteration, TypeError, a BaseException subclass …)
  deriving DecidableEq, Repr, FromJson, ToJson, Inhabited

/-- outcome of a method call or of an operator -/
inductive R where
  | T | F | NI
  | typeError | attributeError | valueError
  | raised       -- the very exception object raised by a supplied function came out
  | other
  deriving DecidableEq, Repr, FromJson, ToJson, Inhabited

def R.ofBool (b : Bool) : R := if b then .T else .F

/-- Python `not r` on a bool; exceptions propagate -/
def R.not : R → R
  | .T => .F
  | .F => .T
  | r => r

def Rel.eval : Rel → Int → Int → R
  | .eq, a, b => .ofBool (decide (a = b))
  | .ne, a, b => .ofBool (decide (a ≠ b))
  | .lt, a, b => .ofBool (decide (a < b))
  | .le, a, b => .ofBool (decide (a ≤ b))
  | .gt, a, b => .ofBool (decide (b < a))
  | .ge, a, b => .ofBool (decide (b ≤ a))
  | .tt, _, _ => .T
  | .ff, _, _ => .F
  | .ni, _, _ => .NI
  | .boom, _, _ => .raised

/-- the six rich comparisons -/
inductive Op where
  | eq | ne | lt | le | gt | ge
  deriving DecidableEq, Repr, FromJson, ToJson, Inhabited

def Op.all : List Op := [.eq, .ne, .lt, .le, .gt, .ge]

/-- the right operand `y`, relative to the left operand `x` (a cmp_using object holding an int) -/
inductive Rhs where
  | same        -- same class, payload of the same type
  | sub         -- same class, payload of a subclass of the left payload's type
  | otherType   -- same class, payload of an unrelated type
  | foreign     -- a bare object without `.value`
  | identical   -- `x` itself: the same wrapper object on both sides (the case's `b` equals `a`)
  deriving DecidableEq, Repr, FromJson, ToJson, Inhabited

structure Case where
  eq : Option Rel
  lt : Option Rel
  le : Option Rel
  gt : Option Rel
  ge : Option Rel
  requireSameType : Bool
  className : String
  a : Int
  b : Int
  rhs : Rhs
  /-- the supplied functions are partial: they raise when the two payloads are not of the same class
      (like `lambda a, b: a.lower() == b.lower()` on a non-str) -/
  partialFns : Bool
  deriving DecidableEq, Repr, FromJson, ToJson, Inhabited

inductive CtorRes where
  | ok | valueError | typeError | other
  deriving DecidableEq, Repr, FromJson, ToJson, Inhabited

structure Obs where
  ctor     : CtorRes
  name     : String       -- `cls.__name__`
  hashNone : Bool         -- `cls.__hash__ is None`
  direct   : List R       -- `type(x).__op__(x, y)` for eq ne lt le gt ge
  ops      : List R       -- `x op y`
  /-- the calls of supplied functions made by each of the twelve evaluations above, in order:
      `slot(self.value,other.value)` -/
  directCalls : List (List String)
  opCalls     : List (List String)
  deriving DecidableEq, Repr, FromJson, ToJson, Inhabited

/-- an operand -/
structure Opd where
  val    : Int
  ty     : Nat        -- class of `.value`
  cmpObj : Bool       -- an instance of the cmp_using class
  id     : Nat        -- object identity
  deriving DecidableEq, Repr, Inhabited

def leftOpd (c : Case) : Opd := { val := c.a, ty := 0, cmpObj := true, id := 0 }
def rightOpd (c : Case) : Opd :=
  match c.rhs with
  | .same => { val := c.b, ty := 0, cmpObj := true, id := 1 }
  | .sub => { val := c.b, ty := 1, cmpObj := true, id := 1 }
  | .otherType => { val := c.b, ty := 2, cmpObj := true, id := 1 }
  | .foreign => { val := c.b, ty := 3, cmpObj := false, id := 1 }
  | .identical => { val := c.b, ty := 0, cmpObj := true, id := 0 }

/-- the function supplied for an operator's slot (`__ne__` has no slot) -/
def slot (c : Case) : Op → Option Rel
  | .eq => c.eq
  | .ne => none
  | .lt => c.lt
  | .le => c.le
  | .gt => c.gt
  | .ge => c.ge

def numOrd (c : Case) : Nat :=
  (if c.lt.isSome then 1 else 0) + (if c.le.isSome then 1 else 0) +
  (if c.gt.isSome then 1 else 0) + (if c.ge.isSome then 1 else 0)

/-- `if 0 < num_order_functions < 4: if not has_eq_function: raise ValueError` -/
def ctorFails (c : Case) : Bool := 0 < numOrd c && numOrd c < 4 && c.eq.isNone

/-- `total_ordering` is applied -/
def totalOrdering (c : Case) : Bool := 0 < numOrd c && numOrd c < 4

/-- what the supplied function `r` does when it is called on the two payloads -/
def fnRes (c : Case) (r : Rel) (self other : Opd) : R :=
  if c.partialFns && other.ty != self.ty then .raised else r.eval self.val other.val

/-- `_make_operator(name, func)`'s `method(self, other)` for a cmp_using object `self` -/
def method (c : Case) (r : Rel) (self other : Opd) : R :=
  if c.requireSameType then
    -- `_is_comparable_to` → `_check_same_type`: other.value.__class__ is self.value.__class__
    if !other.cmpObj then .attributeError
    else if other.ty != self.ty then .NI
    else fnRes c r self other
  else
    if !other.cmpObj then .attributeError      -- func(self.value, other.value)
    else fnRes c r self other

def Op.name : Op → String
  | .eq => "eq" | .ne => "ne" | .lt => "lt" | .le => "le" | .gt => "gt" | .ge => "ge"

/-- the record an instrumented supplied function leaves when called -/
def callEv (op : Op) (self other : Opd) : String :=
  op.name ++ "(" ++ toString self.val ++ "," ++ toString other.val ++ ")"

/-- calls made by `method`: the function is called (once, with `self.value, other.value`) only after the
    comparability check has passed -/
def methodLog (c : Case) (op : Op) (self other : Opd) : List String :=
  if c.requireSameType then
    if !other.cmpObj then []
    else if other.ty != self.ty then []
    else [callEv op self other]
  else
    if !other.cmpObj then [] else [callEv op self other]

/-- `type(self).__eq__(self, other)`: the supplied function decides, also when `other is self` (there is no
    identity shortcut); without `eq` it is `object.__eq__` (True for the same object, else NotImplemented) -/
def dunderEq (c : Case) (self other : Opd) : R :=
  match c.eq with
  | some r => method c r self other
  | none => if self.id == other.id then .T else .NI

/-- the shared `__ne__` (`result = self.__eq__(other)`; NotImplemented passed on; `not result`), present iff `eq`
    is; otherwise `object.__ne__` (NotImplemented for distinct objects) -/
def dunderNe (c : Case) (self other : Opd) : R :=
  match c.eq with
  | some _ =>
    match dunderEq c self other with
    | .NI => .NI
    | r => r.not
  | none => if self.id == other.id then .F else .NI

/-- `x == y`: method, reflected method (`object.__eq__` for a foreign right operand), then identity -/
def opEq (c : Case) (x y : Opd) : R :=
  match dunderEq c x y with
  | .NI =>
    match (if y.cmpObj then dunderEq c y x else .NI) with
    | .NI => .ofBool (x.id == y.id)
    | r => r
  | r => r

def opNe (c : Case) (x y : Opd) : R :=
  match dunderNe c x y with
  | .NI =>
    match (if y.cmpObj then dunderNe c y x else .NI) with
    | .NI => .ofBool (x.id != y.id)
    | r => r
  | r => r

/-- `root = max(roots)`: prefer `__lt__` to `__le__` to `__gt__` to `__ge__` -/
def root (c : Case) : Option Op :=
  if c.lt.isSome then some .lt
  else if c.le.isSome then some .le
  else if c.gt.isSome then some .gt
  else if c.ge.isSome then some .ge
  else none

/-- the five shapes of functools' `_x_from_y` bodies -/
inductive Deriv where
  | notAndNe    -- not op_result and self != other
  | orEq        -- op_result or self == other
  | not         -- not op_result
  | notOrEq     -- not op_result or self == other
  | andNe       -- op_result and self != other
  deriving DecidableEq, Repr

/-- functools `_convert[root]` -/
def convert : Op → Op → Option Deriv
  | .lt, .gt => some .notAndNe
  | .lt, .le => some .orEq
  | .lt, .ge => some .not
  | .le, .ge => some .notOrEq
  | .le, .lt => some .andNe
  | .le, .gt => some .not
  | .gt, .lt => some .notAndNe
  | .gt, .ge => some .orEq
  | .gt, .le => some .not
  | .ge, .le => some .notOrEq
  | .ge, .gt => some .andNe
  | .ge, .lt => some .not
  | _, _ => none

/-- value of the derived body given the root's boolean result and the results of `self == other`, `self != other`
    (evaluated only where Python evaluates them) -/
def applyDeriv (d : Deriv) (res : Bool) (eqv nev : R) : R :=
  match d with
  | .notAndNe => if res then .F else nev
  | .orEq => if res then .T else eqv
  | .not => .ofBool (!res)
  | .notOrEq => if res then eqv else .T
  | .andNe => if res then nev else .F

/-- body of a derived method: `op_result = type(self).__root__(self, other)`; NotImplemented is passed on (an
    exception propagates); otherwise the boolean expression -/
def fromRoot (d : Deriv) (opResult eqv nev : R) : R :=
  match opResult with
  | .T => applyDeriv d true eqv nev
  | .F => applyDeriv d false eqv nev
  | r => r

/-- `type(self).__op__(self, other)` for an ordering operator -/
def dunderOrd (c : Case) (op : Op) (self other : Opd) : R :=
  match slot c op with
  | some r => method c r self other
  | none =>
    if totalOrdering c then
      match root c with
      | none => .NI
      | some rt =>
        match slot c rt, convert rt op with
        | some rr, some d => fromRoot d (method c rr self other) (opEq c self other) (opNe c self other)
        | _, _ => .NI
    else .NI                -- object's default

def dunder (c : Case) (op : Op) (self other : Opd) : R :=
  match op with
  | .eq => dunderEq c self other
  | .ne => dunderNe c self other
  | op => dunderOrd c op self other

def Op.swap : Op → Op
  | .eq => .eq | .ne => .ne
  | .lt => .gt | .gt => .lt
  | .le => .ge | .ge => .le

/-- `x op y` -/
def oper (c : Case) (op : Op) (x y : Opd) : R :=
  match op with
  | .eq => opEq c x y
  | .ne => opNe c x y
  | op =>
    match dunderOrd c op x y with
    | .NI =>
      match (if y.cmpObj then dunderOrd c op.swap y x else .NI) with
      | .NI => .typeError
      | r => r
    | r => r

/-! ### which supplied functions get called, and in which order -/

def dunderEqLog (c : Case) (self other : Opd) : List String :=
  match c.eq with
  | some _ => methodLog c .eq self other
  | none => []

/-- `__ne__` calls `self.__eq__(other)` -/
def dunderNeLog (c : Case) (self other : Opd) : List String := dunderEqLog c self other

def opEqLog (c : Case) (x y : Opd) : List String :=
  dunderEqLog c x y ++
    (match dunderEq c x y with
     | .NI => if y.cmpObj then dunderEqLog c y x else []
     | _ => [])

def opNeLog (c : Case) (x y : Opd) : List String :=
  dunderNeLog c x y ++
    (match dunderNe c x y with
     | .NI => if y.cmpObj then dunderNeLog c y x else []
     | _ => [])

/-- the operators a derived body evaluates after the root, given the root's boolean result (short-circuit) -/
def derivLog (d : Deriv) (res : Bool) (eqLog neLog : List String) : List String :=
  match d with
  | .notAndNe => if res then [] else neLog
  | .orEq => if res then [] else eqLog
  | .not => []
  | .notOrEq => if res then eqLog else []
  | .andNe => if res then neLog else []

def dunderOrdLog (c : Case) (op : Op) (self other : Opd) : List String :=
  match slot c op with
  | some _ => methodLog c op self other
  | none =>
    if totalOrdering c then
      match root c with
      | none => []
      | some rt =>
        match slot c rt, convert rt op with
        | some rr, some d =>
          methodLog c rt self other ++
            (match method c rr self other with
             | .T => derivLog d true (opEqLog c self other) (opNeLog c self other)
             | .F => derivLog d false (opEqLog c self other) (opNeLog c self other)
             | _ => [])
        | _, _ => []
    else []

def dunderLog (c : Case) (op : Op) (self other : Opd) : List String :=
  match op with
  | .eq => dunderEqLog c self other
  | .ne => dunderNeLog c self other
  | op => dunderOrdLog c op self other

def operLog (c : Case) (op : Op) (x y : Opd) : List String :=
  match op with
  | .eq => opEqLog c x y
  | .ne => opNeLog c x y
  | op =>
    dunderOrdLog c op x y ++
      (match dunderOrd c op x y with
       | .NI => if y.cmpObj then dunderOrdLog c op.swap y x else []
       | _ => [])

def model (c : Case) : Obs :=
  if ctorFails c then
    { ctor := .valueError, name := "", hashNone := false, direct := [], ops := [], directCalls := [], opCalls := [] }
  else
    { ctor := .ok, name := c.className,
      hashNone := c.eq.isSome,            -- `__eq__` in the class body without `__hash__`
      direct := Op.all.map (fun op => dunder c op (leftOpd c) (rightOpd c)),
      ops := Op.all.map (fun op => oper c op (leftOpd c) (rightOpd c)),
      directCalls := Op.all.map (fun op => dunderLog c op (leftOpd c) (rightOpd c)),
      opCalls := Op.all.map (fun op => operLog c op (leftOpd c) (rightOpd c)) }

end Attrs.C19.Cmp
