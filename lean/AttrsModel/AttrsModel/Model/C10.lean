/-
  C10 — copy / deepcopy / pickle round trip.

  Mirrors, in src/attr/_make.py: `_ClassBuilder._make_getstate_setstate` (`slots_getstate` = dict of every
  name of `_attr_names` read with `getattr`, never empty for a hash-caching class; `slots_setstate` = `object.__setattr__` for the names present in
  a dict state, positional `zip` for a legacy tuple state, then the hash-cache reset), the wiring in
  `attrs.wrap` (`_determine_whether_to_implement(cls, getstate_setstate, auto_detect, ("__getstate__",
  "__setstate__"), default=slots or _inherits_generated_getstate(cls))`), `_CacheHashWrapper.__reduce__` (→ `None`), the hash-cache part of
  `_make_hash_script` and the end of the generated `__init__` (`_attrs_to_init_script`, cache reset and the
  store technique of `_determine_setters` / `_is_slot_attr`), `_create_slots_class` (which names become slots,
  the `__slots__` tuple with reused slots / `__weakref__` / the cache field), the hash/eq part of
  `attrs.wrap`, and field collection on a single-inheritance chain (`_collect_base_attrs{,_broken}` through
  `Model/Init.lean`'s `slotBelief`).

  The rest is CPython (3.12) and is modelled only as far as attrs relies on it: attribute lookup (a slot
  descriptor anywhere along the MRO shadows the instance dict), `object.__reduce_ex__` →
  `copyreg.__reduce_ex__` for protocols 0/1 (refuses `__slots__` without `__getstate__`, drops a falsy state)
  and `copyreg.__newobj__` + `object.__getstate__` for protocols ≥ 2 (state `None`, `__dict__`, or
  `(dict, slotsdict)`), `copy._reconstruct` / pickle's `BUILD` (call `__setstate__` if resolvable, else update
  `__dict__` and `setattr` every slot value).

  Values are tokens; a class is a summary of what can be resolved on it (fold over the chain, root first).
-/
import AttrsModel.Core
import AttrsModel.Generated.Tables
import AttrsModel.Model.Init

namespace Attrs.C10
open Lean

inductive Kind where
  | attrs | plain
  /-- the builtin `Exception` at the root of a chain of auto_exc classes (never sent by the harness: see `fullChain`) -/
  | exc
  deriving DecidableEq, Repr, FromJson, ToJson, Inhabited

/-- `getstate_setstate=`: not passed or None / True / False -/
inductive Tri where
  | none | t | f
  deriving DecidableEq, Repr, FromJson, ToJson, Inhabited

/-- what kind of Python value the harness puts into the field (`box` = mutable, hashable container) -/
inductive VKind where
  | int | str | box
  deriving DecidableEq, Repr, FromJson, ToJson, Inhabited

structure Field where
  name : String
  /-- `attr.ib(init=False)` without default: the initializer leaves it unset -/
  init : Bool
  kind : VKind
  deriving DecidableEq, Repr, FromJson, ToJson, Inhabited

/-- one class of the chain as written -/
structure Cls where
  kind : Kind
  /-- attrs: `slots=True`; plain: the body has `__slots__` -/
  slots : Bool
  /-- plain class with `__slots__`: the tuple -/
  plainSlots : List String
  frozen : Bool
  cacheHash : Bool
  weakrefSlot : Bool
  gs : Tri
  autoDetect : Bool
  /-- the body defines (well-behaved) `__getstate__` and `__setstate__` -/
  userGS : Bool
  eq : Bool
  /-- `unsafe_hash=True` (otherwise None) -/
  unsafeHash : Bool
  collectByMro : Bool
  /-- own fields in definition order -/
  fields : List Field
  deriving DecidableEq, Repr, FromJson, ToJson, Inhabited

inductive Op where
  | copy | deepcopy
  | pickle (proto : Nat)
  /-- `cls.__new__(cls).__setstate__((t0, …, t(len-1)))`: the pre-22.2 tuple state -/
  | legacy (len : Nat)
  deriving DecidableEq, Repr, FromJson, ToJson, Inhabited

structure Case where
  /-- root first; the last class is the class of the instance -/
  chain : List Cls
  op : Op
  /-- `hash(orig)` was called before the operation -/
  hashedBefore : Bool
  /-- this field's value was changed after that -/
  mutate : Option String
  /-- init=False fields were assigned (raw `object.__setattr__`) after construction -/
  assignUnset : Bool
  /-- the chain is rooted at `Exception` and every attrs class is built with `auto_exc=True` -/
  exc : Bool
  /-- the change of `mutate` was made in place (the same object, e.g. a list that grew), not by assignment -/
  mutInPlace : Bool
  deriving DecidableEq, Repr, FromJson, ToJson, Inhabited

/-- results and exception kinds -/
inductive R where
  | T | F | ok | na | typeError | attributeError | frozenInstance | other
  deriving DecidableEq, Repr, FromJson, ToJson, Inhabited

inductive CacheSt where
  | absent | isNone | carried
  deriving DecidableEq, Repr, FromJson, ToJson, Inhabited

structure Obs where
  exc : Option R
  distinct : Bool
  sameClass : Bool
  /-- every field of the class in `__attrs_attrs__` order: its token on the result, or unset -/
  fields : List (String × Option String)
  /-- box-valued fields whose object is shared with the original -/
  aliased : List String
  /-- `copy == orig` -/
  eqOrig : R
  /-- the hash cache attribute on the result, before it is hashed -/
  cacheAfter : CacheSt
  hashCopy : R
  hashFresh : R
  hashOrig : R
  hashEqFresh : Bool
  hashEqOrig : Bool
  /-- `hash(copy)` hashed field values (a box-valued field's `__hash__` ran) -/
  recomputed : Bool
  deriving DecidableEq, Repr, FromJson, ToJson, Inhabited

def CACHE : String := Generated.hashCacheField

/-! ## Values and storage -/

inductive Val where
  | tok (s : String)
  | none
  /-- a `_CacheHashWrapper` holding the hash of these field tokens -/
  | wrap (h : List String)
  deriving DecidableEq, Repr, Inhabited

/-- what deepcopy / pickle make of a value: `_CacheHashWrapper.__reduce__` gives `None` -/
def sanitize : Val → Val
  | .wrap _ => .none
  | v => v

def Val.str : Val → String
  | .tok s => s
  | .none => "None"
  | .wrap _ => "<hash>"

structure Layout where
  /-- names with a slot descriptor somewhere along the MRO -/
  slotNames : List String
  /-- some class along the MRO has no `__slots__`: instances have a `__dict__` -/
  hasDict : Bool
  deriving Repr, Inhabited

structure Inst where
  slot : String → Option Val
  dict : String → Option Val

def Inst.empty : Inst := { slot := fun _ => Option.none, dict := fun _ => Option.none }

/-- `getattr(inst, n)`: the slot if there is a descriptor, else the instance dict -/
def read (L : Layout) (i : Inst) (n : String) : Option Val :=
  if n ∈ L.slotNames then i.slot n else if L.hasDict then i.dict n else Option.none

/-- `object.__setattr__(inst, n, v)`; `none` = AttributeError (no slot, no dict) -/
def osetattr (L : Layout) (i : Inst) (n : String) (v : Val) : Option Inst :=
  if n ∈ L.slotNames then some { i with slot := fun m => if m = n then some v else i.slot m }
  else if L.hasDict then some { i with dict := fun m => if m = n then some v else i.dict m }
  else Option.none

/-- `inst.__dict__[n] = v` -/
def dictWrite (i : Inst) (n : String) (v : Val) : Inst :=
  { i with dict := fun m => if m = n then some v else i.dict m }

/-! ## What a class resolves (fold over the chain) -/

def Cls.isAttrs (c : Cls) : Bool := c.kind == .attrs

def Cls.ownNames (c : Cls) : List String := if c.isAttrs then c.fields.map (·.name) else []

/-- which `__getstate__`/`__setstate__` pair attribute lookup finds -/
inductive GS where
  /-- `object.__getstate__`, no `__setstate__` -/
  | dflt
  | user
  /-- attrs-generated for a class with these `_attr_names` and this `cache_hash`; `own`: by the class itself -/
  | gen (names : List String) (cache : Bool) (own : Bool)
  deriving DecidableEq, Repr, Inhabited

inductive HashRes where
  | identity
  | unhashable
  /-- generated over `names`; `cached`; `frozenV`: stores the cache with `object.__setattr__` -/
  | gen (names : List String) (cached : Bool) (frozenV : Bool) (own : Bool)
  deriving DecidableEq, Repr, Inhabited

structure Summary where
  /-- resolved `__attrs_attrs__`: field and `inherited` flag -/
  attrs : List (Field × Bool)
  gs : GS
  hash : HashRes
  /-- names compared by the resolved attrs `__eq__`, if one is resolved -/
  eq : Option (List String)
  /-- `__setattr__` resolves to `_frozen_setattrs` -/
  frozen : Bool
  slotNames : List String
  hasDict : Bool
  hasWeakref : Bool
  /-- every entry of every `__slots__` so far -/
  slotEntries : List String
  /-- the `__slots__` attribute lookup finds -/
  slotsAttr : Option (List String)
  /-- `mro[1:-1]` of the last class, nearest first, as `_collect_base_attrs*` see it -/
  bases : List Init.BaseInfo
  self : Option Init.BaseInfo
  /-- the same bases as `_collect_base_attrs` (collect_by_mro) sees them: each class's *own*
      `__attrs_attrs__` (`base_cls.__dict__`), so a plain class contributes nothing -/
  basesOwn : List Init.BaseInfo
  selfOwn : Option Init.BaseInfo
  /-- facts about the last class itself -/
  lastAttrs : Bool
  lastSlots : Bool
  lastCache : Bool
  lastByMro : Bool
  lastOwn : List String
  /-- the last class passed `getstate_setstate=False` -/
  lastOptOut : Bool
  /-- some class so far passed `getstate_setstate=False` or wrote its own state methods -/
  anyOptOutOrUser : Bool
  /-- `issubclass(cls, BaseException)` with auto_exc: `is_exc` in `attrs.wrap` -/
  isExc : Bool
  /-- every class so far was accepted at definition time and is well-formed -/
  ok : Bool
  deriving Repr, Inhabited

def Summary.init : Summary :=
  { attrs := [], gs := .dflt, hash := .identity, eq := Option.none, frozen := false, slotNames := [], hasDict := false,
    hasWeakref := false, slotEntries := [], slotsAttr := Option.none, bases := [], self := Option.none, basesOwn := [], selfOwn := Option.none,
    lastAttrs := false, lastSlots := false, lastCache := false, lastByMro := false, lastOwn := [],
    lastOptOut := false, anyOptOutOrUser := false, isExc := false, ok := true }

def Summary.names (s : Summary) : List String := s.attrs.map (·.1.name)

def Summary.layout (s : Summary) : Layout := { slotNames := s.slotNames, hasDict := s.hasDict }

/-- `_transform_attrs` on a chain: inherited fields that are not re-declared, then the own ones (both
    collection modes give this list on a single-inheritance chain) -/
def collect (acc : List (Field × Bool)) (c : Cls) : List (Field × Bool) :=
  if c.isAttrs then
    (acc.filter (fun p => !c.ownNames.contains p.1.name)).map (fun p => (p.1, true)) ++ c.fields.map (·, false)
  else acc

def GS.isGen : GS → Bool
  | .gen _ _ _ => true
  | _ => false

/-- `_determine_whether_to_implement(cls, getstate_setstate, auto_detect, (…),
    default=slots or _inherits_generated_getstate(cls))`; `inherited` = what the bases resolve: a class that
    would inherit a pair attrs generated for a base (it defines none in its body) gets its own, slotted or not -/
def gsEff (inherited : GS) (c : Cls) : Bool :=
  c.isAttrs &&
  (match c.gs with
   | .t => true
   | .f => false
   | .none => if c.autoDetect && c.userGS then false else c.slots || (!c.userGS && inherited.isGen))

inductive HashDec where
  | gen | none | inherit
  deriving DecidableEq, Repr

/-- the hash block of `attrs.wrap` for `unsafe_hash ∈ {None, True}`; `frozen` = is_frozen -/
def hashDec (c : Cls) (frozen : Bool) : HashDec :=
  if !c.isAttrs then .inherit
  else if c.unsafeHash then .gen
  else if c.eq then (if frozen then .gen else .none)
  else .inherit

def disinherit : GS → GS
  | .gen ns ch _ => .gen ns ch false
  | g => g

def HashRes.disinherit : HashRes → HashRes
  | .gen ns ch fv _ => .gen ns ch fv false
  | h => h

def distinct (l : List String) : Bool := decide l.Nodup

/-- names a class body may not use for fields or plain slots here -/
def reserved (n : String) : Bool := n == CACHE || n == "__weakref__" || n == "__dict__"

def clsWf (c : Cls) (frozen : Bool) : Bool :=
  if c.isAttrs then
    distinct (c.fields.map (·.name)) && c.fields.all (fun f => !reserved f.name) && c.plainSlots.isEmpty &&
    -- cache_hash needs a generated __hash__ (TypeError at definition time otherwise)
    (!c.cacheHash || hashDec c frozen == .gen)
  else
    c.fields.isEmpty && (c.slots || c.plainSlots.isEmpty) && c.plainSlots.all (fun n => !reserved n) &&
    distinct c.plainSlots && !c.frozen && !c.cacheHash

/-- `__slots__` of a class that has one (`_create_slots_class`: own names whose slot does not exist yet,
    `__weakref__` unless inherited, the cache field) -/
def slotsTuple (s : Summary) (c : Cls) : List String :=
  if c.isAttrs then
    c.ownNames.filter (fun n => !s.slotEntries.contains n) ++
    (if c.weakrefSlot && !s.hasWeakref then ["__weakref__"] else []) ++
    (if c.cacheHash then [CACHE] else [])
  else c.plainSlots

/-- slot descriptors a class adds, as far as attribute lookup is concerned -/
def slotDecl (c : Cls) : List String :=
  if !c.slots then []
  else if c.isAttrs then c.ownNames ++ (if c.cacheHash then [CACHE] else [])
  else c.plainSlots

/-- the hash block of `attrs.wrap` with `is_exc`: exceptions get neither `__eq__` nor `__hash__` -/
def hashDecE (s : Summary) (c : Cls) (frozen : Bool) : HashDec := if s.isExc then .inherit else hashDec c frozen

def step (s : Summary) (c : Cls) : Summary :=
  let attrs' := collect s.attrs c
  let names' := attrs'.map (·.1.name)
  let frozen' := s.frozen || (c.isAttrs && c.frozen)
  let tuple := slotsTuple s c
  { attrs := attrs',
    gs := if gsEff s.gs c then .gen names' c.cacheHash true else if c.userGS then .user else disinherit s.gs,
    hash := (match hashDecE s c frozen' with
      | .gen => .gen names' c.cacheHash frozen' true
      | .none => .unhashable
      | .inherit => s.hash.disinherit),
    eq := if !s.isExc && c.isAttrs && c.eq then some names' else s.eq,
    frozen := frozen',
    slotNames := s.slotNames ++ slotDecl c,
    -- instances of BaseException always have a `__dict__`
    hasDict := s.hasDict || !c.slots || c.kind == .exc,
    hasWeakref := s.hasWeakref || !c.slots || (c.isAttrs && c.weakrefSlot),
    slotEntries := if c.slots then s.slotEntries ++ tuple else s.slotEntries,
    slotsAttr := if c.slots then some tuple else s.slotsAttr,
    bases := s.self.toList ++ s.bases,
    self := some { hasSlotsDunder := c.slots, attrs := attrs'.map (fun p => (p.1.name, p.2)) },
    basesOwn := s.selfOwn.toList ++ s.basesOwn,
    selfOwn := some { hasSlotsDunder := c.slots,
                      attrs := if c.isAttrs then attrs'.map (fun p => (p.1.name, p.2)) else [] },
    lastAttrs := c.isAttrs, lastSlots := c.slots, lastCache := c.isAttrs && c.cacheHash,
    lastByMro := c.collectByMro, lastOwn := c.ownNames, lastOptOut := c.isAttrs && c.gs == .f,
    anyOptOutOrUser := s.anyOptOutOrUser || c.userGS || (c.isAttrs && c.gs == .f),
    isExc := s.isExc || c.kind == .exc,
    -- cache_hash needs a generated __hash__, which an exception class never gets
    ok := s.ok && clsWf c frozen' && (!s.isExc || !(c.isAttrs && c.cacheHash)) }

def summarize (chain : List Cls) : Summary := chain.foldl step Summary.init

/-- the builtin `Exception` as a chain element: no fields, no slots of its own, a `__dict__`, marks `is_exc` -/
def excRoot : Cls :=
  { kind := .exc, slots := true, plainSlots := [], frozen := false, cacheHash := false, weakrefSlot := false, gs := .none,
    autoDetect := false, userGS := false, eq := false, unsafeHash := false, collectByMro := false, fields := [] }

/-- the chain as attribute lookup sees it -/
def fullChain (c : Case) : List Cls := if c.exc then excRoot :: c.chain else c.chain

/-- `_is_slot_attr(name, base_attr_map)` as the last class's `__init__` generator sees it -/
def Summary.belief (s : Summary) (n : String) : Bool :=
  if s.lastByMro then Init.slotBelief true s.lastOwn s.basesOwn n
  else Init.slotBelief false s.lastOwn s.bases n

def Summary.cached (s : Summary) : Bool :=
  match s.hash with
  | .gen _ ch _ _ => ch
  | _ => false

/-! ## The generated `__init__` (no converters, validators or hooks here) and the history -/

def setMany (wr : Inst → String → Val → Option Inst) : Inst → List (String × Val) → Option Inst
  | i, [] => some i
  | i, (n, v) :: r =>
    match wr i n v with
    | some i' => setMany wr i' r
    | Option.none => Option.none

/-- `_determine_setters`: a frozen dict class writes `_inst_dict[n]` unless it believes `n` is a slot;
    everything else ends in `object.__setattr__` semantics -/
def initStore (s : Summary) (i : Inst) (n : String) (v : Val) : Option Inst :=
  if s.frozen && !s.lastSlots && !s.belief n then some (dictWrite i n v) else osetattr s.layout i n v

/-- the cache reset at the end of `__init__` -/
def initCache (s : Summary) (i : Inst) : Option Inst :=
  if !s.lastCache then some i
  else if s.frozen && !s.lastSlots then some (dictWrite i CACHE .none)
  else osetattr s.layout i CACHE .none

def valOf (tokOf : String → String) (f : Field × Bool) : String × Val := (f.1.name, .tok (tokOf f.1.name))

/-- `Leaf(**values)`, then raw assignment of the init=False fields if the history says so -/
def construct (s : Summary) (tokOf : String → String) (assignUnset : Bool) : Option Inst :=
  match setMany (initStore s) Inst.empty ((s.attrs.filter (·.1.init)).map (valOf tokOf)) with
  | Option.none => Option.none
  | some i1 =>
    match initCache s i1 with
    | Option.none => Option.none
    | some i2 =>
      if assignUnset then setMany (osetattr s.layout) i2 ((s.attrs.filter (!·.1.init)).map (valOf tokOf)) else some i2

def mapMOpt {α β : Type} (f : α → Option β) : List α → Option (List β)
  | [] => some []
  | a :: r =>
    match f a with
    | Option.none => Option.none
    | some b =>
      match mapMOpt f r with
      | Option.none => Option.none
      | some bs => some (b :: bs)

/-- the tuple the generated `__hash__` hashes: `none` = AttributeError on an unset field -/
def hashTuple (L : Layout) (i : Inst) (names : List String) : Option (List String) :=
  mapMOpt (fun n => (read L i n).map Val.str) names

structure HashOut where
  res : R
  value : List String
  inst : Inst
  /-- field values were hashed -/
  computed : Bool

/-- the generated `__hash__` (`_make_hash_script`), on an instance of the last class -/
def doHash (s : Summary) (i : Inst) : HashOut :=
  let L := s.layout
  match s.hash with
  | .identity => { res := .ok, value := [], inst := i, computed := false }
  | .unhashable => { res := .typeError, value := [], inst := i, computed := false }
  | .gen names cached frozenV _ =>
    if !cached then
      match hashTuple L i names with
      | Option.none => { res := .attributeError, value := [], inst := i, computed := false }
      | some h => { res := .ok, value := h, inst := i, computed := true }
    else
      match read L i CACHE with
      | Option.none => { res := .attributeError, value := [], inst := i, computed := false }
      | some (.wrap h) => { res := .ok, value := h, inst := i, computed := false }
      | some _ =>
        match hashTuple L i names with
        | Option.none => { res := .attributeError, value := [], inst := i, computed := false }
        | some h =>
          -- frozen variant: object.__setattr__; otherwise `self._attrs_cached_hash = …` through the class
          if !frozenV && s.frozen then { res := .frozenInstance, value := [], inst := i, computed := true }
          else match osetattr L i CACHE (.wrap h) with
            | Option.none => { res := .attributeError, value := [], inst := i, computed := true }
            | some i' => { res := .ok, value := h, inst := i', computed := true }

/-- the generated `__eq__` of the resolved class, `a == b` for two instances of the last class -/
def doEq (s : Summary) (a b : Inst) : R :=
  match s.eq with
  | Option.none => .F      -- object identity: distinct objects
  | some names =>
    let rec go : List String → R
      | [] => .T
      | n :: r =>
        match read s.layout a n, read s.layout b n with
        | some va, some vb => if va = vb then go r else .F
        | _, _ => .attributeError
    go names

def v0 (n : String) : String := "v_" ++ n
def m0 (n : String) : String := "m_" ++ n

/-- the field's current token -/
def cur (c : Case) (n : String) : String := if c.mutate = some n then m0 n else v0 n

/-- construct, optionally hash, optionally change one field (raw write) -/
def history (s : Summary) (c : Case) (hashed : Bool) : Option Inst :=
  match construct s v0 c.assignUnset with
  | Option.none => Option.none
  | some i0 =>
    let i1 := if hashed then (doHash s i0).inst else i0
    match c.mutate with
    | Option.none => some i1
    | some m => osetattr s.layout i1 m (.tok (m0 m))

/-! ## State extraction and restoration -/

/-- `slots_getstate`: `{name: getattr(self, name) for name in state_attr_names}` -/
def getstateGen (L : Layout) (i : Inst) (names : List String) : Option (List (String × Val)) :=
  mapMOpt (fun n => (read L i n).map (fun v => (n, v))) names

def lookup (n : String) : List (String × Val) → Option Val
  | [] => Option.none
  | (k, v) :: r => if k = n then some v else lookup n r

/-- `slots_setstate` for a dict state: `for name in state_attr_names: if name in state: setattr`,
    then the cache reset -/
def setstateGen (L : Layout) (y : Inst) (names : List String) (cache : Bool) (st : List (String × Val)) : Option Inst :=
  match setMany (osetattr L) y (names.filterMap (fun n => (lookup n st).map (fun v => (n, v)))) with
  | Option.none => Option.none
  | some y' => if cache then osetattr L y' CACHE .none else some y'

/-- `slots_setstate` for a legacy tuple state: `zip(state_attr_names, state)` -/
def setstateTuple (L : Layout) (y : Inst) (names : List String) (cache : Bool) (vals : List Val) : Option Inst :=
  match setMany (osetattr L) y (names.zip vals) with
  | Option.none => Option.none
  | some y' => if cache then osetattr L y' CACHE .none else some y'

def isLow : Op → Bool
  | .pickle p => p < 2
  | _ => false

def isLegacy : Op → Bool
  | .legacy _ => true
  | _ => false

/-- values travel as they are through `copy.copy`, reduced through deepcopy / pickle -/
def transfer (op : Op) (v : Val) : Val := if op == .copy then v else sanitize v

/-- `copyreg.__reduce_ex__` refuses (protocols 0/1): default `__getstate__` and a truthy `__slots__` -/
def refuses01 (s : Summary) : Bool :=
  s.gs == .dflt && (match s.slotsAttr with | some t => !t.isEmpty | Option.none => false)

/-- some slot holds a value: `object.__getstate__` then returns `(dict, slotsdict)` -/
def anySlotSet (L : Layout) (i : Inst) : Bool := L.slotNames.any (fun n => (i.slot n).isSome)

/-- the operation, for an instance `x` of the last class -/
def roundtrip (s : Summary) (op : Op) (x : Inst) : Except R Inst :=
  let L := s.layout
  match s.gs with
  | .gen names cache _ =>
    match getstateGen L x names with
    | Option.none => .error .attributeError
    | some st =>
      -- protocols 0/1 drop a falsy state: `__setstate__` is never called (a caching class never returns one:
      -- its `__getstate__` then carries the cache key with `None`)
      if isLow op && st.isEmpty && !cache then .ok Inst.empty
      else match setstateGen L Inst.empty names cache (st.map (fun p => (p.1, transfer op p.2))) with
        | Option.none => .error .attributeError
        | some y => .ok y
  | .user =>
    -- state `{"u": {every field of type(self)}}` (truthy); restored with object.__setattr__, cache reset
    match getstateGen L x s.names with
    | Option.none => .error .attributeError
    | some st =>
      match setstateGen L Inst.empty s.names s.cached (st.map (fun p => (p.1, transfer op p.2))) with
      | Option.none => .error .attributeError
      | some y => .ok y
  | .dflt =>
    if isLow op && refuses01 s then .error .typeError
    else if s.frozen && anySlotSet L x then .error .frozenInstance      -- `setattr(y, slot, value)`
    else .ok { dict := fun n => (x.dict n).map (transfer op),
               slot := fun n => if n ∈ L.slotNames then (x.slot n).map (transfer op) else Option.none }

/-! ## Exceptions: `BaseException.__reduce__` → `cls(*args)` + `__setstate__(__dict__)` -/

/-- what `args` holds for init field `n` when the exception is copied: `BaseException.__init__(self, self.x, …)`
    stored the construction-time values; a change made in place to that object is visible through `args`, a
    later assignment to the field is not -/
def argTok (c : Case) (n : String) : String := if c.mutate = some n ∧ c.mutInPlace then m0 n else v0 n

/-- the instance `__dict__` as a state: the fields found there (nothing else lives in it here) -/
def dictState (s : Summary) (op : Op) (x : Inst) : List (String × Val) :=
  s.names.filterMap (fun n => (x.dict n).map (fun v => (n, transfer op v)))

/-- copy / deepcopy / every pickle protocol of an auto_exc instance: the class is *called* with `args` (the
    generated `__init__` runs again), then `__setstate__` — the generated one if the class resolves it, else
    `BaseException.__setstate__`, which uses `setattr` — receives the instance `__dict__` -/
def excRoundtrip (s : Summary) (c : Case) (x : Inst) : Except R Inst :=
  match construct s (argTok c) false with
  | Option.none => .error .attributeError
  | some y0 =>
    let st := dictState s c.op x
    match s.gs with
    | .gen names cache _ =>
      (match setstateGen s.layout y0 names cache st with
       | Option.none => .error .attributeError
       | some y => .ok y)
    | .user => .error .other
    | .dflt =>
      if s.frozen && !st.isEmpty then .error .frozenInstance
      else match setMany (osetattr s.layout) y0 st with
        | Option.none => .error .attributeError
        | some y => .ok y

def legacyVals (len : Nat) : List Val := (List.range len).map (fun i => .tok ("t" ++ toString i))

def legacyRun (s : Summary) (len : Nat) : Except R Inst :=
  match s.gs with
  | .dflt => .error .attributeError       -- no `__setstate__` to call
  | .user => .error .typeError            -- the user's method indexes a dict state
  | .gen names cache _ =>
    match setstateTuple s.layout Inst.empty names cache (legacyVals len) with
    | Option.none => .error .attributeError
    | some y => .ok y

/-! ## Observation -/

def failed (e : R) : Obs :=
  { exc := some e, distinct := false, sameClass := false, fields := [], aliased := [], eqOrig := .na,
    cacheAfter := .absent, hashCopy := .na, hashFresh := .na, hashOrig := .na, hashEqFresh := false,
    hashEqOrig := false, recomputed := false }

def cacheState (L : Layout) (y : Inst) : CacheSt :=
  match read L y CACHE with
  | Option.none => .absent
  | some (.wrap _) => .carried
  | some _ => .isNone

def isIdentity (s : Summary) : Bool := s.hash == .identity

def hashesBox (s : Summary) : Bool :=
  match s.hash with
  | .gen names _ _ _ => s.attrs.any (fun p => p.1.kind == .box && names.contains p.1.name)
  | _ => false

def observeCopy (s : Summary) (c : Case) (orig fresh y : Inst) : Obs :=
  let L := s.layout
  let hc := doHash s y
  let hf := doHash s fresh
  let ho := doHash s orig
  { exc := Option.none, distinct := true, sameClass := true,
    fields := s.names.map (fun n => (n, (read L y n).map Val.str)),
    aliased := if c.op == .copy then
        (s.attrs.filter (fun p => p.1.kind == .box && (read L y p.1.name).isSome)).map (·.1.name) else [],
    eqOrig := doEq s y orig,
    cacheAfter := cacheState L y,
    hashCopy := hc.res, hashFresh := hf.res, hashOrig := ho.res,
    hashEqFresh := hc.res == .ok && hf.res == .ok && hc.value == hf.value && !isIdentity s,
    hashEqOrig := hc.res == .ok && ho.res == .ok && hc.value == ho.value && !isIdentity s,
    recomputed := hc.computed && hashesBox s && !isLegacy c.op }

def model (c : Case) : Obs :=
  let s := summarize (fullChain c)
  match history s c c.hashedBefore, history s c false with
  | some orig, some fresh =>
    let r := match c.op with
      | .legacy len => legacyRun s len
      | op => if c.exc then excRoundtrip s c orig else roundtrip s op orig
    (match r with
     | .error e => failed e
     | .ok y => observeCopy s c orig fresh y)
  | _, _ => failed .other

end Attrs.C10
