/-
  C03 — generated equality.  Mirrors `_make_eq_script`, `__ne__`, `_ClassBuilder.add_eq` (both names are
  written into the class dict), the equality half of `_determine_whether_to_implement` as called from
  `attrs()` and the per-field part of `_determine_attrib_eq_order` (src/attr/_make.py), plus the fragment of
  CPython the property talks about: attribute lookup of `__eq__`/`__ne__` along an MRO, `object.__ne__`
  deriving from the resolved `__eq__`, and the `==`/`!=` dispatch (subclass-first, left, reflected, identity).
  Values are scripted: the outcome of every `==` between two field values is part of the case, so results
  are parametric in the data.  Class facts (what the class body, each ancestor, the subclass and the foreign
  operand's class define under `__eq__`/`__ne__`) are part of the case too; so is the hashing history of the
  operands, which nothing here ever reads.
-/
import AttrsModel.Core

namespace Attrs.C03
open Lean

/-- A per-field `eq=` / `cmp=` argument as written: not passed / True / False / a key callable. -/
inductive EqArg where
  | unset | t | f | key
  deriving DecidableEq, Repr, FromJson, ToJson, Inhabited

/-- A three-state keyword (`hash=` of a field, class-level `eq=` after `cmp=` was merged in). -/
inductive Flag where
  | unset | t | f
  deriving DecidableEq, Repr, FromJson, ToJson, Inhabited

/-- A fault scripted for one field: comparing the two values raises, or the field's eq key function raises
    (only meaningful when the field has an eq key).  Faults are active in the FIRST round of a case only. -/
inductive Fault where
  | none | eqRaises | keyRaises
  deriving DecidableEq, Repr, FromJson, ToJson, Inhabited

structure Field where
  name : String
  cmp  : EqArg
  eq   : EqArg
  /-- outcome of `x.f == y.f` on the raw values -/
  raw   : Outcome
  /-- outcome of `key(x.f) == key(y.f)` -/
  keyed : Outcome
  /-- the two field values are the very same object (must not matter) -/
  sameObj : Bool
  /-- per-field `hash=` argument (decides only whether the value enters `__hash__`) -/
  hash : Flag
  /-- the two field values have different hash codes (whatever `==` says) -/
  hashDiffers : Bool
  /-- per-field `order=` argument as written (its key function is NOT an eq key) -/
  order : EqArg
  /-- outcome of `orderkey(x.f) == orderkey(y.f)`: what `==` would see if the order key were (wrongly) applied -/
  orderKeyed : Outcome
  /-- what goes wrong with this field in the first round -/
  fault : Fault
  deriving DecidableEq, Repr, FromJson, ToJson, Inhabited

/-- What the right operand is, relative to the left operand `x : C`. -/
inductive Rhs where
  | same       -- another instance of exactly C
  | identical  -- x itself
  | sub        -- instance of a (plain or attrs) subclass of C
  | super      -- instance of the nearest base class of C (`object()` if C has no other base)
  | foreign    -- instance of an unrelated class
  deriving DecidableEq, Repr, FromJson, ToJson, Inhabited

/-- What one class body holds under the name `__eq__` (or `__ne__`). -/
inductive Slot where
  | absent
  | generated            -- put there by attrs for that very class
  | user (o : Outcome)   -- hand-written, or a builtin's: answers `o` for the operands of this case
  deriving DecidableEq, Repr, FromJson, ToJson, Inhabited

def Slot.present : Slot → Bool
  | .absent => false
  | _ => true

structure Layer where
  eq : Slot
  ne : Slot
  deriving DecidableEq, Repr, FromJson, ToJson, Inhabited

/-- What happened to the operands before they are compared. -/
structure Hist where
  /-- the class was built with `cache_hash=True` -/
  cacheHash : Bool
  /-- `hash(x)` / `hash(y)` was taken (and cached) before the comparison -/
  hashedX : Bool
  hashedY : Bool
  /-- fields of x / y that were re-assigned after hashing (the case's outcomes are those of the final values) -/
  reassignedX : List String
  reassignedY : List String
  deriving DecidableEq, Repr, FromJson, ToJson, Inhabited

structure Case where
  fields : List Field
  rhs    : Rhs
  /-- class-level `eq=` (with `cmp=` merged in, as `_determine_attrs_eq_order` does) -/
  clsEq  : Flag
  /-- effective `auto_detect` (False for `attr.s`, True for `define` unless passed) -/
  autoDetect : Bool
  /-- what the body of C itself defines, before attrs touches it -/
  own    : Layer
  /-- C's proper ancestors, nearest first, `object` left out -/
  ancestors : List Layer
  /-- the body of the subclass whose instance is the operand when `rhs = sub` (after its decorator, if any) -/
  subLayer : Layer
  /-- the class of the operand when `rhs = foreign` -/
  foreignLayer : Layer
  /-- what the METACLASS of all classes involved answers for `==` / `!=` between two class objects
      (absent = plain `type`: identity); "the very same class" is identity, so nothing here reads it -/
  metaLayer : Layer
  hist   : Hist
  deriving DecidableEq, Repr, FromJson, ToJson, Inhabited

/-- Result of a comparison method or operator. -/
inductive Res where
  | T | F | truthy | falsy | NI
  | exc      -- the call raised (never produced by the model)
  deriving DecidableEq, Repr, FromJson, ToJson, Inhabited

def Res.ofOutcome : Outcome → Res
  | .T => .T | .F => .F | .truthy => .truthy | .falsy => .falsy

def Res.isTruthy : Res → Bool
  | .T | .truthy | .NI => true     -- NotImplemented is truthy in Python (never tested here)
  | .F | .falsy | .exc => false

def Res.ofBool (b : Bool) : Res := if b then .T else .F

/-- the four observables of one round, with the comparisons of field values each direct call performed -/
structure Round where
  eqDirect : Res           -- C.__eq__(x, y)
  neDirect : Res           -- C.__ne__(x, y)
  eqOp     : Res           -- x == y
  neOp     : Res           -- x != y
  /-- comparisons of field values performed by `C.__eq__(x, y)`, in order: `f` (raw) or `f:key` -/
  trace    : List String
  /-- the same for `C.__ne__(x, y)` -/
  neTrace  : List String
  deriving DecidableEq, Repr, FromJson, ToJson, Inhabited

/-- A case is observed twice on the SAME pair of operands (same operand order): first with the scripted
    faults active, then again with every fault gone. -/
structure Obs where
  first : Round
  again : Round
  /-- what the comparisons left behind: entries in thread-local state of the attr modules, changes to the
      operands themselves (never anything, raise or not) -/
  residue : List String
  deriving DecidableEq, Repr, FromJson, ToJson, Inhabited

/-! ### `_determine_attrib_eq_order`, equality half (default_eq = True) -/

/-- the `eq`/`cmp` part of the table: `some (participates, hasKey)`, `none` for cmp mixed with eq -/
def eqTable (f : Field) : Option (Bool × Bool) :=
  match f.cmp, f.eq with
  | .unset, .unset => some (true, false)
  | .unset, .t     => some (true, false)
  | .unset, .f     => some (false, false)
  | .unset, .key   => some (true, true)
  | .t, .unset     => some (true, false)
  | .f, .unset     => some (false, false)
  | .key, .unset   => some (true, true)
  | _, _           => none

/-- the `order=` argument is acceptable: not mixed with `cmp`, not True/key where `eq` is False -/
def orderOk (f : Field) : Bool :=
  match f.order with
  | .unset => true
  | .f => f.cmp == .unset
  | _ => f.cmp == .unset && f.eq != .f

/-- `some (participates, hasKey)`, or `none` when `attrib()` raises ValueError.  An `order=` argument —
    a key function included — never changes which fields participate nor the key `==` goes through. -/
def effEq (f : Field) : Option (Bool × Bool) := if orderOk f then eqTable f else none

def participates (f : Field) : Bool := match effEq f with | some (p, _) => p | none => false
def hasKey (f : Field) : Bool := match effEq f with | some (_, k) => k | none => false

/-- the operand the generated line for `f` evaluates -/
def outcome (f : Field) : Outcome := if hasKey f then f.keyed else f.raw
def tag (f : Field) : String := if hasKey f then f.name ++ ":key" else f.name

/-- Python's `e1 and e2 and … and en` over the generated lines; `return True` for no lines.
    Returns the value and the list of operands evaluated. -/
def chain : List Field → Res × List String
  | [] => (.T, [])
  | [f] => (Res.ofOutcome (outcome f), [tag f])
  | f :: g :: rest =>
    if (outcome f).isTruthy then
      let r := chain (g :: rest)
      (r.1, tag f :: r.2)
    else (Res.ofOutcome (outcome f), [tag f])

/-- the fault that can actually strike: a key function only exists on a keyed field -/
def faultOf (f : Field) : Fault :=
  match f.fault with
  | .keyRaises => if hasKey f then .keyRaises else .none
  | x => x

/-- the `and` chain with faults: an exception ends the evaluation (the key function raises before the
    values are compared; a raising `==` has been called, so it shows in the trace). -/
def chainF : List Field → Res × List String
  | [] => (.T, [])
  | [f] =>
    match faultOf f with
    | .keyRaises => (.exc, [])
    | .eqRaises => (.exc, [tag f])
    | .none => (Res.ofOutcome (outcome f), [tag f])
  | f :: g :: rest =>
    match faultOf f with
    | .keyRaises => (.exc, [])
    | .eqRaises => (.exc, [tag f])
    | .none =>
      if (outcome f).isTruthy then
        let r := chainF (g :: rest)
        (r.1, tag f :: r.2)
      else (Res.ofOutcome (outcome f), [tag f])

def sameClass : Rhs → Bool
  | .same | .identical => true
  | _ => false

/-! ### which methods the classes involved resolve -/

/-- `_determine_whether_to_implement(cls, eq_, auto_detect, ("__eq__", "__ne__"))` (exceptions with
    `auto_exc` are not part of this model): does attrs generate equality for C? -/
def generates (c : Case) : Bool :=
  match c.clsEq with
  | .t => true
  | .f => false
  | .unset => !(c.autoDetect && (c.own.eq.present || c.own.ne.present))

/-- `add_eq`: BOTH names are written into C's dict, over whatever the body held. -/
def classLayer (c : Case) : Layer :=
  if generates c then { eq := .generated, ne := .generated } else c.own

def mroC (c : Case) : List Layer := classLayer c :: c.ancestors

/-- attribute lookup along an MRO: the first class that has the name; `absent` means `object`'s. -/
def lookupEq : List Layer → Slot
  | [] => .absent
  | l :: rest => match l.eq with
    | .absent => lookupEq rest
    | s => s

def lookupNe : List Layer → Slot
  | [] => .absent
  | l :: rest => match l.ne with
    | .absent => lookupNe rest
    | s => s

/-- the MRO (without `object`) of the right operand's class -/
def rhsMro (c : Case) : List Layer :=
  match c.rhs with
  | .same | .identical => mroC c
  | .sub => c.subLayer :: mroC c
  | .super => c.ancestors
  | .foreign => [c.foreignLayer]

/-- `C.__eq__(x, y)`, for a given evaluator `ch` of the generated `and` chain.  (A generated method found
    further up than C itself only happens when attrs does not generate equality for C — outside `wf` — and
    would compare that ancestor's fields only.) -/
def eqMethodW (ch : List Field → Res × List String) (c : Case) : Res × List String :=
  match lookupEq (mroC c) with
  | .generated => if sameClass c.rhs then ch (c.fields.filter participates) else (.NI, [])
  | .user o => (Res.ofOutcome o, [])
  | .absent => (if c.rhs == .identical then .T else .NI, [])

/-- what attrs' shared `__ne__` helper and `object.__ne__` both do with the result of the resolved `__eq__`
    (an exception simply propagates) -/
def derive : Res → Res
  | .NI => .NI
  | .exc => .exc
  | r => Res.ofBool (!r.isTruthy)

/-- `C.__ne__(x, y)`: the helper calls `self.__eq__(other)`, i.e. what `type(x)` resolves. -/
def neMethodW (ch : List Field → Res × List String) (c : Case) : Res × List String :=
  match lookupNe (mroC c) with
  | .user o => (Res.ofOutcome o, [])
  | _ => (derive (eqMethodW ch c).1, (eqMethodW ch c).2)

/-- `type(y).__eq__(y, x)` for an operand y of another class: a hand-written method answers; a method
    generated for another class fails its class test; `object`'s declines (y is not x). -/
def reflEq (c : Case) : Res :=
  match lookupEq (rhsMro c) with
  | .user o => Res.ofOutcome o
  | _ => .NI

/-- `type(y).__ne__(y, x)` for an operand y of another class -/
def reflNe (c : Case) : Res :=
  match lookupNe (rhsMro c) with
  | .user o => Res.ofOutcome o
  | _ => derive (reflEq c)

/-- CPython's `do_richcompare`: the reflected method first when the right operand's class is a proper
    subclass of the left one's, then the left method, then the reflected one, then the default. -/
def dispatch (subFirst : Bool) (l r dflt : Res) : Res :=
  let a := if subFirst then r else l
  let b := if subFirst then l else r
  match a with
  | .NI => (match b with | .NI => dflt | v => v)
  | v => v

def eqOpW (ch : List Field → Res × List String) (c : Case) : Res :=
  if sameClass c.rhs then
    match (eqMethodW ch c).1 with
    | .NI => Res.ofBool (c.rhs == .identical)
    | r => r
  else dispatch (c.rhs == .sub) (eqMethodW ch c).1 (reflEq c) .F

def neOpW (ch : List Field → Res × List String) (c : Case) : Res :=
  if sameClass c.rhs then
    match (neMethodW ch c).1 with
    | .NI => Res.ofBool (!(c.rhs == .identical))
    | r => r
  else dispatch (c.rhs == .sub) (neMethodW ch c).1 (reflNe c) .T

def roundW (ch : List Field → Res × List String) (c : Case) : Round :=
  { eqDirect := (eqMethodW ch c).1, neDirect := (neMethodW ch c).1, eqOp := eqOpW ch c, neOp := neOpW ch c,
    trace := (eqMethodW ch c).2, neTrace := (neMethodW ch c).2 }

/-! the fault-free round (what every later comparison of the pair must give) … -/
def eqMethod (c : Case) := eqMethodW chain c
def neMethod (c : Case) := neMethodW chain c
def eqOp (c : Case) := eqOpW chain c
def neOp (c : Case) := neOpW chain c
def round (c : Case) : Round := roundW chain c
/-! … and the round with the scripted faults active -/
def roundF (c : Case) : Round := roundW chainF c

/-- both rounds; generated comparisons keep no state: nothing is left behind -/
def model (c : Case) : Obs := { first := roundF c, again := round c, residue := [] }

end Attrs.C03
