/-
  C03 — generated equality.  Mirrors `_make_eq_script`, `__ne__` (src/attr/_make.py) and the
  per-field part of `_determine_attrib_eq_order`, plus the fragment of CPython's `==`/`!=`
  dispatch that the property talks about (NotImplemented on both sides ⇒ identity).
  Values are scripted: the outcome of every `==` between two field values is part of the case,
  so results are parametric in the data.
-/
import AttrsModel.Core

namespace Attrs.C03
open Lean

/-- A per-field `eq=` / `cmp=` argument as written: not passed / True / False / a key callable. -/
inductive EqArg where
  | unset | t | f | key
  deriving DecidableEq, Repr, FromJson, ToJson, Inhabited

structure Field where
  name : String
  cmp  : EqArg
  eq   : EqArg
  /-- outcome of `x.f == y.f` on the raw values -/
  raw   : Outcome
  /-- outcome of `key(x.f) == key(y.f)` -/
  keyed : Outcome
  /-- the two field values are the very same object (must not matter) -/
  sameObj : Bool
  deriving DecidableEq, Repr, FromJson, ToJson, Inhabited

/-- What the right operand is, relative to the left operand `x : C`. -/
inductive Rhs where
  | same       -- another instance of exactly C
  | identical  -- x itself
  | sub        -- instance of a (plain or attrs) subclass of C
  | super      -- instance of a base class of C
  | foreign    -- instance of an unrelated class
  deriving DecidableEq, Repr, FromJson, ToJson, Inhabited

structure Case where
  fields : List Field
  rhs    : Rhs
  deriving DecidableEq, Repr, FromJson, ToJson, Inhabited

/-- Result of a comparison method or operator. -/
inductive Res where
  | T | F | truthy | falsy | NI
  | exc      -- the call raised (never produced by the model)
  deriving DecidableEq, Repr, FromJson, ToJson, Inhabited

def Res.ofOutcome : Outcome → Res
  | .T => .T | .F => .F | .truthy => .truthy | .falsy => .falsy

def Res.isTruthy : Res → Bool
  | .T | .truthy | .NI => true     -- NotImplemented is truthy in Python (never tested here)
  | .F | .falsy | .exc => false

def Res.ofBool (b : Bool) : Res := if b then .T else .F

structure Obs where
  eqDirect : Res           -- C.__eq__(x, y)
  neDirect : Res           -- C.__ne__(x, y)
  eqOp     : Res           -- x == y
  neOp     : Res           -- x != y
  /-- comparisons performed by `C.__eq__(x, y)`, in order: `f` (raw) or `f:key` -/
  trace    : List String
  deriving DecidableEq, Repr, FromJson, ToJson, Inhabited

/-! ### `_determine_attrib_eq_order`, equality half (default_eq = True) -/

/-- `some (participates, hasKey)`, or `none` when `attrib()` raises ValueError (cmp mixed with eq). -/
def effEq (f : Field) : Option (Bool × Bool) :=
  match f.cmp, f.eq with
  | .unset, .unset => some (true, false)
  | .unset, .t     => some (true, false)
  | .unset, .f     => some (false, false)
  | .unset, .key   => some (true, true)
  | .t, .unset     => some (true, false)
  | .f, .unset     => some (false, false)
  | .key, .unset   => some (true, true)
  | _, _           => none

def participates (f : Field) : Bool := match effEq f with | some (p, _) => p | none => false
def hasKey (f : Field) : Bool := match effEq f with | some (_, k) => k | none => false

/-- the operand the generated line for `f` evaluates -/
def outcome (f : Field) : Outcome := if hasKey f then f.keyed else f.raw
def tag (f : Field) : String := if hasKey f then f.name ++ ":key" else f.name

/-- Python's `e1 and e2 and … and en` over the generated lines; `return True` for no lines.
    Returns the value and the list of operands evaluated. -/
def chain : List Field → Res × List String
  | [] => (.T, [])
  | [f] => (Res.ofOutcome (outcome f), [tag f])
  | f :: g :: rest =>
    if (outcome f).isTruthy then
      let r := chain (g :: rest)
      (r.1, tag f :: r.2)
    else (Res.ofOutcome (outcome f), [tag f])

def sameClass : Rhs → Bool
  | .same | .identical => true
  | _ => false

/-- generated `__eq__` -/
def eqMethod (c : Case) : Res × List String :=
  if sameClass c.rhs then chain (c.fields.filter participates) else (.NI, [])

/-- module-level `__ne__` -/
def neMethod (c : Case) : Res :=
  match (eqMethod c).1 with
  | .NI => .NI
  | r => Res.ofBool (!r.isTruthy)

/-- `x == y`: left method, reflected method (same answer here: every class involved either has an
    attrs `__eq__` with the same class test or `object.__eq__`), then identity. -/
def eqOp (c : Case) : Res :=
  match (eqMethod c).1 with
  | .NI => Res.ofBool (c.rhs == .identical)
  | r => r

def neOp (c : Case) : Res :=
  match neMethod c with
  | .NI => Res.ofBool (!(c.rhs == .identical))
  | r => r

def model (c : Case) : Obs :=
  { eqDirect := (eqMethod c).1, neDirect := neMethod c, eqOp := eqOp c, neOp := neOp c,
    trace := (eqMethod c).2 }

end Attrs.C03
