/-
  C03, T3 part — an IR for exactly the text `_make_eq_script` emits for a generated `__eq__`, and for the shared
  `__ne__` helper (ordinary source in src/attr/_make.py), with

    * `genEq` / `genText` / `genNe`: what the model says the generator emits for a field list
      (as IR, and as the literal source lines),
    * `execEq` / `execNe`: the meaning of an IR script over the scripted value domain of `Model/C03.lean`
      (every `==` between two field values — raw, through the eq key, through the order key — is an input).

  Statement forms of `__eq__`:   `if other.__class__ is not self.__class__: return NotImplemented`,
                                 `return True`,  `return (c1 and … and cn)`;
  comparison operands:           `self.f` / `other.f`,  `__attr_key_<g>(self.f)` / `__attr_key_<g>(other.f)`.
  Anything else the harness parser meets becomes `unknown`.  Helper names are recorded with what the
  function's globals bind them to.
-/
import AttrsModel.Model.C03

namespace Attrs.C03.IR
open Lean Attrs.C03

inductive Side where
  | self | other
  deriving DecidableEq, Repr, FromJson, ToJson, Inhabited

/-- an operand of a comparison line -/
inductive Opnd where
  | attr (side : Side) (field : String)                     -- `self.f`
  | keyed (helper : String) (side : Side) (field : String)  -- `__attr_key_<helper>(self.f)`
  deriving DecidableEq, Repr, FromJson, ToJson, Inhabited

/-- `lhs == rhs` -/
structure Cmp where
  lhs : Opnd
  rhs : Opnd
  deriving DecidableEq, Repr, FromJson, ToJson, Inhabited

inductive Stmt where
  | classGuard                       -- `if other.__class__ is not self.__class__: return NotImplemented`
  | returnTrue                       -- `return True`
  | returnAnd (cs : List Cmp)        -- `return (c1 and … and cn)`, n ≥ 1
  | unknown (src : String)
  deriving DecidableEq, Repr, FromJson, ToJson, Inhabited

/-- what a global name of the generated function is bound to -/
inductive Binding where
  | eqKey (field : String)       -- the eq key function declared for that field
  | orderKey (field : String)    -- the ORDER key function declared for that field
  | notImplemented               -- the `NotImplemented` singleton
  | other
  deriving DecidableEq, Repr, FromJson, ToJson, Inhabited

structure EqScript where
  params : List String
  body   : List Stmt
  /-- `__attr_key_<helper>` ↦ binding, for every helper the body mentions -/
  helpers : List (String × Binding)
  /-- the binding of the name `NotImplemented` -/
  ni : Binding
  deriving DecidableEq, Repr, FromJson, ToJson, Inhabited

/-- the shared `__ne__` helper -/
inductive NeStmt where
  | callEq        -- `result = self.__eq__(other)`
  | forwardNI     -- `if result is NotImplemented: return NotImplemented`
  | returnNot     -- `return not result`
  | unknown (src : String)
  deriving DecidableEq, Repr, FromJson, ToJson, Inhabited

structure NeScript where
  params : List String
  body : List NeStmt
  ni : Binding
  deriving DecidableEq, Repr, FromJson, ToJson, Inhabited

def Stmt.isUnknown : Stmt → Bool
  | .unknown _ => true
  | _ => false

def NeStmt.isUnknown : NeStmt → Bool
  | .unknown _ => true
  | _ => false

/-! ### the model generator -/

def genCmp (f : Field) : Cmp :=
  if hasKey f then { lhs := .keyed f.name .self f.name, rhs := .keyed f.name .other f.name }
  else { lhs := .attr .self f.name, rhs := .attr .other f.name }

/-- `_make_eq_script(attrs)` -/
def genEq (fields : List Field) : EqScript :=
  let ps := fields.filter participates
  { params := ["self", "other"],
    body := [.classGuard, if ps.isEmpty then .returnTrue else .returnAnd (ps.map genCmp)],
    helpers := (ps.filter hasKey).map (fun f => (f.name, .eqKey f.name)),
    ni := .notImplemented }

def genNe : NeScript :=
  { params := ["self", "other"], body := [.callEq, .forwardNI, .returnNot], ni := .notImplemented }

/-- the literal source line of one field (without the trailing ` and`) -/
def genLine (prefix_ : String) (f : Field) : String :=
  if hasKey f then
    "        " ++ prefix_ ++ f.name ++ "(self." ++ f.name ++ ") == " ++ prefix_ ++ f.name ++ "(other." ++ f.name ++ ")"
  else "        self." ++ f.name ++ " == other." ++ f.name

def joinAnd : List String → List String
  | [] => []
  | [l] => [l]
  | l :: rest => (l ++ " and") :: joinAnd rest

/-- the literal text `_make_eq_script` emits, line by line; `prefix_` is the helper-name prefix read from
    the source (`__attr_key_`) -/
def genText (prefix_ : String) (fields : List Field) : List String :=
  let ps := fields.filter participates
  ["def __eq__(self, other):",
   "    if other.__class__ is not self.__class__:",
   "        return NotImplemented"] ++
  (if ps.isEmpty then ["    return True"]
   else ["    return  ("] ++ joinAnd (ps.map (genLine prefix_)) ++ ["    )"])

/-! ### execution -/

/-- the operands: for every attribute name, the scripted outcomes of comparing the two objects' values -/
abbrev Env := String → Option Field

def envOf (fields : List Field) : Env := fun n => fields.find? (·.name == n)

def lookupHelper (s : EqScript) (h : String) : Binding :=
  match s.helpers.find? (·.1 == h) with
  | some b => b.2
  | none => .other

/-- a comparison the scripted domain gives no meaning to (mixed fields, a helper on one side only, a helper
    bound to something else): it "raises", under a tag no specification accepts -/
def stuck : Res × String := (.exc, "?")

/-- one comparison line: the outcome and the trace tag of the `==` it performs -/
def evalCmp (s : EqScript) (env : Env) (m : Cmp) : Res × String :=
  match m.lhs, m.rhs with
  | .attr .self f, .attr .other g =>
    if f == g then
      match env f with
      | some fld => (Res.ofOutcome fld.raw, fld.name)
      | none => stuck
    else stuck
  | .keyed h .self f, .keyed h' .other g =>
    if h == h' && f == g then
      match lookupHelper s h, env f with
      | .eqKey k, some fld => if k == f then (Res.ofOutcome fld.keyed, fld.name ++ ":key") else stuck
      | .orderKey k, some fld => if k == f then (Res.ofOutcome fld.orderKeyed, fld.name ++ ":okey") else stuck
      | _, _ => stuck
    else stuck
  | _, _ => stuck

/-- Python's `and` over evaluated operands (evaluation stops at the first falsy one; an exception is not truthy) -/
def andChain : List (Res × String) → Res × List String
  | [] => (.T, [])
  | [x] => (x.1, [x.2])
  | x :: y :: rest =>
    if x.1.isTruthy then
      let r := andChain (y :: rest)
      (r.1, x.2 :: r.2)
    else (x.1, [x.2])

/-- run the statements; `none` = fell off the end / met an unknown statement -/
def execStmts (s : EqScript) (env : Env) (same : Bool) : List Stmt → Option (Res × List String)
  | [] => none
  | .classGuard :: rest =>
    if same then execStmts s env same rest
    else some (if s.ni == .notImplemented then .NI else .exc, [])
  | .returnTrue :: _ => some (.T, [])
  | .returnAnd cs :: _ => some (andChain (cs.map (evalCmp s env)))
  | .unknown _ :: _ => none

/-- `C.__eq__(x, y)` according to the script, for operands of the same class or not -/
def execEq (s : EqScript) (env : Env) (same : Bool) : Res × List String :=
  if s.params == ["self", "other"] then
    match execStmts s env same s.body with
    | some r => r
    | none => (.exc, ["?"])
  else (.exc, ["?"])

/-- the `__ne__` helper applied to the result of the `__eq__` call -/
def execNe (n : NeScript) (eqResult : Res) : Res :=
  if n.params == ["self", "other"] && n.body == [.callEq, .forwardNI, .returnNot] && n.ni == .notImplemented then
    (match eqResult with
     | .NI => .NI
     | .exc => .exc
     | r => Res.ofBool (!r.isTruthy))
  else .exc

def EqScript.hasUnknown (s : EqScript) : Bool := s.body.any Stmt.isUnknown
def NeScript.hasUnknown (n : NeScript) : Bool := n.body.any NeStmt.isUnknown

/-- the four observables of a round, given what `C.__eq__(x, y)` and the `__ne__` helper do -/
def roundOfEq (e : Res × List String) (ne : Res → Res) (c : Case) : Round :=
  let n : Res × List String := (ne e.1, e.2)
  { eqDirect := e.1, neDirect := n.1,
    eqOp := if sameClass c.rhs then
        (match e.1 with | .NI => Res.ofBool (c.rhs == .identical) | r => r)
      else dispatch (c.rhs == .sub) e.1 (reflEq c) .F,
    neOp := if sameClass c.rhs then
        (match n.1 with | .NI => Res.ofBool (!(c.rhs == .identical)) | r => r)
      else dispatch (c.rhs == .sub) n.1 (reflNe c) .T,
    trace := e.2, neTrace := n.2 }

end Attrs.C03.IR
