/-
  C19 (b) — `converters.to_bool` and the argument checks of `converters.default_if_none`
  (src/attr/converters.py).

  `to_bool`: `if isinstance(val, str): val = val.lower()`, then two membership tests
  `val in (True, "true", …, 1)` / `val in (False, "false", …, 0)` and `ValueError` otherwise.  The two tuples and
  the presence of the lowering step are NOT written here: they are `Generated.toBoolTrue`, `Generated.toBoolFalse`,
  `Generated.toBoolLowers`, re-extracted from the source on every run (T1).  Tuple membership is `x is v or x == v`
  for each element in order; `pyEq` is CPython's `==` between a table literal and the classes of values the
  harness produces (bool is an int subclass: `True == 1`; a float / complex / Decimal / Fraction equal to an int
  compares equal to it; a str is equal only to the same str).
-/
import AttrsModel.Core
import AttrsModel.Generated.Tables

namespace Attrs.C19.ToBool
open Lean

/-- the classes of argument values the correspondence produces -/
inductive TbVal where
  | str (s : String)      -- a str (or str subclass) instance
  | bool (b : Bool)
  | int (n : Int)         -- an int (or int subclass) instance that is not a bool
  | numEq (n : Int)       -- a non-bool, non-int, non-str object that compares equal to the int `n` (1.0, 1+0j, Decimal(1), Fraction(1))
  | other                 -- an object equal to nothing in the tables (None, [], b"true", nan, 0.5, (1,), object())
  deriving DecidableEq, Repr, FromJson, ToJson, Inhabited

inductive TbRes where
  | T | F | valueError
  | otherExc    -- any other exception (never produced by the model)
  | otherVal    -- returned something that is not a bool (never produced by the model)
  deriving DecidableEq, Repr, FromJson, ToJson, Inhabited

/-- ASCII lowering, character by character (sufficient for the table's words: see the harness ASSUMPTIONS) -/
def lowerS (s : String) : String := String.ofList (s.toList.map Char.toLower)

def boolInt (b : Bool) : Int := if b then 1 else 0

/-- CPython `lit == v` (equivalently `v == lit`) for a table literal and an argument value -/
def pyEq : Lit → TbVal → Bool
  | .bool b, .bool b' => b == b'
  | .bool b, .int n => boolInt b == n
  | .bool b, .numEq n => boolInt b == n
  | .int k, .bool b => k == boolInt b
  | .int k, .int n => k == n
  | .int k, .numEq n => k == n
  | .str w, .str s => w == s
  | _, _ => false

/-- `v in (…)` -/
def inTable (tbl : List Lit) (v : TbVal) : Bool := tbl.any (fun lit => pyEq lit v)

def toBoolWith (lowers : Bool) (tt ff : List Lit) (v : TbVal) : TbRes :=
  let v' := match v with
    | .str s => if lowers then .str (lowerS s) else .str s
    | v => v
  if inTable tt v' then .T
  else if inTable ff v' then .F
  else .valueError

def toBool (v : TbVal) : TbRes :=
  toBoolWith Generated.toBoolLowers Generated.toBoolTrue Generated.toBoolFalse v

structure Case where
  v : TbVal
  deriving DecidableEq, Repr, FromJson, ToJson, Inhabited

structure Obs where
  res : TbRes
  deriving DecidableEq, Repr, FromJson, ToJson, Inhabited

def model (c : Case) : Obs := { res := toBool c.v }

end Attrs.C19.ToBool

namespace Attrs.C19.Din
open Lean

/-- how `default_if_none` is called -/
structure Case where
  hasDefault       : Bool     -- `default=` passed (anything but NOTHING)
  defaultIsFactory : Bool     -- … and it is an `attrs.Factory`
  takesSelf        : Bool     -- … built with takes_self=True
  hasFactory       : Bool     -- `factory=` passed (not None)
  deriving DecidableEq, Repr, FromJson, ToJson, Inhabited

inductive CtorRes where
  | ok | typeError | valueError | other
  deriving DecidableEq, Repr, FromJson, ToJson, Inhabited

structure Obs where
  res : CtorRes
  deriving DecidableEq, Repr, FromJson, ToJson, Inhabited

/-- the checks at the top of `default_if_none`, in the code's order -/
def ctor (c : Case) : CtorRes :=
  if !c.hasDefault && !c.hasFactory then .typeError
  else if c.hasDefault && c.hasFactory then .typeError
  else if c.hasFactory then .ok          -- default = Factory(factory): takes_self is False
  else if c.defaultIsFactory then (if c.takesSelf then .valueError else .ok)
  else .ok

def model (c : Case) : Obs := { res := ctor c }

end Attrs.C19.Din
