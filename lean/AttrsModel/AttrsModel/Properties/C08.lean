/-
  C08 — property theorems.  Everything is about arbitrary class dicts, MROs, field lists, cell stores,
  access histories, chains and call shapes.  Helper lemmas are in Proofs/C08*.lean.

  Not proved here (runtime, observed by the correspondence on every struct case): that CPython's
  `type(cls)(name, bases, cd)` keeps name / qualname / module / doc / bases / metaclass and creates exactly
  one member descriptor per `__slots__` entry.
-/
import AttrsModel.Proofs.C08MeetsSpec
import AttrsModel.Proofs.C08ISub
import AttrsModel.Proofs.C08Meta
import AttrsModel.Proofs.C08Reset
import AttrsModel.Properties.C01

namespace Attrs.C08
open Attrs.Init

/-- **C08_dict_preserved**: every class attribute that is not a field name (own or inherited), `__dict__`,
    `__weakref__`, `__slots__`, a cached property or a `__getattr__` shadowed by the generated one is, in the
    new class dict, the identical object of the original body — through the filter, the `__setattr__` reset,
    the cached-property block, the re-used slots, `__slots__` / `__qualname__` and the member descriptors. -/
theorem C08_dict_preserved (c : Case) (hwf : wf c = true) (k : String) (it : Item) (hm : (k, it) ∈ c.body)
    (hp : protectedKey c k it = true) : keyStatus c k it = .same := by
  have hb := wf_body c hwf
  have h := List.all_eq_true.1 (spec_keys c hb) (k, it) hm
  simp only [hp, Bool.not_true, Bool.false_or, beq_iff_eq] at h
  have e : (model c).keys = c.body.map (fun kv => (kv.1, keyStatus c kv.1 kv.2)) := rfl
  rw [e, lookupS_map_keys c.body (keyStatus c) hb.keysNodup k it hm] at h
  exact Option.some.inj h

/-- **C08_slots_exact**: a name is in `__slots__` iff it is an own field, the `__weakref__` the weakref rule
    adds, or a cached property — and neither an inherited field nor a slot of any class of the MRO; or it is
    the hash-cache field of a caching class. -/
theorem C08_slots_exact (c : Case) (n : String) :
    n ∈ slotNames c ↔
      ((n ∈ c.own ∨ (n = "__weakref__" ∧ addsWeakref c = true) ∨ n ∈ cpropNames c) ∧
        c.inherited.contains n = false ∧ c.mro.any (baseHasSlot n) = false) ∨
      (n = Generated.hashCacheField ∧ c.cacheHash = true) :=
  mem_slotNames_iff c n

/-- a re-used descriptor is that of a class which declares the slot, and of the farthest such class -/
theorem C08_reused_sound (c : Case) (n : String) (i : Nat) (h : (n, i) ∈ reusedSlots c) :
    (∃ b, c.mro[i]? = some b ∧ baseHasSlot n b = true) ∧
    ∀ m b, i < m → c.mro[m]? = some b → baseHasSlot n b = false := by
  unfold reusedSlots at h
  obtain ⟨n', _, hn'⟩ := List.mem_filterMap.1 h
  cases he : existingSlot c.mro n' with
  | none => simp [he] at hn'
  | some j =>
    simp [he] at hn'
    obtain ⟨rfl, rfl⟩ := hn'
    have := existingSlotFrom_sound n' c.mro 0 j he
    simpa using this.2

/-- **C08_one_slot**: every own field has exactly one member descriptor along the new MRO. -/
theorem C08_one_slot (c : Case) (hwf : wf c = true) (f : String) (hf : f ∈ c.own) : slotCountOf c f = 1 :=
  slotCount_own c (wf_names c hwf) (wf_layout c hwf) f hf

/-- **C08_weakref_iff**: instances are weak-referenceable iff `weakref_slot` is on or a class of the MRO
    provides `__weakref__` — whatever `__slots__` the body itself declares. -/
theorem C08_weakref_iff (c : Case) (hwf : wf c = true) :
    (model c).weakrefable = (c.weakrefSlot || c.mro.any (·.hasWeakref)) :=
  weakrefable_iff c (wf_names c hwf) (wf_body c hwf) (wf_layout c hwf)

/-- **C08_no_dict_iff**: instances have a `__dict__` iff a class of the MRO contributes one. -/
theorem C08_no_dict_iff (c : Case) (hwf : wf c = true) : (model c).hasDict = c.mro.any (·.hasDict) :=
  hasDict_iff c (wf_names c hwf) (wf_body c hwf)

/-- **C08_unknown_attr_rejected**: reading an unknown attribute raises AttributeError (in particular the
    generated `__getattr__`'s own `super()` works: its cell is always rewritten); without an inherited
    `__dict__` assigning one raises AttributeError too. -/
theorem C08_unknown_attr_rejected (c : Case) (hwf : wf c = true) :
    (model c).getUnknown = .attributeError ∧
    (c.mro.any (·.hasDict) = false → (model c).setUnknown = .attributeError) := by
  refine ⟨getUnknown_ok c (wf_names c hwf) (wf_body c hwf), ?_⟩
  intro h
  have e : (model c).setUnknown = if c.setattrMode == .frozen || !instHasDict c then .attributeError else .ok := rfl
  rw [e, hasDict_iff c (wf_names c hwf) (wf_body c hwf), h]
  simp

/-- **C08_cells_rebound**: after the rewrite no closure cell of anything the loop inspects holds the
    original class: the values of the new class dict (plain functions, the `__func__` of class- and
    staticmethods, getter, setter and deleter of properties, the generated `__getattr__`), the
    cached-property functions, and the `__getattr__` the generated one shadows.  Functions inside other
    objects are not inspected (the loop's own comment: "no universal way"); see `C08_cells_exact`. -/
theorem C08_cells_rebound (c : Case) :
    (∀ k e, Dict.get (newDict c) k = some e → ∀ i, CellId.user i ∈ entryCells e → finalCell c i ≠ .old) ∧
    (∀ n f, (n, f) ∈ cachedProps c → ∀ i ∈ f.cells, finalCell c i ≠ .old) ∧
    (∀ e, (cachedProps c).isEmpty = false → origGetattr c = some e →
        ∀ i, CellId.user i ∈ entryCells e → finalCell c i ≠ .old) :=
  ⟨fun k e h i hi => reached_not_old c i (reached_of_dict c k e h _ hi),
   fun n f h i hi => reached_not_old c i (reached_of_cprop c n f h i hi),
   fun e hne h i hi => reached_not_old c i (reached_of_origGetattr c e hne h _ hi)⟩

/-- by item kind: a function, classmethod, staticmethod found in the new class, getter, setter and deleter of
    such a property, and every cached property of the body that survives the field-name filter have all their
    cells rebound (whether an item is found in the new class is `C08_dict_preserved`) -/
theorem C08_cells_rebound_kinds (c : Case) (hwf : wf c = true) (k : String) (it : Item) (hm : (k, it) ∈ c.body)
    (hk : keepKey c k = true) (hkept : (∀ f, it ≠ .cprop f) → Dict.get (newDict c) k = some (.orig it)) :
    match it with
    | .fn f | .cm f | .sm f | .cprop f => ∀ i ∈ f.cells, finalCell c i ≠ .old
    | .prop g s d => ∀ f ∈ g.toList ++ s.toList ++ d.toList, ∀ i ∈ f.cells, finalCell c i ≠ .old
    | _ => True := by
  have hb := wf_body c hwf
  cases it with
  | fn f =>
    intro i hi
    exact reached_not_old c i (reached_of_dict c k _ (hkept (fun _ e => by cases e)) _
      (by simpa [entryCells] using ids_mem f i hi))
  | cm f =>
    intro i hi
    exact reached_not_old c i (reached_of_dict c k _ (hkept (fun _ e => by cases e)) _
      (by simpa [entryCells] using ids_mem f i hi))
  | sm f =>
    intro i hi
    exact reached_not_old c i (reached_of_dict c k _ (hkept (fun _ e => by cases e)) _
      (by simpa [entryCells] using ids_mem f i hi))
  | cprop f =>
    intro i hi
    exact reached_not_old c i (reached_of_cprop c k f (cachedProps_of_body c hb k f hm hk) i hi)
  | prop g s d =>
    intro f hf i hi
    apply reached_not_old c i
    apply reached_of_dict c k _ (hkept (fun _ e => by cases e))
    have hid := ids_mem f i hi
    simp only [entryCells, List.mem_append]
    simp only [List.mem_append, Option.mem_toList] at hf
    rcases hf with (hf | hf) | hf
    · subst hf; exact Or.inl (Or.inl hid)
    · subst hf; exact Or.inl (Or.inr hid)
    · subst hf; exact Or.inr hid
  | «opaque» f => trivial
  | plain => trivial

/-- **C08_cells_exact**: a cell holds the new class afterwards iff it held the original class and is a cell
    of something the loop inspects; every other cell is unchanged (cells holding another object, empty cells,
    cells only reachable through objects attrs cannot look into). -/
theorem C08_cells_exact (c : Case) (hwf : wf c = true) (i : Nat) :
    (finalCell c i = .new ↔ lookupN i c.cells = some .old ∧ CellId.user i ∈ reachedCells c) ∧
    (∀ v, lookupN i c.cells = some v → v ≠ .old → finalCell c i = v) :=
  ⟨finalCell_new_iff c (wf_cells c hwf) i, fun v hl hv => finalCell_frame c i v hl hv⟩

/-- **C08_calls_new**: every function that is reachable on the new class and uses `__class__` / `super()` —
    plain, class- and staticmethods, property getters, setters and deleters, cached properties, a shadowed
    `__getattr__` — sees the new class; the only exception are functions hidden in objects attrs cannot look
    into (wrappers, foreign descriptors). -/
theorem C08_calls_new (c : Case) (hwf : wf c = true) (l : Label) (v : CellVal)
    (h : (l, v) ∈ calls c) : v = .new ∨ isOpaqueKey c l.1 = true :=
  calls_entry c (wf_body c hwf) (wf_cells c hwf) l v h

/-- **C08_cached_once**: over an arbitrary history of reads on arbitrary instances, every (instance, cached
    property) pair that is read is computed exactly once, nothing else is computed, and every read returns the
    value of that single computation for its own instance. -/
theorem C08_cached_once (accs : List Access) :
    let r := runAccesses accs { stored := [], log := [] }
    r.1.log.Nodup ∧ (∀ a, a ∈ r.1.log ↔ a ∈ accs) ∧ r.2 = accs.map (fun a => token a 1) := by
  obtain ⟨h1, h2, h3⟩ := runAccesses_spec accs { stored := [], log := [] } cinv_init
  exact ⟨h1.nodup, fun a => by simpa using h3 a, h2⟩

/-- **C08_init_subclass_once** (one build): the inherited hook is called exactly once, with the class the
    build returns, iff some class of the MRO defines it and the body does not; otherwise not at all. -/
theorem C08_init_subclass_once (c : Case) (hwf : wf c = true) :
    (model c).initSubclass =
      (if c.mro.any (·.initSubclass) && !c.body.any (·.1 == "__attrs_init_subclass__") then [.new] else []) :=
  spec_isub c (wf_names c hwf) (wf_body c hwf)

/-- **C08_init_subclass_sees_final_class**: the inherited hook runs after the closure cells were rewritten
    (`hookCalls` is defined on the final cell store, mirroring the order create class → rewrite cells → call
    hook): whatever function of the new class the hook invokes — method, classmethod, staticmethod, property
    accessor, cached property — already sees the class the hook received, not the discarded original. -/
theorem C08_init_subclass_sees_final_class (c : Case) (hwf : wf c = true) (l : Label) (v : CellVal)
    (h : (l, v) ∈ (model c).hookCalls) : v = .new ∨ isOpaqueKey c l.1 = true := by
  have e : (model c).hookCalls = hookCalls c := rfl
  rw [e] at h
  unfold hookCalls at h
  split at h
  · cases h
  · exact calls_entry c (wf_body c hwf) (wf_cells c hwf) l v h

/-- **C08_init_subclass_chain**: along any chain of plain / dict-built / slotted-built classes, each attrs-built
    level without its own definition below some definition is announced exactly once (every other level
    never), with the class finally bound for that level, by the nearest definition above it. -/
theorem C08_init_subclass_chain (c : ISubCase) :
    (∀ k, ((isubModel c).calls.filter (·.received == k)).length = if announced c.chain k then 1 else 0) ∧
    (∀ cl ∈ (isubModel c).calls, isubCallOk c.chain cl = true) := by
  have hd : DOK [] none := by simp [DOK]
  constructor
  · intro k
    have := isubGo_count c.chain [] none hd k
    simpa [isubModel] using this
  · intro cl hcl
    have := isubGo_calls c.chain [] none hd cl hcl
    simpa using this

/-- **C08_setattr_reset**: what the slotted build leaves under `__setattr__` is `object.__setattr__` exactly
    when it wrote no `__setattr__` itself, the user has none, and a *direct* base carries an attrs-made one;
    with a single direct base that itself defines the flag this is the dict build's decision too (K6 is the
    complement: the flag resolved along the MRO is not a direct base's own). -/
theorem C08_setattr_reset (c : Case) (hwf : wf c = true) :
    (model c).setattrReset = slotsReset c ∧
    (∀ b rest, c.mro = b :: rest → b.direct = true → b.ownSetattr.isSome = true →
      (∀ b' ∈ rest, b'.direct = false) → resetDiffers c = false) := by
  have h := setattrReset_eq c (wf_names c hwf) (wf_body c hwf)
  refine ⟨h, ?_⟩
  intro b rest hm hd hf hr
  unfold resetDiffers
  rw [h, reset_agree_direct c b rest hm hd hf hr]
  simp

/-- **C08_metamorphic**: for every class specification, call shape (malformed ones included) and failing
    callback, the initializer model's signature, annotations, outcome, field values, callback trace and
    exception args are the same for the slotted and the dict build, each taken with its own layout facts —
    outside K3 (slot belief ≠ slot truth), which can only hit the dict build. -/
theorem C08_metamorphic (c : MetaCase) (hwf : metaWf c = true) (hk : metaKnown c = []) :
    ctorObs c.on = ctorObs c.off :=
  ctor_agree c hwf hk

/-- **C08_meta_reset**: whether the builder writes its own `__setattr__` does not depend on `slots`; so the two
    builds of a specification treat an inherited attrs-made `__setattr__` differently (K6) exactly when nothing
    is written and "some direct base carries the flag" differs from "the flag resolved along the MRO is true" —
    e.g. a plain class between a hooked attrs class and the leaf. -/
theorem C08_meta_reset (c : MetaCase) (hwf : metaWf c = true) :
    wroteSetattr c.on = wroteSetattr c.off ∧
    (metaResetDiffers c = true ↔
      wroteSetattr c.off = false ∧
      c.mro.any (fun b => b.direct && b.ownSetattr == some true) ≠ ((c.mro.findSome? (·.ownSetattr)).getD false)) := by
  unfold metaWf at hwf
  simp only [Bool.and_eq_true] at hwf
  have hw := wrote_same c hwf.2
  refine ⟨hw, ?_⟩
  unfold metaResetDiffers metaSlotsReset metaDictReset
  rw [hw]
  cases wroteSetattr c.off <;>
    cases c.mro.any (fun b => b.direct && b.ownSetattr == some true) <;>
    cases (c.mro.findSome? (·.ownSetattr)).getD false <;> simp

/-- K3 needs a frozen dict class: the slotted build of a specification never misplaces a value -/
theorem C08_slotted_never_misplaces (c : MetaCase) (hwf : metaWf c = true) (a : Attr) :
    C01.misplaced c.on.eff a = false := by
  cases h : C01.misplaced c.on.eff a with
  | false => rfl
  | true =>
    have := (C01.C01_misplaced_needs_frozen_dict c.on.eff a h).2
    unfold metaWf sameSpec at hwf
    simp only [Bool.and_eq_true] at hwf
    have hs : c.on.run.cfg.slots = true := hwf.2.1.1.1.1.1.1.1.1.1.1.1.1.1.1
    have : c.on.eff.cfg.slots = c.on.run.cfg.slots := rfl
    simp_all

/-- **C08_model_meets_spec**: the model satisfies the declarative specification on every well-formed case of
    every kind outside the listed known findings (K6 for struct; K3, K6 for meta). -/
theorem C08_model_meets_spec (c : AnyCase) (hwf : c.wf = true) (hk : c.known = []) : c.spec c.model = true := by
  cases c with
  | ofStruct c => exact struct_meets_spec c hwf hk
  | ofISub c => exact isub_meets_spec c
  | ofMeta c => exact meta_meets_spec c hwf hk

/-! ### known findings: witnesses -/

def baseCase : Case :=
  { body := [("__module__", .plain)], cells := [], own := [], inherited := [], mro := [], bodySlots := none,
    weakrefSlot := true, cacheHash := false, setattrMode := .none, customSetattr := false, accesses := [] }

/-- a property whose setter is the only function of the body that mentions `super()` -/
def k08aWitness : Case :=
  { baseCase with
    body := [("p", .prop none (some { cells := [0], uses := true }) none)], cells := [(0, .old)] }

/-- regression for the repaired K08a: the setter sees the new class, the case satisfies the specification -/
theorem C08_fixed_stale_accessor :
    wf k08aWitness = true ∧ known k08aWitness = [] ∧ (model k08aWitness).calls = [(("p", .fset), .new)] ∧
    spec k08aWitness (model k08aWitness) = true := by
  refine ⟨by decide, by decide, by decide, by decide⟩

/-- a body that declares `__slots__ = ("__weakref__",)` itself -/
def k08bWitness : Case :=
  { baseCase with body := [("__slots__", .plain), ("__weakref__", .plain)], bodySlots := some ["__weakref__"] }

/-- regression for the repaired K08b: weak-referenceable, the case satisfies the specification -/
theorem C08_fixed_weakref_dropped :
    wf k08bWitness = true ∧ known k08bWitness = [] ∧ (model k08bWitness).weakrefable = true ∧
    spec k08bWitness (model k08bWitness) = true := by
  refine ⟨by decide, by decide, by decide, by decide⟩

/-- a plain class between a hooked slotted attrs base and the class ("slotted confused") -/
def k6Witness : Case :=
  { baseCase with
    inherited := ["z"],
    mro := [{ direct := true, slots := none, hasDict := true, hasWeakref := true, ownSetattr := none,
              initSubclass := false, cprops := [] },
            { direct := false, slots := some ["z"], hasDict := false, hasWeakref := false, ownSetattr := some true,
              initSubclass := false, cprops := [] }] }

/-- **K6**: the slotted build does not reset the inherited `__setattr__`, the dict build does -/
theorem C08_known_reset_differs_witness :
    wf k6Witness = true ∧ "K6" ∈ known k6Witness ∧ spec k6Witness (model k6Witness) = false := by
  refine ⟨by decide, by decide, by decide⟩

/-- with the hooked class as the direct base both builds reset -/
example : wf { k6Witness with mro := k6Witness.mro.drop 1 |>.map (fun b => { b with direct := true }) } = true ∧
    known { k6Witness with mro := k6Witness.mro.drop 1 |>.map (fun b => { b with direct := true }) } = [] := by
  refine ⟨by decide, by decide⟩

/-- K3 as a slots-on / slots-off pair: `A(frozen, slots) ← B(frozen dict) ← C`, legacy collection -/
def k3Pair : MetaCase :=
  { on := { C01.k3Witness with run := { C01.k3Witness.run with cfg := { C01.k3Witness.run.cfg with slots := true } } },
    off := C01.k3Witness, mro := [] }

/-- **K3**: the dict build of the specification lacks the field the slotted build has -/
theorem C08_known_slot_belief_witness :
    metaWf k3Pair = true ∧ "K3" ∈ metaKnown k3Pair ∧ metaSpec k3Pair (metaModel k3Pair) = false := by
  refine ⟨by decide, by decide, by decide⟩

/-- non-vacuity of `C08_metamorphic`: a well-formed pair without known finding (a mutable class) -/
def okPair : MetaCase :=
  { on := { k3Pair.on with run := { k3Pair.on.run with cfg := { k3Pair.on.run.cfg with frozen := false } } },
    off := { k3Pair.off with run := { k3Pair.off.run with cfg := { k3Pair.off.run.cfg with frozen := false } } },
    mro := [] }

example : metaWf okPair = true ∧ metaKnown okPair = [] := by
  refine ⟨by decide, by decide⟩

/-- hooked attrs class ← plain class ← leaf, as a slots-on / slots-off pair -/
def k6Pair : MetaCase :=
  { okPair with mro := [{ direct := true, ownSetattr := none }, { direct := false, ownSetattr := some true }] }

/-- **K6** (meta): the slotted leaf keeps the ancestor's `__setattr__`, the dict leaf resets it -/
theorem C08_known_reset_differs_meta_witness :
    metaWf k6Pair = true ∧ "K6" ∈ metaKnown k6Pair ∧ metaSpec k6Pair (metaModel k6Pair) = false := by
  refine ⟨by decide, by decide, by decide⟩

/-- with the hooked class as the direct base both builds reset -/
example : metaKnown { okPair with mro := [{ direct := true, ownSetattr := some true }] } = [] := by decide

/-- non-vacuity of the struct theorems: a class with a reused base slot, a cached property, a hooked direct
    base and a function using `super()` is well-formed and free of known findings -/
def richCase : Case :=
  { body := [("__module__", .plain), ("x", .plain), ("m", .fn { cells := [0], uses := true }),
             ("cp", .cprop { cells := [0, 1], uses := true }), ("__dict__", .plain)],
    cells := [(0, .old), (1, .other)], own := ["x"], inherited := ["y"],
    mro := [{ direct := true, slots := some ["x", "y"], hasDict := false, hasWeakref := false,
              ownSetattr := some true, initSubclass := true, cprops := [] }],
    bodySlots := none, weakrefSlot := true, cacheHash := true, setattrMode := .none, customSetattr := false,
    accesses := [{ inst := 0, name := "cp" }, { inst := 1, name := "cp" }, { inst := 0, name := "cp" }] }

example : wf richCase = true ∧ known richCase = [] := by
  refine ⟨by decide, by decide⟩

example : (model richCase).slots = ["__weakref__", "cp", "_attrs_cached_hash"] ∧
    (model richCase).reused = [("x", 0)] ∧ (model richCase).setattrReset = true ∧
    (model richCase).cachedComputes = [{ inst := 0, name := "cp" }, { inst := 1, name := "cp" }] := by
  refine ⟨by decide, by decide, by decide, by decide⟩

end Attrs.C08
