/- C01 — property theorems (placeholder header; theorems follow). -/
import AttrsModel.Spec.C01

namespace Attrs.C01
open Attrs.Init

/-- **C01_alias_params_order**: positional parameters precede keyword-only ones. -/
theorem C01_params_pos_then_kw (attrs : List Attr) :
    params attrs = ((attrs.filter (·.init)).map paramOf).filter (!·.kwOnly) ++
                   ((attrs.filter (·.init)).map paramOf).filter (·.kwOnly) := rfl

end Attrs.C01
