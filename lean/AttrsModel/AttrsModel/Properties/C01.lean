/-
  C01 — property theorems: the generated initializer stores converter(argument | default | fresh factory
  value) in every participating field, for arbitrary field lists and call shapes, identically in every
  class mode.  Helper lemmas are in Proofs/Init*.lean.
-/
import AttrsModel.Proofs.InitWf

namespace Attrs.C01
open Attrs.Init
open Attrs.C02 (hits cutAt expectedTrace eventsUpTo)

/-- **C01_params**: positional parameters come first, in field order, then the keyword-only ones in field
    order; both are taken from the `init` fields only. -/
theorem C01_params (attrs : List Attr) :
    params attrs = ((attrs.filter (·.init)).map paramOf).filter (!·.kwOnly) ++
                   ((attrs.filter (·.init)).map paramOf).filter (·.kwOnly) := rfl

/-- **C01_params_init_only**: every parameter is the alias of an `init=True` field (init=False fields are
    not parameters), and every such field is a parameter. -/
theorem C01_params_init_only (attrs : List Attr) (p : Param) :
    p ∈ params attrs ↔ ∃ a ∈ attrs, a.init = true ∧ p = paramOf a := by
  constructor
  · exact mem_params attrs p
  · rintro ⟨a, ha, hi, rfl⟩; exact paramOf_mem_params attrs a ha hi

/-- **C01_optional_iff**: a parameter is optional iff its field has a default or factory. -/
theorem C01_optional_iff (a : Attr) : (paramOf a).dflt.isSome = (a.dflt != .none) := by
  cases h : a.dflt <;> simp [paramOf, h]

/-- **C01_bind_iff**: a call raises TypeError iff an argument is missing, unknown, duplicated or surplus
    (`callOk` is the declarative characterisation); no other outcome is a TypeError. -/
theorem C01_bind_iff (c : Case) (hwf : wf c = true) (hk : known c = []) :
    (runInit c).exc = some .typeError ↔ callOk (params c.run.attrs) c.call = false := by
  cases hok : callOk (params c.run.attrs) c.call with
  | false =>
    have : bind (params c.eff.attrs) c.call = none := bind_none _ _ (by simpa using hok)
    unfold runInit
    dsimp only
    rw [this]
    simp
  | true =>
    have hb := bodyOK_of_wf c hwf hk hok
    have := (runInit_spec c hb).2.2.2.1
    rw [this]
    split <;> simp

/-- **C01_values**: for every well-formed call (no callback raising) each participating field holds
    converter(passed value | declared default | fresh factory result) — exactly once through the
    converter — and every other field is unset; arbitrary field lists, hierarchies and call shapes. -/
theorem C01_values (c : Case) (hwf : wf c = true) (hk : known c = [])
    (hok : callOk (params c.run.attrs) c.call = true) :
    (runInit c).exc = none ∧
    (runInit c).values = c.run.attrs.map (fun a => (a.name, expectedValue c.run.attrs c.call a)) := by
  have hb := bodyOK_of_wf c hwf hk hok
  have hf : c.run.fault = none := by
    unfold wf at hwf
    simp only [Bool.and_eq_true, eff_fault] at hwf
    simpa using hwf.1.1.1.1.1.1.1
  obtain ⟨_, _, _, h4, h5, _⟩ := runInit_spec c hb
  constructor
  · rw [h4]; simp [hf, C02.hits]
  · rw [h5]; simp [specValues, hf, C02.hits]

/-- the part of a field specification the stored value may depend on -/
def core (a : Attr) : Attr := { a with isSlot := false, onSet := .unset, type := none, convType := none }

theorem params_core (attrs : List Attr) : params (attrs.map core) = params attrs := by
  have h : ((attrs.map core).filter (·.init)).map paramOf = (attrs.filter (·.init)).map paramOf := by
    induction attrs with
    | nil => rfl
    | cons a l ih =>
      have hi : (core a).init = a.init := rfl
      have hp : paramOf (core a) = paramOf a := rfl
      simp only [List.map_cons, List.filter_cons, hi]
      cases a.init <;> simp [ih, hp]
  unfold params
  rw [h]

theorem expectedValue_core (attrs : List Attr) (c : Call) (a : Attr) :
    expectedValue (attrs.map core) c (core a) = expectedValue attrs c a := by
  unfold expectedValue rawOf
  rw [params_core]
  rfl

/-- **C01_mode_independent**: two classes whose field lists agree up to slot layout, hooks and annotations
    — dict or slotted, mutable or frozen, hash-caching, exception, inherited, any front-end, any pre/post
    hooks — store exactly the same values for the same call. -/
theorem C01_mode_independent (c d : Case) (hc : wf c = true) (hd : wf d = true)
    (kc : known c = []) (kd : known d = [])
    (hattrs : c.run.attrs.map core = d.run.attrs.map core) (hcall : c.call = d.call)
    (hok : callOk (params c.run.attrs) c.call = true) :
    (runInit c).values.map (·.2) = (runInit d).values.map (·.2) ∧ (runInit d).exc = (runInit c).exc := by
  have hp : params d.run.attrs = params c.run.attrs := by
    rw [← params_core c.run.attrs, ← params_core d.run.attrs, hattrs]
  have hokd : callOk (params d.run.attrs) d.call = true := by rw [hp, ← hcall]; exact hok
  obtain ⟨e1, v1⟩ := C01_values c hc kc hok
  obtain ⟨e2, v2⟩ := C01_values d hd kd hokd
  refine ⟨?_, by rw [e1, e2]⟩
  rw [v1, v2]
  simp only [List.map_map, Function.comp_def]
  have : ∀ (attrs : List Attr) (cl : Call),
      attrs.map (fun a => expectedValue attrs cl a) =
        (attrs.map core).map (fun a => expectedValue (attrs.map core) cl a) := by
    intro attrs cl
    rw [List.map_map]
    apply List.map_congr_left
    intro a _
    exact (expectedValue_core attrs cl a).symm
  rw [this c.run.attrs, this d.run.attrs, hattrs, hcall]

/-- **C01_store_readable**: outside the known finding, the store technique the generator picks always lands
    where attribute lookup finds the value. -/
theorem C01_store_readable (r : RunIn) (a : Attr) (hm : misplaced r a = false) (hp : participates a = true) :
    storeLoc (tech r.cfg (r.belief a.name) a) a = readLoc a := by
  unfold misplaced at hm
  unfold storeLoc readLoc
  cases ht : tech r.cfg (r.belief a.name) a <;> simp_all

/-- slotted, and mutable, classes never misplace a value: the known finding needs a frozen dict class -/
theorem C01_misplaced_needs_frozen_dict (r : RunIn) (a : Attr) (h : misplaced r a = true) :
    r.cfg.frozen = true ∧ r.cfg.slots = false := by
  unfold misplaced tech at h
  grind

/-- **C01_annotations**: a parameter is annotated with the field's type when there is no converter, with
    the converter's first-parameter annotation when there is one, and not at all otherwise. -/
theorem C01_annotations (a : Attr) :
    annotationOf a =
      if a.init then
        (match a.conv with
         | none => a.type.map (fun t => (a.alias, t))
         | some _ => a.convType.map (fun t => (a.alias, t)))
      else none := by
  unfold annotationOf
  cases a.init <;> cases a.conv <;> cases a.type <;> cases a.convType <;> simp

/-- **C01_model_meets_spec**: the model satisfies the declarative specification on every well-formed case
    outside the listed known finding (K3). -/
theorem C01_model_meets_spec (c : Case) (hwf : wf c = true) (hk : known c = []) :
    spec c (model c) = true := by
  unfold spec model
  cases hok : callOk (params c.run.attrs) c.call with
  | true =>
    have hb := bodyOK_of_wf c hwf hk hok
    obtain ⟨h1, h2, _, _, _, _⟩ := runInit_spec c hb
    obtain ⟨e, v⟩ := C01_values c hwf hk hok
    simp [h1, h2, hok, e, v]
  | false =>
    have hte := (C01_bind_iff c hwf hk).2 hok
    have : bind (params c.eff.attrs) c.call = none := bind_none _ _ (by simpa using hok)
    have hs : (runInit c).sig = sigOf c.eff.attrs ∧ (runInit c).annotations = annotationsOf c.eff.attrs := by
      unfold runInit; dsimp only; rw [this]; simp
    simp [hs.1, hs.2, hok, hte]

end Attrs.C01

namespace Attrs.C01
open Attrs.Init

/-- the K3 witness: `A(frozen, slots) ← B(frozen dict) ← C(frozen dict)` with attr.s's legacy collection -/
def k3Witness : Case :=
  { run := { cfg := { frozen := true, slots := false, cacheHash := false, isExc := false, pre := .none,
                      post := false, clsHook := false, runValidators := true, collectByMro := false },
             attrs := [{ name := "x", alias := "x", dflt := .none, init := true, kwOnly := false, conv := none,
                         validators := 0, onSet := .unset, isSlot := true, type := none, convType := none }],
             own := [], bases := [{ hasSlotsDunder := false, attrs := [("x", true)] },
                                  { hasSlotsDunder := true, attrs := [("x", false)] }],
             cacheIsSlot := false, fault := none },
    call := { pos := ["t1"], kw := [] }, isDefine := false, clsOnSet := .unset }

/-- **C01_known_slot_belief_witness** (K3): a well-formed case on which the model — like the code —
    violates the property: the value is stored where lookup does not find it. -/
theorem C01_known_slot_belief_witness :
    wf k3Witness = true ∧ "K3" ∈ known k3Witness ∧ spec k3Witness (model k3Witness) = false := by
  refine ⟨by decide, by decide, by decide⟩

/-- non-vacuity: a non-trivial well-formed case without known findings exists (hypotheses of the theorems
    above are satisfiable) -/
example : wf { k3Witness with run := { k3Witness.run with cfg := { k3Witness.run.cfg with slots := true } } } = true ∧
    known { k3Witness with run := { k3Witness.run with cfg := { k3Witness.run.cfg with slots := true } } } = [] := by
  refine ⟨by decide, by decide⟩

end Attrs.C01
