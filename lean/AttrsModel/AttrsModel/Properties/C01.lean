/-
  C01 — property theorems: the generated initializer stores converter(argument | default | fresh factory
  value) in every participating field, for arbitrary field lists and call shapes, identically in every
  class mode.  Helper lemmas are in Proofs/Init*.lean.
-/
import AttrsModel.Proofs.InitWf
import AttrsModel.Proofs.InitIR
import AttrsModel.Proofs.C01Calls
import AttrsModel.Proofs.SrcFuncs

namespace Attrs.C01
open Attrs.Init
open Attrs.C02 (hits cutAt expectedTrace eventsUpTo)

/-- **C01_params**: positional parameters come first, in field order, then the keyword-only ones in field
    order; both are taken from the `init` fields only. -/
theorem C01_params (attrs : List Attr) :
    params attrs = ((attrs.filter (·.init)).map paramOf).filter (!·.kwOnly) ++
                   ((attrs.filter (·.init)).map paramOf).filter (·.kwOnly) := rfl

/-- **C01_params_init_only**: every parameter is the alias of an `init=True` field (init=False fields are
    not parameters), and every such field is a parameter. -/
theorem C01_params_init_only (attrs : List Attr) (p : Param) :
    p ∈ params attrs ↔ ∃ a ∈ attrs, a.init = true ∧ p = paramOf a := by
  constructor
  · exact mem_params attrs p
  · rintro ⟨a, ha, hi, rfl⟩; exact paramOf_mem_params attrs a ha hi

/-- **C01_optional_iff**: a parameter is optional iff its field has a default or factory. -/
theorem C01_optional_iff (a : Attr) : (paramOf a).dflt.isSome = (a.dflt != .none) := by
  cases h : a.dflt <;> simp [paramOf, h]

/-- **C01_bind_iff**: a call raises TypeError iff an argument is missing, unknown, duplicated or surplus
    (`callOk` is the declarative characterisation); no other outcome is a TypeError. -/
theorem C01_bind_iff (c : Case) (hwf : wf c = true) (hk : known c = []) :
    (runInit c).exc = some .typeError ↔ callOk (params c.run.attrs) c.call = false := by
  cases hok : callOk (params c.run.attrs) c.call with
  | false =>
    have : bind (params c.eff.attrs) c.call = none := bind_none _ _ (by simpa using hok)
    unfold runInit
    dsimp only
    rw [this]
    simp
  | true =>
    have hb := bodyOK_of_wf c hwf hk hok
    have := (runInit_spec c hb).2.2.2.1
    rw [this]
    split <;> simp

/-- **C01_values**: for every well-formed call (no callback raising) each participating field holds
    converter(passed value | declared default | fresh factory result) — exactly once through the
    converter — and every other field is unset; arbitrary field lists, hierarchies and call shapes. -/
theorem C01_values (c : Case) (hwf : wf c = true) (hk : known c = [])
    (hok : callOk (params c.run.attrs) c.call = true) :
    (runInit c).exc = none ∧
    (runInit c).values = c.run.attrs.map (fun a => (a.name, expectedValue c.run.attrs c.call a)) := by
  have hb := bodyOK_of_wf c hwf hk hok
  have hf : c.run.fault = none := by
    unfold wf at hwf
    simp only [Bool.and_eq_true, eff_fault] at hwf
    simpa using hwf.1.1.1.1.1.1.1
  obtain ⟨_, _, _, h4, h5, _⟩ := runInit_spec c hb
  constructor
  · rw [h4]; simp [hf, C02.hits]
  · rw [h5]; simp [specValues, hf, C02.hits]

/-- the part of a field specification the stored value may depend on -/
def core (a : Attr) : Attr := { a with isSlot := false, onSet := .unset, type := none, convType := none }

theorem params_core (attrs : List Attr) : params (attrs.map core) = params attrs := by
  have h : ((attrs.map core).filter (·.init)).map paramOf = (attrs.filter (·.init)).map paramOf := by
    induction attrs with
    | nil => rfl
    | cons a l ih =>
      have hi : (core a).init = a.init := rfl
      have hp : paramOf (core a) = paramOf a := rfl
      simp only [List.map_cons, List.filter_cons, hi]
      cases a.init <;> simp [ih, hp]
  unfold params
  rw [h]

theorem expectedValue_core (attrs : List Attr) (c : Call) (a : Attr) :
    expectedValue (attrs.map core) c (core a) = expectedValue attrs c a := by
  unfold expectedValue rawOf
  rw [params_core]
  rfl

/-- **C01_mode_independent**: two classes whose field lists agree up to slot layout, hooks and annotations
    — dict or slotted, mutable or frozen, hash-caching, exception, inherited, any front-end, any pre/post
    hooks — store exactly the same values for the same call. -/
theorem C01_mode_independent (c d : Case) (hc : wf c = true) (hd : wf d = true)
    (kc : known c = []) (kd : known d = [])
    (hattrs : c.run.attrs.map core = d.run.attrs.map core) (hcall : c.call = d.call)
    (hok : callOk (params c.run.attrs) c.call = true) :
    (runInit c).values.map (·.2) = (runInit d).values.map (·.2) ∧ (runInit d).exc = (runInit c).exc := by
  have hp : params d.run.attrs = params c.run.attrs := by
    rw [← params_core c.run.attrs, ← params_core d.run.attrs, hattrs]
  have hokd : callOk (params d.run.attrs) d.call = true := by rw [hp, ← hcall]; exact hok
  obtain ⟨e1, v1⟩ := C01_values c hc kc hok
  obtain ⟨e2, v2⟩ := C01_values d hd kd hokd
  refine ⟨?_, by rw [e1, e2]⟩
  rw [v1, v2]
  simp only [List.map_map, Function.comp_def]
  have : ∀ (attrs : List Attr) (cl : Call),
      attrs.map (fun a => expectedValue attrs cl a) =
        (attrs.map core).map (fun a => expectedValue (attrs.map core) cl a) := by
    intro attrs cl
    rw [List.map_map]
    apply List.map_congr_left
    intro a _
    exact (expectedValue_core attrs cl a).symm
  rw [this c.run.attrs, this d.run.attrs, hattrs, hcall]

/-- **C01_store_readable**: outside the known finding, the store technique the generator picks always lands
    where attribute lookup finds the value. -/
theorem C01_store_readable (r : RunIn) (a : Attr) (hm : misplaced r a = false) (hp : participates a = true) :
    storeLoc (tech r.cfg (r.belief a.name) a) a = readLoc a := by
  unfold misplaced at hm
  unfold storeLoc readLoc
  cases ht : tech r.cfg (r.belief a.name) a <;> simp_all

/-- slotted, and mutable, classes never misplace a value: the known finding needs a frozen dict class -/
theorem C01_misplaced_needs_frozen_dict (r : RunIn) (a : Attr) (h : misplaced r a = true) :
    r.cfg.frozen = true ∧ r.cfg.slots = false := by
  unfold misplaced tech at h
  grind

/-- **C01_annotations**: a parameter is annotated with the field's type when there is no converter, with
    the converter's first-parameter annotation when there is one, and not at all otherwise. -/
theorem C01_annotations (a : Attr) :
    annotationOf a =
      if a.init then
        (match a.conv with
         | none => a.type.map (fun t => (a.alias, t))
         | some _ => a.convType.map (fun t => (a.alias, t)))
      else none := by
  unfold annotationOf
  cases a.init <;> cases a.conv <;> cases a.type <;> cases a.convType <;> simp

theorem fault_none_of_wf (c : Case) (hwf : wf c = true) : c.run.fault = none := by
  unfold wf at hwf
  simp only [Bool.and_eq_true, eff_fault] at hwf
  simpa using hwf.1.1.1.1.1.1.1

/-- **C01_calls**: the converter / factory invocations of a well-formed call of the modelled initializer are
    exactly the ones the statement allows (`expectedCalls`, written from the statement), in field order —
    whatever pre-init / validator / post-init callbacks run around them. -/
theorem C01_calls (c : Case) (hwf : wf c = true) (hk : known c = [])
    (hok : callOk (params c.run.attrs) c.call = true) :
    ((runInit c).trace.filter isCall).map blankArgs = expectedCalls c.run.attrs c.call := by
  have hb := bodyOK_of_wf c hwf hk hok
  have ht := (runInit_spec c hb).2.2.1
  rw [ht, eff_fault, fault_none_of_wf c hwf, cutAt_none, callsOf_expectedTrace]
  rfl

/-- **C01_converter_once**: in one well-formed construction the converter of a field of the class is invoked
    exactly once if the field participates and has a converter (for a converter chain `converter=[c0, c1, …]`:
    `convCount` = one invocation per member, see `C01_pipe_member_once`), and never otherwise; its factory exactly once
    if the field participates and no value was supplied for it (`init=False`, or the parameter was not
    passed) and its default is a factory, and never otherwise — so every instance gets a value that went
    through the converter once, in that call, and a factory result of its own. -/
theorem C01_converter_once (c : Case) (hwf : wf c = true) (hk : known c = [])
    (hok : callOk (params c.run.attrs) c.call = true) (a : Attr) (ha : a ∈ c.run.attrs) :
    callCount "conv" a.name (runInit c).trace = (if participates a then convCount a else 0) ∧
    callCount "factory" a.name (runInit c).trace =
      (if participates a && fromFactory c.run.attrs c.call a then 1 else 0) := by
  have hc : callsOf (runInit c).trace = expectedCalls c.run.attrs c.call := C01_calls c hwf hk hok
  have hnd : (c.run.attrs.map (·.name)).Nodup := by
    unfold wf at hwf
    simp only [Bool.and_eq_true, eff_attrs] at hwf
    exact of_decide_eq_true hwf.1.1.1.1.1.1.2
  have h := callCount_expectedCalls c.run.attrs c.call hnd a ha
  rw [← hc, callCount_callsOf _ _ (Or.inl rfl), callCount_callsOf _ _ (Or.inr rfl)] at h
  exact h

/-- the invocation of member `i` of field `a`'s converter (chain) -/
def convCallEv (a : Attr) (i : Nat) : Event := { id := { kind := "conv", field := a.name, idx := i }, args := [] }

/-- **C01_pipe_member_once**: the converter invocations the statement allows for a field are pairwise distinct and
    are exactly the members `i < convCount a` of its chain (one, `idx 0`, for a single converter): together with
    `C01_calls` every member of `converter=[c0, c1, …]` runs exactly once per construction, in list order. -/
theorem C01_pipe_member_once (a : Attr) :
    (convCalls a).Nodup ∧ ∀ i, convCallEv a i ∈ convCalls a ↔ i < convCount a := by
  constructor
  · unfold convCalls List.Nodup
    rw [List.pairwise_map]
    exact List.nodup_range.imp (fun h e => h (by injection e with e1; injection e1))
  · intro i
    unfold convCalls convCallEv
    simp

/-- a single converter is a chain of one -/
theorem convCount_single (a : Attr) (c : Conv) (hc : a.conv = some c) (hp : a.pipe = none) : convCount a = 1 := by
  simp [convCount, hc, hp]

/-- **C01_calls_only_fields**: no converter or factory other than those of the class's participating fields
    is invoked by a well-formed construction. -/
theorem C01_calls_only_fields (c : Case) (hwf : wf c = true) (hk : known c = [])
    (hok : callOk (params c.run.attrs) c.call = true) (e : Event) (he : e ∈ (runInit c).trace)
    (hcall : isCall e = true) :
    ∃ a ∈ c.run.attrs, participates a = true ∧ e.id.field = a.name := by
  have hm : blankArgs e ∈ expectedCalls c.run.attrs c.call := by
    rw [← C01_calls c hwf hk hok]
    exact List.mem_map.2 ⟨e, List.mem_filter.2 ⟨he, hcall⟩, rfl⟩
  exact expectedCalls_fields _ _ (blankArgs e) hm

/-- **C01_model_meets_spec**: the model satisfies the declarative specification on every well-formed case
    outside the listed known finding (K3). -/
theorem C01_model_meets_spec (c : Case) (hwf : wf c = true) (hk : known c = []) :
    spec c (model c) = true := by
  unfold spec model
  cases hok : callOk (params c.run.attrs) c.call with
  | true =>
    have hb := bodyOK_of_wf c hwf hk hok
    obtain ⟨h1, h2, _, _, _, _⟩ := runInit_spec c hb
    obtain ⟨e, v⟩ := C01_values c hwf hk hok
    have ht := C01_calls c hwf hk hok
    simp [h1, h2, hok, e, v, ht]
  | false =>
    have hte := (C01_bind_iff c hwf hk).2 hok
    have : bind (params c.eff.attrs) c.call = none := bind_none _ _ (by simpa using hok)
    have hs : (runInit c).sig = sigOf c.eff.attrs ∧ (runInit c).annotations = annotationsOf c.eff.attrs ∧
        (runInit c).trace = [] := by
      unfold runInit; dsimp only; rw [this]; simp
    simp [hs.1, hs.2.1, hs.2.2, hok, hte]

/-- the model is the C01 view of the full observation -/
theorem model_eq_view (c : Case) : model c = view (runInit c) := rfl

end Attrs.C01

namespace Attrs.C01
open Attrs.Init

/-- the K3 witness: `A(frozen, slots) ← B(frozen dict) ← C(frozen dict)` with attr.s's legacy collection -/
def k3Witness : Case :=
  { run := { cfg := { frozen := true, slots := false, cacheHash := false, isExc := false, pre := .none,
                      post := false, clsHook := false, runValidators := true, collectByMro := false },
             attrs := [{ name := "x", alias := "x", dflt := .none, init := true, kwOnly := false, conv := none,
                         validators := 0, onSet := .unset, isSlot := true, type := none, convType := none }],
             own := [], bases := [{ hasSlotsDunder := false, attrs := [("x", true)] },
                                  { hasSlotsDunder := true, attrs := [("x", false)] }],
             cacheIsSlot := false, fault := none },
    call := { pos := ["t1"], kw := [] }, isDefine := false, clsOnSet := .unset }

/-- **C01_known_slot_belief_witness** (K3): a well-formed case on which the model — like the code —
    violates the property: the value is stored where lookup does not find it. -/
theorem C01_known_slot_belief_witness :
    wf k3Witness = true ∧ "K3" ∈ known k3Witness ∧ spec k3Witness (model k3Witness) = false := by
  refine ⟨by decide, by decide, by decide⟩

/-- a class with one `init=False` field `x` that has a plain default and a plain converter, constructed
    without arguments -/
def constDefaultCase : Case :=
  { run := { cfg := { frozen := false, slots := false, cacheHash := false, isExc := false, pre := .none,
                      post := false, clsHook := false, runValidators := true, collectByMro := true },
             attrs := [{ name := "x", alias := "x", dflt := .value, init := false, kwOnly := false,
                         conv := some { takesSelf := false, takesField := false },
                         validators := 0, onSet := .unset, isSlot := false, type := none, convType := none }],
             own := ["x"], bases := [], cacheIsSlot := false, fault := none },
    call := { pos := [], kw := [] }, isDefine := false, clsOnSet := .unset }

/-- non-vacuity of `C01_converter_once`, and what the model does on `constDefaultCase`: one converter
    invocation in the call. -/
example : wf constDefaultCase = true ∧ known constDefaultCase = [] ∧
    callOk (params constDefaultCase.run.attrs) constDefaultCase.call = true ∧
    (model constDefaultCase).trace = [callEv "conv" "x"] := by
  refine ⟨by decide, by decide, by decide, by decide⟩

/-- **C01_spec_rejects_hoisted_conversion**: an initializer that stores the right symbolic value but did not
    invoke the converter during the call (the default was converted once and for all while the class was built,
    every instance shares the result) violates the specification, although all values agree. -/
theorem C01_spec_rejects_hoisted_conversion :
    ({ model constDefaultCase with trace := [] } : Obs).values = (model constDefaultCase).values ∧
    spec constDefaultCase { model constDefaultCase with trace := [] } = false := by
  refine ⟨by decide, by decide⟩

/-- non-vacuity: a non-trivial well-formed case without known findings exists (hypotheses of the theorems
    above are satisfiable) -/
example : wf { k3Witness with run := { k3Witness.run with cfg := { k3Witness.run.cfg with slots := true } } } = true ∧
    known { k3Witness with run := { k3Witness.run with cfg := { k3Witness.run.cfg with slots := true } } } = [] := by
  refine ⟨by decide, by decide⟩

end Attrs.C01

/-! ## T3 — the generated source as a script (Model/InitIR.lean, Spec/C01Script.lean)

  The harness parses the real source text of every sampled class's initializer into the IR and the driver checks
  it to be *syntactically* `genInit` of the class.  The theorems below make that agreement mean something:
  executing `genInit r` with the IR interpreter is the direct semantics `body r` which every theorem above
  (and every C02 theorem) is about — for every class description and every environment / call shape. -/
namespace Attrs.C01
open Attrs.Init

theorem names_nodup_of_wf (c : Case) (hwf : wf c = true) : (c.run.attrs.map (·.name)).Nodup := by
  unfold wf at hwf
  simp only [Bool.and_eq_true, eff_attrs] at hwf
  exact of_decide_eq_true hwf.1.1.1.1.1.1.2

/-- **C01_script_params**: the parameter list of the generated script (names, keyword-only flags, default
    expressions `attr_dict['f'].default` / `NOTHING`) denotes the model's parameter list. -/
theorem C01_script_params (attrs : List Attr) : (genParams attrs).map IParam.toParam = params attrs :=
  genParams_toParam attrs

/-- **C01_script_correct** (compiler correctness of the model generator): for every class description with
    distinct field names and every environment, executing the script `genInit r` — pre-init call, local
    declarations, per-field stores through the three techniques with factory / converter calls and the
    `is not NOTHING` test, the validator block under the switch, post-init, hash-cache reset,
    `BaseException.__init__` — yields exactly the state `body r env` (the semantics of C01/C02), followed for
    exception classes by what `runInit` does with `BaseException.__init__`'s arguments (`withExc`); in
    particular no local is used before its declaration (no NameError). -/
theorem C01_script_correct (r : RunIn) (env : List (String × Val)) (hnd : (r.attrs.map (·.name)).Nodup) :
    (execScript (genInit r) r env).st = (withExc r (body r env)).1 ∧
    (execScript (genInit r) r env).excArgs = (withExc r (body r env)).2 :=
  script_correct r env hnd

/-- the same for classes that are not `auto_exc` exception classes: exactly `body` -/
theorem C01_script_correct_plain (r : RunIn) (env : List (String × Val)) (hnd : (r.attrs.map (·.name)).Nodup)
    (he : r.cfg.isExc = false) :
    (execScript (genInit r) r env).st = body r env ∧ (execScript (genInit r) r env).excArgs = none := by
  have h := script_correct r env hnd
  unfold withExc at h
  simpa [he] using h

/-- **C01_script_runInit**: the observation of a call of the generated script (binding with the script's own
    parameter list, then `execScript`) is the model's observation `runInit`, for every call shape — well-formed
    or not. -/
theorem C01_script_runInit (c : Case) (hnd : (c.run.attrs.map (·.name)).Nodup) :
    scriptObs (genInit c.eff) c.eff c.call = runInit c :=
  scriptObs_genInit c hnd

/-- the script does not depend on the run-time facts (which callback fails, the validator switch) -/
theorem genInit_at (sc : Script.Case) (call : Call) (fault : Option EventId) (runV : Bool) :
    genInit (sc.at call fault runV).eff = genInit sc.eff := rfl

/-- **C01_script_transfer**: if the script parsed from a class's real source *is* the model's script (the T3
    agreement checked for every sampled class), then every run of that text — any call, any failing callback,
    validators on or off — is `runInit` of the class. -/
theorem C01_script_transfer (sc : Script.Case) (o : Script.Obs) (hag : Script.model sc = o)
    (hnd : (sc.run.attrs.map (·.name)).Nodup) (call : Call) (fault : Option EventId) (runV : Bool) :
    scriptObs o.script (sc.at call fault runV).eff call = runInit (sc.at call fault runV) := by
  subst hag
  show scriptObs (genInit sc.eff) _ _ = _
  rw [← genInit_at sc call fault runV]
  exact scriptObs_genInit (sc.at call fault runV) hnd

/-- **C01_script_values**: on a class whose real source agrees with the model's script, *every* well-formed
    call (not only the sampled ones) of that source stores converter(argument | default | fresh factory value)
    in every participating field and leaves the others unset. -/
theorem C01_script_values (sc : Script.Case) (o : Script.Obs) (hag : Script.model sc = o) (call : Call) (runV : Bool)
    (hwf : wf (sc.at call none runV) = true) (hk : known (sc.at call none runV) = [])
    (hok : callOk (params sc.run.attrs) call = true) :
    (scriptObs o.script (sc.at call none runV).eff call).exc = none ∧
    (scriptObs o.script (sc.at call none runV).eff call).values =
      sc.run.attrs.map (fun a => (a.name, expectedValue sc.run.attrs call a)) := by
  rw [C01_script_transfer sc o hag (names_nodup_of_wf _ hwf) call none runV]
  exact C01_values (sc.at call none runV) hwf hk hok

/-- **C01_script_calls**: on such a class every well-formed call of the real source invokes exactly the
    converters / factories the statement allows, each once, in field order. -/
theorem C01_script_calls (sc : Script.Case) (o : Script.Obs) (hag : Script.model sc = o) (call : Call) (runV : Bool)
    (hwf : wf (sc.at call none runV) = true) (hk : known (sc.at call none runV) = [])
    (hok : callOk (params sc.run.attrs) call = true) :
    ((scriptObs o.script (sc.at call none runV).eff call).trace.filter isCall).map blankArgs =
      expectedCalls sc.run.attrs call := by
  rw [C01_script_transfer sc o hag (names_nodup_of_wf _ hwf) call none runV]
  exact C01_calls (sc.at call none runV) hwf hk hok

/-! ### the script check on a concrete class (non-vacuity and sensitivity of `Script.spec`) -/

def facAttr (n : String) (conv : Option Conv) (v : Nat) : Attr :=
  { name := n, alias := n, dflt := .factory false, init := true, kwOnly := false, conv := conv,
    validators := v, onSet := .unset, isSlot := false, type := none, convType := none }

/-- a frozen dict class with hash caching, pre-init taking arguments, post-init and three optional factory
    parameters `a` (with a converter taking the instance), `b`, `c` (with a validator) -/
def threeFactories : Script.Case :=
  { run := { cfg := { frozen := true, slots := false, cacheHash := true, isExc := false, pre := .withArgs,
                      post := true, clsHook := false, runValidators := true, collectByMro := true },
             attrs := [facAttr "a" (some { takesSelf := true, takesField := false }) 0, facAttr "b" none 0,
                       facAttr "c" none 1],
             own := ["a", "b", "c"], bases := [], cacheIsSlot := false, fault := none },
    isDefine := true, clsOnSet := .unset }

/-- the model's script with the `is not NOTHING` test of the LAST parameter looking at the first one -/
def wrongTestScript : InitScript :=
  { (Script.model threeFactories).script with
    body := (Script.model threeFactories).script.body.map (fun s => match s with
      | .ifNotNothing "c" t e => .ifNotNothing "a" t e
      | s => s) }

/-- the model's script with the two local declarations in the other order (a harmless rewrite) -/
def swappedDeclsScript : InitScript :=
  { (Script.model threeFactories).script with
    body := match (Script.model threeFactories).script.body with
      | p :: d1 :: d2 :: rest => p :: d2 :: d1 :: rest
      | b => b }

/-- **C01_script_spec_nonvacuous**: on the well-formed class `threeFactories` the script check's specification
    holds of the model's script — all 8 subsets of supplied parameters, every callback failing in turn,
    validators on and off. -/
theorem C01_script_spec_nonvacuous :
    Script.wf threeFactories = true ∧ Script.known threeFactories = [] ∧
    Script.spec threeFactories (Script.model threeFactories) = true := by
  refine ⟨by decide +kernel, by decide +kernel, by decide +kernel⟩

/-- **C01_script_spec_rejects**: a script that mishandles one call shape (only the last optional parameter
    supplied, among others) violates the specification of the script check — whichever calls are sampled. -/
theorem C01_script_spec_rejects :
    Script.spec threeFactories { script := wrongTestScript } = false := by decide +kernel

/-- **C01_script_spec_accepts_rewrite**: a behaviour-preserving rewrite differs from the model's script (a
    disagreement) but still satisfies the specification (so it is not reported as a failing input). -/
theorem C01_script_spec_accepts_rewrite :
    swappedDeclsScript ≠ (Script.model threeFactories).script ∧
    Script.spec threeFactories { script := swappedDeclsScript } = true := by
  refine ⟨by decide +kernel, by decide +kernel⟩

/-! ### T1b: the default alias as written in /repo's source on this run -/

/-- **C01_source_default_alias**: `_default_init_alias_for`, translated from the current source
    (`Gen.default_init_alias_for`, regenerated on every run), strips exactly the leading underscores of the field
    name — the alias rule the parameter names of `C01_params` rest on (`C07.lstripUnderscore`) — for every name. -/
theorem C01_source_default_alias (env : Py.Env) (ext : Py.Ext) (s : String) :
    Gen.default_init_alias_for env ext (Py.vStr s) = .ok (Py.vStr (C07.lstripUnderscore s)) :=
  Src.default_alias env ext s

end Attrs.C01
