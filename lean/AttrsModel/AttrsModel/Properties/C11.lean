/-
  C11 — property theorems.  Heaps, field lists, ancestor paths, entry states, histories, numbers
  of threads and schedules are arbitrary throughout; the only bounded statements are the two
  `decide`d witness schedules for the shared-state variant (they are counterexamples).
-/
import AttrsModel.Proofs.C11Aux

namespace Attrs.C11

/-! ### format -/

/-- **C11_format_general**: the rendering of an attrs instance that is not already being rendered
    is `fmt` over the repr-enabled fields in field order; each field is rendered *independently*,
    below the path extended by the instance (no state leaks from one field to the next, even when
    an earlier field's rendering went through cycles).  The first field that fails is the result. -/
theorem C11_format_general (h : Heap) (armed : Bool) (fuel : Nat) (anc : List Nat) (id ci : Nat)
    (vals : List (String × Nat)) (c : Cls) (s : St)
    (hn : h.nodes[id]? = some (.inst ci vals)) (hc : h.classes[ci]? = some c)
    (hs : Sim h anc s) (hfresh : anc.contains id = false) :
    ((reprNode h armed (fuel + 1) id).run s).2 =
      mapOk (ovrText c) (fmt (displayName c ++ "(") ")"
        ((c.fields.filter enabled).map fun f =>
          (f.name ++ "=", specField (specVal displayName h armed fuel (id :: anc)) armed vals f))) := by
  rw [refines_reprNode h armed (fuel + 1) anc id s hs]
  have : id ∉ anc := by simpa using hfresh
  simp [specVal, hn, hc, this]

/-- **C11_format**: when every repr-enabled field renders to a string `r f`, the result is exactly
    `Name(f1=r1, f2=r2, …)`: the repr-enabled fields, in field order, joined by `", "` (`ovrText` is
    the identity unless the runtime class overrides `__repr__` itself). -/
theorem C11_format (h : Heap) (armed : Bool) (fuel : Nat) (anc : List Nat) (id ci : Nat)
    (vals : List (String × Nat)) (c : Cls) (s : St) (r : Field → String)
    (hn : h.nodes[id]? = some (.inst ci vals)) (hc : h.classes[ci]? = some c)
    (hs : Sim h anc s) (hfresh : anc.contains id = false)
    (hr : ∀ f ∈ c.fields, enabled f = true →
      specField (specVal displayName h armed fuel (id :: anc)) armed vals f = .ok (r f)) :
    ((reprNode h armed (fuel + 1) id).run s).2 =
      .ok (ovrText c (displayName c ++ "(" ++
        ", ".intercalate ((c.fields.filter enabled).map fun f => f.name ++ "=" ++ r f) ++ ")")) := by
  rw [C11_format_general h armed fuel anc id ci vals c s hn hc hs hfresh]
  unfold fmt
  rw [collect_all_ok (c.fields.filter enabled) (fun f => f.name ++ "=") r]
  · rfl
  intro f hf
  rw [hr f (List.mem_filter.1 hf).1 (List.mem_filter.1 hf).2]

/-- a field with `repr=False` never appears: two classes that differ only in such fields render alike -/
theorem C11_format_only_enabled (fs gs : List Field) (h : fs.filter enabled = gs.filter enabled) :
    genFrags fs = genFrags gs := by
  rw [genFrags_eq, genFrags_eq, h]

/-- unset `init=False` field: the generated accessor yields `NOTHING`, which is shown through `repr`
    (no state touched) — and handed to the callable if there is one -/
theorem C11_nothing_for_unset (rec : Nat → Prog Out) (armed : Bool) (vals : List (String × Nat))
    (f : Field) (hu : vals.lookup f.name = none) (hi : f.init = false) (s : St) :
    (f.repr = .on → (evalFrag rec armed vals (toFrag f)).run s = (s, .ok "NOTHING")) ∧
    (∀ t rc fl c, f.repr = .call t rc fl c →
      evalFrag rec armed vals (toFrag f) = callRepr armed t rc fl (tolerate c (.done (.ok "NOTHING")))) := by
  constructor
  · intro hon
    simp [evalFrag, access, toFrag, hu, hi, hon]
  · intro t rc fl c hc
    simp [evalFrag, access, toFrag, hu, hi, hc]

/-- an unset `init=True` field is read as `self.name`: AttributeError, whatever its `repr=` -/
theorem C11_unset_init_field_raises (rec : Nat → Prog Out) (armed : Bool) (vals : List (String × Nat))
    (f : Field) (hu : vals.lookup f.name = none) (hi : f.init = true) (s : St) :
    (evalFrag rec armed vals (toFrag f)).run s = (s, .exc "attributeError") := by
  simp [evalFrag, access, toFrag, hu, hi]

/-- inherited fields come first: the field list is the concatenation of the layers, root first -/
theorem C11_inherited_first (c : Cls) (base own : List Field) (h : c.layers = [base, own]) :
    genFrags c.fields = genFrags base ++ genFrags own := by
  simp [Cls.fields, h, genFrags, List.filterMap_append]

/-! ### class name -/

/-- **C11_qualname**: for identifier-like names, `__qualname__.rsplit(">.", 1)[-1]` of the runtime
    class is the dotted path of the scopes after the last function scope (`repr_ns`: `ns.Name`). -/
theorem C11_qualname (c : Cls) (h : c.wf = true) : displayName c = specName c := displayName_eq c h

/-- `afterLastFn` is what its name says: a suffix without function scopes, preceded by nothing or by
    a prefix that ends in a function scope -/
theorem C11_afterLastFn_char (l : List Scope) :
    (afterLastFn l).all (fun s => !s.fn) = true ∧
    ∃ pre, l = pre ++ afterLastFn l ∧ (pre = [] ∨ ∃ p s, pre = p ++ [s] ∧ s.fn = true) := by
  induction l with
  | nil => exact ⟨rfl, [], rfl, Or.inl rfl⟩
  | cons s rest ih =>
    obtain ⟨ih1, pre, ih2, ih3⟩ := ih
    cases hr : rest.any (·.fn) with
    | true =>
      simp only [afterLastFn, hr, if_true]
      refine ⟨ih1, s :: pre, by rw [List.cons_append, ← ih2], Or.inr ?_⟩
      rcases ih3 with rfl | ⟨p, t, rfl, ht⟩
      · -- then rest = afterLastFn rest has no function scope: contradiction with hr
        exfalso
        simp only [List.nil_append] at ih2
        rw [ih2] at hr
        simp only [List.any_eq_true] at hr
        obtain ⟨x, hx, hxf⟩ := hr
        have := List.all_eq_true.1 ih1 x hx
        simp [hxf] at this
      · exact ⟨s :: p, t, rfl, ht⟩
    | false =>
      have hall : rest.all (fun s => !s.fn) = true := by
        simp only [List.any_eq_false] at hr
        exact List.all_eq_true.2 fun x hx => by simpa using hr x hx
      cases hs : s.fn with
      | true =>
        simp only [afterLastFn, hr, hs, Bool.false_eq_true, if_false, if_true]
        exact ⟨hall, [s], rfl, Or.inr ⟨[], s, rfl, hs⟩⟩
      | false =>
        simp only [afterLastFn, hr, hs, Bool.false_eq_true, if_false]
        exact ⟨by simp [List.all_cons, hs, hall], [], rfl, Or.inl rfl⟩

/-! ### termination -/

/-- **C11_terminates**: on every graph, from every state that represents an ancestor path, fuel
    above the number of nodes not on the path is never exhausted; in particular `|heap| + 1`
    suffices at top level (`Heap.fuel`). -/
theorem C11_terminates (h : Heap) (armed : Bool) (fuel : Nat) (anc : List Nat) (id : Nat) (s : St)
    (hs : Sim h anc s) (hf : unvisited h anc < fuel) :
    ((reprNode h armed fuel id).run s).2 ≠ .oof := by
  rw [refines_reprNode h armed fuel anc id s hs]
  exact specVal_ne_oof displayName h armed fuel anc id hf

theorem C11_terminates_top (h : Heap) (armed warm : Bool) (fuel : Nat) (hf : h.nodes.length + 1 ≤ fuel)
    (id : Nat) : ((reprNode h armed fuel id).run (entry warm)).2 ≠ .oof :=
  C11_terminates h armed fuel [] id (entry warm) (sim_entry h warm)
    (Nat.lt_of_lt_of_le (unvisited_nil_lt_fuel h) hf)

/-- more fuel than `|heap| + 1` never changes the rendering -/
theorem C11_fuel_irrelevant (h : Heap) (armed warm : Bool) (extra id : Nat) :
    ((reprNode h armed (h.fuel + extra) id).run (entry warm)).2 =
      ((reprNode h armed h.fuel id).run (entry warm)).2 := by
  rw [refines_reprNode h armed _ [] id _ (sim_entry h warm),
    refines_reprNode h armed _ [] id _ (sim_entry h warm)]
  exact specVal_fuel_irrelevant displayName h armed [] id extra h.fuel (unvisited_nil_lt_fuel h)

/-! ### cycles -/

/-- **C11_cycle_dots**: an attrs instance that is already being rendered in this thread yields
    `...` at once and touches nothing -/
theorem C11_cycle_dots (h : Heap) (armed : Bool) (fuel id ci : Nat) (vals : List (String × Nat))
    (c : Cls) (s : St) (a : List Nat)
    (hn : h.nodes[id]? = some (.inst ci vals)) (hc : h.classes[ci]? = some c)
    (hs : s.already = some a) (hm : a.contains id = true) :
    (reprNode h armed (fuel + 1) id).run s = (s, .ok (ovrText c "...")) := by
  unfold reprNode
  simp only [hn, hc, run_bind]
  rw [run_attrsRepr_hit id _ s a hs hm]
  rfl

/-- in terms of the path: an instance below itself is `...`, whatever lies between -/
theorem C11_cycle_dots_path (h : Heap) (armed : Bool) (fuel id ci : Nat) (vals : List (String × Nat))
    (c : Cls) (anc : List Nat) (s : St) (hs : Sim h anc s)
    (hn : h.nodes[id]? = some (.inst ci vals)) (hc : h.classes[ci]? = some c) (hm : id ∈ anc) :
    ((reprNode h armed (fuel + 1) id).run s).2 = .ok (ovrText c "...") := by
  rw [refines_reprNode h armed (fuel + 1) anc id s hs]
  simp [specVal, hn, hc, hm, mapOk]

/-! ### residue -/

/-- **C11_no_residue**: from *every* entry state, after returning *or raising* (or anything else),
    CPython's guard list is what it was and `already_repring` is what it was — an absent attribute
    may have been created, empty.  This is the `finally`. -/
theorem C11_no_residue (h : Heap) (armed : Bool) (fuel id : Nat) (s : St) :
    Restored s ((reprNode h armed fuel id).run s).1 := clean_reprNode h armed fuel id s

theorem C11_no_residue_content (h : Heap) (armed : Bool) (fuel id : Nat) (s : St) :
    ((reprNode h armed fuel id).run s).1.alreadyL = s.alreadyL ∧
    ((reprNode h armed fuel id).run s).1.guard = s.guard :=
  ⟨(C11_no_residue h armed fuel id s).alreadyL, (C11_no_residue h armed fuel id s).1⟩

theorem C11_no_residue_str (h : Heap) (armed : Bool) (fuel id : Nat) (s : St) :
    Restored s ((strNode h armed fuel id).run s).1 := clean_strNode h armed fuel id s

/-- **C11_caught_fault_no_residue**: a tolerant callable (`try: repr(v) except BaseException: …`)
    never hands on an exception from rendering its value, and whatever was raised below, the
    bookkeeping is again that of the field's entry — so instances that are still being rendered keep
    their marks and a later back-reference is still `...` (`C11_format_general` then applies to the
    remaining fields unchanged). -/
theorem C11_caught_fault_no_residue (h : Heap) (armed : Bool) (fuel i : Nat) (s : St) :
    Restored s ((tolerate true (reprNode h armed fuel i)).run s).1 ∧
    ∀ k, ((tolerate true (reprNode h armed fuel i)).run s).2 ≠ .exc k := by
  refine ⟨clean_tolerate true (clean_reprNode h armed fuel i) s, fun k => ?_⟩
  simp only [tolerate, if_true, run_bind, run_done]
  cases ((reprNode h armed fuel i).run s).2 <;> simp [swallow]

/-- **C11_repr_again_complete**: after any history of renderings in this thread — some of which may
    have raised — the next rendering is the complete one: what a thread that never rendered
    anything returns, i.e. the rendering below the empty path. -/
theorem C11_repr_again_complete (h : Heap) (fuel : Nat) (warm : Bool) (hist : List (Bool × Nat))
    (armed : Bool) (id : Nat) :
    ((reprNode h armed fuel id).run (runHistory h fuel hist (entry warm))).2 =
      specVal displayName h armed fuel [] id ∧
    ((reprNode h armed fuel id).run (runHistory h fuel hist (entry warm))).2 =
      ((reprNode h armed fuel id).run (entry false)).2 := by
  have hs := sim_restored (sim_entry h warm) (restored_runHistory h fuel hist (entry warm))
  rw [refines_reprNode h armed fuel [] id _ hs, refines_reprNode h armed fuel [] id _ (sim_entry h false)]
  exact ⟨rfl, rfl⟩

/-! ### str -/

/-- **C11_str_same**: with `str=True`, `__str__` is the very same computation as `__repr__` (so it
    agrees with it in every state and under every interleaving) -/
theorem C11_str_same (h : Heap) (armed : Bool) (fuel id ci : Nat) (vals : List (String × Nat)) (c : Cls)
    (hn : h.nodes[id]? = some (.inst ci vals)) (hc : h.classes[ci]? = some c) (hstr : c.str = true) :
    strNode h armed fuel id = reprNode h armed fuel id := by
  simp [strNode, hn, hc, hstr]

/-! ### threads -/

/-- **C11_thread_independent**: any number of threads running any computations, each on its own
    bookkeeping state; after *any* schedule of atomic steps, a thread that has finished holds exactly
    the result and the state of running alone from its initial state. -/
theorem C11_thread_independent (y : Sys) (sched : List Nat) (t : Nat) (r : Out)
    (hd : (y.exec sched).pr t = .done r) :
    r = (y.finish t).2 ∧ (y.exec sched).st t = (y.finish t).1 := by
  have := Sys.finish_exec y sched t
  unfold Sys.finish at this
  rw [hd] at this
  simp only [run_done] at this
  show r = ((y.pr t).run (y.st t)).2 ∧ (y.exec sched).st t = ((y.pr t).run (y.st t)).1
  rw [← this]
  exact ⟨rfl, rfl⟩

/-- and a thread that has not finished yet will still end with its solo result -/
theorem C11_thread_independent_pending (y : Sys) (sched : List Nat) (t : Nat) :
    (y.exec sched).finish t = y.finish t := Sys.finish_exec y sched t

/-- for `repr`: N threads (fresh or warm) rendering the same root under any schedule each get the
    complete rendering and leave no residue -/
theorem C11_threads_complete (c : Case) (sched : List Nat) (t : Nat) :
    (((threadSys c).exec sched).finish t).2 = specVal displayName c.heap false c.heap.fuel [] c.root ∧
    (((threadSys c).exec sched).finish t).1.alreadyL = [] := by
  rw [Sys.finish_exec]
  unfold Sys.finish threadSys
  dsimp only
  refine ⟨refines_reprNode c.heap false _ [] c.root _ (sim_entry c.heap c.warm), ?_⟩
  rw [(C11_no_residue c.heap false _ c.root _).alreadyL]
  cases c.warm <;> rfl

/-- every thread does finish: its computation is a finite tree, so a schedule that gives it enough
    turns brings it to `done` -/
theorem C11_thread_finishes (y : Sys) (t : Nat) :
    ∃ r, (y.exec (List.replicate (stepsLeft (y.pr t) (y.st t)) t)).pr t = .done r := by
  generalize hn : stepsLeft (y.pr t) (y.st t) = n
  induction n generalizing y with
  | zero =>
    cases hp : y.pr t with
    | done a => exact ⟨a, by simp [Sys.exec, hp]⟩
    | step u k => rw [hp] at hn; simp [stepsLeft] at hn
  | succ n ih =>
    cases hp : y.pr t with
    | done a => rw [hp] at hn; simp [stepsLeft] at hn
    | step u k =>
      rw [hp] at hn
      simp only [stepsLeft, Nat.add_right_cancel_iff] at hn
      have hstep : (y.step t).pr t = k (y.st t) ∧ (y.step t).st t = u (y.st t) := by
        simp [Sys.step, hp]
      obtain ⟨r, hr⟩ := ih (y.step t) (by rw [hstep.1, hstep.2]; exact hn)
      exact ⟨r, by simpa [Sys.exec, List.replicate_succ] using hr⟩

/-! #### the shared variant breaks -/

/-- **C11_shared_state_breaks**: two threads render the same `x = C(a=1)` with ONE shared set.
    Alone each returns `C(a=1)`.  Schedule `[0,0,1]` (thread 0 looks up the set and adds `id(x)`,
    then thread 1 looks): thread 1 returns `...` — an incomplete rendering of an acyclic object. -/
theorem C11_shared_state_breaks :
    ((reprNode wHeap false wHeap.fuel 0).run (entry true)).2 = .ok "C(a=1)" ∧
    ((wShared.exec [0, 0, 0, 1, 1]).pr 1).result? = some (.ok "...") := by
  constructor <;> decide

/-- a second schedule: both threads pass the membership test before either adds; the second
    `remove` then fails — thread 1's `repr` raises KeyError -/
theorem C11_shared_state_breaks_keyerror :
    ((wShared.exec [0, 0, 1, 1, 0, 1, 0, 1]).pr 0).result? = some (.ok "C(a=1)") ∧
    ((wShared.exec [0, 0, 1, 1, 0, 1, 0, 1]).pr 1).result? = some (.exc "keyError") := by
  constructor <;> decide

/-- **C11_shared_sequential_ok**: the shared variant is indistinguishable from the real one as long
    as renderings do not overlap: any number of distinct threads rendering the same root *one after
    the other* all get the complete rendering.  (This is why no single-threaded test — and no
    multi-threaded test without a forced overlap — can tell shared from per-thread state.) -/
theorem C11_shared_sequential_ok (h : Heap) (armed warm : Bool) (fuel root : Nat) (ts : List Nat)
    (hnd : ts.Nodup) (t : Nat) (ht : t ∈ ts) :
    ((sharedRepr h armed warm fuel root).runSeq ts).pr t =
      .done (specVal displayName h armed fuel [] root) := by
  refine (ShSys.runSeq_complete h armed fuel root ts (sharedRepr h armed warm fuel root) hnd
    (fun _ => ?_) (fun _ _ => rfl)).1 t ht
  exact sim_entry h warm

/-- the same two schedules with per-thread state: both threads complete (instance of
    `C11_thread_independent`, here by evaluation) -/
theorem C11_per_thread_same_schedules :
    let y : Sys := { st := fun _ => entry true, pr := fun _ => reprNode wHeap false wHeap.fuel 0 }
    ((y.exec [0, 0, 0, 1, 1, 1, 1, 0]).pr 1).result? = some (.ok "C(a=1)") ∧
    ((y.exec [0, 0, 1, 1, 0, 1, 0, 1]).pr 1).result? = some (.ok "C(a=1)") := by
  constructor <;> decide

/-! ### the model satisfies the specification -/

/-- the only part of well-formedness the proof needs: class and scope names are identifier-like -/
theorem C11_model_meets_spec_names (c : Case) (hcls : ∀ cl ∈ c.heap.classes, cl.wf = true) :
    spec c (model c) = true := by
  have hE := expected_eq' c hcls
  have hacc : ∀ armed, accept (expected c armed) (expected c armed) = true :=
    fun armed => accept_self _ (expected_ne_oof c armed)
  -- the three sequential calls
  have hs0 := sim_entry c.heap c.warm
  have hr1 := C11_no_residue c.heap true c.heap.fuel c.root (entry c.warm)
  have hs1 := sim_restored hs0 hr1
  have hr2 := C11_no_residue c.heap false c.heap.fuel c.root
    ((reprNode c.heap true c.heap.fuel c.root).run (entry c.warm)).1
  have hs2 := sim_restored hs1 hr2
  have hr3 := C11_no_residue_str c.heap false c.heap.fuel c.root
    ((reprNode c.heap false c.heap.fuel c.root).run
      ((reprNode c.heap true c.heap.fuel c.root).run (entry c.warm)).1).1
  have hL0 : (entry c.warm).alreadyL = [] := by cases c.warm <;> rfl
  have e1 := refines_reprNode c.heap true c.heap.fuel [] c.root _ hs0
  have e2 := refines_reprNode c.heap false c.heap.fuel [] c.root _ hs1
  rw [hE] at e1 e2
  have hres1 := hr1.alreadyL.trans hL0
  have hres2 := hr2.alreadyL.trans hres1
  have hres3 := hr3.alreadyL.trans hres2
  -- str
  have hstr : strOk c (model c).str = true := by
    unfold strOk isInstRoot
    cases hn : c.heap.nodes[c.root]? with
    | none => rfl
    | some node =>
      cases node with
      | inst ci vals =>
        dsimp only
        cases hc : c.heap.classes[ci]? with
        | none => rfl
        | some cl =>
          dsimp only
          cases hst : cl.str with
          | false => rfl
          | true =>
            simp only [model, C11_str_same c.heap false c.heap.fuel c.root ci vals cl hn hc hst]
            have e3 := refines_reprNode c.heap false c.heap.fuel [] c.root _ hs2
            rw [hE] at e3
            rw [e3, hacc]; rfl
      | _ => rfl
  -- threads
  have hthr : (model c).threads.all
      (fun t => accept (expected c false) t.out && t.residue == []) = true := by
    simp only [model, List.all_map, List.all_eq_true]
    intro t _
    obtain ⟨h1, h2⟩ := C11_threads_complete c (c.sched.map (· % c.threads)) t
    rw [hE] at h1
    simp only [Function.comp, h1, h2, hacc]
    rfl
  have hlen : ((model c).threads.length == c.threads) = true := by simp [model]
  unfold spec
  rw [hstr, hthr, hlen]
  simp only [model, e1, e2, hacc, hres1, hres2, hres3]
  rfl

/-- **C11_model_meets_spec**: on every well-formed case the stateful, thread-interleaved model of
    the generated code yields what the stateless ancestor-path specification demands: first
    rendering (faults armed), no residue, complete second rendering, `str`, and every thread of
    the concurrent scenario under the case's schedule. -/
theorem C11_model_meets_spec (c : Case) (hwf : wf c = true) (_ : known c = []) :
    spec c (model c) = true := C11_model_meets_spec_names c (classes_wf_of_wf c hwf)

/-! ### T3: the generated source text -/

open Attrs.C11.IR in
/-- **C11_script_correct**: for every field list with distinct names, every `repr_ns` and every
    operand (instance, runtime class, attribute values, armed faults, renderer of the other nodes),
    executing the script the model generator emits is — as a resumption, atomic step by atomic step —
    the model's bookkeeping (`attrsRepr`) around the model's f-string over the generated fragments. -/
theorem C11_script_correct (attrs : List Field) (ns : Option String) (env : IR.Env)
    (hnd : (attrs.map (·.name)).Nodup) :
    execScript (genScript attrs ns) env =
      attrsRepr env.self
        (render (evalName env.cls (genName ns) ++ "(") ")"
          ((genFrags attrs).map fun fr => (fr.name ++ "=", evalFrag env.sub env.armed env.vals fr))) :=
  execScript_gen attrs ns env hnd

open Attrs.C11.IR in
/-- hence a heap whose instances run the generated script is rendered exactly as the model renders
    it, and a whole case observes exactly what the model observes — every theorem above is about
    the script -/
theorem C11_script_heap_correct (c : Case)
    (hcls : ∀ cl ∈ c.heap.classes, sc = genScript cl.fields cl.reprNs ∧ (cl.fields.map (·.name)).Nodup) :
    modelS sc c = model c := by
  have hR : reprNodeS sc c.heap = reprNode c.heap := by
    funext armed fuel id
    exact reprNodeS_gen sc c.heap armed hcls fuel id
  unfold modelS
  rw [hR]
  rfl

/-- every free name the generated code may use is one `_make_repr_script` pins in `globs` (the list
    is regenerated from the source, T1): none can be shadowed by a global of the class's module -/
theorem C11_free_names_pinned (attrs : List Field) :
    (IR.genFree attrs).all (fun nb => Generated.c17ReprFixed.contains nb.1 && IR.bindingOk nb) = true := by
  unfold IR.genFree
  split <;> decide

/-- **C11_script_model_meets_spec**: the model generator's script passes the script check for every
    well-formed class: on each member of the canonical operand family it does what `C11.spec` demands -/
theorem C11_script_model_meets_spec (c : Script.Case) (hwf : Script.wf c = true) :
    Script.spec c (Script.model c) = true := by
  simp only [Script.wf, Bool.and_eq_true, decide_eq_true_eq] at hwf
  obtain ⟨hcw, hnd⟩ := hwf
  have hone : ∀ case ∈ Script.operands c.cls, case.heap.classes = [c.cls] := by
    intro case hc
    simp only [Script.operands, List.mem_append, List.mem_flatMap, List.mem_cons,
      List.not_mem_nil, or_false] at hc
    rcases hc with ⟨_, _, rfl | rfl⟩ | rfl <;> rfl
  simp only [Script.spec, Script.model, Bool.or_eq_true, List.all_eq_true]
  refine Or.inr fun case hc => ?_
  have hcl := hone case hc
  rw [C11_script_heap_correct case (sc := IR.genScript c.cls.fields c.cls.reprNs)
    (fun cl hm => by rw [hcl] at hm; simp only [List.mem_singleton] at hm; subst hm; exact ⟨rfl, hnd⟩)]
  exact C11_model_meets_spec_names case
    (fun cl hm => by rw [hcl] at hm; simp only [List.mem_singleton] at hm; subst hm; exact hcw)

/-- non-vacuity: the generated script of a concrete class (inherited field, `init=False` field with a
    tolerant callable, `repr=False` field), executed on a self-referential instance from a fresh thread -/
example :
    (IR.execScript (IR.genScript exA.fields exA.reprNs)
        { self := 0, cls := exA, vals := [("p", 0), ("h", 0)], armed := false,
          sub := fun i => if i = 0 then IR.execScript (IR.genScript exA.fields exA.reprNs)
                  { self := 0, cls := exA, vals := [], armed := false, sub := fun _ => .done .oof }
                else .done .oof }).run (entry false)
      = ({ already := some [], guard := [] }, .ok "Outer.A(p=..., q=Rq<NOTHING>)") ∧
    (IR.genScript exA.fields exA.reprNs).hasUnknown = false ∧
    Script.wf ⟨exA⟩ = true ∧ Script.spec ⟨exA⟩ (Script.model ⟨exA⟩) = true := by
  refine ⟨by decide, by decide, by decide, C11_script_model_meets_spec ⟨exA⟩ (by decide)⟩

/-! ### non-vacuity: concrete runs of the model -/

/-- a fault raised while a cycle through a list and another instance is being rendered, then the
    complete rendering; nothing is left behind -/
example :
    wf exCase = true ∧ (model exCase).first = .exc "user:Rq" ∧ (model exCase).res1 = [] ∧
    (model exCase).again = .ok "OVR<Outer.A(p=[OVR<...>, ns.B(x=OVR<...>)], q=Rq<ns.B(x=OVR<...>)>)>" ∧
    (model exCase).str = (model exCase).again ∧
    (model exCase).threads = [⟨(model exCase).again, []⟩, ⟨(model exCase).again, []⟩] := by
  decide

/-- a fault below swallowed by a tolerant callable, then a back-reference through a list: still `...` -/
example :
    wf exSwallow = true ∧ (model exSwallow).first = .ok "Node(a=Ra<!>, b=[...])" ∧
    (model exSwallow).again = .ok "Node(a=Ra<Child(p=Rp<7>)>, b=[...])" ∧ (model exSwallow).res1 = [] := by
  decide

/-- unset fields: `NOTHING` for `init=False`, AttributeError for `init=True` — and no residue -/
example :
    (model (exUCase [.inst 0 [("p", 0)]])).first = .exc "attributeError" ∧
    (model (exUCase [.inst 0 [("p", 0)]])).res1 = [] ∧
    (model (exUCase [.inst 0 [("q", 0)]])).first = .ok "A(p=NOTHING, q=...)" := by
  decide

end Attrs.C11
