/-
  C20 — property theorems: the global validator switch.  Histories, nesting depths, classes (field lists,
  validator chains, hook pipes) and the faulty callback are arbitrary throughout.  Helper lemmas are in
  Proofs/C20.lean; construction goes through the shared initializer model and its C02 theorems.
-/
import AttrsModel.Proofs.C20
import AttrsModel.Proofs.SrcSetters

namespace Attrs.C20
open Attrs.Init

/-! ## Histories -/

/-- later operations cannot change what was observed earlier -/
theorem C20_prefix_closed (c : Case) (xs ys : List Op) :
    (model { c with ops := xs ++ ys }).steps.take xs.length = (model { c with ops := xs }).steps := by
  simp only [model, St.init, runOpsWith_ops, runOpsWith_append]
  rw [List.take_append_of_le_length (by rw [runOpsWith_length]; exact Nat.le_refl _)]
  rw [List.take_of_length_le (by rw [runOpsWith_length]; exact Nat.le_refl _)]

/-- what is observed after the last operation of a history is the model's cell -/
theorem C20_observed_state (c : Case) (pre : List Op) (op : Op) (h : c.ops = pre ++ [op]) :
    ((model c).steps.getLast?).map (·.run) = some (B3.ofBool (runSt (St.init c) c.ops).run) := by
  simp only [model, h, runOpsWith_append, runOpsWith, List.getLast?_append, List.getLast?_singleton,
    Option.some_or, Option.map_some, (stepObs_views _ _ _ _).1]
  simp [runSt, List.foldl_append]

/-! ## C20_views: one cell behind both accessor pairs -/

/-- **C20_views**: after every operation of every history `get_disabled()` and `get_run_validators()` are
    real bools and each is the negation of the other. -/
theorem C20_views (c : Case) :
    ∀ s ∈ (model c).steps, ∃ b : Bool, s.run = B3.ofBool b ∧ s.disabled = B3.ofBool (!b) :=
  views_steps stepSt c (St.init c) c.ops

/-- **C20_views_cross**: a write through either setter is read back through the *other* getter, in any
    state: `set_disabled(b); get_run_validators()` gives `not b`, `set_run_validators(b); get_disabled()` too. -/
theorem C20_views_cross (c : Case) (st : St) (a : Arg) (b : Bool) (ha : a.asBool = some b) :
    (stepObs c (stepSt st (.setDisabled a)) (stepSt st (.setDisabled a)) .getRun).ret = some (B3.ofBool (!b)) ∧
    (stepObs c (stepSt st (.setRun a)) (stepSt st (.setRun a)) .getDisabled).ret = some (B3.ofBool (!b)) := by
  cases a <;> simp [Arg.asBool] at ha <;> subst ha <;> simp [stepObs, stepSt, mkStep, Arg.truthy, Arg.asBool]

/-! ## C20_restore -/

/-- **C20_restore**: for every history, every nesting depth and every position in it: when a `disabled()`
    block is left — normally or by an exception — the switch (and everything saved by enclosing blocks) is
    exactly what it was when the *matching* enter happened, whatever the block did in between (set the
    switch either way, nested further blocks, constructed, assigned, validated). -/
theorem C20_restore (st : St) (pre body : List Op) (x : Op) (hx : x.isExit = true)
    (hb : bal 0 body = some 0) :
    runSt st (pre ++ .enter :: body ++ [x]) = runSt st pre := by
  have h1 : pre ++ .enter :: body ++ [x] = pre ++ ([.enter] ++ (body ++ [x])) := by simp
  rw [h1, runSt_append, runSt_append, runSt_append]
  generalize runSt st pre = s
  have hent : runSt s [.enter] = { run := false, stack := s.run :: s.stack } := rfl
  rw [hent]
  obtain ⟨p', hp', hl⟩ := stack_frame body 0 0 { run := false, stack := s.run :: s.stack } [] (s.run :: s.stack)
    hb rfl rfl
  have hp0 : p' = [] := List.eq_nil_of_length_eq_zero hl
  subst hp0
  generalize runSt { run := false, stack := s.run :: s.stack } body = t at hp'
  simp only [List.nil_append] at hp'
  cases x <;> simp [Op.isExit] at hx <;> simp [runSt, stepSt, hp']

/-- **C20_restore_observed**: the same on the observations: `get_run_validators()` right after the exit
    shows the position the switch had just before the matching enter (by `C20_observed_state` that is what
    was observed after the last operation before the enter, or the start position). -/
theorem C20_restore_observed (c : Case) (pre body : List Op) (x : Op) (hx : x.isExit = true)
    (hb : bal 0 body = some 0) (hops : c.ops = pre ++ .enter :: body ++ [x]) :
    ((model c).steps.getLast?).map (·.run) = some (B3.ofBool (runSt (St.init c) pre).run) := by
  have h : c.ops = (pre ++ .enter :: body) ++ [x] := by simp [hops]
  rw [C20_observed_state c _ x h, hops, C20_restore _ pre body x hx hb]

/-- **C20_disabled_inside**: after an enter, and through any further history that never exits more than it
    entered and does not call a setter, validators are disabled. -/
theorem C20_disabled_inside (st : St) (body : List Op) (d' : Nat) (hb : bal 0 body = some d')
    (hno : ∀ op ∈ body, (∀ a, op ≠ .setDisabled a) ∧ (∀ a, op ≠ .setRun a)) :
    (runSt st (.enter :: body)).run = false := by
  have hrun : runSt st (.enter :: body) = runSt { run := false, stack := st.run :: st.stack } body := rfl
  rw [hrun]
  exact disabled_frame body 0 d' _ [] _ hb rfl rfl rfl (by simp) hno

/-! ## C20_nonbool_rejected_state_unchanged -/

/-- exactly `True` and `False` pass the `isinstance(run, bool)` test (not 0, 1, 1.0, None, strings) -/
theorem C20_bool_table (a : Arg) : a.asBool.isSome = true ↔ a = .T ∨ a = .F := by
  cases a <;> simp [Arg.asBool]

/-- **C20_nonbool_rejected_state_unchanged**: `set_run_validators(v)` for a non-bool `v` raises TypeError,
    runs nothing and leaves the switch and every saved entry state as they were; a bool is stored. -/
theorem C20_nonbool_rejected_state_unchanged (c : Case) (st : St) (a : Arg) :
    (a.asBool = none →
      stepSt st (.setRun a) = st ∧
      (stepObs c st (stepSt st (.setRun a)) (.setRun a)).exc = some .typeError ∧
      (stepObs c st (stepSt st (.setRun a)) (.setRun a)).run = B3.ofBool st.run ∧
      (stepObs c st (stepSt st (.setRun a)) (.setRun a)).events = []) ∧
    (∀ b, a.asBool = some b →
      (stepSt st (.setRun a)).run = b ∧ (stepSt st (.setRun a)).stack = st.stack ∧
      (stepObs c st (stepSt st (.setRun a)) (.setRun a)).exc = none) := by
  constructor
  · intro h; simp [stepSt, stepObs, mkStep, h]
  · intro b h; simp [stepSt, stepObs, mkStep, h]

/-! ## C20_honoured -/

theorem iterB_id (n : Nat) (g : Bool → Bool) (b : Bool) (h : ∀ x, g x = x) : iterB n g b = b := by
  induction n generalizing b with
  | zero => rfl
  | succ n ih => simp only [iterB, h, ih]

/-- when callback bodies give the switch back as they found it (or there is no probing callback), the
    validators step finds the switch as the call found it -/
theorem guardRun_neutral (c : Case) (cls : Cls) (run : Bool) (h : ∀ b, bodyStep c b = b) :
    guardRun c cls run = run := by
  unfold guardRun; exact iterB_id _ _ _ h

/-- **C20_construct_reads_switch_at_validators_step** (the fixed reading of "iff enabled"): a construction
    runs pre-init hook, factories and converters, and then every validator of every field iff the switch is on
    *at that moment*: the position the call found, moved by every switch operation the earlier callbacks of
    the same construction performed (the probing callback's body, once per call of it among those callbacks,
    up to a failing one).  A stale reading taken at the top of the call is excluded. -/
theorem C20_construct_reads_switch_at_validators_step (c : Case) (hwf : wf c = true) (st st' : St) (k : Nat)
    (cls : Cls) (hk : c.classes[k]? = some cls) :
    (stepObs c st st' (.construct k)).events =
      cutIds c.fault (constructPlan cls
        (iterB (probeCount c (cutIds c.fault (beforePart cls))) (bodyStep c) st.run)) := by
  have hI : C02.wf (initCase cls true c.fault) = true := by
    unfold wf at hwf; simp only [Bool.and_eq_true, List.all_eq_true] at hwf
    exact hwf.2 cls (List.mem_of_getElem? hk)
  simp only [stepObs, hk, mkStep]
  rw [← guardRun_eq c cls st.run hI]
  exact (construct_spec cls _ c.fault hI).1

/-- **C20_honoured_construct**: a construction runs every converter whatever the switch says and every
    validator of every field (in field order, `and_` members in order) iff validators are enabled; the first
    callback that raises ends it and its exception propagates.  For arbitrary field lists, through the
    shared initializer model.  (Callback bodies that do not leave the switch flipped; the general case is
    `C20_construct_reads_switch_at_validators_step`.) -/
theorem C20_honoured_construct (c : Case) (hwf : wf c = true) (hn : ∀ b, bodyStep c b = b) (st st' : St)
    (k : Nat) (cls : Cls) (hk : c.classes[k]? = some cls) :
    (stepObs c st st' (.construct k)).events = cutIds c.fault (constructPlan cls st.run) ∧
    (stepObs c st st' (.construct k)).exc =
      (if hitsIds c.fault (constructPlan cls st.run) then some .user else none) := by
  have hI : C02.wf (initCase cls true c.fault) = true := by
    unfold wf at hwf; simp only [Bool.and_eq_true, List.all_eq_true] at hwf
    exact hwf.2 cls (List.mem_of_getElem? hk)
  simp only [stepObs, hk, mkStep, guardRun_neutral c cls st.run hn]
  exact construct_spec cls st.run c.fault hI

/-- **C20_honoured_assign**: an assignment runs the hooks the field is subject to (its own `on_setattr`,
    else the class's, else `define`'s convert+validate, none for `NO_OP` or plain `attr.s`): user hooks and
    the converter whatever the switch says, the field's validators at each `setters.validate` iff enabled. -/
theorem C20_honoured_assign (c : Case) (st st' : St) (k i : Nat) (v : AssignVal) (cls : Cls) (f : Field)
    (hk : c.classes[k]? = some cls) (hf : cls.fields[i]? = some f) :
    (stepObs c st st' (.assign k i v)).events = cutIds c.fault (assignPlan cls st.run f) ∧
    (stepObs c st st' (.assign k i v)).exc =
      (if hitsIds c.fault (assignPlan cls st.run f) then some .user else none) := by
  simp only [stepObs, hk, hf, mkStep, runAssign_eq, events_of_run, exc_of_run, and_self]

/-- **C20_honoured_validate**: `validate(inst)` runs every validator iff enabled, nothing otherwise. -/
theorem C20_honoured_validate (c : Case) (st st' : St) (k : Nat) (cls : Cls) (hk : c.classes[k]? = some cls) :
    (stepObs c st st' (.validate k)).events = cutIds c.fault (validatePlan cls st.run) ∧
    (stepObs c st st' (.validate k)).exc =
      (if hitsIds c.fault (validatePlan cls st.run) then some .user else none) := by
  simp only [stepObs, hk, mkStep, runValidate_eq, events_of_run, exc_of_run, and_self]

/-- **C20_assign_value_irrelevant**: which object is assigned — a new one, the very object the attribute
    already holds (`c.x = c.x`, also when that object was stored while validators were disabled and so never
    saw a validator), an equal copy, or the stored object after an in-place `+=` — makes no difference to
    the hooks that run: there is no "nothing changed" short cut around `setters.validate`. -/
theorem C20_assign_value_irrelevant (c : Case) (st st' : St) (k i : Nat) (v w : AssignVal) :
    stepObs c st st' (.assign k i v) = stepObs c st st' (.assign k i w) := rfl

/-- **C20_readers_memoryless**: what a construction, assignment or `validate()` runs depends on the class of
    the instance, the switch position and nothing else: not on which instances of which classes of the
    hierarchy were constructed, assigned to or validated before, nor on open blocks.  (In particular a
    subclass instance gets *its* fields' validators whether or not a base-class instance was validated
    first.) -/
theorem C20_readers_memoryless (c : Case) (st₁ st₁' st₂ st₂' : St) (op : Op)
    (hop : (∃ k, op = .construct k) ∨ (∃ k i v, op = .assign k i v) ∨ (∃ k, op = .validate k))
    (h : st₁.run = st₂.run) :
    (stepObs c st₁ st₁' op).events = (stepObs c st₂ st₂' op).events ∧
    (stepObs c st₁ st₁' op).exc = (stepObs c st₂ st₂' op).exc := by
  rcases hop with ⟨k, rfl⟩ | ⟨k, i, v, rfl⟩ | ⟨k, rfl⟩ <;> simp only [stepObs, h] <;>
    (repeat' split) <;> simp [mkStep]

/-- disabled ⇒ no validator among the callbacks of any of the three readers -/
theorem C20_disabled_no_validator (cls : Cls) (f : Field) :
    (constructPlan cls false).filter isValidator = [] ∧
    (assignPlan cls false f).filter isValidator = [] ∧
    validatePlan cls false = [] := by
  refine ⟨?_, ?_, rfl⟩
  · rw [constructPlan_struct]
    apply filter_all_false
    intro e he
    simp only [Bool.false_eq_true, if_false, List.append_nil, List.mem_append] at he
    rcases he with he | he
    · rcases beforePart_kind cls e he with h | h | h <;> simp [isValidator, h]
    · simp [isValidator, afterPart_kind cls e he]
  · unfold assignPlan
    generalize hooked cls f = l
    generalize 0 = pos
    induction l generalizing pos with
    | nil => rfl
    | cons p ps ih =>
      simp only [chainPlan, List.filter_append, ih, List.append_nil]
      cases p
      · simp [primPlan, isValidator, hookId]
      · cases hc : f.conv <;> simp [primPlan, hc, isValidator, convId]
      · simp [primPlan]

/-- **C20_switch_independence**: converters and user hooks are unaffected: for each reader the callbacks
    with the switch off are exactly the non-validator callbacks with the switch on, in the same order. -/
theorem C20_switch_independence (cls : Cls) (f : Field) :
    constructPlan cls false = (constructPlan cls true).filter (fun e => !isValidator e) ∧
    assignPlan cls false f = (assignPlan cls true f).filter (fun e => !isValidator e) := by
  refine ⟨?_, chainPlan_switch f _ 0⟩
  rw [constructPlan_struct, constructPlan_struct]
  simp only [Bool.false_eq_true, if_false, if_true, List.append_nil, List.filter_append]
  rw [filter_all_true _ (beforePart cls) (fun e he => by
        rcases beforePart_kind cls e he with h | h | h <;> simp [isValidator, h]),
      filter_all_true _ (afterPart cls) (fun e he => by simp [isValidator, afterPart_kind cls e he]),
      filter_all_false _ (validatorPlan (cls.fields.filter Field.participates)) (fun e he => by simp [isValidator, validatorPlan_kind _ e he])]
  simp

/-- **C20_hooks_unaffected**: whatever the switch says, the non-validator callbacks of a construction are the
    same list: `__attrs_pre_init__`, per field its factory and converter, and `__attrs_post_init__` after
    them — the switch gates the validators only (they sit between the converters and the post-init hook). -/
theorem C20_hooks_unaffected (cls : Cls) (run : Bool) :
    (constructPlan cls run).filter (fun e => !isValidator e) = beforePart cls ++ afterPart cls ∧
    (cls.post = true → (constructPlan cls run).getLast? = some { kind := "post", field := "", idx := 0 }) ∧
    (cls.pre ≠ .none → (constructPlan cls run).head? = some { kind := "pre", field := "", idx := 0 }) := by
  refine ⟨?_, ?_, ?_⟩
  · rw [constructPlan_struct]
    simp only [List.filter_append]
    rw [filter_all_true _ (beforePart cls) (fun e he => by
          rcases beforePart_kind cls e he with h | h | h <;> simp [isValidator, h]),
        filter_all_true _ (afterPart cls) (fun e he => by simp [isValidator, afterPart_kind cls e he])]
    cases run
    · simp
    · rw [if_pos rfl, filter_all_false _ (validatorPlan (cls.fields.filter Field.participates))
        (fun e he => by simp [isValidator, validatorPlan_kind _ e he])]
      simp
  · intro hp
    rw [constructPlan_struct]
    simp [afterPart, hp]
  · intro hp
    rw [constructPlan_struct]
    unfold beforePart C02.preEvents
    have : (initCase cls true none).eff.cfg.pre = cls.pre := rfl
    rw [this]
    cases h : cls.pre with
    | none => exact absurd h hp
    | noArgs => simp [C02.ev]
    | withArgs => simp [C02.ev]

/-- **C20_construct_callbacks**: for a class with distinct field names, everything a construction calls, in
    order: `__attrs_pre_init__` if the class has one; per field the initializer sets — `__init__` parameters and
    `init=False` fields that have a default alike — its factory and its converter; every validator of every
    such field iff validators are enabled (being an `__init__` parameter plays no role); `__attrs_post_init__`
    if the class has one.  Only the third group depends on the switch. -/
theorem C20_construct_callbacks (cls : Cls) (run : Bool) (hn : (cls.fields.map (·.name)).Nodup) :
    constructPlan cls run =
      (if cls.pre = .none then [] else [preId]) ++
      (cls.fields.filter Field.participates).flatMap fieldCallbacks ++
      (if run then validatorPlan (cls.fields.filter Field.participates) else []) ++
      (if cls.post then [{ kind := "post", field := "", idx := 0 }] else []) := by
  rw [constructPlan_struct, beforePart_explicit cls hn]; rfl

/-- enabled and nothing fails ⇒ *all* validators of *all* fields fire on construction and in `validate()` -/
theorem C20_enabled_all_fire (c : Case) (hwf : wf c = true) (st st' : St) (hr : st.run = true)
    (hf : c.fault = none) (hn : ∀ b, bodyStep c b = b) (k : Nat) (cls : Cls) (hk : c.classes[k]? = some cls) :
    (stepObs c st st' (.construct k)).events =
      beforePart cls ++ validatorPlan (cls.fields.filter Field.participates) ++ afterPart cls ∧
    (stepObs c st st' (.validate k)).events = validatorPlan cls.fields ∧
    (stepObs c st st' (.construct k)).exc = none ∧ (stepObs c st st' (.validate k)).exc = none := by
  have h1 := C20_honoured_construct c hwf hn st st' k cls hk
  have h2 := C20_honoured_validate c st st' k cls hk
  rw [hf] at h1 h2
  simp only [hitsIds_none, cutIds_of_not_hits _ _ (hitsIds_none _), Bool.false_eq_true, if_false, hr,
    constructPlan_struct, validatePlan, if_true] at h1 h2
  exact ⟨h1.1, h2.1, h1.2, h2.2⟩

/-- **C20_assign_validates_iff**: an assignment calls a validator iff validators are enabled, validation is
    hooked for that field and the field has a validator. -/
theorem C20_assign_validates_iff (cls : Cls) (run : Bool) (f : Field) :
    (∃ e ∈ assignPlan cls run f, isValidator e = true) ↔
      (run = true ∧ Prim.validate ∈ hooked cls f ∧ 0 < f.validators) :=
  mem_chainPlan_validator run f _ 0

/-- plain `attr.s` without any `on_setattr`: assignment never runs anything, whatever the switch says -/
theorem C20_unhooked_assign_silent (cls : Cls) (run : Bool) (f : Field)
    (h1 : cls.isDefine = false) (h2 : cls.clsOnSet = .unset) (h3 : f.onSet = .unset) :
    assignPlan cls run f = [] := by
  simp [assignPlan, hooked, h1, h2, h3, chainPlan]

/-- `define` without any `on_setattr`: assignment converts, then validates iff enabled -/
theorem C20_define_default_assign (cls : Cls) (run : Bool) (f : Field)
    (h1 : cls.isDefine = true) (h2 : cls.clsOnSet = .unset) (h3 : f.onSet = .unset) :
    assignPlan cls run f = (if f.conv then [convId f] else []) ++
      (if run then (List.range f.validators).map (valId f) else []) := by
  simp [assignPlan, hooked, h1, h2, h3, chainPlan, primPlan]

/-- **C20_block_silences_validators**: inside a `disabled()` block — at any depth, after inner blocks were
    left normally or by exception, as long as no setter was called — no reader calls a validator:
    construction and assignment still run converters and hooks, `validate()` runs nothing. -/
theorem C20_block_silences_validators (c : Case) (hwf : wf c = true) (st : St) (body : List Op) (d' : Nat)
    (hb : bal 0 body = some d')
    (hno : ∀ op ∈ body, (∀ a, op ≠ .setDisabled a) ∧ (∀ a, op ≠ .setRun a))
    (hn : ∀ b, bodyStep c b = b) :
    ∀ k cls, c.classes[k]? = some cls →
    ((stepObs c (runSt st (.enter :: body)) (runSt st (.enter :: body)) (.construct k)).events.filter isValidator = []) ∧
    ((stepObs c (runSt st (.enter :: body)) (runSt st (.enter :: body)) (.validate k)).events = []) ∧
    (∀ i f, cls.fields[i]? = some f →
      (stepObs c (runSt st (.enter :: body)) (runSt st (.enter :: body)) (.assign k i .same)).events.filter isValidator = []) := by
  have hr := C20_disabled_inside st body d' hb hno
  generalize runSt st (.enter :: body) = s at hr
  intro k cls hk
  refine ⟨?_, ?_, ?_⟩
  · rw [(C20_honoured_construct c hwf hn s s k cls hk).1, hr]
    exact filter_cutIds_nil _ _ _ (C20_disabled_no_validator cls default).1
  · rw [(C20_honoured_validate c s s k cls hk).1, hr]; rfl
  · intro i f hf
    rw [(C20_honoured_assign c s s k i .same cls f hk hf).1, hr]
    exact filter_cutIds_nil _ _ _ (C20_disabled_no_validator cls f).2.1

/-- **C20_default_hook_documented** (tables regenerated from the source, T1): `_DEFAULT_ON_SETATTR` is
    convert-then-validate, and `on_setattr` defaults to `None` in `attr.s`, `define`, `attr.ib`, `field`. -/
theorem C20_default_hook_documented :
    defaultChain = [.convert, .validate] ∧
    kwDefault Generated.attrsKw "on_setattr" = some .none ∧
    kwDefault Generated.defineKw "on_setattr" = some .none ∧
    kwDefault Generated.attribKw "on_setattr" = some .none ∧
    kwDefault Generated.fieldKw "on_setattr" = some .none := by
  decide

/-- the three readers and the getters never move the switch -/
theorem C20_readers_leave_switch (st : St) (op : Op)
    (h : (∃ k, op = .construct k) ∨ (∃ k, op = .validate k) ∨ op = .getDisabled ∨ op = .getRun ∨
      ∃ k i v, op = .assign k i v) :
    stepSt st op = st := by
  rcases h with ⟨k, h⟩ | ⟨k, h⟩ | h | h | ⟨k, i, v, h⟩ <;> subst h <;> rfl

/-! ## The specification's bracket matching is the usual one -/

/-- **C20_matcher_is_dyck**: the entry state the specification compares an exit with is the one recorded
    at the enter that is separated from the exit by a balanced segment (the matching enter). -/
theorem C20_matcher_is_dyck (body rest : List (Op × Bool)) (r : Bool)
    (hb : bal 0 (body.map (·.1)) = some 0) :
    entryState 0 (body.reverse ++ (.enter, r) :: rest) = some r := by
  obtain ⟨p, hp, hl⟩ := opens_frame body 0 0 ((.enter, r) :: rest) [] (opens 0 ((.enter, r) :: rest)) hb rfl rfl
  have : p = [] := List.eq_nil_of_length_eq_zero hl
  subst this
  rw [entryState_opens, hp]
  simp [opens, Op.isEnter]

/-! ## The model meets the specification -/

/-- **C20_model_meets_spec**: on every well-formed case (nothing is listed as known) the model satisfies the
    declarative specification: views, setter effects, TypeError without effect, enter disables, every exit
    restores the position observed before its matching enter, readers leave the switch alone and run
    exactly the callbacks the switch position calls for. -/
theorem C20_model_meets_spec (c : Case) (hwf : wf c = true) : spec c (model c) = true := by
  unfold wf at hwf
  simp only [Bool.and_eq_true, List.all_eq_true] at hwf
  obtain ⟨⟨⟨⟨hb, ha⟩, ⟨⟨hbb, hbo⟩, _⟩⟩, _⟩, hI⟩ := hwf
  have hbb' : (bal 0 c.body).isSome = true := by
    have : bal 0 c.body = some 0 := by simpa using hbb
    simp [this]
  unfold spec
  rw [Bool.and_eq_true]
  exact ⟨specGo_model c hI c.ops (St.init c) [] rfl hb ha,
         nestedOk_model c hI hbb' hbo c.ops (St.init c)⟩

/-! ## Inside callbacks -/

/-- **C20_callbacks_see_callers_switch**: whatever a callback does while it runs on behalf of a construction,
    an assignment or `validate()` — read the getters, construct / assign / validate other instances, open a
    `disabled()` block of its own, call a setter — it observes exactly what the same operations would observe
    as a history of their own started from the switch position the outer operation found, moved only by the
    earlier runs of such bodies during the same operation: the outer operation itself does not move the switch
    on the way to (or around) its callbacks. -/
theorem C20_callbacks_see_callers_switch (c : Case) (st : St) (op : Op) :
    ∀ inv ∈ nestedOf c st op, ∃ j,
      inv = (model { c with probe := none, start := iterB j (bodyStep c) st.run, ops := c.body }).steps := by
  intro inv hinv
  unfold nestedOf at hinv
  obtain ⟨j, _, rfl⟩ := List.mem_map.1 hinv
  refine ⟨j, ?_⟩
  simp only [model, St.init, runBody]
  apply runOpsWith_congr <;> rfl

/-- in particular, with bodies that give the switch back as they found it, a getter called first thing inside
    any callback returns the caller's switch position -/
theorem C20_getter_inside_callback (c : Case) (st : St) (op : Op) (rest : List Op)
    (hb : c.body = .getRun :: rest) (hn : ∀ b, bodyStep c b = b) :
    ∀ inv ∈ nestedOf c st op, (inv.head?).map (·.ret) = some (some (B3.ofBool st.run)) := by
  intro inv hinv
  obtain ⟨j, rfl⟩ := C20_callbacks_see_callers_switch c st op inv hinv
  simp [model, St.init, hb, runOpsWith, stepObs, mkStep, iterB_id _ _ _ hn]

theorem runSt_no_switch_ops (l : List Op) (st : St)
    (h : ∀ o ∈ l, (∀ a, o ≠ .setDisabled a) ∧ (∀ a, o ≠ .setRun a) ∧ o ≠ .enter ∧ o ≠ .exit ∧ o ≠ .exitExc) :
    runSt st l = st := by
  induction l generalizing st with
  | nil => rfl
  | cons o l ih =>
    have ho := h o List.mem_cons_self
    have h1 : stepSt st o = st := by cases o <;> first | rfl | (exfalso; simp at ho)
    have : runSt st (o :: l) = runSt (stepSt st o) l := rfl
    rw [this, h1]
    exact ih st (fun o' ho' => h o' (List.mem_cons_of_mem _ ho'))

/-- **C20_switch_moves_only_by_switch_ops**: an operation other than the two setters, `enter` and the two
    exits leaves the cell and every saved entry state exactly as they were — as seen after the operation
    (`stepSt`) and, by `C20_callbacks_see_callers_switch`, as seen from inside every callback it runs — and a
    callback body that itself contains none of those five operations leaves the cell where it was, so that
    nothing but switch operations (wherever they are called from) ever moves the switch. -/
theorem C20_switch_moves_only_by_switch_ops (c : Case) (st : St) (op : Op)
    (hop : (∀ a, op ≠ .setDisabled a) ∧ (∀ a, op ≠ .setRun a) ∧ op ≠ .enter ∧ op ≠ .exit ∧ op ≠ .exitExc) :
    stepSt st op = st ∧
    (stepObs c st (stepSt st op) op).run = B3.ofBool st.run ∧
    ((∀ o ∈ c.body, (∀ a, o ≠ .setDisabled a) ∧ (∀ a, o ≠ .setRun a) ∧ o ≠ .enter ∧ o ≠ .exit ∧ o ≠ .exitExc) →
      ∀ b, bodyStep c b = b) := by
  refine ⟨?_, ?_, ?_⟩
  · cases op <;> first | rfl | (exfalso; simp at hop)
  · have h : stepSt st op = st := by cases op <;> first | rfl | (exfalso; simp at hop)
    rw [(stepObs_views c st (stepSt st op) op).1, h]
  · intro hb b
    unfold bodyStep
    rw [runSt_no_switch_ops c.body _ hb]

/-! ## What `C20_restore` excludes: the context manager before ee5b683 -/

def witnessCase : Case :=
  { classes := [{ isDefine := false, clsOnSet := .unset, kwOnly := false, pre := .none, post := false, fields := [] }], fault := none, probe := none, body := [], start := true,
    ops := [.enter, .enter, .exit, .exit] }

/-- **C20_old_manager_violates** (regression witness for the repaired deviation F1; `stepStOld`/`modelOld` are
    *not* the model of the code): a manager that re-enables on exit breaks `C20_restore` on a nested history —
    leaving the inner block switches validators on inside the outer block — and the specification rejects
    the history it produces, while it accepts the model's. -/
theorem C20_old_manager_violates :
    (List.foldl stepStOld { run := true, stack := [] } ([.enter] ++ .enter :: [] ++ [.exit])).run
        ≠ (List.foldl stepStOld { run := true, stack := [] } [.enter]).run ∧
    bal 0 witnessCase.ops = some 0 ∧
    spec witnessCase (modelOld witnessCase) = false ∧
    spec witnessCase (model witnessCase) = true := by
  decide

/-- entered while already disabled: the old manager re-enables, the model does not -/
theorem C20_old_manager_violates_flat :
    spec { witnessCase with start := false, ops := [.enter, .exit] }
         (modelOld { witnessCase with start := false, ops := [.enter, .exit] }) = false ∧
    spec { witnessCase with start := false, ops := [.enter, .exit] }
         (model { witnessCase with start := false, ops := [.enter, .exit] }) = true := by
  decide

/-! ## Non-vacuity -/

example : wf witnessCase = true := by decide

example : bal 0 [.enter, .setDisabled .F, .enter, .construct 0, .exitExc, .validate 1] = some 1 := by decide

/-- a well-formed case: a base class, a subclass that adds a validated field and one that re-declares the
    base's field; a failing validator; a nested history that validates the base instance first: the hypotheses
    of `C20_honoured_*`, `C20_block_silences_validators`, `C20_model_meets_spec` are satisfiable -/
def sampleCase : Case :=
  { classes := [
      { isDefine := true, clsOnSet := .unset, kwOnly := false, pre := .noArgs, post := true,
        fields := [{ name := "x", validators := 2, conv := true, onSet := .unset, init := true, dflt := .none }] },
      { isDefine := true, clsOnSet := .unset, kwOnly := false, pre := .noArgs, post := true,
        fields := [{ name := "x", validators := 2, conv := true, onSet := .unset, init := true, dflt := .none },
                   { name := "y", validators := 1, conv := false, onSet := .chain [.custom, .validate], init := true, dflt := .none }] },
      { isDefine := true, clsOnSet := .unset, kwOnly := false, pre := .noArgs, post := true,
        fields := [{ name := "x", validators := 1, conv := false, onSet := .unset, init := true, dflt := .none }] }],
    fault := some { kind := "validator", field := "y", idx := 0 },
    probe := some { kind := "validator", field := "x", idx := 0 },
    body := [.getRun, .enter, .setDisabled .F, .construct 2, .exit, .validate 2],
    start := true,
    ops := [.validate 0, .validate 1, .validate 2, .enter, .enter, .setDisabled .F, .assign 1 1 .same, .exitExc,
            .construct 1, .exit, .validate 1] }

example : wf sampleCase = true := by decide

example : ((model sampleCase).steps.map (fun s => (s.run, s.events.length, s.exc))) =
    [(.t, 2, none), (.t, 3, some .user), (.t, 1, none), (.f, 0, none), (.f, 0, none), (.t, 0, none),
     (.t, 2, some .user), (.f, 0, none), (.f, 3, none), (.t, 0, none), (.t, 3, some .user)] := by decide

/-- the probing validator's body runs once per call; inside it the getter shows the caller's switch, a block of
    its own with a flip inside validates, and afterwards the switch is what it was -/
example : (model sampleCase).nested.map List.length = [1, 1, 1, 0, 0, 0, 0, 0, 0, 0, 1] := by decide

example : ((model sampleCase).nested.head?.bind List.head?).map (fun inv => inv.map (fun s => (s.run, s.ret, s.events.length)))
    = some [(.t, some .t, 0), (.f, none, 0), (.t, none, 0), (.t, none, 3), (.t, none, 0), (.t, none, 1)] := by decide

/-- a converter that disables validation: the validators of the same construction do not run (and the other
    way round for a factory that re-enables inside an outer `disabled()` block) — the switch is read at the
    validators step -/
def flipCase : Case :=
  { classes := [
      { isDefine := true, clsOnSet := .unset, kwOnly := true, pre := .none, post := false,
        fields := [{ name := "x", validators := 1, conv := true, onSet := .unset, init := true, dflt := .none },
                   { name := "d", validators := 1, conv := false, onSet := .unset, init := true,
                     dflt := .factory false }] }],
    fault := none, probe := some { kind := "conv", field := "x", idx := 0 }, body := [.setDisabled .T],
    start := true, ops := [.construct 0, .validate 0] }

example : wf flipCase = true := by decide

example : (model flipCase).steps.map (·.events) =
    [[⟨"conv", "x", 0⟩, ⟨"factory", "d", 0⟩], [⟨"validator", "x", 0⟩, ⟨"validator", "d", 0⟩]] := by decide

example : (model { flipCase with probe := some { kind := "factory", field := "d", idx := 0 },
                                 body := [.setRun .T], start := false }).steps.map (·.events) =
    [[⟨"conv", "x", 0⟩, ⟨"factory", "d", 0⟩, ⟨"validator", "x", 0⟩, ⟨"validator", "d", 0⟩], []] := by decide

/-- an `init=False` field with a default factory and a validator: constructed and validated iff enabled -/
def initFalseCls : Cls :=
  { isDefine := true, clsOnSet := .unset, kwOnly := false, pre := .none, post := true,
    fields := [{ name := "x", validators := 1, conv := false, onSet := .unset, init := true, dflt := .none },
               { name := "d", validators := 1, conv := true, onSet := .unset, init := false, dflt := .factory true }] }

example : constructPlan initFalseCls true
    = [⟨"factory", "d", 0⟩, ⟨"conv", "d", 0⟩, ⟨"validator", "x", 0⟩, ⟨"validator", "d", 0⟩, ⟨"post", "", 0⟩] := by
  decide

example : ∃ cls f, (∃ e ∈ assignPlan cls true f, isValidator e = true) :=
  ⟨{ isDefine := true, clsOnSet := .unset, kwOnly := false, pre := .none, post := false, fields := [] },
   { name := "x", validators := 1, conv := false, onSet := .unset, init := true, dflt := .none }, by decide⟩

/-! ### T1b: `setters.validate` as written in /repo's source on this run -/

/-- **C20_source_setters_validate_honours_switch**: `setters.validate`, translated from the current source
    (`Gen.setters_validate`, regenerated on every run), reads the global switch at the time of the assignment: it calls
    the field's validator — exactly once, with `(instance, attrib, new_value)` — iff the switch is on, never when it is
    off or the field has none, and in every case returns the new value unchanged. -/
theorem C20_source_setters_validate_honours_switch (env : Py.Env) (ext : Py.Ext) (inst attrib nv : Py.PV)
    (run : Bool) (k : Nat) (hrun : env "_config._run_validators" = Py.vBool run) :
    (ext "getattr" [attrib, Py.vStr "validator"] = Py.vFn k →
      Gen.setters_validate env ext inst attrib nv [] =
        .ok (nv, if run then [Py.Eff.mk "call" [Py.vFn k, inst, attrib, nv]] else [])) ∧
    (ext "getattr" [attrib, Py.vStr "validator"] = Py.vNone →
      Gen.setters_validate env ext inst attrib nv [] = .ok (nv, [])) :=
  Src.setters_validate_spec env ext inst attrib nv run k hrun

end Attrs.C20
