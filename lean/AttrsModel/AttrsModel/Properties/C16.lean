/-
  C16 — property theorems.  Histories are arbitrary lists of steps (definitions through any of the
  decorator objects, make_class calls, user operations); `currentLeak` is what the tables extracted from the
  source license a definition to write.
-/
import AttrsModel.Proofs.C16

namespace Attrs.C16

/-- **C16_source_has_no_rebinding**: in the current source no closure nested in `attrs(...)` or `define(...)`
    (`wrap`, `do_it`) declares a `nonlocal`/`global` name, and `make_class` binds no variable to the caller's
    `attrs` object itself (tables regenerated from the source on every run): the leak parameter of the model of
    the current code licenses no write. -/
theorem C16_source_has_no_rebinding :
    Generated.attrsWrapRebinds = [] ∧ Generated.defineWrapRebinds = [] ∧ Generated.makeClassDictAliased = false ∧
    currentLeak = noLeak := by decide

/-- **C16_arguments_unchanged**: after any history the world (closure cells of every decorator object, the
    caller's make_class dict, shared counting attrs, container sizes) is what the user's own operations alone
    make of it: every definition can be erased. -/
theorem C16_arguments_unchanged (c : Case) (w : World) (steps : List Step) :
    (run currentLeak c w steps).1 = (run currentLeak c w (userOps steps)).1 := by
  rw [currentLeak_eq_noLeak]; exact run_noLeak_erase c steps w

/-- **C16_definitions_leave_world**: a history of definitions only leaves the world exactly as it was. -/
theorem C16_definitions_leave_world (c : Case) (w : World) (steps : List Step)
    (h : ∀ s ∈ steps, s.isDef = true) : (run currentLeak c w steps).1 = w := by
  rw [C16_arguments_unchanged, userOps_of_all_defs steps h]; rfl

/-- **C16_history_independent**: the result of any step (in particular: of defining the target class) after a
    history equals its result after the user's operations of that history alone. -/
theorem C16_history_independent (c : Case) (w : World) (steps : List Step) (t : Step) :
    (step currentLeak c (run currentLeak c w steps).1 t).2 =
      (step currentLeak c (run currentLeak c w (userOps steps)).1 t).2 := by
  rw [C16_arguments_unchanged]

/-- **C16_history_irrelevant**: after a history of definitions (any length, any decorator objects, any classes,
    failed ones included) a class is defined exactly as if it were the first. -/
theorem C16_history_irrelevant (c : Case) (w : World) (steps : List Step) (t : Step)
    (h : ∀ s ∈ steps, s.isDef = true) :
    (step currentLeak c (run currentLeak c w steps).1 t).2 = (step currentLeak c w t).2 := by
  rw [C16_definitions_leave_world c w steps h]

/-- non-vacuity: a history of two definitions through one decorator object -/
example : ∀ s ∈ [Step.defDeco 0 default, Step.defDeco 0 default], s.isDef = true := by decide

/-- The world as the arguments and the user's own operations alone determine it: cells as created from the
    factory arguments, the make_class dict as passed, counting attrs and container sizes as the user's
    operations leave them (counted, not executed).  No definition is mentioned. -/
def declaredWorld (c : Case) (ops : List Step) : World :=
  { cells := c.decos.map initCells, mkHooks := c.mkHooks, cas := casExpected c.cas ops,
    valLen := c.valLen + countOp .valAppend ops, convLen := c.convLen + countOp .convAppend ops,
    hookLen := c.hookLen + countOp .hookAppend ops, metaSize := c.metaSize + countOp .metaSet ops }

/-- **C16_world_is_declared**: whatever was defined before, the world a definition meets is `declaredWorld`. -/
theorem C16_world_is_declared (c : Case) (steps : List Step) :
    (run currentLeak c (initWorld c) steps).1 = declaredWorld c steps := by
  rw [currentLeak_eq_noLeak]
  have h1 := run_noLeak_cells c steps (initWorld c)
  have h2 := run_noLeak_mkHooks c steps (initWorld c)
  have h3 := run_cas noLeak c steps (initWorld c)
  have h4 := run_sizes noLeak c steps (initWorld c)
  generalize (run noLeak c (initWorld c) steps).1 = w at h1 h2 h3 h4
  cases w
  simp only [sizes, sizesExpected, initWorld, List.cons.injEq, and_true] at h1 h2 h3 h4
  simp only [declaredWorld, h1, h2, h3, h4.1, h4.2.1, h4.2.2.1, h4.2.2.2]

/-- **C16_outcome_is_pure_function**: the outcome of a definition is an explicit function of the scenario's
    arguments, the class (body, bases) and the user's own operations — the history of definitions does not occur
    on the right-hand side. -/
theorem C16_outcome_is_pure_function (c : Case) (steps : List Step) (t : Step) :
    (step currentLeak c (run currentLeak c (initWorld c) steps).1 t).2 =
      (step currentLeak c (declaredWorld c steps) t).2 := by
  rw [C16_world_is_declared]

/-- **C16_results_pointwise**: along a history of definitions every single result — not only the last — is the
    result that definition has on the initial world: the order of definitions is irrelevant. -/
theorem C16_results_pointwise (c : Case) (w : World) (steps : List Step) (h : ∀ s ∈ steps, s.isDef = true) :
    (run currentLeak c w steps).2 = steps.map (fun s => (step currentLeak c w s).2) := by
  rw [currentLeak_eq_noLeak]; exact run_noLeak_results c steps w h

/-- **C16_decorators_independent**: applying decorator object `i` never touches the cells of another decorator
    object — for ANY leak parameter. -/
theorem C16_decorators_independent (lk : Leak) (c : Case) (w : World) (i k : Nat) (f : ClassFacts) (h : i ≠ k) :
    (step lk c w (.defDeco i f)).1.cells[k]? = w.cells[k]? := by
  simp only [step]
  split
  · simp [h]
  · rfl

/-- functions that run when a finished class is USED and may therefore consult the global configuration -/
def runtimeConfigReaders : List String := ["validate"]

/-- **C16_definitions_never_read_config**: in the current source no function that runs while a class is being
    DEFINED (`_ClassBuilder.*`, `_transform_attrs`, `attrs`/`wrap`, `define`/`wrap`/`do_it`, `make_class`, `attrib`, ...)
    reads an attribute of `_config` (T1: every reader is a known run-time function), which is what entitles the
    model to make the validator switch invisible to definition steps. -/
theorem C16_definitions_never_read_config :
    Generated.configReaders.all (fun n => runtimeConfigReaders.contains n) = true := by decide

/-- **C16_environment_erasable**: changes of the process environment (the global validator switch) and read-only
    uses of existing classes (`Step.use`: fields / asdict / evolve / validate / copy / ...) anywhere in a
    history can be erased together with the definitions: the target is defined exactly as with the switch in its
    default state, and the environment operations themselves leave the world of arguments alone. -/
theorem C16_environment_erasable (c : Case) (w : World) (steps : List Step) (t : Step)
    (h : ∀ s ∈ steps, s.isDef = true ∨ s.isEnv = true) :
    (run currentLeak c w steps).1 = w ∧ (step currentLeak c (run currentLeak c w steps).1 t).2 = (step currentLeak c w t).2 := by
  have hu : userOps steps = [] := by
    simp only [userOps, List.filter_eq_nil_iff]
    intro s hs
    rcases h s hs with h1 | h1 <;> simp [h1]
  have hw : (run currentLeak c w steps).1 = w := by rw [C16_arguments_unchanged, hu]; rfl
  exact ⟨hw, by rw [hw]⟩

/-- non-vacuity: switch off, define, switch on, define -/
example : ∀ s ∈ [Step.validatorsOff, Step.defDeco 0 default, Step.use 3, Step.validatorsOn, Step.defDeco 0 default],
    s.isDef = true ∨ s.isEnv = true := by decide

/-- **C16_make_class_pure**: `make_class` returns the caller's containers unchanged and its result depends on the
    world only through the contents of the dict it was given. -/
theorem C16_make_class_pure (c : Case) (w w' : World) (m : MkArgs) :
    (mkApply currentLeak c w m).1 = w ∧
    (w.mkHooks = w'.mkHooks → c.mkFields.map (fieldView w) = c.mkFields.map (fieldView w') →
      (mkApply currentLeak c w m).2 = (mkApply currentLeak c w' m).2) := by
  rw [currentLeak_eq_noLeak]
  refine ⟨mkApply_noLeak_world c w m, ?_⟩
  intro h1 h2
  simp [mkApply, mkView, h1, h2]

/-- **C16_outcome_function_of_inputs**: applying decorator object `i` to a class gives a result that depends on
    the world only through that decorator's own cells and the class as seen at that moment (body entries,
    `these` entries): nothing else that earlier definitions could have touched is read. -/
theorem C16_outcome_function_of_inputs (lk : Leak) (c : Case) (w w' : World) (i : Nat) (f : ClassFacts)
    (hc : w.cells[i]? = w'.cells[i]?) (hv : classView c w f = classView c w' f) :
    (step lk c w (.defDeco i f)).2 = (step lk c w' (.defDeco i f)).2 := by
  simp only [step, hc, hv]
  cases c.decos[i]? <;> cases w'.cells[i]? <;> rfl

/-- **C16_leak_frame**: for ANY leak parameter a definition step changes nothing but what the parameter licenses:
    counting attrs and container sizes never; the make_class dict only under `mkPop`; a cell's `hash` only
    under `hashCell`, its `on_setattr` only under `onSetattrCell`; the number of cells never. -/
theorem C16_leak_frame (lk : Leak) (c : Case) (w : World) (s : Step) (h : s.isDef = true) :
    (step lk c w s).1.cas = w.cas ∧ sizes (step lk c w s).1 = sizes w ∧
    (lk.mkPop = false → (step lk c w s).1.mkHooks = w.mkHooks) ∧
    (step lk c w s).1.cells.length = w.cells.length ∧
    (∀ (k : Nat) (cell cell' : Cells), w.cells[k]? = some cell → (step lk c w s).1.cells[k]? = some cell' →
      (lk.hashCell = false → cell'.hash = cell.hash) ∧ (lk.onSetattrCell = false → cell'.onSetattr = cell.onSetattr)) := by
  refine ⟨(step_def_cas_sizes lk c w s h).1, (step_def_cas_sizes lk c w s h).2, ?_, ?_, ?_⟩
  · intro hp
    cases s with
    | defDeco i f => simp only [step]; split <;> rfl
    | defMk m => simp [step, mkApply, hp]
    | _ => simp [Step.isDef] at h
  · cases s with
    | defDeco i f => simp only [step]; split <;> simp
    | defMk m => rfl
    | _ => simp [Step.isDef] at h
  · intro k cell cell' hk hk'
    cases s with
    | defDeco i f =>
      simp only [step] at hk'
      split at hk'
      · rename_i args cell0 _ hc0
        simp only [List.getElem?_set] at hk'
        by_cases hik : i = k
        · subst hik
          have hlt : i < w.cells.length := (List.getElem?_eq_some_iff.1 hc0).1
          simp only [if_true, hlt] at hk'
          have e1 : cell0 = cell := by simpa [hc0] using hk
          have e2 : (decoApply lk args cell0 (classView c w f)).1 = cell' := by simpa using hk'
          subst e1; subst e2
          exact decoApply_frame lk args cell0 _
        · simp only [hik, if_false] at hk'
          have : cell = cell' := by simpa [hk] using hk'
          subst this; exact ⟨fun _ => rfl, fun _ => rfl⟩
      · have : cell = cell' := by simpa [hk] using hk'
        subst this; exact ⟨fun _ => rfl, fun _ => rfl⟩
    | defMk m =>
      have : cell = cell' := by simpa [step, mkApply, hk] using hk'
      subst this; exact ⟨fun _ => rfl, fun _ => rfl⟩
    | _ => simp [Step.isDef] at h

/-! ### witness scenarios (the three defects of the original tree) -/

/-- F2 on the original tree: `d = attr.s(auto_detect=True)`; after a class with its own `__hash__`, a class
    without one keeps the inherited `__hash__` instead of being made unhashable. -/
def witnessF2 : Case :=
  { decos := [{ api := .attrS, these := false, repr := none, hash := none, init := none, eq := none, order := none,
                slots := none, frozen := none, autoAttribs := none, kwOnly := none, cacheHash := none, autoExc := none,
                autoDetect := some true, onSetattr := none }],
    these := [], mkFields := [], mkHooks := [], mkBody := noOwn, cas := [], valLen := 1, convLen := 1, hookLen := 1,
    metaSize := 0,
    steps := [.defDeco 0 { base := .object, fields := [], own := { noOwn with ownHash := .fn }, hasPre := false, hasPost := false }],
    target := .defDeco 0 { base := .object, fields := [], own := noOwn, hasPre := false, hasPost := false } }

def xConv : FieldFacts :=
  { name := "x", annotated := true, src := .inline, ca := 0, hasDefault := false, conv := true, nValid := 0, hook := .n,
    kwOnly := false, metaN := 0 }

def defineArgs : Args :=
  { api := .define, these := false, repr := none, hash := none, init := none, eq := none, order := none,
    slots := none, frozen := none, autoAttribs := none, kwOnly := none, cacheHash := none, autoExc := none,
    autoDetect := none, onSetattr := none }

/-- F3 (first direction): `d = define()`; after a subclass of a frozen class, a class with a converter no longer
    converts on assignment. -/
def witnessF3a : Case :=
  { decos := [defineArgs], these := [], mkFields := [], mkHooks := [], mkBody := noOwn, cas := [], valLen := 1,
    convLen := 1, hookLen := 1, metaSize := 0,
    steps := [.defDeco 0 { base := .frozenDefine, fields := [], own := noOwn, hasPre := false, hasPost := false }],
    target := .defDeco 0 { base := .object, fields := [xConv], own := noOwn, hasPre := false, hasPost := false } }

/-- F3 (second direction): after a mutable class, a subclass of a frozen class is refused. -/
def witnessF3b : Case :=
  { witnessF3a with
    steps := [.defDeco 0 { base := .object, fields := [xConv], own := noOwn, hasPre := false, hasPost := false }],
    target := .defDeco 0 { base := .frozenDefine, fields := [], own := noOwn, hasPre := false, hasPost := false } }

def mkPlain : MkArgs :=
  { useList := false, base := .object, withBody := false, args := { defineArgs with api := .attrS } }

/-- F4: the second `make_class` over the same dict has lost its `__attrs_post_init__`. -/
def witnessF4 : Case :=
  { decos := [], these := [], mkFields := [{ xConv with annotated := false }], mkHooks := ["__attrs_post_init__"],
    mkBody := noOwn, cas := [], valLen := 1, convLen := 1, hookLen := 1, metaSize := 0,
    steps := [.defMk mkPlain], target := .defMk mkPlain }

/-! ### the original behaviour (`allLeak`) — NOT the model of the code; documents what the theorems exclude -/

/-- **C16_leaky_hash_needs_trigger**: with the old `nonlocal hash`, an `attr.s(...)` object's cells change only
    when it is applied — with `hash` unset and `auto_detect=True` — to a class that has its own `__hash__`
    (or an own `__eq__`, which makes CPython add `__hash__ = None`). -/
theorem C16_leaky_hash_needs_trigger (args : Args) (cell : Cells) (v : ClassView) (ha : args.api = .attrS)
    (h : ¬ (cell.hash = .n ∧ (resolve args).autoDetect = true ∧ hasOwnHash v.own = true)) :
    (decoApply allLeak args cell v).1 = cell := decoApply_allLeak_hash args cell v ha h

/-- **C16_leaky_hash_changes_iff**: the trigger is exact — under the original behaviour an `attr.s(...)` object's
    state changes if and only if the hash-detection statement is reached (nothing raised before it) for a class
    with an own `__hash__`/`__eq__` while `hash` is unset and `auto_detect=True`; the cell then holds `False`. -/
theorem C16_leaky_hash_changes_iff (args : Args) (cell : Cells) (v : ClassView) (ha : args.api = .attrS) :
    (decoApply allLeak args cell v).1 ≠ cell ↔
      ((attrsCore (resolve args) ((resolve args).autoAttribs == .t) cell.onSetattr cell.hash v).1 = true ∧
        cell.hash = .n ∧ (resolve args).autoDetect = true ∧ hasOwnHash v.own = true ∧
        (decoApply allLeak args cell v).1.hash = .f) := by
  unfold decoApply
  simp only [ha, allLeak, Bool.true_and, detectHash]
  generalize (attrsCore (resolve args) ((resolve args).autoAttribs == .t) cell.onSetattr cell.hash v).1 = reached
  generalize (resolve args).autoDetect = ad
  generalize hasOwnHash v.own = oh
  cases cell with
  | mk h o => cases reached <;> cases h <;> cases ad <;> cases oh <;> simp

/-- **C16_leaky_onsetattr_needs_unset**: with the old `nonlocal on_setattr`, a `define(...)`/`frozen(...)`
    object's cells change only if it was created without `on_setattr` (or with `None`). -/
theorem C16_leaky_onsetattr_needs_unset (args : Args) (cell : Cells) (v : ClassView) (ha : args.api ≠ .attrS)
    (h : cell.onSetattr ≠ .n) : (decoApply allLeak args cell v).1 = cell :=
  decoApply_allLeak_onSetattr args cell v ha h

/-- **C16_leaky_quiet_histories**: even the original behaviour is history independent along every history in
    which no definition is a trigger at the moment it runs (an `attr.s(auto_detect=True)` object with `hash`
    unset meeting an own `__hash__`/`__eq__`; a `define()` object without `on_setattr`; a `make_class` over a dict
    that still holds hook entries) — which is why one-class-per-decorator tests never saw F2–F4. -/
theorem C16_leaky_quiet_histories (c : Case) (w : World) (steps : List Step) (t : Step)
    (h : quiet c w steps = true) :
    (run allLeak c w steps).1 = (run allLeak c w (userOps steps)).1 ∧
    (step allLeak c (run allLeak c w steps).1 t).2 = (step allLeak c (run allLeak c w (userOps steps)).1 t).2 := by
  have := run_allLeak_quiet c steps w h
  exact ⟨this, by rw [this]⟩

/-- non-vacuity: a history is quiet although the decorator object could leak (`hash=True` was passed) … -/
example : quiet { witnessF2 with decos := [{ witnessF2.decos.head! with hash := some .t }] }
    (initWorld { witnessF2 with decos := [{ witnessF2.decos.head! with hash := some .t }] })
    witnessF2.steps = true := by decide
/-- … and the witness history of F2 is not. -/
example : quiet witnessF2 (initWorld witnessF2) witnessF2.steps = false := by decide

/-- **C16_original_violates_F2 / F3 / F4**: under the original behaviour history independence fails on these
    well-formed scenarios (and the arguments are not left alone). -/
theorem C16_original_violates_F2 :
    wf witnessF2 = true ∧ (modelWith allLeak witnessF2).after ≠ (modelWith allLeak witnessF2).alone ∧
    (modelWith allLeak witnessF2).cellsAfter ≠ witnessF2.decos.map initCells := by decide

theorem C16_original_violates_F3 :
    wf witnessF3a = true ∧ (modelWith allLeak witnessF3a).after ≠ (modelWith allLeak witnessF3a).alone ∧
    wf witnessF3b = true ∧ (modelWith allLeak witnessF3b).after = .err .valueError ∧
    (modelWith allLeak witnessF3b).alone ≠ .err .valueError := by decide

theorem C16_original_violates_F4 :
    wf witnessF4 = true ∧ (modelWith allLeak witnessF4).after ≠ (modelWith allLeak witnessF4).alone ∧
    (modelWith allLeak witnessF4).mkHooksAfter = [] := by decide

/-- **C16_spec_rejects_leaks**: the specification is discriminating — it rejects what the original behaviour
    produces on each witness, while the model of the current code passes on the same scenarios. -/
theorem C16_spec_rejects_leaks :
    spec witnessF2 (modelWith allLeak witnessF2) = false ∧ spec witnessF3a (modelWith allLeak witnessF3a) = false ∧
    spec witnessF3b (modelWith allLeak witnessF3b) = false ∧ spec witnessF4 (modelWith allLeak witnessF4) = false ∧
    spec witnessF2 (model witnessF2) = true ∧ spec witnessF3a (model witnessF3a) = true ∧
    spec witnessF3b (model witnessF3b) = true ∧ spec witnessF4 (model witnessF4) = true := by decide

/-- **C16_model_meets_spec**: on every scenario whose target is a definition the model of the current code
    satisfies the declarative specification (no known deviations). -/
theorem C16_model_meets_spec (c : Case) (hwf : wf c = true) : spec c (model c) = true := by
  have ht : c.target.isDef = true := by
    simp only [wf, Bool.and_eq_true] at hwf; exact hwf.2
  have hd := step_noLeak_def c
  have hcas := run_cas noLeak c c.steps (initWorld c)
  have hsz := run_sizes noLeak c c.steps (initWorld c)
  have hcells := run_noLeak_cells c c.steps (initWorld c)
  have hmk := run_noLeak_mkHooks c c.steps (initWorld c)
  have herase := run_noLeak_erase c c.steps (initWorld c)
  simp only [spec, model, modelWith, currentLeak_eq_noLeak, hd _ _ ht, herase, beq_self_eq_true, Bool.and_true,
    Bool.true_and, Bool.and_eq_true, beq_iff_eq]
  rw [← herase]
  refine ⟨⟨⟨⟨⟨⟨envRun_expected c.steps, hcells⟩, hmk⟩, ?_⟩, ?_⟩, ?_⟩, ?_⟩
  · rw [hcells]; rfl
  · rw [hmk]; rfl
  · rw [hcas]; rfl
  · simpa [sizes, sizesExpected, initWorld] using hsz

end Attrs.C16
