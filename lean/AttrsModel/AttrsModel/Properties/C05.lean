/-
  C05 — property theorems: frozen instances cannot be mutated; frozenness is inherited.
  Helper lemmas are in Proofs/C05*.lean.
-/
import AttrsModel.Proofs.C05Main
import AttrsModel.Proofs.SrcFrozen

namespace Attrs.C05
open Attrs.Init

/-! ## instances -/

/-- **C05_step**: on an instance of a class whose `__setattr__`/`__delattr__` resolve to the frozen pair, a
    set / delete / augmented assignment of any name — field or not, set or unset — that is not one of the
    BaseException bookkeeping names on an exception instance leaves the state exactly as it is and raises
    FrozenInstanceError (for `obj.n += v` on an unset attribute the read raises AttributeError first). -/
theorem C05_step (c : Case) (lf : Leaf) (s : IState) (op : Op)
    (hs : lf.rset = .frozen) (hd : lf.rdel = .frozen) (hm : isMutation op = true) (he : exempt c op = false) :
    (step c lf s op).2 = s ∧ (step c lf s op).1.snap = render c s ∧
    ((step c lf s op).1.exc = some .frozenInstance ∨
      (∃ n v, op = .aug n v ∧ readSnap c (render c s) n = none ∧ (step c lf s op).1.exc = some .attributeError)) := by
  obtain ⟨h1, h2, _, h4⟩ := step_frozen c lf s op hs hd hm he
  exact ⟨h1, h2, h4⟩

/-- **C05_sequence**: for operation lists of *any* length: the final state is the initial state, every
    intermediate snapshot equals the first one, and every outcome is an error. -/
theorem C05_sequence (c : Case) (lf : Leaf) (s : IState) (ops : List Op)
    (hs : lf.rset = .frozen) (hd : lf.rdel = .frozen)
    (hops : ∀ op ∈ ops, isMutation op = true ∧ exempt c op = false) :
    finalState c lf s ops = s ∧ (runOps c lf s ops).length = ops.length ∧
    ∀ o ∈ runOps c lf s ops, o.snap = render c s ∧ o.values = none ∧
      (o.exc = some .frozenInstance ∨ o.exc = some .attributeError) :=
  runOps_frozen c lf s ops hs hd hops

/-- **C05_sequence_any**: for *arbitrary* histories over the whole alphabet (mutation attempts, bookkeeping
    writes on exceptions, hash, copy, deepcopy, pickle, evolve, raise, chaining, with_traceback, add_note)
    every storage location except the hash cache holds at the end what it held at the start. -/
theorem C05_sequence_any (c : Case) (lf : Leaf) (s : IState) (ops : List Op)
    (hs : lf.rset = .frozen) (hd : lf.rdel = .frozen) (n : String) (l : Loc) (hn : n ≠ cacheName) :
    (finalState c lf s ops).mem n l = s.mem n l :=
  finalState_mem c lf s ops hs hd n l hn

/-- **C05_exc_bookkeeping**: on an exception instance of a frozen class, assignment succeeds exactly for the
    names of the T1 table `frozenExcSetNames` (and then only BaseException's own bookkeeping changes, the
    storage does not), deletion exactly for `frozenExcDelNames`; on any other instance never. -/
theorem C05_exc_bookkeeping (c : Case) (lf : Leaf) (s : IState) (n : String) (v : Val)
    (hs : lf.rset = .frozen) (hd : lf.rdel = .frozen) :
    ((c.excRoot && Generated.frozenExcSetNames.contains n) = true →
        (step c lf s (.set n v)).1.exc = none ∧ (step c lf s (.set n v)).2 = { s with ex := bookSet s.ex n v }) ∧
    ((c.excRoot && Generated.frozenExcSetNames.contains n) = false →
        (step c lf s (.set n v)).1.exc = some .frozenInstance ∧ (step c lf s (.set n v)).2 = s) ∧
    ((c.excRoot && Generated.frozenExcDelNames.contains n) = false →
        (step c lf s (.del n)).1.exc = some .frozenInstance ∧ (step c lf s (.del n)).2 = s) ∧
    ((c.excRoot && Generated.frozenExcDelNames.contains n) = true →
        n = "__notes__" ∧ (step c lf s (.del n)).2.mem = s.mem) := by
  refine ⟨?_, ?_, ?_, ?_⟩
  · intro h
    rw [step_set_frozen c lf s n v hs, frozenSet_book c s n v h]
    exact ⟨rfl, rfl⟩
  · intro h
    rw [step_set_frozen c lf s n v hs, frozenSet_refuses c s n v h]
    exact ⟨rfl, rfl⟩
  · intro h
    rw [step_del_frozen c lf s n hd, frozenDel_refuses c s n h]
    exact ⟨rfl, rfl⟩
  · intro h
    simp only [Bool.and_eq_true] at h
    refine ⟨delNames_notes n h.2, ?_⟩
    rw [step_del_frozen c lf s n hd]
    exact frozenDel_mem c s n

/-- **C05_exc_names_documented**: the tables extracted from the current source are the documented ones. -/
theorem C05_exc_names_documented :
    Generated.frozenExcSetNames = documentedSet ∧ Generated.frozenExcDelNames = documentedDel :=
  ⟨setNames_doc, delNames_doc⟩

/-! ## classes -/

/-- **C05_inherited**: attribute lookup along an MRO of any length finds the first definer; if that is the
    frozen pair the class is frozen — however many plain subclasses, mixins or attrs classes without an own
    `__setattr__`/`__delattr__` come before it and whatever comes after it. -/
theorem C05_inherited (pre post : List Node) (n : Node)
    (hpre : ∀ x ∈ pre, x.set = none ∧ x.del = none) (hn : n.set = some .frozen ∧ n.del = some .frozen) :
    resolveSet none (pre ++ n :: post) = .frozen ∧ resolveDel none (pre ++ n :: post) = .frozen :=
  ⟨resolveSet_first_definer pre post n .frozen (fun x hx => (hpre x hx).1) hn.1,
   resolveDel_first_definer pre post n .frozen (fun x hx => (hpre x hx).2) hn.2⟩

/-- **C05_attrs_subclass_stays_frozen**: re-decoration. For *every* combination of api (attr.s / define /
    attrs.frozen), slots, class-level on_setattr, auto_detect, body-defined methods, field list (any length,
    any per-field on_setattr / validators / converters) and inherited `__attrs_own_setattr__` marker: if the
    class is passed `frozen=True` or `cls.__setattr__` is the frozen one (`_has_frozen_base_class`), then the
    decorated class — when attrs accepts the definition at all — has the frozen pair in its own `__dict__`
    and resolves it. -/
theorem C05_attrs_subclass_stays_frozen (s : ClassSpec) (mroN basesN : List Node) (n : Node)
    (hf : s.frozenArg = true ∨ resolveSet (bodySet s) mroN = .frozen)
    (h : decorate s mroN basesN = .ok n) :
    n.set = some .frozen ∧ n.del = some .frozen ∧ n.rset = .frozen ∧ n.rdel = .frozen ∧ n.frozen = true :=
  decorate_frozen s mroN basesN n (by rcases hf with hf | hf <;> simp [isFrozenCls, hf]) h

/-- **C05_frozen_definition_accepted_iff**: a class that is (to be) frozen is accepted exactly when it has no
    auto-detected own `__setattr__`, no class-level hook reaches the builder and no field carries an
    `on_setattr` (NO_OP included) — in particular independently of `init=`/defaults of the fields (F8). -/
theorem C05_frozen_definition_accepted_iff (s : ClassSpec) (mroN basesN : List Node)
    (hf : isFrozenCls s mroN = true) :
    (∃ n, decorate s mroN basesN = .ok n) ↔
      ∃ k, classOnSet s basesN = .ok k ∧ hasOwnSet s = false ∧ hookish k = false ∧
        s.fields.any (·.onSet != .unset) = false := by
  constructor
  · rintro ⟨n, hn⟩
    obtain ⟨k, hk, hr, _⟩ := decorate_ok s mroN basesN n hn
    refine ⟨k, hk, ?_⟩
    unfold rejects at hr
    simp only [hf, Bool.and_true, Bool.true_and, Bool.or_eq_false_iff] at hr
    unfold builderOnSet at hr
    rw [if_pos hf] at hr
    exact ⟨hr.1.1.1, hr.1.2, hr.2⟩
  · rintro ⟨k, hk, h1, h2, h3⟩
    refine ⟨nodeOf s mroN basesN k, ?_⟩
    unfold decorate
    rw [hk]
    have hr : rejects s mroN k = false := by
      unfold rejects builderOnSet
      rw [if_pos hf]
      simp [h1, h2, h3]
    simp [hr]

/-- **C05_define_below_frozen_defines** (the NO_OP rule of `define.wrap`): a `define`d class without any
    explicit on_setattr directly below a frozen class is always accepted — also when its fields have
    validators or converters, for which `define` would otherwise install its default hooks and the frozen
    check would refuse them. -/
theorem C05_define_below_frozen_defines (s : ClassSpec) (mroN basesN : List Node)
    (hapi : s.api = .define) (hon : s.clsOnSet = .unset) (hfields : s.fields.any (·.onSet != .unset) = false)
    (hown : hasOwnSet s = false) (hbase : basesN.any (·.rset == .frozen) = true)
    (hf : isFrozenCls s mroN = true) :
    ∃ n, decorate s mroN basesN = .ok n ∧ n.rset = .frozen ∧ n.rdel = .frozen := by
  have hk : classOnSet s basesN = .ok .noop := by
    simp [classOnSet, hapi, defineOnSet, hbase, hon, hookish]
  obtain ⟨n, hn⟩ := (C05_frozen_definition_accepted_iff s mroN basesN hf).2 ⟨.noop, hk, hown, rfl, hfields⟩
  obtain ⟨_, _, h3, h4, _⟩ := decorate_frozen s mroN basesN n hf hn
  exact ⟨n, hn, h3, h4⟩

/-- **C05_body_setattr_never_reset**: a `__setattr__` written in the class body is never replaced by
    `object.__setattr__` when attrs resets an inherited attrs-made one — with or without auto_detect, slotted or
    not, whatever the bases carry (it can only be overridden by the frozen pair or joined by a rejection). -/
theorem C05_body_setattr_never_reset (s : ClassSpec) (mroN basesN : List Node) (n : Node)
    (hu : s.userSet = true) (h : decorate s mroN basesN = .ok n) : n.set ≠ some .obj := by
  obtain ⟨k, _, _, rfl⟩ := decorate_ok s mroN basesN n h
  have hb : bodySet s = some .user := by simp [bodySet, hu]
  simp only [nodeOf, ownSetOf, hu, hb]
  split
  · split <;> simp
  · split
    · simp
    · split
      · simp
      · split <;> simp

/-- **C05_own_state_pair**: a class left at `getstate_setstate=None` gets its own generated
    `__getstate__/__setstate__` exactly when it is slotted or would otherwise inherit a pair generated for a
    base — so a dict class below a slotted class never copies/unpickles through its base's pair. -/
theorem C05_own_state_pair (s : ClassSpec) (mroN basesN : List Node) (n : Node)
    (harg : s.stateArg = none) (h : decorate s mroN basesN = .ok n) :
    n.ownState = (s.slots || mroN.any (·.ownState)) := by
  obtain ⟨k, _, _, rfl⟩ := decorate_ok s mroN basesN n h
  simp [nodeOf, ownStateOf, harg]

/-- **C05_chain_inherited**: hierarchies of arbitrary depth. On top of a frozen class, any chain of further
    classes — plain or decorated through any api with any options — none of which writes `__setattr__` /
    `__delattr__` in its body: if all definitions are accepted, the last class is frozen again. -/
theorem C05_chain_inherited (specs : List ClassSpec) (acc acc' : List Node) (i : Nat) (htop : FrozenTop acc)
    (hchain : isChainFrom acc.length specs)
    (hbody : ∀ s ∈ specs, s.userSet = false ∧ s.userDel = false ∧ s.builtin = false)
    (h : buildFrom acc specs i = .ok acc') : FrozenTop acc' :=
  buildFrom_chain_frozen specs acc acc' i htop hchain hbody h

/-- **C05_frozen_class_then_chain**: a class decorated with `frozen=True` (whatever it inherits), followed by
    any such chain: every class from there on is frozen. -/
theorem C05_frozen_class_then_chain (s : ClassSpec) (specs : List ClassSpec) (acc acc' : List Node) (i : Nat)
    (ha : s.attrs = true) (hf : s.frozenArg = true)
    (hchain : isChainFrom acc.length (s :: specs))
    (hbody : ∀ s' ∈ specs, s'.userSet = false ∧ s'.userDel = false ∧ s'.builtin = false)
    (h : buildFrom acc (s :: specs) i = .ok acc') : FrozenTop acc' := by
  unfold buildFrom at h
  obtain ⟨hm, _, hrest⟩ := hchain
  cases hd : defineClass acc s with
  | error e => rw [hd] at h; cases h
  | ok n =>
    rw [hd] at h
    exact buildFrom_chain_frozen specs (n :: acc) acc' (i + 1) (defineClass_frozenArg acc s n ha hf hm hd)
      (by simpa using hrest) hbody h

/-! ## construction -/

/-- **C05_constructs** (store technique): on a frozen class the generated initializer never stores by plain
    assignment — every store is the cached `object.__setattr__` or the instance `__dict__`. -/
theorem C05_constructs (cfg : Cfg) (belief : Bool) (a : Attr) (h : cfg.frozen = true) :
    tech cfg belief a ≠ .assign := by
  rcases tech_frozen cfg belief a h with h | h <;> rw [h] <;> simp

/-- **C05_constructs_model**: in the C05 model the initializer runs with `frozen` as the class logic computed
    it (`Node.frozen`, i.e. `frozen=True` *or inherited*); whenever that is true no field of any class is
    stored by plain assignment, whatever hooks, converters or slot beliefs are involved. -/
theorem C05_constructs_model (c : Case) (belief : Bool) (a : Attr) :
    tech (effInit c true).eff.cfg belief a ≠ .assign :=
  C05_constructs _ belief a rfl

/-- **C05_init_never_frozen_error**: whatever the class, call and failing callback, the modelled initializer
    never ends in FrozenInstanceError (so neither does `evolve`, which is defined through it). -/
theorem C05_init_never_frozen_error (c : Init.Case) : (runInit c).exc ≠ some .frozenInstance :=
  runInit_not_frozenInstance c

/-! ## the model meets the specification -/

/-- **C05_model_meets_spec**: on every well-formed case outside the listed known findings (K05a, K3, K2,
    K11) the model satisfies the declarative specification: definitions are only refused for specifications
    that mention hooks / a custom `__setattr__`; the instance is constructed with the values C01 prescribes and
    its hash cache where `__hash__` finds it; and for histories of any length every step does what `stepOk`
    demands against the snapshot before it. -/
theorem C05_model_meets_spec (c : Case) (hwf : wf c = true) (hk : known c = []) : spec c (model c) = true :=
  model_meets_spec c hwf hk

/-- **C05_spec_demands_unchanged**: the specification itself (no model involved) — any observation it accepts
    for a history of mutation attempts, of any length, has every snapshot equal to the state after
    construction and every outcome an error. -/
theorem C05_spec_demands_unchanged (c : Case) (s0 : Snap) (ops : List Op) (steps : List StepObs)
    (hops : ∀ op ∈ ops, isMutation op = true ∧ exemptDoc c op = false)
    (h : stepsOk c s0 ops steps = true) :
    steps.length = ops.length ∧
    ∀ o ∈ steps, o.snap = s0 ∧ (o.exc = some .frozenInstance ∨ o.exc = some .attributeError) := by
  induction ops generalizing steps with
  | nil =>
    cases steps with
    | nil => simp
    | cons o os => simp [stepsOk] at h
  | cons op rest ih =>
    cases steps with
    | nil => simp [stepsOk] at h
    | cons o os =>
      unfold stepsOk at h
      simp only [Bool.and_eq_true] at h
      obtain ⟨hm, he⟩ := hops op List.mem_cons_self
      have ho : o.snap = s0 ∧ (o.exc = some .frozenInstance ∨ o.exc = some .attributeError) := by
        have h1 := h.1
        cases op with
        | set n v =>
          simp only [exemptDoc] at he
          simp only [stepOk, he, Bool.false_eq_true, if_false, Bool.and_eq_true, beq_iff_eq] at h1
          exact ⟨h1.2, Or.inl h1.1⟩
        | del n =>
          simp only [exemptDoc] at he
          simp only [stepOk, he, Bool.false_eq_true, if_false, Bool.and_eq_true, beq_iff_eq] at h1
          exact ⟨h1.2, Or.inl h1.1⟩
        | aug n v =>
          simp only [stepOk, Bool.and_eq_true, beq_iff_eq] at h1
          refine ⟨h1.1, ?_⟩
          have h2 := h1.2
          split at h2
          · exact Or.inl (by simpa using h2)
          · simp only [Bool.or_eq_true, beq_iff_eq] at h2
            exact h2.symm
        | _ => simp [isMutation] at hm
      have ih' := ih os (fun o' ho' => hops o' (List.mem_cons_of_mem _ ho')) (by rw [ho.1] at h; exact h.2)
      refine ⟨by simp [ih'.1], ?_⟩
      intro o' ho'
      rcases List.mem_cons.1 ho' with rfl | ho'
      · exact ho
      · exact ih'.2 o' ho'

/-- **C05_constructs_values**: corollary — a well-formed frozen case outside the known findings constructs,
    and every field reads converter(argument | default | factory value). -/
theorem C05_constructs_values (c : Case) (hwf : wf c = true) (hk : known c = [])
    (hdef : (model c).defErr = none) :
    (model c).ctor = none ∧ ∃ s0, (model c).start = some s0 ∧ startOk c s0 = true := by
  have h := model_meets_spec c hwf hk
  unfold spec at h
  rw [hdef] at h
  simp only [Bool.and_eq_true, beq_iff_eq] at h
  refine ⟨h.1, ?_⟩
  cases hs : (model c).start with
  | none => rw [hs] at h; simp at h
  | some s0 =>
    rw [hs] at h
    simp only [Bool.and_eq_true] at h
    exact ⟨s0, rfl, h.2.1⟩

end Attrs.C05

/-! ## witnesses of the listed known findings, and non-vacuity -/
namespace Attrs.C05
open Attrs.Init

def wCfg : Cfg := { frozen := true, slots := false, cacheHash := false, isExc := false, pre := .none, post := false,
                    clsHook := false, runValidators := true, collectByMro := false }
def wInit : Init.Case :=
  { run := { cfg := wCfg, attrs := [], own := [], bases := [], cacheIsSlot := false, fault := none },
    call := { pos := [], kw := [] }, isDefine := false, clsOnSet := .unset }
def wCls : ClassSpec :=
  { attrs := true, api := .attrS, frozenArg := true, slots := false, clsOnSet := .unset, autoDetect := false,
    userSet := false, userDel := false, builtin := false, stateArg := none, fields := [], bases := [], mro := [] }
def wX : Attr := { name := "x", alias := "x", dflt := .none, init := true, kwOnly := false, conv := none,
                   validators := 0, onSet := .unset, isSlot := true, type := none, convType := none }
def wXf : FieldFacts := { name := "x", onSet := .unset, hasValidator := false, hasConverter := false }

/-- K05a: `@attr.s(frozen=True) class A` ← `class B(A)` whose body defines `__setattr__` -/
def k05aWitness : Case :=
  { classes := [wCls, { wCls with attrs := false, frozenArg := false, userSet := true, bases := [0], mro := [0] }],
    excRoot := false, init := wInit, owner := 1, hasDict := true, slotNames := [],
    names := ["_attrs_cached_hash", "zz_new"], anySlots := false, gs := .dflt, hashNames := none, ops := [.set "zz_new" "s1"] }

theorem C05_known_K05a_witness :
    wf k05aWitness = true ∧ "K05a" ∈ known k05aWitness ∧ spec k05aWitness (model k05aWitness) = false := by
  refine ⟨by decide, by decide, by decide⟩

def k3Bases : List BaseInfo :=
  [{ hasSlotsDunder := false, attrs := [("x", true)] }, { hasSlotsDunder := true, attrs := [("x", false)] }]
def k3Init : Init.Case :=
  { run := { cfg := wCfg, attrs := [wX], own := [], bases := k3Bases, cacheIsSlot := false, fault := none },
    call := { pos := ["t1"], kw := [] }, isDefine := false, clsOnSet := .unset }

/-- K3: `A(frozen, slots) ← B(frozen dict) ← C(frozen dict)` under attr.s's legacy collection (C01's witness) -/
def k3Witness : Case :=
  { classes := [{ wCls with slots := true, fields := [wXf] },
                { wCls with fields := [wXf], bases := [0], mro := [0] },
                { wCls with fields := [wXf], bases := [0], mro := [0, 1] }],
    excRoot := false,
    init := k3Init, owner := 0, hasDict := true, slotNames := ["x"],
    names := ["_attrs_cached_hash", "x"], anySlots := true, gs := .attrs, hashNames := none, ops := [] }

theorem C05_known_K3_witness :
    wf k3Witness = true ∧ "K3" ∈ known k3Witness ∧ spec k3Witness (model k3Witness) = false := by
  refine ⟨by decide, by decide, by decide⟩

/-- K2: `A(slots, cache_hash) ← C(frozen dict, cache_hash)` -/
def k2Witness : Case :=
  { classes := [{ wCls with frozenArg := false, slots := true },
                { wCls with bases := [0], mro := [0] }],
    excRoot := false,
    init := { wInit with run := { wInit.run with cfg := { wCfg with cacheHash := true }, cacheIsSlot := true } },
    owner := 0, hasDict := true, slotNames := ["_attrs_cached_hash"],
    names := ["_attrs_cached_hash"], anySlots := true, gs := .attrs, hashNames := some [], ops := [.hash] }

theorem C05_known_K2_witness :
    wf k2Witness = true ∧ "K2" ∈ known k2Witness ∧ spec k2Witness (model k2Witness) = false := by
  refine ⟨by decide, by decide, by decide⟩

/-- K11: `@attr.s(frozen=True, slots=True, getstate_setstate=False) class A: x = attr.ib()`; `copy.copy(A(1))` -/
def k11Witness : Case :=
  { classes := [{ wCls with slots := true, stateArg := some false, fields := [wXf] }],
    excRoot := false,
    init := { wInit with run := { wInit.run with cfg := { wCfg with slots := true }, attrs := [wX], own := ["x"] },
                         call := { pos := ["t1"], kw := [] } },
    owner := 0, hasDict := false, slotNames := ["x"],
    names := ["_attrs_cached_hash", "x"], anySlots := true, gs := .optOut, hashNames := none, ops := [.copy] }

theorem C05_known_K11_witness :
    wf k11Witness = true ∧ "K11" ∈ known k11Witness ∧ spec k11Witness (model k11Witness) = false := by
  refine ⟨by decide, by decide, by decide⟩

/-- non-vacuity of `C05_model_meets_spec`: the same class with the generated state methods is well-formed,
    falls under no known finding, and its history contains a mutation attempt and a copy -/
def okCase : Case :=
  { k11Witness with classes := [{ wCls with slots := true, fields := [wXf] }], gs := .attrs,
                    ops := [.set "x" "s1", .copy, .del "zz_new", .aug "x" "+a"] }

example : wf okCase = true ∧ known okCase = [] := by
  refine ⟨by decide, by decide⟩

/-- a frozen class, a plain subclass, a `define`d subclass with a validator -/
def chainSpecs : List ClassSpec :=
  [wCls,
   { wCls with attrs := false, frozenArg := false, bases := [0], mro := [0] },
   { wCls with api := .define, frozenArg := false, autoDetect := true, slots := true,
               fields := [{ wXf with hasValidator := true }], bases := [0], mro := [0, 1] }]

/-- non-vacuity of `C05_chain_inherited` / `C05_frozen_class_then_chain`: the chain is accepted (thanks to
    define's NO_OP rule) and its hypotheses hold, so the last class is frozen -/
example : (match buildFrom [] chainSpecs 0 with | .ok _ => true | .error _ => false) = true := by decide
example : ∀ acc', buildFrom [] chainSpecs 0 = .ok acc' → FrozenTop acc' := fun acc' h =>
  C05_frozen_class_then_chain wCls _ [] acc' 0 rfl rfl
    (show isChainFrom 0 chainSpecs from ⟨rfl, rfl, rfl, rfl, rfl, rfl, trivial⟩) (by decide) h

/-- non-vacuity of `C05_step` / `C05_exc_bookkeeping`: hypotheses are satisfiable -/
example : isMutation (.del "x") = true ∧ exempt k11Witness (.del "x") = false := by decide

/-! ### T1b: `_frozen_setattrs` / `_frozen_delattrs` as written in /repo's source on this run -/

/-- **C05_source_frozen_setattrs**: the `__setattr__` of frozen classes, translated from the current source
    (`Gen.frozen_setattrs`, regenerated on every run), raises FrozenInstanceError for *every* attribute name and value —
    performing no store — except that on an instance of `BaseException` (the whole hierarchy, not only `Exception`) the
    bookkeeping names of the T1 table `Generated.frozenExcSetNames` (`C05_exc_names_documented`) are handed to
    `BaseException.__setattr__` with the very name and value. -/
theorem C05_source_frozen_setattrs (env : Py.Env) (ext : Py.Ext) (self value : Py.PV) (isExc : Bool) (n : String)
    (hext : ext "isinstance" [self, env "BaseException"] = Py.vBool isExc) :
    Gen.frozen_setattrs env ext self (Py.vStr n) value [] =
      if isExc && Generated.frozenExcSetNames.contains n
      then .ok (Py.vNone, [Py.Eff.mk "BaseException.__setattr__" [self, Py.vStr n, value]])
      else .error (.other "FrozenInstanceError") :=
  Src.frozen_setattrs_spec env ext self value isExc n hext

/-- **C05_source_frozen_delattrs**: likewise for deletion (`Generated.frozenExcDelNames`: only `__notes__`). -/
theorem C05_source_frozen_delattrs (env : Py.Env) (ext : Py.Ext) (self : Py.PV) (isExc : Bool) (n : String)
    (hext : ext "isinstance" [self, env "BaseException"] = Py.vBool isExc) :
    Gen.frozen_delattrs env ext self (Py.vStr n) [] =
      if isExc && Generated.frozenExcDelNames.contains n
      then .ok (Py.vNone, [Py.Eff.mk "BaseException.__delattr__" [self, Py.vStr n]])
      else .error (.other "FrozenInstanceError") :=
  Src.frozen_delattrs_spec env ext self isExc n hext

/-- both branches are inhabited: a field name on a non-exception is refused, `__cause__` on an exception is passed on -/
example : (false && Generated.frozenExcSetNames.contains "x") = false ∧
    (true && Generated.frozenExcSetNames.contains "__cause__") = true ∧
    (true && Generated.frozenExcSetNames.contains "x") = false := by decide

end Attrs.C05
