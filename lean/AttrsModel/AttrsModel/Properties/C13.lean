/-
  C13 — property theorems.  Every statement is about argument trees of arbitrary depth and width
  (structural induction over the nested tree type; helper lemmas in `Proofs/C13*.lean`).
  Definitions used in the statements: `Model/C13.lean` (the code), `Spec/C13.lean` (the reference:
  `shape…` = what the statement promises, `realise` = building it in Python), `Proofs/C13Struct.lean`
  (`passing`, `clean`, `untouched`, `seqE`), `Proofs/C13Extra.lean` (`strip`, `construct`).
-/
import AttrsModel.Proofs.C13Meets
import AttrsModel.Proofs.C13Struct
import AttrsModel.Proofs.C13Extra
import AttrsModel.Proofs.C13Old

namespace Attrs.C13

/-! ## The code computes the reference -/

/-- **C13_code_computes_reference**: for *every* call on an attrs instance, what `asdict` /
    `_asdict_anything` / `astuple` compute (two conversion sites, `is_key` flag passed down, `_make_collection`,
    filter threading) is exactly the promised shape built with Python's constructors — same value, same
    container classes, same object identities, same serializer positions, and the same `TypeError`s.
    No exclusion: K13a–c are repaired. -/
theorem C13_code_computes_reference (c : Case) (s : Out) (hs : shape c = some s) :
    runPlain c = realise s := run_refines c s hs

/-- **C13_fault_propagates**: when a callback (value_serializer, filter, dict_factory, tuple_factory) raises,
    the call raises that exception — nothing is swallowed, no partial result is returned; when the chosen call
    is never reached, the call is the fault-free one. -/
theorem C13_fault_propagates (c : Case) :
    (fires c = true → (model c).result.eqv (.exc "fault") = true ∧ (model c).faultFired = true) ∧
    (fires c = false → run c = runPlain c ∧ (model c).faultFired = false) := by
  constructor
  · intro h; simp [model, run, h, Res.ofExcept, Res.eqv]
  · intro h; simp [model, run, h]

/-- with `recurse=False` the filter is called once per field and the serializer once per passing field -/
theorem C13_callback_counts_flat (c : Case) (cls : Nat) (h : Option Nat) (fs : List (FI × PVal))
    (hv : c.value = .inst cls h fs) (ha : c.api = .asdict) (hr : c.recurse = false) :
    (c.filter ≠ .none → calls c .filter = fs.length) ∧
    (c.ser ≠ .off → calls c .ser = (passing c.filter fs).length) := by
  constructor
  · intro hf
    have := cFlat_filter c.opts (by simpa [Case.opts] using hf) fs
    simp [calls, hv, ha, hr, one, this]
  · intro hs
    have := cFlat_ser c.opts (by simpa [Case.opts, ha] using hs) fs
    simp only [calls, hv, ha, hr, one, this, passing]
    simp [Case.opts]

/-- **C13_model_meets_spec**: on every case (no well-formedness, no known-deviation hypothesis). -/
theorem model_meets_specMain (c : Case) : specMain c (model c) = true := by
  have hval : ∀ v, demanded c = .value v → runPlain c = .ok v := by
    intro v hv
    unfold demanded at hv
    cases hs : shape c with
    | none => simp [hs] at hv
    | some s =>
      have hrun := run_refines c s hs
      cases hr : realise s with
      | error e => simp [hs, hr] at hv
      | ok w => simp [hs, hr] at hv; rw [hrun, hr, hv]
  have hexc : demanded c = .raises → ∃ e, runPlain c = .error e := by
    intro hv
    unfold demanded at hv
    cases hs : shape c with
    | none => simp [hs] at hv
    | some s =>
      have hrun := run_refines c s hs
      cases hr : realise s with
      | error e => exact ⟨e, by rw [hrun, hr]⟩
      | ok w => simp [hs, hr] at hv
  unfold specMain
  cases hf : fires c with
  | true =>
    cases hrt : roundtripApplies c <;> simp [model, run, hf, hrt, Res.ofExcept, Res.eqv]
  | false =>
    cases hdm : demanded c with
    | nothing => cases hrt : roundtripApplies c <;> simp [model, run, hf, hrt]
    | value v =>
      cases hrt : roundtripApplies c <;>
        simp [model, run, hf, hrt, hval v hdm, Res.ofExcept, Res.eqv, eqv_refl]
    | raises =>
      obtain ⟨e, he⟩ := hexc hdm
      cases hrt : roundtripApplies c <;> simp [model, run, hf, hrt, he, Res.ofExcept, Res.isExc]

/-- **C13_callbacks_once_per_occurrence**: a call that returns has consulted the filter once per field occurrence
    and the serializer once per passing field and per leaf below field level — whatever the values are (equal
    values of different exact type or identity, 1 / True / 1.0, get their own verdicts: there is no memo). -/
theorem C13_callbacks_once_per_occurrence (c : Case) : specCalls c (model c) = true := by
  unfold specCalls
  cases hr : run c <;> simp [model, hr, Res.ofExcept, isOkE]

/-- **C13_model_meets_spec**: on every case (no well-formedness, no known-deviation hypothesis). -/
theorem C13_model_meets_spec (c : Case) : spec c (model c) = true := by
  simp [spec, model_meets_specMain c, C13_callbacks_once_per_occurrence c]

theorem C13_known_empty (c : Case) : known c = [] := rfl

/-- **C13_sites_agree** (the F10 regression as a theorem): `asdict`'s own branches for a field value and
    `_asdict_anything` on the same value build the same thing (without serializer: on every value; with the
    scalar-wrapping serializer: on every non-scalar). -/
theorem C13_sites_agree (o : Opts) (c : Nat) (f : FI) (v : PVal)
    (h : o.ser = .off ∨ (o.ser = .wrapLeaf ∧ isScalarV v = false)) : fieldD o c f v = anything o false v := by
  rcases h with h | ⟨h, ha⟩
  · cases v <;> simp [fieldD, anything, h, serFieldAtom, serLeaf, serApplies]
  · cases v <;> simp_all [fieldD, anything, isScalarV, serFieldAtom, serLeaf, serApplies]

/-- **C13_attrs_instance_first**: a value whose class is an attrs class takes the instance branch whatever else
    it is — also a list, a tuple, a set or a dict (`@attr.s class Bag(list)`) —, at every site: the model's
    `_asdict_anything`, `asdict` field branch, `astuple` field branch and member test all send an `inst` to the
    conversion of its fields, and the result never depends on what the instance holds as a container (there is
    nothing of it in the model). -/
theorem C13_attrs_instance_first :
    (∀ l : Looks, l.hasAttrs = true → classify l = .instance) ∧
    (∀ c h fs, classify (looksOf (.inst c h fs)) = .instance) ∧
    (∀ (o : Opts) (isKey : Bool) c h fs, anything o isKey (.inst c h fs) = (fieldsD o c fs).map (Out.record o.df)) ∧
    (∀ (o : Opts) k f c h fs, o.ser ≠ .wrap →
      fieldD o k f (.inst c h fs) = (fieldsD o c fs).map (Out.record o.df)) ∧
    (∀ (o : Opts) flt c h fs, tfield o flt (.inst c h fs) = (tupleOf o flt fs).map (tfOut o.tf) ∧
      tmember o flt (.inst c h fs) = (tupleOf o flt fs).map (tfOut o.tf)) := by
  refine ⟨?_, ?_, ?_, ?_, ?_⟩
  · intro l h; simp [classify, h]
  · intro c h fs; rfl
  · intro o isKey c h fs; simp [anything]
  · intro o k f c h fs hw; simp [fieldD, hw]
  · intro o flt c h fs; simp [tfield, tmember]

/-- **C13_instance_by_fields**: what makes a value an attrs instance for the conversion is that it has a field
    list (`has(type(v))`, resolved through the MRO) — the model takes nothing else from the class: at both sites
    (`_asdict_anything` and `asdict`'s own branch for a field value) and for `astuple` (field value and member),
    two instances with the same fields convert alike whatever their classes are (a decorated class, a plain
    subclass of one, a dict class over a slotted one, …); without serializer, which is told the class. -/
theorem C13_instance_by_fields (o : Opts) (hs : o.ser = .off) (c c' : Nat) (h h' : Option Nat)
    (fs : List (FI × PVal)) (isKey : Bool) (k : Nat) (f : FI) (flt : Filter) :
    anything o isKey (.inst c h fs) = anything o isKey (.inst c' h' fs) ∧
    fieldD o k f (.inst c h fs) = fieldD o k f (.inst c' h' fs) ∧
    tfield o flt (.inst c h fs) = tfield o flt (.inst c' h' fs) ∧
    tmember o flt (.inst c h fs) = tmember o flt (.inst c' h' fs) := by
  have key : ∀ fs : List (FI × PVal), fieldsD o c fs = fieldsD o c' fs := by
    intro fs
    induction fs with
    | nil => rfl
    | cons p r ih =>
      obtain ⟨g, v⟩ := p
      have hv : fieldD o c g v = fieldD o c' g v := by
        cases v <;> simp [fieldD, hs, serFieldAtom, serApplies]
      simp [fieldsD, ih, hv]
  refine ⟨?_, ?_, ?_, ?_⟩
  · simp [anything, key]
  · simp [fieldD, hs, key]
  · simp [tfield]
  · simp [tmember]

/-- **C13_other_objects_untouched**: a value that is neither an attrs instance nor a list / tuple / set / dict —
    an attrs *class* object, a plain class, an object with a catch-all `__getattr__`, a module, a function — is
    handed through as it is at every position: field value, member, dict key (unless the serializer is one that
    replaces it); `astuple` likewise. -/
theorem C13_other_objects_untouched (o : Opts) (hw : o.ser = .off ∨ o.ser = .wrapLeaf) (c : Nat) (f : FI) (isKey : Bool)
    (flt : Filter) (k n : Nat) :
    anything o isKey (.atom (.obj k n)) = .ok (.atom (.obj k n)) ∧
    fieldD o c f (.atom (.obj k n)) = .ok (.atom (.obj k n)) ∧
    tfield o flt (.atom (.obj k n)) = .ok (.atom (.obj k n)) ∧
    tmember o flt (.atom (.obj k n)) = .ok (.atom (.obj k n)) := by
  rcases hw with hs | hs <;>
    simp [anything, fieldD, tfield, tmember, serLeaf, serFieldAtom, serApplies, Atom.isScalar, hs]

/-! ## Keys -/

/-- **C13_keys**: the keys of `asdict(inst)` are the names of the filter-passing fields, in field order
    (any recurse / retain / factory / serializer; the filter sees the raw value). -/
theorem C13_keys (o : Opts) (recurse : Bool) (cls : Nat) (h : Option Nat) (fs : List (FI × PVal)) (out : Out)
    (hr : asdictTop o recurse (.inst cls h fs) = .ok out) :
    ∃ items, out = .record o.df items ∧ items.map (·.1) = (passing o.filter fs).map (·.1.name) := by
  cases recurse with
  | true =>
    simp only [asdictTop, if_true] at hr
    obtain ⟨items, h1, rfl⟩ := map_eq_ok hr
    exact ⟨items, rfl, fieldsD_keys o cls fs items h1⟩
  | false =>
    simp only [asdictTop, Bool.false_eq_true, if_false, Except.ok.injEq] at hr
    exact ⟨_, hr.symm, flatD_keys o cls fs⟩

/-- the same for every nested instance: wherever `_asdict_anything` meets an instance the result is a
    `dict_factory` mapping keyed by its filter-passing field names -/
theorem C13_keys_nested (o : Opts) (isKey : Bool) (cls : Nat) (h : Option Nat) (fs : List (FI × PVal)) (out : Out)
    (hr : anything o isKey (.inst cls h fs) = .ok out) :
    ∃ items, out = .record o.df items ∧ items.map (·.1) = (passing o.filter fs).map (·.1.name) := by
  simp only [anything] at hr
  obtain ⟨items, h1, rfl⟩ := map_eq_ok hr
  exact ⟨items, rfl, fieldsD_keys o cls fs items h1⟩

/-! ## recurse=False -/

/-- **C13_recurse_off_identity**: with `recurse=False` (no serializer) the values are the very same objects:
    nothing below the top level is rebuilt. -/
theorem C13_recurse_off_identity (o : Opts) (hs : o.ser = .off) (cls : Nat) (h : Option Nat)
    (fs : List (FI × PVal)) :
    asdictTop o false (.inst cls h fs) = .ok (.record o.df ((passing o.filter fs).map (fun p => (p.1.name, embed p.2))))
    ∧ astupleTop o false (.inst cls h fs) = .ok (tfOut o.tf ((passing o.filter fs).map (fun p => embed p.2)))
    ∧ ∀ v : PVal, untouched (embed v) = true := by
  refine ⟨?_, ?_, untouched_embed⟩
  · simp [asdictTop, flatD_off o cls hs fs]
  · simp [astupleTop, flatT_eq]

/-! ## No instances left -/

/-- **C13_no_instances_left**: with `recurse=True` no attrs instance is left anywhere in the result of
    `asdict` — below lists, tuples, sets, dict keys and values, at any depth (serializer results are opaque
    and not looked into). -/
theorem C13_no_instances_left (o : Opts) (v : PVal) (out : Out) (h : asdictTop o true v = .ok out) :
    clean ⟨false, true, false⟩ out = true := by
  cases v with
  | inst c hh fs =>
    simp only [asdictTop, if_true] at h
    obtain ⟨items, h1, rfl⟩ := map_eq_ok h
    simpa [clean] using fieldsD_clean ⟨false, true, false⟩ o (by simp [Ban.fits]) c fs items h1
  | atom a => simp [asdictTop] at h
  | coll k xs => simp [asdictTop] at h
  | dict k ps => simp [asdictTop] at h

/-! ## Container shapes -/

/-- **C13_container_shapes**: whatever is inside, a collection met by the conversion is rebuilt as a *new*
    list — its own class when retaining, a tuple in dict-key position —, a dict as a new `dict_factory`
    mapping (also when retaining), an instance as a new `dict_factory` mapping. -/
theorem C13_container_shapes (o : Opts) (isKey : Bool) (out : Out) :
    (∀ k xs, anything o isKey (.coll k xs) = .ok out →
      ∃ items, out = .coll false (if o.retain then k else if isKey then .tuple else .list) items) ∧
    (∀ dk ps, anything o isKey (.dict dk ps) = .ok out → ∃ items, out = .dict false o.df items) ∧
    (∀ c h fs, anything o isKey (.inst c h fs) = .ok out → ∃ items, out = .record o.df items) := by
  refine ⟨?_, ?_, ?_⟩
  · intro k xs h
    simp only [anything] at h
    obtain ⟨ys, _, h2⟩ := bind_eq_ok h
    exact codeColl_shape h2
  · intro dk ps h
    simp only [anything] at h
    obtain ⟨qs, _, h2⟩ := bind_eq_ok h
    exact pyDict_shape h2
  · intro c hh fs h
    simp only [anything] at h
    obtain ⟨items, _, rfl⟩ := map_eq_ok h
    exact ⟨_, rfl⟩

/-- the same at the other site (a field value in `asdict` itself), and for `astuple` (dicts: `dict`, or their
    own class when retaining) -/
theorem C13_container_shapes_field (o : Opts) (c : Nat) (f : FI) (flt : Filter) (out : Out) (hw : o.ser ≠ .wrap) :
    (∀ k xs, fieldD o c f (.coll k xs) = .ok out →
      ∃ items, out = .coll false (if o.retain then k else .list) items) ∧
    (∀ dk ps, fieldD o c f (.dict dk ps) = .ok out → ∃ items, out = .dict false o.df items) ∧
    (∀ k xs, tfield o flt (.coll k xs) = .ok out →
      ∃ items, out = .coll false (if o.retain then k else .list) items) ∧
    (∀ dk ps, tfield o flt (.dict dk ps) = .ok out →
      ∃ items, out = .dict false (if o.retain then dk else .dict) items) := by
  refine ⟨?_, ?_, ?_, ?_⟩
  · intro k xs h
    simp only [fieldD, beq_iff_eq, hw, if_false] at h
    obtain ⟨ys, _, h2⟩ := bind_eq_ok h
    exact codeColl_shape h2
  · intro dk ps h
    simp only [fieldD, beq_iff_eq, hw, if_false] at h
    obtain ⟨qs, _, h2⟩ := bind_eq_ok h
    exact pyDict_shape h2
  · intro k xs h
    simp only [tfield] at h
    obtain ⟨ys, _, h2⟩ := bind_eq_ok h
    exact codeColl_shape h2
  · intro dk ps h
    simp only [tfield] at h
    obtain ⟨qs, _, h2⟩ := bind_eq_ok h
    exact pyDict_shape h2

/-! ## Serializer positions -/

/-- **C13_serializer_positions** (the reading of "applied to every value" fixed in DESIGN §5):
    a field value goes through `value_serializer(inst, a, v)` *before* recursion — so an opaque result stops
    it —, a leaf inside a container through `value_serializer(None, None, v)`; containers and instances
    inside containers are not passed to it.  (The symbolic serializers: `wrap` replaces every value,
    `wrapLeaf` replaces int / str / None, `wrapAtoms` every value that is not an attrs instance / list / tuple /
    set / dict — class objects, functions, … included; everything else is returned as it is.) -/
theorem C13_serializer_positions (o : Opts) (c : Nat) (f : FI) (isKey : Bool) :
    (∀ v, o.ser = .wrap → fieldD o c f v = .ok (.ser (some c) (some f.name) (embed v))) ∧
    (∀ a, serApplies o.ser a = true → fieldD o c f (.atom a) = .ok (.ser (some c) (some f.name) (.atom a))) ∧
    (∀ a, serApplies o.ser a = true → anything o isKey (.atom a) = .ok (.ser none none (.atom a))) ∧
    (∀ a, serApplies o.ser a = false →
      fieldD o c f (.atom a) = .ok (.atom a) ∧ anything o isKey (.atom a) = .ok (.atom a)) ∧
    (∀ a, serApplies o.ser a = (o.ser == .wrap || o.ser == .wrapAtoms || (o.ser == .wrapLeaf && a.isScalar))) := by
  refine ⟨?_, ?_, ?_, ?_, ?_⟩
  · intro v h; cases v <;> simp [fieldD, h, serFieldAtom, serApplies, embed]
  · intro a h; simp [fieldD, serFieldAtom, h]
  · intro a h; simp [anything, serLeaf, h]
  · intro a h; simp [fieldD, anything, h, serFieldAtom, serLeaf]
  · intro a; cases hs : o.ser <;> simp [serApplies]

/-- … and globally: with a serializer no bare scalar is left anywhere in the result of `asdict` (every value
    went through it), without one the result contains no serializer node; any depth. -/
theorem C13_serializer_everywhere (o : Opts) (v : PVal) (out : Out) (h : asdictTop o true v = .ok out) :
    (o.ser ≠ .off → o.ser ≠ .subst → clean ⟨true, true, false⟩ out = true) ∧
    (o.ser = .off → clean ⟨false, true, true⟩ out = true) := by
  cases v with
  | inst c hh fs =>
    simp only [asdictTop, if_true] at h
    obtain ⟨items, h1, rfl⟩ := map_eq_ok h
    constructor
    · intro hs hs'
      simpa [clean] using fieldsD_clean ⟨true, true, false⟩ o (by simp [Ban.fits, hs, hs']) c fs items h1
    · intro hs
      simpa [clean] using fieldsD_clean ⟨false, true, true⟩ o (by simp [Ban.fits, hs]) c fs items h1
  | atom a => simp [asdictTop] at h
  | coll k xs => simp [asdictTop] at h
  | dict k ps => simp [asdictTop] at h

/-- **C13_serializer_result_is_used**: the value in the result is what the serializer *returned*, whatever that
    is — `None`, a falsy value, `NOTHING`, a container, an attrs instance: below field level it is stored as it
    is (`embed`), at field level it is what the branches of `asdict` make of it (for a leaf: itself; in particular
    a result of `None` is not taken for "not handled"); with `recurse=False` it is stored as it is. -/
theorem C13_serializer_result_is_used (o : Opts) (s : Subst) (c : Nat) (f : FI) (isKey : Bool) :
    (∀ a, s.target.hits none (.atom a) = true → anythingS o s isKey (.atom a) = .ok (embed s.repl)) ∧
    (∀ v, s.target.hits (some f.name) v = true → fieldS o s c f v = fieldD o.noSer c f s.repl) ∧
    (∀ v r, s.target.hits (some f.name) v = true → s.repl = .atom r → fieldS o s c f v = .ok (.atom r)) ∧
    (∀ v fs, s.target.hits (some f.name) v = true → passes o.filter f v = true →
      flatS o s ((f, v) :: fs) = (f.name, embed s.repl) :: flatS o s fs) := by
  refine ⟨?_, ?_, ?_, ?_⟩
  · intro a h; simp [anythingS, h]
  · intro v h; cases v <;> simp [fieldS, h]
  · intro v r h hr
    cases v <;> simp [fieldS, h, hr, fieldD, Opts.noSer, serFieldAtom, serApplies]
  · intro v fs h hp; simp [flatS, h, hp]

/-! ## astuple -/

/-- **C13_astuple_positional**: `astuple` yields, in field order, exactly one value per filter-passing field
    (so position i is the i-th passing field), built by `tuple_factory`; it recurses into field values and their
    direct members only: a non-instance member is the very same object. -/
theorem C13_astuple_positional (o : Opts) (cls : Nat) (h : Option Nat) (fs : List (FI × PVal)) :
    astupleTop o true (.inst cls h fs)
      = (seqE ((passing o.filter fs).map (fun p => tfield o o.filter p.2))).map (tfOut o.tf) ∧
    (∀ out, astupleTop o true (.inst cls h fs) = .ok out →
      ∃ items, out = tfOut o.tf items ∧ items.length = (passing o.filter fs).length) ∧
    (∀ flt k xs, tmember o flt (.coll k xs) = .ok (embed (.coll k xs))) ∧
    (∀ flt k ps, tmember o flt (.dict k ps) = .ok (embed (.dict k ps))) := by
  refine ⟨?_, ?_, ?_, ?_⟩
  · simp [astupleTop, tupleOf_positional]
  · intro out hout
    simp only [astupleTop, if_true, tupleOf_positional] at hout
    obtain ⟨items, h1, rfl⟩ := map_eq_ok hout
    exact ⟨items, rfl, by simpa using seqE_length _ items h1⟩
  · intro flt k xs; simp [tmember]
  · intro flt k ps; simp [tmember]

/-- **C13_astuple_matches_asdict** ("the corresponding values"): on trees made of scalars and instances
    (any depth) `astuple` is `asdict` with the names dropped. -/
theorem C13_astuple_matches_asdict (o : Opts) (hs : o.ser = .off) (v : PVal) (hi : instOnly v = true) :
    astupleTop o true v = (asdictTop o true v).map (strip o.tf) := by
  cases v with
  | inst c h fs =>
    have := tupleOf_eq_strip o hs c fs (by simpa [instOnly] using hi)
    simp only [astupleTop, asdictTop, if_true, this]
    cases fieldsD o c fs <;> simp [strip]
  | atom a => simp [astupleTop, asdictTop]
  | coll k xs => simp [instOnly] at hi
  | dict k ps => simp [instOnly] at hi

/-! ## Purity, round trip, filters, next-gen wrappers -/

/-- **C13_pure**: the functions are functions of the argument tree (the model has no store to write to);
    on the real code this is the observed deep before / after snapshot. -/
theorem C13_pure (c : Case) : (model c).argUnchanged = true := rfl

/-- **C13_roundtrip_flat**: for a flat class (scalar values) whose fields are public `__init__` arguments,
    `cls(**asdict(x))` binds every field to its own value: an equal instance; any recurse / retain /
    dict_factory. -/
theorem C13_roundtrip_flat (c : Case) (h : roundtripApplies c = true) (cls : Nat) (hh : Option Nat)
    (fs : List (FI × PVal)) (hv : c.value = .inst cls hh fs) (hd : namesDistinct (fs.map (·.1.name)) = true) :
    ∃ items, runPlain c = .ok (.record c.opts.df items) ∧
      construct cls (fs.map (·.1)) items = some (.inst cls none fs) ∧ hh = none := by
  simp only [roundtripApplies, hv, Bool.and_eq_true, beq_iff_eq] at h
  obtain ⟨⟨⟨⟨hapi, hflt⟩, hser⟩, _⟩, hnone, hall⟩ := h
  have ha : allAtoms fs = true := by
    simp only [allAtoms, List.all_eq_true] at hall ⊢
    intro p hp; have := hall p hp; simp only [Bool.and_eq_true] at this; exact this.1.1
  have hpub : fs.all (fun p => publicName p.1.name && p.1.init) = true := by
    simp only [List.all_eq_true] at hall ⊢
    intro p hp; have := hall p hp; simp only [Bool.and_eq_true] at this ⊢; exact ⟨this.1.2, this.2⟩
  have hf : c.opts.filter = .none := hflt
  have hs : c.opts.ser = .off := by simp [Case.opts, hapi, hser]
  refine ⟨flatItems fs, ?_, construct_flat cls fs hd ha hpub, by simpa using hnone⟩
  have hsub : c.activeSubst = none := by simp [Case.activeSubst, hser]
  cases hrec : c.recurse
  · simp [runPlain, hapi, hv, asdictTop, hrec, hsub, flatD_flat c.opts cls hf hs]
  · simp [runPlain, hapi, hv, asdictTop, hrec, hsub, fieldsD_flat c.opts cls hf hs fs ha]

/-- **C13_exclude_is_negation**: `exclude(*what)` passes exactly what `include(*what)` rejects; and `include`
    passes iff the value's exact class, the attribute's name or the attribute itself is listed. -/
theorem C13_exclude_is_negation (ts : List TyTag) (ns : List String) (ss : List Nat) (f : FI) (v : PVal) :
    passes (.excl ts ns ss) f v = !passes (.incl ts ns ss) f v ∧
    (passes (.incl ts ns ss) f v = true ↔ (tyOf v ∈ ts ∨ f.name ∈ ns ∨ f.sig ∈ ss)) := by
  refine ⟨rfl, ?_⟩
  simp [passes, matchesWhat, or_assoc]

/-- **C13_nextgen_retains**: `attrs.asdict` / `attrs.astuple` are `attr.asdict` / `attr.astuple` with
    `retain_collection_types=True` and the default factories, whatever else is passed. -/
theorem C13_nextgen_retains (c : Case) (h : c.ng = true) :
    runPlain c = runPlain { c with ng := false, retain := true, dictFactory := .dict, tupleFactory := .tuple } := by
  simp [runPlain, Case.opts, Case.activeSubst, h]

/-! ## Repaired deviations K13a / K13b / K13c: the former witnesses now satisfy the specification, and they
    discriminate — the model of the unrepaired code (`Proofs/C13Old.lean`) fails it on each -/

theorem K13a_fixed : wf witnessK13a = true ∧ spec witnessK13a (model witnessK13a) = true ∧
    spec witnessK13a (Old.model witnessK13a) = false :=
  ⟨by decide, C13_model_meets_spec _, old_fails_K13a⟩

theorem K13b_fixed : wf witnessK13b = true ∧ spec witnessK13b (model witnessK13b) = true ∧
    spec witnessK13b (Old.model witnessK13b) = false :=
  ⟨by decide, C13_model_meets_spec _, old_fails_K13b⟩

theorem K13c_fixed : wf witnessK13c = true ∧ spec witnessK13c (model witnessK13c) = true ∧
    spec witnessK13c (Old.model witnessK13c) = false :=
  ⟨by decide, C13_model_meets_spec _, old_fails_K13c⟩

/-- what the repaired code returns on them: the tuple key stays a (deep) tuple, the one-field namedtuple
    holds its item, the filter reaches the instance inside the dict -/
theorem K13_fixed_values :
    runPlain witnessK13a = .ok (.record .dict [("x", .dict false .dict
      [(.coll false .tuple [.coll false .tuple [.atom (.int 1)], .atom (.int 2)], .atom (.int 3))]), ("y", .atom (.int 4))]) ∧
    runPlain witnessK13b = .ok (.record .dict [("x", .coll false (.ntuple 0) [.atom (.int 1)]), ("y", .atom (.int 4))]) ∧
    runPlain witnessK13c = .ok (.coll false .tuple [.dict false .dict
      [(.atom (.int 1), .coll false .tuple [.atom (.int 2)])]]) := by
  refine ⟨?_, ?_, ?_⟩ <;> rfl

/-! ## Non-vacuity -/

/-- a deep case with nested namedtuples, collection keys, an instance in a list in a dict value: the
    conversion succeeds -/
def sample : Case :=
  { api := .asdict, ng := false, recurse := true, retain := true, filter := .excl [.str] ["nope"] [],
    dictFactory := .odict, tupleFactory := .tuple, ser := .wrapLeaf, fault := none, subst := none,
    value := .inst 0 none
      [(fx, .coll (.ntuple 0) [int 1, .coll (.ntuple 1) [int 2, .coll .frozenset [int 3]]]),
       (fy, .dict .dict [(.coll .tuple [int 1, int 2], .coll .list [.inst 0 none [(fx, int 5), (fy, .atom (.str 1))]])])] }

example : wf sample = true ∧ (∃ v, run sample = .ok v) := ⟨by decide, _, rfl⟩
example : roundtripApplies { witnessK13b with value := .inst 0 none [(fx, int 1), (fy, int 4)] } = true := by
  decide +kernel
example : instOnly (.inst 0 none [(fx, .inst 0 none [(fx, int 1), (fy, int 2)]), (fy, int 4)]) = true := by decide

/-- faults: in `sample` the serializer is called 8 times; the 8th call raising makes the call raise, a 9th does
    not exist, so the call completes -/
example : calls sample .ser = 8 ∧ fires { sample with fault := some ⟨.ser, 8⟩ } = true ∧
    fires { sample with fault := some ⟨.ser, 9⟩ } = false ∧
    (model { sample with fault := some ⟨.ser, 8⟩ }).result.eqv (.exc "fault") = true := by decide

end Attrs.C13
