/-
  C14 — property theorems.  Every statement is for an arbitrary case: any combination of written flags, any
  list of names bound in the class body (any length), any base shape; the frame theorems are for arbitrary
  class dicts (association lists of any length, duplicates allowed).

  Vocabulary: `(finalDict c).get n` is what the resulting class's own dict holds under `n` according to the
  model of `attrs.wrap` + `_ClassBuilder` (`Slot.gen` = attrs-generated method, `Slot.user` = the very object
  the body bound); `untouched c n` is what the class's dict held before decoration (`user` if the body binds
  `n`, CPython's implicit `__hash__ = None`, else `absent`); `tell` is the documented decision table.
-/
import AttrsModel.Proofs.C14Final
import AttrsModel.Proofs.C14Inherit
import AttrsModel.Proofs.SrcFuncs
import AttrsModel.Proofs.SrcWrap
import AttrsModel.Proofs.SrcDefine

namespace Attrs.C14

/-! ### the decision function itself -/

/-- **C14_determine_table**: `_determine_whether_to_implement`, for any class dict and any tuple of
    dunders: explicit flag, else (under auto-detection) skipped iff one of the dunders is in the dict,
    else the default. -/
theorem C14_determine_table (cd : Dict) (flag : Option Bool) (ad : Bool) (ns : List String) (dflt : Bool) :
    determine cd (triOf flag) ad ns dflt =
      match flag with
      | some b => b
      | none => if ad && ns.any (fun n => cd.has n) then false else dflt := by
  rw [determine_eq_tell]; rfl

/-! ### defaults -/

/-- **C14_defaults_documented**: the keyword defaults extracted from the source of `attrs()`, `define()`
    and `frozen = partial(define, …)` (T1 tables, regenerated on every run) are the documented ones. -/
theorem C14_defaults_documented (api : Api) :
    kw api "auto_detect" = some (.bool (doc api).autoDetect) ∧
    kw api "slots" = some (.bool (doc api).slots) ∧
    kw api "frozen" = some (.bool (doc api).frozen) ∧
    kw api "auto_exc" = some (.bool (doc api).autoExc) ∧
    kw api "str" = some (.bool false) ∧
    kw api "match_args" = some (.bool true) ∧
    kw api "cache_hash" = some (.bool false) ∧
    kw api "repr" = some .none ∧ kw api "eq" = some .none ∧ kw api "init" = some .none ∧
    kw api "getstate_setstate" = some .none ∧ kw api "hash" = some .none ∧
    kw api "unsafe_hash" = some .none ∧ kw api "on_setattr" = some .none ∧
    kw api "order" = some (if (doc api).orderMirrorsEq then .none else .bool false) ∧
    (doc .attrS).autoDetect = false ∧ (doc .define).autoDetect = true ∧ (doc .frozen).autoDetect = true ∧
    (doc .attrS).orderMirrorsEq = true ∧ (doc .define).orderMirrorsEq = false ∧
    (doc .attrS).slots = false ∧ (doc .define).slots = true ∧ (doc .frozen).frozen = true := by
  cases api <;> decide

/-- the resolved arguments of the model (read from the tables) are the documented ones -/
theorem C14_resolved_args (c : Case) :
    autoDetect c = c.oAutoDetect.getD (doc c.api).autoDetect ∧
    slots c = c.oSlots.getD (doc c.api).slots ∧
    frozenFlag c = c.oFrozen.getD (doc c.api).frozen ∧
    strFlag c = c.oStr.getD false ∧
    matchArgsFlag c = c.oMatchArgs.getD true := by
  refine ⟨autoDetect_eq c, slots_eq c, frozenFlag_eq c, ?_, ?_⟩
  · rw [strFlag_eq]; unfold sStr; cases c.api <;> rfl
  · rw [matchArgsFlag_eq]; unfold sMatchArgs; cases c.api <;> rfl

/-! ### the table, on the resulting class dict -/

/-- one row of the documented table: the names of a group, its explicit flag, its default -/
structure Row where
  names : List String
  flag  : Option Bool
  dflt  : Bool

/-- The boolean groups.  eq and order are rows only for non-exception classes (`auto_exc` ignores them). -/
def rows (c : Case) : List Row :=
  [ { names := ["__repr__"], flag := written c.fRepr, dflt := true },
    { names := ["__init__"], flag := written c.fInit, dflt := true },
    { names := ["__getstate__", "__setstate__"], flag := written c.fGss, dflt := sSlots c } ] ++
  (if sIsExc c then [] else
    [ { names := ["__eq__", "__ne__"], flag := sEqFlag c, dflt := true },
      { names := ["__lt__", "__le__", "__gt__", "__ge__"], flag := sOrderFlag c, dflt := true } ])

def Row.decided (c : Case) (r : Row) : Bool := tell r.flag (sAuto c) (ownsAny c r.names) r.dflt

/-- **C14_table**: if decorating did not raise, then for every group and each of its names the resulting
    class dict holds the generated method when the documented table says "generate", and otherwise exactly
    what the class had before (the user's own object, or nothing). -/
theorem C14_table (c : Case) (hwf : wf c = true) (hb : (model c).err = none) (r : Row) (hr : r ∈ rows c)
    (n : String) (hn : n ∈ r.names) :
    (finalDict c).get n = if r.decided c then .gen else untouched c n := by
  have hcmp := hcmp_of_wf c hwf
  have hE : expectErr c = false := (firstError_none_iff_expectErr c hcmp).1 ((built_iff c).1 hb)
  unfold rows at hr
  simp only [List.mem_append, List.mem_cons, List.not_mem_nil, or_false] at hr
  have key : ∀ m : String, m ≠ "__setattr__" → m ≠ ownSetattrKey → m ≠ "__hash__" →
      slotsDropped.contains m = false → (finalDict c).get m = (toldSlot c m).getD (untouched c m) :=
    fun m => get_final_told c hwf hE m
  rcases hr with (hr | hr | hr) | hr
  · subst hr
    simp only [List.mem_cons, List.not_mem_nil, or_false] at hn
    subst hn
    rw [key _ (by decide) (by decide) (by decide) (by decide)]
    simp +decide [toldSlot, Row.decided, wantRepr]
    exact ite_getD _ _ _
  · subst hr
    simp only [List.mem_cons, List.not_mem_nil, or_false] at hn
    subst hn
    rw [key _ (by decide) (by decide) (by decide) (by decide)]
    simp +decide [toldSlot, Row.decided, wantInit]
    exact ite_getD _ _ _
  · subst hr
    simp only [List.mem_cons, List.not_mem_nil, or_false] at hn
    rcases hn with hn | hn <;> subst hn <;>
      rw [key _ (by decide) (by decide) (by decide) (by decide)] <;>
      simp +decide [toldSlot, Row.decided, wantGss] <;> exact ite_getD _ _ _
  · cases hx : sIsExc c
    · simp only [hx, Bool.false_eq_true, if_false, List.mem_cons, List.not_mem_nil, or_false] at hr
      rcases hr with hr | hr
      · subst hr
        simp only [List.mem_cons, List.not_mem_nil, or_false] at hn
        rcases hn with hn | hn <;> subst hn <;>
          rw [key _ (by decide) (by decide) (by decide) (by decide)] <;>
          simp +decide [toldSlot, Row.decided, wantEq, wantEqRaw, hx] <;> exact ite_getD _ _ _
      · subst hr
        simp only [List.mem_cons, List.not_mem_nil, or_false] at hn
        rcases hn with hn | hn | hn | hn <;> subst hn <;>
          rw [key _ (by decide) (by decide) (by decide) (by decide)] <;>
          simp +decide [toldSlot, Row.decided, wantOrder, hx] <;> exact ite_getD _ _ _
    · simp [hx] at hr


/-- **C14_flag_obeyed**: an explicit `True`/`False` (through `cmp=` for eq and order too) always wins, for
    every group and each of its names: `True` ⇒ the generated method is there, `False` ⇒ the name holds
    exactly what it held before — whatever auto_detect, the body, the bases, slots, frozen say. -/
theorem C14_flag_obeyed (c : Case) (hwf : wf c = true) (hb : (model c).err = none) (r : Row)
    (hr : r ∈ rows c) (b : Bool) (hf : r.flag = some b) (n : String) (hn : n ∈ r.names) :
    (finalDict c).get n = if b then .gen else untouched c n := by
  rw [C14_table c hwf hb r hr n hn]
  simp [Row.decided, tell, hf]

/-- **C14_autodetect**: no explicit flag and auto-detection on ⇒ a group whose default is on is generated
    iff none of its names is bound in the class body itself (names defined by bases never count: the
    statement does not mention them); a skipped group leaves every name untouched. -/
theorem C14_autodetect (c : Case) (hwf : wf c = true) (hb : (model c).err = none) (r : Row)
    (hr : r ∈ rows c) (hf : r.flag = none) (had : sAuto c = true) (n : String) (hn : n ∈ r.names) :
    ((finalDict c).get n = .gen ↔ (r.dflt = true ∧ ownsAny c r.names = false)) ∧
    ((finalDict c).get n ≠ .gen → (finalDict c).get n = untouched c n) := by
  rw [C14_table c hwf hb r hr n hn]
  have hne := untouched_ne_gen c n
  cases hd : r.dflt <;> cases ho : ownsAny c r.names <;> simp [Row.decided, tell, hf, had, hd, ho, hne]

/-- **C14_defaults**: no explicit flag and (auto-detection off, or no own name in the group) ⇒ the
    documented default: repr, init, eq, order rows are on; the pickling helpers follow slotted-ness. -/
theorem C14_defaults (c : Case) (hwf : wf c = true) (hb : (model c).err = none) (r : Row)
    (hr : r ∈ rows c) (hf : r.flag = none) (h : sAuto c = false ∨ ownsAny c r.names = false)
    (n : String) (hn : n ∈ r.names) :
    (finalDict c).get n = if r.dflt then .gen else untouched c n := by
  rw [C14_table c hwf hb r hr n hn]
  rcases h with h | h <;> simp [Row.decided, tell, hf, h]

/-- the default column of the table: everything on, except that getstate/setstate follow slotted-ness -/
theorem C14_defaults_rows (c : Case) (r : Row) (hr : r ∈ rows c) :
    r.dflt = if r.names = ["__getstate__", "__setstate__"] then sSlots c else true := by
  unfold rows at hr
  simp only [List.mem_append, List.mem_cons, List.not_mem_nil, or_false] at hr
  rcases hr with (hr | hr | hr) | hr
  · subst hr; simp
  · subst hr; simp
  · subst hr; simp
  · cases hx : sIsExc c
    · simp only [hx, Bool.false_eq_true, if_false, List.mem_cons, List.not_mem_nil, or_false] at hr
      rcases hr with hr | hr <;> subst hr <;> simp
    · simp [hx] at hr

/-- **C14_str_default**: `__str__` is written iff `str=True`; left out, it is off. -/
theorem C14_str_default (c : Case) (hwf : wf c = true) (hb : (model c).err = none) :
    (finalDict c).get "__str__" = (if c.oStr = some true then .gen else untouched c "__str__") := by
  have hcmp := hcmp_of_wf c hwf
  have hE : expectErr c = false := (firstError_none_iff_expectErr c hcmp).1 ((built_iff c).1 hb)
  rw [get_final_told c hwf hE _ (by decide) (by decide) (by decide) (by decide)]
  have : sStr c = (c.oStr == some true) := by
    unfold sStr; cases c.api <;> cases c.oStr <;> simp [doc]
  simp +decide [toldSlot, this]
  cases c.oStr with
  | none => simp
  | some b => cases b <;> simp

/-- **C14_order_mirrors_eq** (on `_determine_attrs_eq_order` as modelled, defaults from the tables):
    `cmp=` sets both; otherwise a missing `order` mirrors the eq *flag* under attr.s and is off under
    define/frozen, and an explicit `order=None` mirrors the eq flag everywhere. -/
theorem C14_order_mirrors_eq (c : Case) (hcmp : c.api = .attrS ∨ c.fCmp = .unset)
    (hok : (cmpMix c || orderNeedsEq c) = false) :
    (∀ b, written c.fCmp = some b → eqTri c = triOf (some b) ∧ orderTri c = triOf (some b)) ∧
    (written c.fCmp = none → (c.fOrder = .non ∨ (c.fOrder = .unset ∧ c.api = .attrS)) →
      orderTri c = eqTri c) ∧
    (written c.fCmp = none → c.fOrder = .unset → c.api ≠ .attrS → orderTri c = .f) := by
  rw [eqTri_eq c hcmp hok, orderTri_eq c hcmp hok]
  unfold sOrderFlag sEqFlag
  refine ⟨?_, ?_, ?_⟩
  · intro b hb; simp [hb]
  · intro hn h
    rcases h with h | ⟨h, ha⟩
    · simp [hn, h]
    · simp [hn, h, ha, doc]
  · intro hn h ha
    cases hapi : c.api <;> simp_all [doc, triOf]

/-- **C14_attrs_init_iff**: `__attrs_init__` is generated exactly when `__init__` is not (and then it is
    the script of the `__init__` that would have been generated: same generator, `attrs_init=True`). -/
theorem C14_attrs_init_iff (c : Case) (hwf : wf c = true) (hb : (model c).err = none) :
    ((finalDict c).get "__attrs_init__" = .gen ↔ (finalDict c).get "__init__" ≠ .gen) ∧
    ((finalDict c).get "__attrs_init__" = .gen ↔ wantInit c = false) ∧
    ((finalDict c).get "__attrs_init__" ≠ .gen →
      (finalDict c).get "__attrs_init__" = untouched c "__attrs_init__") := by
  have hcmp := hcmp_of_wf c hwf
  have hE : expectErr c = false := (firstError_none_iff_expectErr c hcmp).1 ((built_iff c).1 hb)
  rw [get_final_told c hwf hE "__attrs_init__" (by decide) (by decide) (by decide) (by decide),
    get_final_told c hwf hE "__init__" (by decide) (by decide) (by decide) (by decide)]
  have h1 := untouched_ne_gen c "__attrs_init__"
  have h2 := untouched_ne_gen c "__init__"
  cases hw : wantInit c <;> simp +decide [toldSlot, hw, h1, h2]

/-- **C14_match_args**: `__match_args__` is generated iff `match_args` is on and the body does not bind
    its own (there is no "unset" state to detect: an own `__match_args__` always wins). -/
theorem C14_match_args (c : Case) (hwf : wf c = true) (hb : (model c).err = none) :
    ((finalDict c).get "__match_args__" = .genTuple ↔
      (c.py310 = true ∧ c.oMatchArgs.getD true = true ∧ owns c "__match_args__" = false)) ∧
    (owns c "__match_args__" = true → (finalDict c).get "__match_args__" = .user) := by
  have hcmp := hcmp_of_wf c hwf
  have hE : expectErr c = false := (firstError_none_iff_expectErr c hcmp).1 ((built_iff c).1 hb)
  rw [get_final_told c hwf hE "__match_args__" (by decide) (by decide) (by decide) (by decide)]
  have h1 := untouched_ne_genTuple c "__match_args__"
  have hm : sMatchArgs c = c.oMatchArgs.getD true := by unfold sMatchArgs; cases c.api <;> rfl
  have hu : owns c "__match_args__" = true → untouched c "__match_args__" = .user := by
    intro h; rw [untouched_eq, h]; rfl
  constructor
  · cases hw : wantMatchArgs c
    · simp +decide [toldSlot, hw, h1]
      unfold wantMatchArgs at hw; rw [hm] at hw
      intro a b; cases ho : owns c "__match_args__" <;> simp_all
    · simp +decide [toldSlot, hw]
      unfold wantMatchArgs at hw; rw [hm] at hw
      simpa [Bool.and_eq_true, and_assoc] using hw
  · intro ho
    have hw : wantMatchArgs c = false := by unfold wantMatchArgs; simp [ho]
    simp +decide [toldSlot, hw, hu ho]

/-- **C14_hash_table**: the three-way `__hash__` decision on the resulting dict: generated / set to None /
    left alone — and "left alone" spelled out, including the `__hash__ = None` CPython itself adds (next to a
    body-defined `__eq__`; and, in the slotted rebuild, next to a generated one). -/
theorem C14_hash_table (c : Case) (hwf : wf c = true) (hb : (model c).err = none) :
    (finalDict c).get "__hash__" =
      match wantHash c with
      | .gen => .gen
      | .setNone => .pyNone
      | .leave =>
        if owns c "__hash__" then .user
        else if owns c "__eq__" then .pyNone
        else if sSlots c && wantEq c then .pyNone
        else .absent := by
  have hcmp := hcmp_of_wf c hwf
  exact get_final_hash c hwf ((firstError_none_iff_expectErr c hcmp).1 ((built_iff c).1 hb))

/-- **C14_hash_flag_obeyed / autodetect / default**: rows of the `__hash__` decision. -/
theorem C14_hash_rows (c : Case) :
    (sHash c = .t → sIsExc c = false → wantHash c = .gen) ∧
    (sHash c = .f → wantHash c = .leave) ∧
    ((sHash c = .unset ∨ sHash c = .non) → sAuto c = true → ownsHash c = true → wantHash c = .leave) ∧
    ((sHash c = .unset ∨ sHash c = .non) → (sAuto c = false ∨ ownsHash c = false) → sIsExc c = false →
      wantHash c = if wantEqRaw c then (if sFrozen c then .gen else .setNone) else .leave) := by
  unfold wantHash
  refine ⟨?_, ?_, ?_, ?_⟩
  · intro h hx; simp [h, hx]
  · intro h; simp [h]
  · intro h ha ho; rcases h with h | h <;> simp [h, ha, ho]
  · intro h h2 hx
    rcases h with h | h <;> rcases h2 with h2 | h2 <;>
      cases wantEqRaw c <;> cases sFrozen c <;> simp [h, h2, hx]

/-- explicit `hash=False`/`unsafe_hash=False`: the user's own `__hash__` stays, nothing is generated -/
theorem C14_hash_false_obeyed (c : Case) (hwf : wf c = true) (hb : (model c).err = none)
    (h : sHash c = .f) :
    (finalDict c).get "__hash__" ≠ .gen ∧
    (owns c "__hash__" = true → (finalDict c).get "__hash__" = .user) := by
  rw [C14_hash_table c hwf hb, (C14_hash_rows c).2.1 h]
  constructor
  · simp only; split
    · exact fun h => Slot.noConfusion h
    · split
      · exact fun h => Slot.noConfusion h
      · split <;> exact fun h => Slot.noConfusion h
  · intro ho; simp [ho]

/-- **C14_exc_ignored**: for exception classes under `auto_exc` the values of eq and order are ignored —
    the comparison names stay exactly what they were, whatever the flags. -/
theorem C14_exc_ignored (c : Case) (hwf : wf c = true) (hb : (model c).err = none)
    (hx : sIsExc c = true) (n : String)
    (hn : n ∈ ["__eq__", "__ne__", "__lt__", "__le__", "__gt__", "__ge__"]) :
    (finalDict c).get n = untouched c n := by
  have hcmp := hcmp_of_wf c hwf
  have hE : expectErr c = false := (firstError_none_iff_expectErr c hcmp).1 ((built_iff c).1 hb)
  simp only [List.mem_cons, List.not_mem_nil, or_false] at hn
  rcases hn with hn | hn | hn | hn | hn | hn <;> subst hn <;>
    rw [get_final_told c hwf hE _ (by decide) (by decide) (by decide) (by decide)] <;>
    simp +decide [toldSlot, wantEq, wantOrder, hx]

/-- **C14_setattr**: `__setattr__`/`__delattr__` are written only for a frozen class (by argument or by
    inheritance) or an effective on_setattr hook; otherwise `__setattr__` is left alone, except for the reset
    to `object.__setattr__` below an attrs-made `__setattr__` — and that reset happens only when the body binds no
    `__setattr__` of its own, whatever auto_detect says (K8 repaired). -/
theorem C14_setattr (c : Case) (hwf : wf c = true) (hb : (model c).err = none) :
    (finalDict c).get "__setattr__" =
      (if sFrozen c then .frozenSetattr
       else if sHooks c then .gen
       else if hookedVisible c && !owns c "__setattr__" then .objSetattr
       else untouched c "__setattr__") ∧
    (finalDict c).get "__delattr__" = (if sFrozen c then .frozenDelattr else untouched c "__delattr__") := by
  have hcmp := hcmp_of_wf c hwf
  have hE : expectErr c = false := (firstError_none_iff_expectErr c hcmp).1 ((built_iff c).1 hb)
  constructor
  · rw [get_final_setattr c hwf hE]
    cases h1 : sFrozen c <;> cases h2 : sHooks c <;> simp +decide [toldSlot, h1, h2]
  · rw [get_final_told c hwf hE _ (by decide) (by decide) (by decide) (by decide)]
    cases h1 : sFrozen c <;> simp +decide [toldSlot, h1]


/-- **C14_inherited_irrelevant**: names defined by base classes never count as "own": replacing the list
    of base-defined names by any other list (of any length) leaves every decision, every error and the whole
    resulting class dict unchanged — as long as the two lists agree on `__setattr__`, the one inherited name
    attrs does look at (to recognise a frozen base). -/
theorem C14_inherited_irrelevant (c : Case) (l : List String)
    (h : l.contains "__setattr__" = c.baseDefines.contains "__setattr__") :
    model { c with baseDefines := l } = model c :=
  model_congr c l h

/-- **C14_history_irrelevant**: the decision table is a function of the class alone — whatever classes the same
    decorator object was applied to before (any number, any bodies), the errors, the decisions and the whole
    resulting class dict are the same.  (The correspondence really re-uses one decorator object; a decision that
    leaks from one decorated class into the next shows up as a difference between the code and this model.) -/
theorem C14_history_irrelevant (c : Case) (h : List (List String)) :
    model { c with history := h } = model c := rfl

/-! ### user-defined methods are never replaced -/

/-- the keys the builder writes -/
def writtenKeys (d : Dec) : List String := (builderWrites d).map Prod.fst

/-- **C14_written_only_if_decided**: the builder writes a key only if the key belongs to a group it
    decided to generate (for frozen / hooked: the `__setattr__` machinery; `make_unhashable`: `__hash__`). -/
theorem C14_written_only_if_decided (d : Dec) (k : String) (h : k ∈ writtenKeys d) :
    (d.isFrozen = true ∧ k ∈ ["__setattr__", "__delattr__"]) ∨
    (d.gss = true ∧ k ∈ ["__getstate__", "__setstate__"]) ∨
    (d.str = true ∧ k = "__str__") ∨
    (d.eq = true ∧ k ∈ ["__eq__", "__ne__"]) ∨
    (d.order = true ∧ k ∈ ["__lt__", "__le__", "__gt__", "__ge__"]) ∨
    (d.hooks = true ∧ k ∈ ["__attrs_own_setattr__", "__setattr__"]) ∨
    (d.hash ≠ .leave ∧ k = "__hash__") ∨
    (d.matchArgs = true ∧ k = "__match_args__") ∨
    (d.repr = true ∧ k = "__repr__") ∨
    (d.init = true ∧ k = "__init__") ∨ (d.init = false ∧ k = "__attrs_init__") := by
  have h' : (writeFor d k).isSome = true := by
    rw [← lastWrite_builderWrites]; exact (lastWrite_isSome_iff _ _).2 h
  clear h
  by_cases e0 : k = "__setattr__"
  · subst e0
    cases h1 : d.hooks <;> cases h2 : d.isFrozen <;> simp +decide [writeFor, h1, h2] at h' ⊢
  by_cases e1 : k = "__delattr__"
  · subst e1
    cases h1 : d.isFrozen <;> simp +decide [writeFor, h1] at h' ⊢
  by_cases e2 : k = "__getstate__"
  · subst e2
    cases h1 : d.gss <;> simp +decide [writeFor, h1] at h' ⊢
  by_cases e3 : k = "__setstate__"
  · subst e3
    cases h1 : d.gss <;> simp +decide [writeFor, h1] at h' ⊢
  by_cases e4 : k = "__str__"
  · subst e4
    cases h1 : d.str <;> simp +decide [writeFor, h1] at h' ⊢
  by_cases e5 : k = "__eq__"
  · subst e5
    cases h1 : d.eq <;> simp +decide [writeFor, h1] at h' ⊢
  by_cases e6 : k = "__ne__"
  · subst e6
    cases h1 : d.eq <;> simp +decide [writeFor, h1] at h' ⊢
  by_cases e7 : k = "__lt__"
  · subst e7
    cases h1 : d.order <;> simp +decide [writeFor, h1] at h' ⊢
  by_cases e8 : k = "__le__"
  · subst e8
    cases h1 : d.order <;> simp +decide [writeFor, h1] at h' ⊢
  by_cases e9 : k = "__gt__"
  · subst e9
    cases h1 : d.order <;> simp +decide [writeFor, h1] at h' ⊢
  by_cases e10 : k = "__ge__"
  · subst e10
    cases h1 : d.order <;> simp +decide [writeFor, h1] at h' ⊢
  by_cases e11 : k = "__attrs_own_setattr__"
  · subst e11
    cases h1 : d.hooks <;> simp +decide [writeFor, h1] at h' ⊢
  by_cases e12 : k = "__hash__"
  · subst e12
    cases h1 : d.hash <;> simp +decide [writeFor, h1] at h' ⊢
  by_cases e13 : k = "__match_args__"
  · subst e13
    cases h1 : d.matchArgs <;> simp +decide [writeFor, h1] at h' ⊢
  by_cases e14 : k = "__repr__"
  · subst e14
    cases h1 : d.repr <;> simp +decide [writeFor, h1] at h' ⊢
  by_cases e15 : k = "__init__"
  · subst e15
    cases h1 : d.init <;> simp +decide [writeFor, h1] at h' ⊢
  by_cases e16 : k = "__attrs_init__"
  · subst e16
    cases h1 : d.init <;> simp +decide [writeFor, h1] at h' ⊢
  have g0 : (k == "__setattr__") = false := by simpa using e0
  have g1 : (k == "__delattr__") = false := by simpa using e1
  have g2 : (k == "__getstate__") = false := by simpa using e2
  have g3 : (k == "__setstate__") = false := by simpa using e3
  have g4 : (k == "__str__") = false := by simpa using e4
  have g5 : (k == "__eq__") = false := by simpa using e5
  have g6 : (k == "__ne__") = false := by simpa using e6
  have g7 : (k == "__lt__") = false := by simpa using e7
  have g8 : (k == "__le__") = false := by simpa using e8
  have g9 : (k == "__gt__") = false := by simpa using e9
  have g10 : (k == "__ge__") = false := by simpa using e10
  have g11 : (k == "__attrs_own_setattr__") = false := by simpa using e11
  have g12 : (k == "__hash__") = false := by simpa using e12
  have g13 : (k == "__match_args__") = false := by simpa using e13
  have g14 : (k == "__repr__") = false := by simpa using e14
  have g15 : (k == "__init__") = false := by simpa using e15
  have g16 : (k == "__attrs_init__") = false := by simpa using e16
  simp [writeFor, *] at h'

/-- **C14_user_methods_kept_dict** (dict build; ANY initial class dict — an association list of any
    length — and any decisions): a key whose content changed was written by the builder, or is a field
    definition, or the `__setattr__` reset branch ran and the key is attrs' bookkeeping key or a `__setattr__`
    *the class did not have* (the reset only ever adds `object.__setattr__`, it never replaces one). -/
theorem C14_user_methods_kept_dict (cd0 : Dict) (d : Dec) (inh : Bool) (k : String)
    (h : (patchOriginal cd0 d inh).get k ≠ cd0.get k) :
    k ∈ writtenKeys d ∨ k ∈ fieldNames ∨
    (resetsDict cd0 d inh = true ∧
      (k = ownSetattrKey ∨ (k = "__setattr__" ∧ cd0.has "__setattr__" = false))) := by
  apply Classical.byContradiction
  intro hn
  simp only [not_or, not_and] at hn
  obtain ⟨h1, h2, h3⟩ := hn
  apply h
  have hw : writeFor d k = none := by
    cases hw : writeFor d k with
    | none => rfl
    | some v =>
      exfalso; apply h1
      unfold writtenKeys
      rw [← lastWrite_isSome_iff, lastWrite_builderWrites, hw]; rfl
  have hf : fieldNames.contains k = false := by simpa using h2
  rw [get_patchOriginal, hw, hf]
  cases hr : resetsDict cd0 d inh
  · simp
  · have h3' := h3 hr
    have hk1 : (k == ownSetattrKey) = false := by simpa using h3'.1
    by_cases hs : k = "__setattr__"
    · have := h3'.2 hs
      have hc : cd0.has "__setattr__" = true := by simpa using this
      have hown : dictOwnSetattr cd0 d = true := by
        unfold dictOwnSetattr
        rw [has_written, has_foldl_erase, hc]
        simp +decide [fieldNames]
      simp [hk1, hown]
    · have hs' : (k == "__setattr__") = false := by simpa using hs
      simp [hk1, hs']

/-- **C14_user_methods_kept_slots** (slotted rebuild; ANY initial class dict): a key *of the original
    dict* whose content differs in the namespace of the new class was written by the builder, is one of the
    keys that are deliberately not copied (fields, `__dict__`, `__weakref__`), or is attrs' bookkeeping key. -/
theorem C14_user_methods_kept_slots (cd0 : Dict) (d : Dec) (direct : Bool) (k : String)
    (hk : cd0.has k = true) (h : (createSlots cd0 d direct).get k ≠ cd0.get k) :
    k ∈ writtenKeys d ∨ k ∈ slotsDropped ∨ (wroteOwnSetattr d = false ∧ k = ownSetattrKey) := by
  apply Classical.byContradiction
  intro hn
  simp only [not_or, not_and] at hn
  obtain ⟨h1, h2, h3⟩ := hn
  apply h
  have hw : writeFor d k = none := by
    cases hw : writeFor d k with
    | none => rfl
    | some v =>
      exfalso; apply h1
      unfold writtenKeys
      rw [← lastWrite_isSome_iff, lastWrite_builderWrites, hw]; rfl
  have hf : slotsDropped.contains k = false := by simpa using h2
  have hi : (k == "__hash__" && slotsImplicitHash cd0 d) = false := by
    by_cases hh : k = "__hash__"
    · subst hh; unfold slotsImplicitHash; rw [hk]; simp
    · have : (k == "__hash__") = false := by simpa using hh
      simp [this]
  rw [get_createSlots, hw, hf, hi]
  unfold resetsSlots
  cases hr : wroteOwnSetattr d
  · have hk1 : (k == ownSetattrKey) = false := by simpa using h3 hr
    by_cases hs : k = "__setattr__"
    · subst hs
      simp [hk1, hk]
    · have hs' : (k == "__setattr__") = false := by simpa using hs
      simp [hk1, hs']
  · simp

/-- **C14_user_methods_kept** (case level, no exception left): a name the class body binds and the
    documented table does not tell attrs to write is still bound to the user's own object in the resulting
    class. -/
theorem C14_user_methods_kept (c : Case) (hwf : wf c = true) (hb : (model c).err = none) (n : String)
    (ho : owns c n = true) (ht : toldSlot c n = none) : (finalDict c).get n = .user := by
  have hcmp := hcmp_of_wf c hwf
  have hE : expectErr c = false := (firstError_none_iff_expectErr c hcmp).1 ((built_iff c).1 hb)
  have hnk : n ≠ ownSetattrKey := by
    intro e; subst e
    rw [not_owns_key c hwf] at ho; exact Bool.noConfusion ho
  have := specName_final_gen c hwf hE n
  unfold specName at this
  have hnk' : (n == ownSetattrKey) = false := by simpa using hnk
  simp only [hnk', Bool.false_eq_true, if_false, ht, ho, if_true] at this
  simpa using this

/-! ### the model meets the specification; the repaired deviation -/

/-- **C14_model_meets_spec** (no known deviation is excluded any more: `known c = []` for every case) -/
theorem C14_model_meets_spec (c : Case) (hwf : wf c = true) : spec c (model c) = true := by
  unfold spec
  cases hE : expectErr c
  · have hcmp := hcmp_of_wf c hwf
    have hf : firstError c = none := (firstError_none_iff_expectErr c hcmp).2 hE
    rw [model_built c hf]
    simp only [Bool.false_eq_true, if_false, Bool.and_eq_true, List.all_eq_true, List.any_eq_true,
      List.mem_map]
    refine ⟨⟨by simp, ?_⟩, ?_⟩
    · intro n hn
      exact ⟨(n, (finalDict c).get n), ⟨n, hn, rfl⟩, by simp⟩
    · rintro p ⟨n, _, rfl⟩
      exact specName_final c hwf hE n
  · simp

theorem C14_known_empty (c : Case) : known c = [] := rfl

/-- the former K8 witness (attr.s default, own `__setattr__`, hooked attrs base) -/
def k8Witness : Case :=
  { api := .attrS, oAutoDetect := none, fRepr := .unset, fEq := .unset, fOrder := .unset, fCmp := .unset,
    fInit := .unset, fGss := .unset, fHash := .unset, fUnsafeHash := .unset, oStr := none,
    oMatchArgs := none, oSlots := none, oFrozen := none, oCacheHash := none, oAutoExc := none,
    onSetattr := .unset, fieldValidator := false, body := ["__setattr__"], attrsBase := .hooked,
    plainMid := false, baseDefines := [], excBase := false, py310 := true }

/-- **C14_K8_repaired** (regression; the case is also in corpus/C14): on the former K8 witness — dict and
    slotted build, hooked base direct or behind a plain class — the user's `__setattr__` is kept, the
    bookkeeping flag is still reset, and the specification holds. -/
theorem C14_K8_repaired :
    (∀ sl ∈ [none, some true, some false], ∀ pm ∈ [false, true],
      let c := { k8Witness with oSlots := sl, plainMid := pm }
      wf c = true ∧ (finalDict c).get "__setattr__" = .user ∧
        (finalDict c).get ownSetattrKey = .vFalse ∧ spec c (model c) = true) := by decide

/-- without an own `__setattr__` the reset still happens (dict build: anywhere in the MRO; slotted: direct base) -/
theorem C14_reset_still_happens :
    (finalDict { k8Witness with body := [] }).get "__setattr__" = .objSetattr ∧
    (finalDict { k8Witness with body := [], oSlots := some true }).get "__setattr__" = .objSetattr ∧
    (finalDict { k8Witness with body := [], oSlots := some true, plainMid := true }).get "__setattr__" = .absent :=
  by decide

/-! ### non-vacuity -/

/-- the hypotheses of the theorems above are satisfiable, with every kind of row present -/
example : wf k8Witness = true ∧ (model k8Witness).err = none ∧ (rows k8Witness).length = 5 := by decide

/-- a flag-obeyed instance: `define(repr=False)` over a body binding `__repr__` and `__eq__` -/
example :
    let c := { k8Witness with api := .define, fRepr := .f, body := ["__repr__", "__eq__"], attrsBase := .none }
    wf c = true ∧ (model c).err = none ∧ known c = [] ∧
      (finalDict c).get "__repr__" = .user ∧ (finalDict c).get "__eq__" = .user ∧
      (finalDict c).get "__ne__" = .absent ∧ (finalDict c).get "__init__" = .gen := by decide

/-- an error case: `order=True, eq=False` -/
example : (model { k8Witness with fEq := .f, fOrder := .t, body := [] }).err = some "valueError" := by decide

/-! ### T1b: `_determine_whether_to_implement` as written in /repo's source on this run -/

/-- **C14_source_whether_to_implement**: the function translated from the current source
    (`Gen.determine_whether_to_implement`, regenerated on every run) computes the model's `determine` — the
    function `C14_flag_obeyed` / `C14_autodetect` are about — for every class dict, flag, `auto_detect`, tuple of
    dunder names of any length and default, where `_has_own_attribute` is membership in the class dict. -/
theorem C14_source_whether_to_implement (env : Py.Env) (ext : Py.Ext) (cls : Py.PV) (cd : Dict)
    (hext : ∀ d, ext "_has_own_attribute" [cls, Py.vStr d] = Py.vBool (hasOwn cd d))
    (flag : Tri) (autoDetect : Bool) (dunders : List String) (dflt : Bool) :
    Gen.determine_whether_to_implement env ext cls (Src.embTri flag) (Py.vBool autoDetect)
        (Py.mkTup (dunders.map Py.vStr)) (Py.vBool dflt) = .ok (Py.vBool (determine cd flag autoDetect dunders dflt)) :=
  Src.whether_to_implement env ext cls cd hext flag autoDetect dunders dflt

/-- the hypothesis of `C14_source_whether_to_implement` is satisfiable (an `ext` that reads a concrete class dict) -/
example : ∃ ext : Py.Ext, ∀ d, ext "_has_own_attribute" [Py.vObj 7, Py.vStr d] =
    Py.vBool (hasOwn [("__repr__", Slot.user)] d) :=
  ⟨fun _ args => match args with
    | [_, .a (.str d)] => Py.vBool (hasOwn [("__repr__", Slot.user)] d)
    | _ => Py.vNone, fun _ => rfl⟩

/-- **C14_source_whether_to_implement_total**: the translated function never raises, whatever it is given -/
theorem C14_source_whether_to_implement_total (env : Py.Env) (ext : Py.Ext) (cls flag ad ds dflt : Py.PV) :
    ∃ v, Gen.determine_whether_to_implement env ext cls flag ad ds dflt = .ok v :=
  Src.whether_to_implement_total env ext cls flag ad ds dflt

/-- **C14_source_wrap_methods**: the body of `attrs(...).wrap` translated from the current source calls
    `add_repr`, `add_str`, `add_init` / `add_attrs_init`, `add_match_args` exactly as the declarative table
    `Src.wrapModel` says (flag obeyed; unset flag + auto_detect + own method ⇒ not generated; `__attrs_init__` iff no
    `__init__` is generated; `__match_args__` iff `match_args` and no own one) — for every repr/init ∈ {None, True,
    False}, str, own `__repr__`/`__init__`/`__match_args__`, auto_detect, match_args, (1 024 rows). -/
theorem C14_source_wrap_methods : ∀ (rs rv orr st is iv oi ad ma om : Bool),
    Src.srcWrap (Src.sliceMethods rs rv orr st is iv oi ad ma om) =
      Src.wrapModel (Src.sliceMethods rs rv orr st is iv oi ad ma om) :=
  Src.wrap_slice_methods

/-- **C14_source_wrap_state**: … and hands `_ClassBuilder` the getstate/setstate decision of the table (flag, else
    own `__getstate__`/`__setstate__` under auto_detect, else `slots or inherits a generated pair`), the frozen-ness
    (own or inherited) and the own-`__setattr__` fact, and raises ValueError for an own `__setattr__` on a frozen
    class — for every getstate_setstate ∈ {None, True, False}, slots, inherited pair, own methods, auto_detect,
    frozen, frozen base (512 rows). -/
theorem C14_source_wrap_state : ∀ (gss gsv sl ig og ad osa fz fb : Bool),
    Src.srcWrap (Src.sliceState gss gsv sl ig og ad osa fz fb) =
      Src.wrapModel (Src.sliceState gss gsv sl ig og ad osa fz fb) :=
  Src.wrap_slice_state

/-- **C14_source_define_retry_same_arguments**: when `auto_attribs` is not given, the translated body of
    `define(...).wrap` tries `attrs(...)` with `auto_attribs=True` and, on `UnannotatedAttributeError`, again with
    `auto_attribs=False` — and the two calls agree in every other argument (so the method-generation decisions of the
    retry are those of the first attempt); with `auto_attribs` given there is exactly one call. -/
theorem C14_source_define_retry_same_arguments (env : Py.Env) (ext : Py.Ext) (cls : Py.PV) (o : Src.OnSet) (frozen : Bool) (aa : Option Bool)
    (bases : List Py.Atom) (fb : Py.Atom → Bool)
    (h1 : env "on_setattr" = o.pv) (h2 : env "setters.NO_OP" = Src.oNoOp) (h3 : env "_DEFAULT_ON_SETATTR" = Src.oDefault)
    (h4 : env "_frozen_setattrs" = Src.oFrozenSetattrs) (h5 : env "frozen" = Py.vBool frozen)
    (h6 : env "auto_attribs" = (match aa with | none => Py.vNone | some b => Py.vBool b))
    (hb : ext "getattr" [cls, Py.vStr "__bases__"] = .tup bases)
    (hs : ∀ b, Py.pyIs (ext "getattr" [.a b, Py.vStr "__setattr__"]) Src.oFrozenSetattrs = Py.vBool (fb b))
    (r : Py.PV) (es : List Py.Eff) (h : Gen.define_wrap env ext cls [] = .ok (r, es)) :
    ∃ s, es = Src.defineCalls cls (match aa with | none => Py.vNone | some b => Py.vBool b) s ∧
      (aa = none → es = [Py.Eff.mk "try:do_it" [cls, Py.vTrue, s],
                          Py.Eff.mk "except UnannotatedAttributeError:do_it" [cls, Py.vFalse, s]]) := by
  rw [Src.define_wrap_spec env ext cls o frozen aa bases fb h1 h2 h3 h4 h5 h6 hb hs] at h
  rcases aa with _ | b <;>
  · cases hd : Src.defineOnSetattr o frozen (bases.any fb) with
    | error e =>
      rw [hd] at h
      cases h
    | ok s =>
      rw [hd] at h
      injection h with h'
      injection h' with _ h2
      exact ⟨s, h2.symm, fun haa => by first | (rw [← h2]; rfl) | cases haa⟩

end Attrs.C14
