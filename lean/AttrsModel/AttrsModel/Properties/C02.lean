/- C02 — property theorems. -/
import AttrsModel.Spec.C02

namespace Attrs.C02
open Attrs.Init

/-- **C02_no_hooks_static**: whenever the initializer stores a field by plain assignment, the class's
    `__setattr__` has no hook for that name — `has_on_setattr` (in `_attrs_to_init_script`) and `sa_attrs`
    (in `add_setattr`) are computed in different functions and must agree. -/
theorem C02_no_hooks_static (cfg : Cfg) (belief : Bool) (a : Attr)
    (h : tech cfg belief a = .assign) : inSaAttrs cfg a = false := by
  unfold tech hasOnSetattr at h
  unfold inSaAttrs
  grind

end Attrs.C02
