/-
  C02 — property theorems: the init protocol (order, exactly-once, arguments, failure propagation)
  for arbitrary field lists, call shapes and fault positions.  Helper lemmas are in Proofs/Init*.lean.
-/
import AttrsModel.Proofs.InitWf

namespace Attrs.C02
open Attrs.Init

/-- **C02_no_hooks_static**: whenever the initializer stores a field by plain assignment, the class's
    `__setattr__` has no hook for that name — `has_on_setattr` (in `_attrs_to_init_script`) and `sa_attrs`
    (in `add_setattr`) are computed in different functions and must agree. -/
theorem C02_no_hooks_static (cfg : Cfg) (belief : Bool) (a : Attr)
    (h : tech cfg belief a = .assign) : inSaAttrs cfg a = false :=
  tech_assign_no_hook cfg belief a h

/-- the hypotheses of the body theorem follow from the decidable `wf` and the absence of known findings -/
theorem bodyOK (c : Case) (hwf : wf c = true) (hk : known c = []) : BodyOK c.eff c.call := by
  unfold wf at hwf
  simp only [Bool.and_eq_true] at hwf
  have h1 := bodyOK_of_wf { c with run := { c.run with fault := none } } hwf.1
    (by simpa [known, C01.known, C01.misplaced, Case.eff, RunIn.belief] using hk) hwf.2
  exact ⟨h1.bind, h1.nodup, h1.cacheName, h1.visible⟩

/-- **C02_trace / C02_fault_prefix**: for every class, call and failing callback (in particular "exactly the
    k-th", for every k), the trace of the modelled initializer is the declarative fault-free trace
    `[pre] ++ per field (factory? ++ converter?) ++ validators (while enabled) ++ [post]` cut after the first
    failing event: nothing later runs. -/
theorem C02_fault_prefix (c : Case) (hwf : wf c = true) (hk : known c = []) :
    (runInit c).trace = cutAt c.eff.fault (expectedTrace c.eff c.call) :=
  (runInit_spec c (bodyOK c hwf hk)).2.2.1

/-- **C02_trace**: without a fault the trace is exactly the declarative trace. -/
theorem C02_trace (c : Case) (hwf : wf c = true) (hk : known c = []) (hf : c.run.fault = none) :
    (runInit c).trace = expectedTrace c.eff c.call := by
  rw [C02_fault_prefix c hwf hk]
  simp [hf, cutAt_none]

/-- **C02_exception_propagates**: the call raises iff the failing callback is part of the trace, and then it
    is that callback's exception; otherwise it returns. -/
theorem C02_exception_propagates (c : Case) (hwf : wf c = true) (hk : known c = []) :
    (runInit c).exc = (if hits c.eff.fault (expectedTrace c.eff c.call) then some .user else none) :=
  (runInit_spec c (bodyOK c hwf hk)).2.2.2.1

/-- **C02_no_later_store**: a field holds its value iff no callback failed before its store. -/
theorem C02_no_later_store (c : Case) (hwf : wf c = true) (hk : known c = []) :
    (runInit c).values = c.eff.attrs.map (fun a =>
      (a.name, if hits c.eff.fault (eventsUpTo c.eff c.call a) then none
               else C01.expectedValue c.eff.attrs c.call a)) :=
  (runInit_spec c (bodyOK c hwf hk)).2.2.2.2.1

/-- **C02_exc_args**: for auto_exc exception classes `args` is the tuple of the init fields' stored values. -/
theorem C02_exc_args (c : Case) (hwf : wf c = true) (hk : known c = []) :
    (runInit c).excArgs = (if c.eff.cfg.isExc && !hits c.eff.fault (expectedTrace c.eff c.call) then
        some (((c.eff.attrs.filter participates).filter (·.init)).map
          (fun a => convApply a (C01.rawOf c.eff.attrs c.call a)))
      else none) :=
  (runInit_spec c (bodyOK c hwf hk)).2.2.2.2.2

/-- every event of a per-field block carries that field's name and is a factory or converter call -/
theorem C02_attr_events_named (attrs : List Attr) (c : Call) (a : Attr) :
    ∀ e ∈ attrEvents attrs c a, e.id.field = a.name ∧ (e.id.kind = "factory" ∨ e.id.kind = "conv") := by
  intro e he
  unfold attrEvents at he
  dsimp only at he
  rcases List.mem_append.1 he with h | h
  · split at h
    · simp only [List.mem_singleton] at h; simp [h, ev]
    · cases h
  · split at h
    · simp only [List.mem_singleton] at h; simp [h, ev]
    · cases h

theorem cutAt_subset (f : Option EventId) (es : List Event) : ∀ e ∈ cutAt f es, e ∈ es := by
  induction es with
  | nil => simp [cutAt]
  | cons x xs ih =>
    intro e he
    simp only [cutAt] at he
    split at he
    · simp only [List.mem_singleton] at he; simp [he]
    · rcases List.mem_cons.1 he with h | h
      · simp [h]
      · exact List.mem_cons_of_mem _ (ih e h)

/-- the callbacks a construction can run are pre-init, factories, converters, validators and post-init -/
theorem expectedTrace_kinds (r : RunIn) (c : Call) :
    ∀ e ∈ expectedTrace r c, e.id.kind ∈ ["pre", "factory", "conv", "validator", "post"] := by
  intro e he
  unfold expectedTrace at he
  rcases List.mem_append.1 he with h123 | h4
  · rcases List.mem_append.1 h123 with h12 | h3
    · rcases List.mem_append.1 h12 with h1 | h2
      · unfold preEvents at h1
        cases hp : r.cfg.pre <;> simp [hp, ev] at h1 <;> simp [h1]
      · obtain ⟨a, _, ha⟩ := List.mem_flatMap.1 h2
        rcases (C02_attr_events_named _ _ _ e ha).2 with h | h <;> simp [h]
    · split at h3
      · unfold validatorEventsOf at h3
        obtain ⟨a, _, ha⟩ := List.mem_flatMap.1 h3
        obtain ⟨i, _, hi⟩ := List.mem_map.1 ha
        simp [← hi, ev]
      · cases h3
  · split at h4
    · simp only [List.mem_singleton] at h4; simp [h4, ev]
    · cases h4

/-- **C02_no_hooks**: no `hook` event occurs in any construction trace, for any combination of field-level
    and class-level `on_setattr`, with or without a failing callback. -/
theorem C02_no_hooks (c : Case) (hwf : wf c = true) (hk : known c = []) :
    ∀ e ∈ (runInit c).trace, e.id.kind ≠ "hook" := by
  rw [C02_fault_prefix c hwf hk]
  intro e he
  have := expectedTrace_kinds _ _ e (cutAt_subset _ _ e he)
  intro hh
  rw [hh] at this
  simp at this

/-- **C02_model_meets_spec**: the model satisfies the declarative specification for every well-formed case
    outside the listed known finding. -/
theorem C02_model_meets_spec (c : Case) (hwf : wf c = true) (hk : known c = []) :
    spec c (model c) = true := by
  obtain ⟨_, _, h3, h4, h5, h6⟩ := runInit_spec c (bodyOK c hwf hk)
  unfold spec model
  simp only [h3, h4, h5, h6, specValues, beq_self_eq_true, Bool.and_self]

end Attrs.C02
