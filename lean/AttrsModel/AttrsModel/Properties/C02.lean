/-
  C02 — property theorems: the init protocol (order, exactly-once, arguments, failure propagation)
  for arbitrary field lists, call shapes and fault positions.  Helper lemmas are in Proofs/Init*.lean.
-/
import AttrsModel.Proofs.InitWf

namespace Attrs.C02
open Attrs.Init

/-- **C02_no_hooks_static**: whenever the initializer stores a field by plain assignment, the class's
    `__setattr__` has no hook for that name — `has_on_setattr` (in `_attrs_to_init_script`) and `sa_attrs`
    (in `add_setattr`) are computed in different functions and must agree. -/
theorem C02_no_hooks_static (cfg : Cfg) (belief : Bool) (a : Attr)
    (h : tech cfg belief a = .assign) : inSaAttrs cfg a = false :=
  tech_assign_no_hook cfg belief a h

/-- the hypotheses of the body theorem follow from the decidable `wf` and the absence of known findings -/
theorem bodyOK (c : Case) (hwf : wf c = true) (hk : known c = []) : BodyOK c.eff c.call := by
  unfold wf at hwf
  simp only [Bool.and_eq_true] at hwf
  have h1 := bodyOK_of_wf { c with run := { c.run with fault := none } } hwf.1
    (by simpa [known, C01.known, C01.misplaced, Case.eff, RunIn.belief] using hk) hwf.2
  exact ⟨h1.bind, h1.nodup, h1.cacheName, h1.visible⟩

/-- **C02_trace / C02_fault_prefix**: for every class, call and failing callback (in particular "exactly the
    k-th", for every k), the trace of the modelled initializer is the declarative fault-free trace
    `[pre] ++ per field (factory? ++ converter?) ++ validators (while enabled) ++ [post]` cut after the first
    failing event: nothing later runs. -/
theorem C02_fault_prefix (c : Case) (hwf : wf c = true) (hk : known c = []) :
    (runInit c).trace = cutAt c.eff.fault (expectedTrace c.eff c.call) :=
  (runInit_spec c (bodyOK c hwf hk)).2.2.1

/-- **C02_trace**: without a fault the trace is exactly the declarative trace. -/
theorem C02_trace (c : Case) (hwf : wf c = true) (hk : known c = []) (hf : c.run.fault = none) :
    (runInit c).trace = expectedTrace c.eff c.call := by
  rw [C02_fault_prefix c hwf hk]
  simp [hf, cutAt_none]

/-- **C02_exception_propagates**: the call raises iff the failing callback is part of the trace, and then it
    is that callback's exception; otherwise it returns. -/
theorem C02_exception_propagates (c : Case) (hwf : wf c = true) (hk : known c = []) :
    (runInit c).exc = (if hits c.eff.fault (expectedTrace c.eff c.call) then some .user else none) :=
  (runInit_spec c (bodyOK c hwf hk)).2.2.2.1

/-- **C02_no_later_store**: a field holds its value iff no callback failed before its store. -/
theorem C02_no_later_store (c : Case) (hwf : wf c = true) (hk : known c = []) :
    (runInit c).values = c.eff.attrs.map (fun a =>
      (a.name, if hits c.eff.fault (eventsUpTo c.eff c.call a) then none
               else C01.expectedValue c.eff.attrs c.call a)) :=
  (runInit_spec c (bodyOK c hwf hk)).2.2.2.2.1

/-- **C02_exc_args**: for auto_exc exception classes `args` is the tuple of the init fields' stored values. -/
theorem C02_exc_args (c : Case) (hwf : wf c = true) (hk : known c = []) :
    (runInit c).excArgs = (if c.eff.cfg.isExc && !hits c.eff.fault (expectedTrace c.eff c.call) then
        some (((c.eff.attrs.filter participates).filter (·.init)).map
          (fun a => convApply a (C01.rawOf c.eff.attrs c.call a)))
      else none) :=
  (runInit_spec c (bodyOK c hwf hk)).2.2.2.2.2

theorem mem_pipeEvents (n : String) (ms : List Conv) :
    ∀ (i : Nat) (v : Val) (e : Event), e ∈ pipeEvents n i ms v → e.id.field = n ∧ e.id.kind = "conv" := by
  induction ms with
  | nil => intro i v e he; cases he
  | cons c cs ih =>
    intro i v e he
    rcases List.mem_cons.1 he with h | h
    · rw [h]; exact ⟨rfl, rfl⟩
    · exact ih _ _ e h

/-- every event of a per-field block carries that field's name and is a factory or converter call -/
theorem C02_attr_events_named (attrs : List Attr) (c : Call) (a : Attr) :
    ∀ e ∈ attrEvents attrs c a, e.id.field = a.name ∧ (e.id.kind = "factory" ∨ e.id.kind = "conv") := by
  intro e he
  unfold attrEvents at he
  dsimp only at he
  rcases List.mem_append.1 he with h | h
  · split at h
    · simp only [List.mem_singleton] at h; simp [h, ev]
    · cases h
  · unfold convEventsOf at h
    split at h
    · cases h
    · split at h
      · simp only [List.mem_singleton] at h; simp [h]
      · have := mem_pipeEvents a.name _ 0 _ e h
        simp [this.1, this.2]

theorem cutAt_subset (f : Option EventId) (es : List Event) : ∀ e ∈ cutAt f es, e ∈ es := by
  induction es with
  | nil => simp [cutAt]
  | cons x xs ih =>
    intro e he
    simp only [cutAt] at he
    split at he
    · simp only [List.mem_singleton] at he; simp [he]
    · rcases List.mem_cons.1 he with h | h
      · simp [h]
      · exact List.mem_cons_of_mem _ (ih e h)

/-- the callbacks a construction can run are pre-init, factories, converters, validators and post-init -/
theorem expectedTrace_kinds (r : RunIn) (c : Call) :
    ∀ e ∈ expectedTrace r c, e.id.kind ∈ ["pre", "factory", "conv", "validator", "post"] := by
  intro e he
  unfold expectedTrace at he
  rcases List.mem_append.1 he with h123 | h4
  · rcases List.mem_append.1 h123 with h12 | h3
    · rcases List.mem_append.1 h12 with h1 | h2
      · unfold preEvents at h1
        cases hp : r.cfg.pre <;> simp [hp, ev] at h1 <;> simp [h1]
      · obtain ⟨a, _, ha⟩ := List.mem_flatMap.1 h2
        rcases (C02_attr_events_named _ _ _ e ha).2 with h | h <;> simp [h]
    · split at h3
      · unfold validatorEventsOf at h3
        obtain ⟨a, _, ha⟩ := List.mem_flatMap.1 h3
        obtain ⟨i, _, hi⟩ := List.mem_map.1 ha
        simp [← hi, ev]
      · cases h3
  · split at h4
    · simp only [List.mem_singleton] at h4; simp [h4, ev]
    · cases h4

/-- **C02_no_hooks**: no `hook` event occurs in any construction trace, for any combination of field-level
    and class-level `on_setattr`, with or without a failing callback. -/
theorem C02_no_hooks (c : Case) (hwf : wf c = true) (hk : known c = []) :
    ∀ e ∈ (runInit c).trace, e.id.kind ≠ "hook" := by
  rw [C02_fault_prefix c hwf hk]
  intro e he
  have := expectedTrace_kinds _ _ e (cutAt_subset _ _ e he)
  intro hh
  rw [hh] at this
  simp at this

/-- **C02_model_meets_spec**: the model satisfies the declarative specification for every well-formed case
    outside the listed known finding. -/
theorem C02_model_meets_spec (c : Case) (hwf : wf c = true) (hk : known c = []) :
    spec c (model c) = true := by
  obtain ⟨_, _, h3, h4, h5, h6⟩ := runInit_spec c (bodyOK c hwf hk)
  unfold spec model
  simp only [h3, h4, h5, h6, specValues, beq_self_eq_true, Bool.and_self]

/-! ### which validators run (K02a)

  The model knows a field's validators only as a COUNT (`Attr.validators`: 0 = `validator=None`): whether a given
  validator object is truthy, sized, hashable or comparable is not an input of the model, so nothing below can depend
  on it.  The two theorems say that "given" is the whole criterion: with the switch on, every given validator of every
  participating field is in the expected trace (with instance, Attribute and the converted value), and no validator
  event exists that is not one of those.  /repo used to judge a validator by TRUTHINESS (`if a.validator:` in
  `_attrs_to_init_script`, `if not v:` in `setters.validate`): a callable validator object with `__len__() == 0` or a
  false `__bool__` was never run (K02a, repaired; regression cases `corpus/C02/falsy-validator-*`). -/

/-- **C02_every_given_validator_runs**: given = run, whatever kind of object the validator is. -/
theorem C02_every_given_validator_runs (r : RunIn) (c : Call) (a : Attr) (ha : a ∈ r.attrs)
    (hp : participates a = true) (hv : r.cfg.runValidators = true) (i : Nat) (hi : i < a.validators) :
    ev "validator" a.name i ["self", "attr." ++ a.name, convApply a (C01.rawOf r.attrs c a)] ∈ expectedTrace r c := by
  unfold expectedTrace
  simp only [hv, if_true]
  apply List.mem_append_left
  apply List.mem_append_right
  unfold validatorEventsOf
  exact List.mem_flatMap.2 ⟨a, List.mem_filter.2 ⟨ha, hp⟩, List.mem_map.2 ⟨i, List.mem_range.2 hi, rfl⟩⟩

/-- **C02_only_given_validators_run**: the converse -- every validator event of a construction is the `idx`-th given
    validator of a participating field of the class. -/
theorem C02_only_given_validators_run (r : RunIn) (c : Call) (e : Event) (he : e ∈ expectedTrace r c)
    (hk : e.id.kind = "validator") :
    ∃ a ∈ r.attrs, participates a = true ∧ e.id.field = a.name ∧ e.id.idx < a.validators := by
  unfold expectedTrace at he
  rcases List.mem_append.1 he with h | h4
  · rcases List.mem_append.1 h with h | h3
    · rcases List.mem_append.1 h with h1 | h2
      · exfalso
        unfold preEvents at h1
        split at h1
        · cases h1
        · simp only [List.mem_singleton] at h1; rw [h1] at hk; simp [ev] at hk
        · simp only [List.mem_singleton] at h1; rw [h1] at hk; simp [ev] at hk
      · exfalso
        obtain ⟨b, _, hb⟩ := List.mem_flatMap.1 h2
        have := (C02_attr_events_named r.attrs c b e hb).2
        rw [hk] at this
        simp at this
    · split at h3
      · unfold validatorEventsOf at h3
        obtain ⟨a, ha, hea⟩ := List.mem_flatMap.1 h3
        obtain ⟨i, hi, hie⟩ := List.mem_map.1 hea
        have ha' := List.mem_filter.1 ha
        exact ⟨a, ha'.1, ha'.2, by rw [← hie]; rfl, by rw [← hie]; exact List.mem_range.1 hi⟩
      · cases h3
  · exfalso
    split at h4
    · simp only [List.mem_singleton] at h4; rw [h4] at hk; simp [ev] at hk
    · cases h4

/-! ### converter chains (`converter=[c0, c1, …]`, `converters.pipe`) -/

/-- **C02_pipe_left_to_right**: the value a chain produces is the LAST member applied to what the members before
    it produced -- the left-to-right composition, whatever mixture of plain callables and `Converter`s. -/
theorem C02_pipe_left_to_right (n : String) (ms : List Conv) (c : Conv) : ∀ (i : Nat) (v : Val),
    pipeVal n i (ms ++ [c]) v = convValAt n (i + ms.length) c (pipeVal n i ms v) := by
  induction ms with
  | nil => intro i v; simp [pipeVal]
  | cons m ms ih =>
    intro i v
    simp only [List.cons_append, pipeVal, ih, List.length_cons]
    congr 1; omega

/-- **C02_pipe_events**: every member is called once, after the members before it, with what THEY produced, and
    with instance / field as it -- not its neighbours, not the chain -- asked for. -/
theorem C02_pipe_events (n : String) (ms : List Conv) (c : Conv) : ∀ (i : Nat) (v : Val),
    pipeEvents n i (ms ++ [c]) v = pipeEvents n i ms v ++
      [{ id := { kind := "conv", field := n, idx := i + ms.length }, args := convEventArgsN n c (pipeVal n i ms v) }] := by
  induction ms with
  | nil => intro i v; simp [pipeEvents, pipeVal]
  | cons m ms ih =>
    intro i v
    have : i + 1 + ms.length = i + (ms.length + 1) := by omega
    simp only [List.cons_append, pipeEvents, pipeVal, ih, List.length_cons, this]

/-- `x = attr.ib(converter=[Converter(f, takes_self=True), b, c])`, constructed as `C("t1")` -/
def pipeCase : Case :=
  { run := { cfg := { frozen := false, slots := false, cacheHash := false, isExc := false, pre := .none,
                      post := false, clsHook := false, runValidators := true, collectByMro := true },
             attrs := [{ name := "x", alias := "x", dflt := .none, init := true, kwOnly := false,
                         conv := some { takesSelf := true, takesField := true },
                         validators := 1, onSet := .unset, isSlot := false, type := none, convType := none,
                         pipe := some [{ takesSelf := true, takesField := false }, { takesSelf := false, takesField := false },
                                       { takesSelf := false, takesField := false }] }],
             own := ["x"], bases := [], cacheIsSlot := false, fault := none },
    call := { pos := ["t1"], kw := [] }, isDefine := false, clsOnSet := .unset }

/-- non-vacuity, and what the model does on `pipeCase`: `f(t1, self)`, then `b`, then `c`, then the validator on
    the composed value. -/
example : wf pipeCase = true ∧ known pipeCase = [] ∧
    (model pipeCase).trace = [ev "conv" "x" 0 ["t1", "self"], ev "conv" "x" 1 ["conv.x(t1,self)"],
      ev "conv" "x" 2 ["conv1.x(conv.x(t1,self))"],
      ev "validator" "x" 0 ["self", "attr.x", "conv2.x(conv1.x(conv.x(t1,self)))"]] := by
  refine ⟨by decide, by decide, by decide⟩

/-- **C02_spec_rejects_skipped_member**: a chain in which the middle member is replaced by the last one (`f, c, c`
    instead of `f, b, c`) violates the specification. -/
theorem C02_spec_rejects_skipped_member :
    spec pipeCase { model pipeCase with
      trace := [ev "conv" "x" 0 ["t1", "self"], ev "conv" "x" 2 ["conv.x(t1,self)"],
        ev "conv" "x" 2 ["conv2.x(conv.x(t1,self))"],
        ev "validator" "x" 0 ["self", "attr.x", "conv2.x(conv2.x(conv.x(t1,self)))"]],
      values := [("x", some "conv2.x(conv2.x(conv.x(t1,self)))")] } = false := by decide

/-- a fault in the middle member: the members before it ran, it ran, nothing after it, nothing stored -/
example : (model { pipeCase with run := { pipeCase.run with fault := some { kind := "conv", field := "x", idx := 1 } } }).trace
      = [ev "conv" "x" 0 ["t1", "self"], ev "conv" "x" 1 ["conv.x(t1,self)"]] ∧
    (model { pipeCase with run := { pipeCase.run with fault := some { kind := "conv", field := "x", idx := 1 } } }).values
      = [("x", none)] := by
  refine ⟨by decide, by decide⟩

end Attrs.C02
