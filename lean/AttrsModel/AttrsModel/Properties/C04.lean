/-
  C04 — property theorems.  Field lists, value vectors and histories are arbitrary (any length); the
  decision table is covered exhaustively.
-/
import AttrsModel.Proofs.C04Run
import AttrsModel.Proofs.C04Witness
import AttrsModel.Proofs.C04Script
import AttrsModel.Spec.C04Script
import AttrsModel.Proofs.SrcWrap

namespace Attrs.C04

/-! ## The decision table -/

/-- **C04_table**: for every class (any keywords, any body, any bases) outside the excluded legacy row the
    branch the code takes is the documented one — generated / made unhashable / left untouched, each *iff*
    its documented condition — and the three documented conditions partition these classes. -/
theorem C04_table (c : Cls) (frozenBase excBase : Bool)
    (h : legacyRow (facts c frozenBase excBase) = false) :
    let f := facts c frozenBase excBase
    (codeOutcome f = .generated ↔ docGenerated f = true) ∧
    (codeOutcome f = .unhashable ↔ docUnhashable f = true) ∧
    (codeOutcome f = .untouched ↔ docUntouched f = true) ∧
    ((docGenerated f || docUnhashable f || docUntouched f) = true ∧
     (docGenerated f && docUnhashable f) = false ∧ (docGenerated f && docUntouched f) = false ∧
     (docUnhashable f && docUntouched f) = false) :=
  have hv := facts_valid c frozenBase excBase
  ⟨table_generated _ hv h, table_unhashable _ hv h, table_untouched _ hv h, doc_partition _ hv h⟩

/-- the same for abstract facts (every combination of effective values) -/
theorem C04_table_facts (f : Facts) (hv : f.valid = true) (h : legacyRow f = false) :
    codeOutcome f = docOutcome f := code_eq_doc f hv h

/-- auto_exc exception classes are left untouched even with `unsafe_hash=True` -/
theorem C04_table_auto_exc (f : Facts) (h : f.isExc = true) : codeOutcome f = .untouched := by
  unfold codeOutcome; simp [h]

/-- an own `__hash__` — including the `__hash__ = None` CPython inserts for a body defining `__eq__` only —
    is detected exactly when no hash argument is given and auto_detect is on -/
theorem C04_table_detected (c : Cls) (fz ex : Bool) :
    (facts c fz ex).detected =
      ((hashArgOf c).isNone && isTrue (argOf c.api "auto_detect" c.autoDetect) &&
        (c.ownHash != .no || c.ownEq)) := rfl

/-- **frozen, also by inheritance — through any base**: the last class of a chain is frozen iff its own
    decorator says so, or a class of its chain of ancestors is, or any of its further bases is, wherever that
    base is listed (stated for the class alone; the chain's contribution is the `frozenBase` argument of
    `facts`) -/
theorem C04_frozen_any_base (outF : Facts → Outcome) (c : Case) (k : Cls) (hch : c.chain = [k])
    (hp : (k.api == Api.plain) = false) :
    (nodesWith outF c).map (fun n => n.facts.frozenEff) =
      [truthy (argOf k.api "frozen" k.frozen) || c.side.any Side.frozen] := by
  simp [nodesWith, hch, nodesFrom, hp, facts]

/-- … e.g. `@attr.s class C(Mixin, FrozenBase)` (frozen base listed second) gets a generated `__hash__`, and
    without the frozen base `__hash__ = None` -/
example : wf witnessMI = true ∧ (model witnessMI).classes = [.generated] ∧
    (model { witnessMI with side := witnessMI.side.take 1 }).classes = [.isNone] ∧
    spec witnessMI { classes := [.isNone], results := [] } = false := by decide

/-- **cache_hash errors**: the decorator raises TypeError iff cache_hash is on and either no hash is
    generated or no `__init__` is (and `cmp` was not mixed with `eq`, which raises ValueError first) -/
theorem C04_cache_errors (f : Facts) (o : Outcome) :
    defErr f o = some .typeError ↔
      f.mixErr = false ∧ f.cacheOn = true ∧ (o ≠ .generated ∨ f.initOn = false) := by
  unfold defErr
  cases f.mixErr <;> cases f.cacheOn <;> cases f.initOn <;> cases o <;> simp

/-- the keyword defaults the model resolves "not passed" to, as read from the source (T1) -/
theorem C04_defaults_attrS :
    ["eq", "cmp", "hash", "unsafe_hash", "init", "frozen", "slots", "auto_detect", "auto_exc", "cache_hash"].map
      (apiDefault .attrS) =
    [Lit.none, Lit.none, Lit.none, Lit.none, Lit.none, Lit.bool false, Lit.bool false, Lit.bool false,
     Lit.bool false, Lit.bool false] := by decide

theorem C04_defaults_define :
    ["eq", "hash", "unsafe_hash", "init", "frozen", "slots", "auto_detect", "auto_exc", "cache_hash"].map
      (apiDefault .define) =
    [Lit.none, Lit.none, Lit.none, Lit.none, Lit.bool false, Lit.bool true, Lit.bool true,
     Lit.bool true, Lit.bool false] := by decide

theorem C04_defaults_frozen :
    ["eq", "hash", "unsafe_hash", "init", "frozen", "slots", "auto_detect", "auto_exc", "cache_hash"].map
      (apiDefault .frozen) =
    [Lit.none, Lit.none, Lit.none, Lit.none, Lit.bool true, Lit.bool true, Lit.bool true,
     Lit.bool true, Lit.bool false] := by decide

/-- `unsafe_hash` takes precedence over `hash`, in every API -/
theorem C04_unsafe_hash_precedence (c : Cls) (h : (c.api == Api.plain) = false) :
    hashArgOf c = (match flagOpt c.unsafeHash with | some b => some b | none => flagOpt c.hash) :=
  hashArgOf_flags c h

/-! ## Hash inputs (arbitrary field lists, abstract values) -/

section generic
variable {V : Type} (H : List Nat → Nat) (vh : V → Nat) (veq : V → V → Bool) (key : V → V)

/-- **C04_function_of_participating**: two instances whose hash-participating fields agree (through the
    key function, up to `==`) hash equal — whatever the other fields hold, for any combining function `H`
    and any value hash honouring `a == b → hash a = hash b`. -/
theorem C04_function_of_participating (hc : ∀ a b, veq a b = true → vh a = vh b) (salt : Nat)
    (fs : List Field) (as bs : List V) (h : agreeOn veq key fs as bs = true) :
    H (hashInputs vh key salt fs as) = H (hashInputs vh key salt fs bs) := by
  rw [hashInputs_agree vh veq key salt hc fs as bs h]

/-- … in particular two value vectors that coincide at every hash-participating position -/
theorem C04_nonparticipating_irrelevant (hr : ∀ a, veq a a = true)
    (hc : ∀ a b, veq a b = true → vh a = vh b) (salt : Nat) (fs : List Field) (as bs : List V)
    (hla : as.length = fs.length) (hlb : bs.length = fs.length)
    (h : ∀ i (hi : i < fs.length) (ha : i < as.length) (hb : i < bs.length),
        hashPart fs[i] = true → as[i] = bs[i]) :
    H (hashInputs vh key salt fs as) = H (hashInputs vh key salt fs bs) :=
  C04_function_of_participating H vh veq key hc salt fs as bs
    (agreeOn_of_eq_on_part veq key hr fs as bs hla hlb h)

/-- **C04_eq_implies_hash**: instances the generated `__eq__` calls equal have equal hashes, provided no
    field is hashed that is not compared (every field's `hash` mirrors its `eq`, or is switched off). -/
theorem C04_eq_implies_hash (hc : ∀ a b, veq a b = true → vh a = vh b) (salt : Nat)
    (fs : List Field) (as bs : List V) (hm : hashWithinEq fs = true)
    (he : eqChain veq key fs as bs = true) :
    H (hashInputs vh key salt fs as) = H (hashInputs vh key salt fs bs) :=
  C04_function_of_participating H vh veq key hc salt fs as bs (eqChain_agree veq key fs as bs hm he)

/-- `hash=None` mirrors `eq` (a key counts as eq) — the default never hashes an uncompared field -/
theorem C04_mirror_default (fs : List Field) (h : ∀ f ∈ fs, f.hash = none) : hashWithinEq fs = true := by
  unfold hashWithinEq
  rw [List.all_eq_true]
  intro f hf
  have := h f hf
  cases he : f.eq <;> simp [hashPart, eqPart, this, he]

end generic

/-- non-vacuity: a field hashed but not compared breaks the implication -/
example : ∃ (fs : List Field) (as bs : List Nat),
    eqChain (· == ·) id fs as bs = true ∧ hashInputs id id 0 fs as ≠ hashInputs id id 0 fs bs :=
  ⟨[{ name := "a", eq := .f, hash := some true }], [0], [1], by decide⟩

/-- non-vacuity: participating fields that differ give different inputs -/
example : hashInputs id id 0 [{ name := "a", eq := .t, hash := none }] [0] ≠
    hashInputs id id 0 [{ name := "a", eq := .t, hash := none }] [1] := by decide

/-! ## Stability and caching -/

/-- **C04_stable**: a second `hash(x)` right after a successful first one returns the same value, computes
    nothing when the class caches, and leaves the instance as it is. -/
theorem C04_stable (c : Case) (L : Layout) (idx : Nat) (x : Inst) (h : (hashCall c L idx x).1 = .ok) :
    let r1 := hashCall c L idx x
    let r2 := hashCall c L idx r1.2.2.2
    r2.1 = .ok ∧ r2.2.1 = r1.2.1 ∧ r2.2.2.2 = r1.2.2.2 ∧
    (∀ n, L.hres = .gen n → n.facts.cacheOn = true → r2.2.2.1 = false) := by
  unfold hashCall at h ⊢
  cases hh : L.hres with
  | unhashable => simp [hh] at h
  | ident => simp
  | const => simp
  | gen n =>
    simp only [hh] at h ⊢
    by_cases hc : n.facts.cacheOn = true
    · simp only [hc, if_true] at h ⊢
      cases hcell : readCell L x with
      | absent => simp [hcell] at h
      | empty => simp [readCell_writeCell]
      | full hv => simp [hcell]
    · simp [hc]

/-- **C04_cache_once**: with cache_hash, along *any* history (any length, any mix of operations, from any
    state) each instance sees at most one computing `hash` call; and in a history without field writes
    every successful hash call returns the uncached value (the hash of the instance's current fields). -/
theorem C04_cache_once (c : Case) (L : Layout) (n : Node) (hg : L.hres = .gen n) (ops : List Op)
    (insts : List Inst) :
    (n.facts.cacheOn = true → ∀ i, computes i ops (runOps c L insts ops) ≤ 1) ∧
    (Fresh c L n insts → ops.any isSetOp = false →
      (∀ op ∈ ops, isCopyOp op = true → L.copyMode ≠ .state → L.hasSlot = false) →
      ∀ p ∈ ops.zip (runOps c L insts ops), isHashOp p.1 = true → p.2.out = .ok → p.2.sameUncached = true) := by
  constructor
  · intro hc i
    have := computes_bound c L n hg hc ops insts i
    split at this <;> omega
  · intro hf hns hcp p hp hh ho
    have := runOps_uncached c L n hg ops insts hf hns hcp p hp
    simpa [stale, hh, ho] using this

/-- **C04_state_clone_rearmed**: a clone made through the generated `__getstate__`/`__setstate__` pair of a
    caching class (slotted or dict, copy / deepcopy / pickle alike) starts with a readable, empty cache —
    its first `hash` computes, whatever the original's cache held — and a clone of a dict instance made by
    the default protocol never holds a cache the original did not hold. -/
theorem C04_state_clone_rearmed (L : Layout) (deep : Bool) (x : Inst) :
    (L.copyMode = .state → L.stateReset = true → readCell L (copyInst L deep x) = .empty) ∧
    (L.copyMode = .dict → L.hasSlot = false → ∀ h, readCell L (copyInst L deep x) = .full h →
      readCell L x = .full h) := by
  constructor
  · intro hm hr
    simp [copyInst, hm, hr, readCell_writeCell]
  · intro hm hs h hh
    simp only [copyInst, hm, readCell, hs, Bool.false_eq_true, if_false] at hh ⊢
    cases deep
    · simpa using hh
    · cases hd : x.dict <;> simp_all

/-- **C04_assoc_never_stale**: whatever the original's cache holds and whichever fields the change set
    touches (hashed or not, compared or not), a successful `hash` of the result of `attr.assoc` is computed
    from the result's own field values. -/
theorem C04_assoc_never_stale (c : Case) (L : Layout) (n : Node) (hg : L.hres = .gen n) (idx : Nat)
    (x : Inst) (ch : List (Nat × Nat)) (hok : (hashCall c L idx (assocInst L x ch)).1 = .ok) :
    (hashCall c L idx (assocInst L x ch)).2.1 = fresh c n (applyChanges x.vals ch) := by
  have hnf := assocInst_not_full L x ch
  unfold hashCall at hok ⊢
  simp only [hg] at hok ⊢
  by_cases hc : n.facts.cacheOn = true
  · simp only [hc, if_true] at hok ⊢
    cases hcell : readCell L (assocInst L x ch) with
    | absent => simp [hcell] at hok
    | empty => simp [assocInst_vals]
    | full h => exact absurd hcell (hnf h)
  · simp [hc, assocInst_vals]

/-- freshly constructed instances satisfy the freshness invariant -/
theorem C04_new_instances_fresh (c : Case) (L : Layout) (n : Node) (vals : List (List Nat)) :
    Fresh c L n (vals.map (newInst L)) := by
  intro x hx h hh
  simp only [List.mem_map] at hx
  obtain ⟨v, _, rfl⟩ := hx
  exact absurd hh (newInst_not_full L v h)

/-- **C04_never_raises**: in a well-formed history on a class whose resolved `__hash__` was generated by
    attrs, every `hash` call succeeds — except in the two listed shapes K1 and K2. -/
theorem C04_never_raises (c : Case) (n : Node)
    (hg : (layoutOf (nodesWith codeOutcome c)).hres = .gen n)
    (h1 : k1 (layoutOf (nodesWith codeOutcome c)) = false)
    (h2 : k2 (layoutOf (nodesWith codeOutcome c)) = false)
    (hw : wfOps c (layoutOf (nodesWith codeOutcome c)).nFields
            ((layoutOf (nodesWith codeOutcome c)).copyMode != .unsupported) c.insts.length [] c.ops = true) :
    ∀ p ∈ c.ops.zip (runOps c (layoutOf (nodesWith codeOutcome c))
          (c.insts.map (newInst (layoutOf (nodesWith codeOutcome c)))) c.ops),
      isHashOp p.1 = true → p.2.out = .ok := by
  apply runOps_never_raises c _ n hg h1 h2 (layoutOf_ok codeOutcome c n) c.ops _ []
  · intro hc x hx
    simp only [List.mem_map] at hx
    obtain ⟨v, _, rfl⟩ := hx
    rw [newInst_read _ n v hg hc h1 h2]; simp
  · simpa using hw

/-- classes hashable through `object.__hash__` or a user function never raise either -/
theorem C04_never_raises_other (c : Case) (L : Layout) (insts : List Inst) (i : Nat) (alt : List Nat)
    (h : L.hres = .ident ∨ L.hres = .const) (hi : i < insts.length) :
    (hashOp c L insts i alt).1.out = .ok := by
  have hx : insts[i]? = some (insts[i]'hi) := List.getElem?_eq_getElem hi
  rcases h with h | h <;> simp [hashOp, hx, hashCall, h]

/-! ## T3: the generated `__hash__` text -/

/-- **C04_script_correct**: for every class (any field list — any length, any per-field eq/hash setting —
    frozen or not, caching or not), every layout in which that class's `__hash__` is the one that resolves, and
    every instance state (any field values, any cache cell: absent, None or populated), executing the script the
    model generator emits for the class *is* the model's `hash` call: same outcome, same hash inputs, same
    "computed" flag, same new instance state.  So where the parsed real source of a class equals `genHashOf`
    (checked per class by the `script` cases), every theorem above about `hashCall` is about the text that runs. -/
theorem C04_script_correct (c : Case) (L : Layout) (n : Node) (idx : Nat) (x : Inst)
    (hg : L.hres = .gen n) (hl : n.fields.length ≤ x.vals.length) :
    IR.execScript c L (n.k + 2) (IR.genHashOf n) x = hashCall c L idx x := by
  have hev := IR.evalOperands_genHash c n x.vals hl
  unfold hashCall IR.genHashOf IR.genHash IR.execScript
  simp only [hg]
  by_cases hc : n.facts.cacheOn = true
  · simp only [hc, if_true, Bool.not_true, Bool.false_eq_true, if_false, IR.execStmts, IR.readNamed,
      beq_self_eq_true]
    cases hcell : readCell L x with
    | absent => simp
    | full h => simp
    | empty => simp [hev, readCell_writeCell]
  · simp [hc, IR.execStmts, hev]

/-- the operand tuple alone: salt, then the hash codes of the participating (keyed) values, in field order -/
theorem C04_script_operands (c : Case) (n : Node) (vals : List Nat) (hl : n.fields.length ≤ vals.length) :
    IR.evalOperands c (n.k + 2) vals (IR.Operand.salt :: IR.genOperands 0 n.fields) = .ok (fresh c n vals) :=
  IR.evalOperands_genHash c n vals hl

/-- non-vacuity: the script of a frozen caching class with a plain, a keyed and a non-participating field; run
    on a fresh instance it computes, stores and returns the hash inputs `[salt, vh 1, vh (key 2)]`, and a second
    run returns them without computing -/
example :
    let fs : List Field := [{ name := "a", eq := .t, hash := none }, { name := "b", eq := .key, hash := some true },
                            { name := "c", eq := .f, hash := none }]
    let s := IR.genHash fs true true
    let c : Case := { witnessOk with keyMap := [0, 0, 1] }
    let L : Layout := { (default : Layout) with hasSlot := true }
    let x : Inst := { vals := [1, 2, 0], slot := .empty, dict := .absent }
    s = { params := .cached true,
          body := [.fillCache "_attrs_cached_hash" .objSetattr
                     { wrapped := true, operands := [.salt, .field 0, .keyed 1 .own 1] },
                   .retCache "_attrs_cached_hash"],
          builtinsOk := true } ∧
    (IR.execScript c L 2 s x).1 = .ok ∧ (IR.execScript c L 2 s x).2.1 = [2, 1, 1] ∧
    (IR.execScript c L 2 s x).2.2.1 = true ∧
    (IR.execScript c L 2 s (IR.execScript c L 2 s x).2.2.2).2.2.1 = false ∧
    (IR.execScript c L 2 s (IR.execScript c L 2 s x).2.2.2).2.1 = [2, 1, 1] := by decide

/-- non-vacuity of the script check: on the healthy caching class the model's own scripts meet the script
    specification, and a script that reads the wrong field does not -/
example : Script.wf { witnessOk with ops := [] , insts := [] } = true ∧
    Script.spec { witnessOk with ops := [], insts := [] } (Script.model { witnessOk with ops := [], insts := [] }) = true ∧
    Script.spec { witnessOk with ops := [], insts := [] }
      { script := some { params := .plain, body := [.retHash { wrapped := false, operands := [.salt] }], builtinsOk := true },
        twin := some (IR.genHash [fa] false false) } = false := by decide

/-! ## Known deviations of the pinned tree: witnesses -/

/-- K1 (`witnessK1`): `@attr.s(unsafe_hash=True, cache_hash=True) class C0: a`, `@attr.s(eq=False) class C1(C0): b`;
    `hash(C1(0, 1))` raises -/
theorem C04_K1_witness :
    ∃ c, wf c = true ∧ "K1" ∈ known c ∧ spec c (model c) = false :=
  ⟨witnessK1, by decide, by decide, by decide⟩

/-- K2 (`witnessK2`): `@attr.s(frozen=True, slots=True, cache_hash=True) class C0: a`,
    `@attr.s(cache_hash=True) class C1(C0): b` (frozen by inheritance, dict class); `hash(C1(0, 1))` raises -/
theorem C04_K2_witness :
    ∃ c, wf c = true ∧ "K2" ∈ known c ∧ spec c (model c) = false :=
  ⟨witnessK2, by decide, by decide, by decide⟩

/-- K5 (`witnessK5`): `x = C(0); hash(x); y = copy.copy(x); y.a = 1; hash(y)` on a dict cache_hash class
    returns the hash of `C(0)` -/
theorem C04_K5_witness :
    ∃ c, wf c = true ∧ "K5" ∈ known c ∧ spec c (model c) = false :=
  ⟨witnessK5, by decide, by decide, by decide⟩

/-- K5 is narrow: the model predicts a stale value only for histories that write a field (under `wf`
    that write is to an instance not yet hashed itself, i.e. to a copy) -/
theorem C04_K5_needs_write (c : Case) (hwf : wf c = true) (h5 : "K5" ∈ known c) :
    c.ops.any isSetOp = true := by
  unfold wf at hwf
  simp only [Bool.and_eq_true, Bool.or_eq_true, Bool.not_eq_true'] at hwf
  obtain ⟨⟨⟨⟨⟨⟨⟨⟨_, hcls⟩, _⟩, _⟩, _⟩, _⟩, _⟩, _⟩, hinst⟩ := hwf
  have hnd := nodes_code_doc c hcls
  rw [← hnd] at hinst
  unfold known at h5
  by_cases hbh : (built (nodesWith codeOutcome c) && hasHashOp c) = true
  · simp only [hbh, if_true, List.mem_append] at h5
    simp only [Bool.and_eq_true] at hbh
    have hk5 : k5 c (layoutOf (nodesWith codeOutcome c)) (model c).results = true := by
      rcases h5 with (h | h) | h
      · split at h <;> simp at h
      · split at h <;> simp at h
      · by_cases hk : k5 c (layoutOf (nodesWith codeOutcome c)) (model c).results = true
        · exact hk
        · simp [hk] at h
    have hres : (model c).results = runOps c (layoutOf (nodesWith codeOutcome c))
        (c.insts.map (newInst (layoutOf (nodesWith codeOutcome c)))) c.ops := by
      simp [model, hbh.1]
    rw [hres] at hk5
    generalize hL : layoutOf (nodesWith codeOutcome c) = L at *
    have hne : c.ops ≠ [] := by
      intro h; simp [hasHashOp, h] at hbh
    have hwo : wfOps c L.nFields (L.copyMode != .unsupported) c.insts.length [] c.ops = true := by
      rcases hinst with hu | hu
      · simp only [usesInstances, Bool.or_eq_false_iff, Bool.not_eq_false', List.isEmpty_iff] at hu
        exact absurd hu.2 hne
      · exact wfOps_mono c _ _ _ (by intro h; simp only [Bool.and_eq_true] at h; exact h.1) c.ops _ _ hu.2
    unfold k5 at hk5
    cases hh : L.hres with
    | gen n =>
      simp only [hh] at hk5
      have hok : LayoutOk L n := by rw [← hL] at hh ⊢; exact layoutOf_ok codeOutcome c n
      by_cases hs : c.ops.any isSetOp = true
      · exact hs
      · exfalso
        have hs' : c.ops.any isSetOp = false := by simpa using hs
        have hcp : ∀ op ∈ c.ops, isCopyOp op = true → L.copyMode ≠ .state → L.hasSlot = false := by
          intro op hop hc hnt
          have hu := wfOps_copy_uniform c _ _ c.ops _ _ hwo op hop hc
          apply hok.noSlotOfDict
          cases hun : L.copyMode <;> simp_all
        have := runOps_uncached c L n hh c.ops _ (C04_new_instances_fresh c L n c.insts) hs' hcp
        rw [List.any_eq_true] at hk5
        obtain ⟨p, hp, hst⟩ := hk5
        have := this p hp
        simp [stale] at this hst
        simp_all
    | ident => simp [hh] at hk5
    | const => simp [hh] at hk5
    | unhashable => simp [hh] at hk5
  · simp [hbh] at h5


/-- non-vacuity of `C04_never_raises` / `C04_cache_once` / `C04_model_meets_spec`: a well-formed case under no
    known predicate whose history hashes; the first call computes (one value `__hash__` call), the second
    does not, both succeed, and the hash differs from that of an instance with another field value -/
example : wf witnessOk = true ∧ known witnessOk = [] ∧ hasHashOp witnessOk = true ∧
    (model witnessOk).results.map (fun r => (r.out, r.nVal, r.sameUncached, r.hashAlt)) =
      [(.ok, 1, true, true), (.ok, 0, true, false)] := by decide

/-- non-vacuity of `C04_table`: each of the three documented rows is inhabited outside the legacy row -/
example : ∃ f g h : Facts, f.valid ∧ g.valid ∧ h.valid ∧ legacyRow f = false ∧ legacyRow g = false ∧
    legacyRow h = false ∧ docGenerated f = true ∧ docUnhashable g = true ∧ docUntouched h = true :=
  ⟨facts { cls0 with frozen := .t } false false, facts cls0 false false, facts { cls0 with eq := .f } false false,
   by decide⟩

/-- **K1 and K2 are tight**: a case in the K1 shape whose history hashes at all, and a case in the K2
    shape whose history hashes and makes no copy / deepcopy / pickle, never satisfies the specification —
    every `hash` call in it fails (`C04_never_raises` covers the complement).  (A clone of a K2 instance made
    through the generated `__setstate__` does get a readable cache: `__setstate__` stores it with
    `object.__setattr__`, which reaches the slot.) -/
theorem C04_known_shapes_fail (c : Case) (hcls : c.chain.all wfCls = true)
    (hb : built (nodesWith codeOutcome c) = true) (hh : hasHashOp c = true)
    (hk' : k1 (layoutOf (nodesWith codeOutcome c)) = true ∨
      (k2 (layoutOf (nodesWith codeOutcome c)) = true ∧ c.ops.any isCopyOp = false)) :
    spec c (model c) = false := by
  have hk : k1 (layoutOf (nodesWith codeOutcome c)) = true ∨ k2 (layoutOf (nodesWith codeOutcome c)) = true :=
    hk'.imp id (·.1)
  have hnd := nodes_code_doc c hcls
  unfold spec
  simp only [← hnd]
  have hmc : (model c).classes = classObs (nodesWith codeOutcome c) := rfl
  have hres : (model c).results = runOps c (layoutOf (nodesWith codeOutcome c))
      (c.insts.map (newInst (layoutOf (nodesWith codeOutcome c)))) c.ops := by
    simp [model, hb]
  rw [hmc, specClasses_classObs, classObs_any_err, hres]
  simp only [hb, Bool.not_true, Bool.false_eq_true, if_false, Bool.true_and, Bool.and_eq_false_iff]
  left
  -- the resolved hash is a caching generated one
  obtain ⟨n, hg, hc⟩ : ∃ n, (layoutOf (nodesWith codeOutcome c)).hres = .gen n ∧ n.facts.cacheOn = true := by
    rcases hk with hk | hk
    · unfold k1 at hk
      cases hh' : (layoutOf (nodesWith codeOutcome c)).hres with
      | gen n => simp only [hh', Bool.and_eq_true] at hk; exact ⟨n, rfl, hk.1⟩
      | ident => simp [hh'] at hk
      | const => simp [hh'] at hk
      | unhashable => simp [hh'] at hk
    · unfold k2 at hk
      cases hh' : (layoutOf (nodesWith codeOutcome c)).hres with
      | gen n => simp only [hh', Bool.and_eq_true] at hk; exact ⟨n, rfl, hk.1.1.1⟩
      | ident => simp [hh'] at hk
      | const => simp [hh'] at hk
      | unhashable => simp [hh'] at hk
  have hu : ∀ op ∈ c.ops, isCopyOp op = true →
      (layoutOf (nodesWith codeOutcome c)).copyMode = .state →
      (layoutOf (nodesWith codeOutcome c)).stateReset = false := by
    intro op hop hcop _
    rcases hk' with hk1 | hk2
    · have hr : (layoutOf (nodesWith codeOutcome c)).stateReset = (layoutOf (nodesWith codeOutcome c)).initCache := rfl
      rw [hr]
      simpa [k1, hg, hc] using hk1
    · have := List.any_eq_false.1 hk2.2 op hop
      simp [hcop] at this
  generalize layoutOf (nodesWith codeOutcome c) = L at *
  apply specOps_false_of_raise c L n hg
  -- some operation is a hash call, and it does not succeed
  unfold hasHashOp at hh
  rw [List.any_eq_true] at hh
  obtain ⟨op, hop, hio⟩ := hh
  have hlen := runOps_length c L c.ops (c.insts.map (newInst L))
  obtain ⟨i, hi, rfl⟩ := List.getElem_of_mem hop
  have hi' : i < (runOps c L (c.insts.map (newInst L)) c.ops).length := by rw [hlen]; exact hi
  have hmem : (c.ops[i], (runOps c L (c.insts.map (newInst L)) c.ops)[i]) ∈
      c.ops.zip (runOps c L (c.insts.map (newInst L)) c.ops) := by
    rw [List.mem_iff_getElem]
    have hz : i < (c.ops.zip (runOps c L (c.insts.map (newInst L)) c.ops)).length := by
      rw [List.length_zip]; omega
    exact ⟨i, hz, by rw [List.getElem_zip]⟩
  refine ⟨_, hmem, hio, ?_⟩
  refine runOps_known_shapes_raise c L n hg hc hk c.ops (c.insts.map (newInst L)) ?_ hu _ hmem hio
  intro x hx
  simp only [List.mem_map] at hx
  obtain ⟨v, _, rfl⟩ := hx
  exact newInst_unreadable L v hk

/-! ## The model meets the specification -/

/-- **C04_model_meets_spec**: on every well-formed case that falls under no listed known deviation the model
    satisfies the declarative specification: documented class kinds, and along the whole history never
    raises / uncached value / function of participating values / equal ⇒ equal hashes / computed once. -/
theorem C04_model_meets_spec (c : Case) (hwf : wf c = true) (hk : known c = []) :
    spec c (model c) = true := by
  unfold wf at hwf
  simp only [Bool.and_eq_true, Bool.or_eq_true, Bool.not_eq_true'] at hwf
  obtain ⟨⟨⟨⟨⟨⟨⟨⟨_, hcls⟩, _⟩, _⟩, _⟩, _⟩, _⟩, _⟩, hinst⟩ := hwf
  have hnd := nodes_code_doc c hcls
  rw [← hnd] at hinst
  unfold spec
  simp only [← hnd]
  have hmc : (model c).classes = classObs (nodesWith codeOutcome c) := rfl
  rw [hmc, specClasses_classObs, classObs_any_err, Bool.true_and]
  by_cases hb : built (nodesWith codeOutcome c) = true
  · have hres : (model c).results = runOps c (layoutOf (nodesWith codeOutcome c))
        (c.insts.map (newInst (layoutOf (nodesWith codeOutcome c)))) c.ops := by
      simp [model, hb]
    simp only [hb, Bool.not_true, Bool.false_eq_true, if_false, Bool.and_eq_true]
    generalize hL : layoutOf (nodesWith codeOutcome c) = L at *
    -- well-formedness of the history (trivial when there is none)
    have hwo : c.ops = [] ∨ wfOps c L.nFields (L.copyMode != .unsupported) c.insts.length [] c.ops = true := by
      rcases hinst with hu | hu
      · left
        simp only [usesInstances, Bool.or_eq_false_iff, Bool.not_eq_false', List.isEmpty_iff] at hu
        exact hu.2
      · right
        exact wfOps_mono c _ _ _ (by intro h; simp only [Bool.and_eq_true] at h; exact h.1) c.ops _ _ hu.2
    rw [hres]
    constructor
    · rcases hwo with hnil | hwo
      · simp [hnil, runOps, specOps]
      · cases hh : L.hres with
        | gen n =>
          by_cases hho : hasHashOp c = true
          · have hkn := known_nil c hk hb hho
            rw [hL] at hkn
            obtain ⟨h1, h2, h5⟩ := hkn
            have hok : LayoutOk L n := by rw [← hL] at hh ⊢; exact layoutOf_ok codeOutcome c n
            apply specOps_run_gen c L n hh h1 h2 hok c.ops _ []
            · intro hc x hx
              simp only [List.mem_map] at hx
              obtain ⟨v, _, rfl⟩ := hx
              rw [newInst_read L n v hh hc h1 h2]; simp
            · simpa using hwo
            · rw [hres] at h5
              simpa [k5, hh, stale] using h5
          · apply specOps_nohash
            · simpa [hasHashOp] using hho
            · exact runOps_length c L c.ops _
        | ident => exact specOps_run_nongen c L (by simp [hh]) c.ops _ [] (by simpa using hwo)
        | const => exact specOps_run_nongen c L (by simp [hh]) c.ops _ [] (by simpa using hwo)
        | unhashable => exact specOps_run_nongen c L (by simp [hh]) c.ops _ [] (by simpa using hwo)
    · cases hh : L.hres with
      | gen n =>
        simp only
        by_cases hc : n.facts.cacheOn = true
        · simp [hc, onceOk_run c L n hh hc]
        · simp [hc]
      | ident => rfl
      | const => rfl
      | unhashable => rfl
  · have : (model c).results = [] := by simp [model, hb]
    simp [hb, this]

/-! ### T1b: the hash block of `attrs(...).wrap` as written in /repo's source on this run -/

/-- **C04_source_hash_block**: the body of `wrap`, translated from the current source (`Gen.attrs_wrap`, regenerated
    on every run), performs exactly the builder calls of the declarative table `Src.wrapModel` — whose hash part is
    `codeOutcome` / `defErr`, the functions `C04_table` and `C04_cache_errors` are about — for every combination of
    `hash`/`unsafe_hash` ∈ {None, True, False}, effective `eq` ∈ {None, True, False}, auto_detect, own
    `__hash__`, frozen, frozen base, exception base (under auto_exc) and cache_hash (1 024 rows, kernel-evaluated;
    the remaining inputs at the values of `Src.base`): `add_hash` / `make_unhashable` / neither, and the TypeError
    for cache_hash without a generated hash, in exactly the documented rows. -/
theorem C04_source_hash_block : ∀ (hs hv es ev ad oh fz fb eb ch : Bool),
    Src.srcWrap (Src.sliceHash hs hv es ev ad oh fz fb eb ch) =
      Src.wrapModel (Src.sliceHash hs hv es ev ad oh fz fb eb ch) :=
  Src.wrap_slice_hash

end Attrs.C04
