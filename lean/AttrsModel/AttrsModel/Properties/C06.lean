/-
  C06 — property theorems.  Pipes, field lists, chains of classes, histories and fault positions are
  arbitrary (proofs by induction / invariants in Proofs/C06*.lean); nothing here is a finite sample.
  "Clean" chains are those without any `frozen=True` and without user-written `__setattr__`: the mutable
  attrs classes the run-time part of the statement is about.
-/
import AttrsModel.Proofs.C06Top
import AttrsModel.Properties.C01
import AttrsModel.Proofs.SrcDefine
import AttrsModel.Proofs.SrcSetters

namespace Attrs.C06
open Attrs.Init (Val Conv Event EventId)

/-! ## the class under test -/

/-- a clean well-formed chain always defines, and outside K6 the class under test either wrote the hook table
    `sa_attrs` of its own fields and its own class-level argument, or has `object.__setattr__` and an
    empty table -/
theorem C06_leaf (c : Case) (hw : wf c = true) (hc : clean c.cls = true) (hk : known c = []) :
    ∃ rt l e0, defineChain c.cls = .ok rt ∧ Leaf c.cls rt l e0 := by
  have hcl : c.cls.all cleanCls = true := by simpa [clean, cleanCls] using hc
  obtain ⟨rt, hd, _⟩ := defineFrom_clean c.cls CState.root 0 rfl hcl
  obtain ⟨l, e0, hl⟩ := leaf_of_clean c rt hw hc hd (known_nil c rt hd hk)
  exact ⟨rt, l, e0, hd, hl⟩

/-! ## C06_resolution -/

/-- **C06_resolution**: on an instance of the last class `l` of a clean chain (outside K6), `obj.n = v` is
    * a plain store if `n` is not a field;
    * otherwise governed by the *nearest definition* `f` of `n` (`fieldOf`) and `fieldChain l f`: the
      field's own `on_setattr` if given (whatever the class says), nothing for `NO_OP`, else the
      class-level argument **of `l` itself** (define's default = convert-then-validate) — no base class's
      class-level argument and no inherited attrs `__setattr__` enters: the right-hand side mentions the
      bases only through the field list. -/
theorem C06_resolution (cs : List Cls) (rt : CState) (l : Cls) (e0 : Eff) (hl : Leaf cs rt l e0)
    (rv : Bool) (fault : Option Nat) (st : Store) (n : String) (v : Val) :
    assign rt rv fault st n v =
      match fieldOf cs n with
      | none => plainStore rt st n v []
      | some f =>
        match fieldChain l f with
        | none => plainStore rt st n v []
        | some h => assignHooked rt rv fault st n v [{ field := f, hook := h }] := by
  rw [assign_leaf cs rt l e0 hl, assignHooked, find_saAttrs _ _ _ hl.inv.nodup]
  have hfo : fieldOf cs n = rt.attrs.find? (fun f => f.name == n) := by
    unfold fieldOf; rw [hl.inv.attrs]
  rw [hfo]
  cases hfind : rt.attrs.find? (fun f => f.name == n) with
  | none => rfl
  | some f =>
    have hfm : f ∈ rt.attrs := List.mem_of_find?_eq_some hfind
    have hfn' : f.name = n := by simpa using List.find?_some hfind
    have hfn : (f.name == n) = true := by simp [hfn']
    simp only
    rcases entryOf_vs_fieldChain rt.attrs e0 l hl.chain f hfm with he | ⟨he, h, hfc, hin⟩
    · rw [he]
      cases hfc : fieldChain l f with
      | none => rfl
      | some h => simp [assignHooked, hfn]
    · obtain ⟨e1, e2, e3⟩ := inert_spec rv f h v hin
      have hh : hitPos fault 0 = none := by unfold hitPos; cases fault <;> simp
      rw [he, hfc]
      simp [assignHooked, hfn, runPipe_spec, e1, e2, frozen_not_mem e3, hh]

/-- **C06_resolution_nearest**: the field a name resolves to is its nearest definition along the chain -/
theorem C06_resolution_nearest (cs : List Cls) (n : String) : fieldOf cs n = nearest cs n := by
  unfold fieldOf fieldsOf
  rw [fieldOf_fold]
  cases nearest cs n <;> rfl

/-- **C06_resolution_reset**: an attrs class without hooks directly below the attrs class that wrote a
    hooking `__setattr__` gets `object.__setattr__` back (dict and slotted alike) -/
theorem C06_resolution_reset (b : CState) (c : Cls) (s : CState)
    (hflag : b.flagOwn = some true ∧ b.flagRes = true) (hplain : b.impl.plainish = true)
    (hc : cleanCls c = true) (hk : c.kind = .attrs) (hd : defineCls b c = .ok s) :
    s.wroteHooks = true ∨ s.impl = .object := by
  unfold cleanCls at hc
  simp only [Bool.and_eq_true, Bool.not_eq_true'] at hc
  obtain ⟨hfa, hown⟩ := hc
  have hbf := plainish_not_frozen _ hplain
  unfold defineCls at hd
  simp only [hk] at hd
  obtain ⟨e0, _, _, rfl⟩ := defineAttrs_ok b c s hd
  have hnf : isFrozenOf b c = false := by simp [isFrozenOf, hfa, hbf]
  unfold finish
  dsimp only
  simp only [hnf, hown, hasCustomOf, hflag.1, hflag.2, Bool.and_false, Bool.not_false, Bool.true_and,
    Bool.false_eq_true, if_false, beq_self_eq_true, if_true]
  split
  · left; rfl
  · right; split <;> rfl

/-- **C06_mixin_only_layout**: a second direct base that is a plain class (before or after the attrs parent in
    `__bases__`) changes nothing about the definition outcome, the `__setattr__` the class resolves to, the
    hook table, the flags or the fields — only whether instances have a `__dict__`.  In particular a hook-less
    slotted class `C(Mixin, Hooked)` is reset exactly like `C(Hooked)`. -/
theorem C06_mixin_only_layout (b : CState) (c : Cls) (m : Option Bool) :
    (defineCls b { c with mixin := m }).map (fun s => { s with hasDict := false }) =
      (defineCls b c).map (fun s => { s with hasDict := false }) := by
  have hplain : (fun s : CState => { s with hasDict := false }) (definePlain b { c with mixin := m }) =
      (fun s : CState => { s with hasDict := false }) (definePlain b c) := rfl
  have hattrs : (defineAttrs b { c with mixin := m }).map (fun s => { s with hasDict := false }) =
      (defineAttrs b c).map (fun s => { s with hasDict := false }) := by
    unfold defineAttrs
    have h1 : eff0Of b { c with mixin := m } = eff0Of b c := rfl
    rw [h1]
    cases eff0Of b c with
    | error e => rfl
    | ok e0 =>
      have h2 : rejects b { c with mixin := m } e0 = rejects b c e0 := rfl
      have h3 : saOf b { c with mixin := m } e0 = saOf b c e0 := rfl
      have h4 : isFrozenOf b { c with mixin := m } = isFrozenOf b c := rfl
      have h5 : hasCustomOf { c with mixin := m } = hasCustomOf c := rfl
      simp only [h2]
      cases rejects b c e0 with
      | true => rfl
      | false =>
        simp only [Bool.false_eq_true, if_false, Except.map, finish, h3, h4, h5]
        split <;> (try split) <;> (try split) <;> (try split) <;> rfl
  unfold defineCls
  simp only
  split
  · simpa [Except.map] using hplain
  · exact hattrs

/-- **C06_inherits_only_when_confused**: in a clean chain the class under test can resolve to an ancestor's
    hook table only if somewhere above it a *slotted* attrs class sits directly below a *plain* class —
    the "slotted confused" shape (K6); every other route resets or overwrites the inherited `__setattr__`. -/
theorem C06_inherits_only_when_confused (c : Case) (rt : CState) (hw : wf c = true)
    (hc : clean c.cls = true) (hd : defineChain c.cls = .ok rt) (hi : rt.inheritsHooks = true) :
    Confused c.cls := by
  have hcl : c.cls.all cleanCls = true := by simpa [clean, cleanCls] using hc
  have hroot : HookInv [] CState.root := by intro h; simp [CState.root, Impl.isHooked] at h
  have := hookInv_chain c.cls [] CState.root 0 rt hroot rfl hcl hd
  simp only [List.nil_append] at this
  unfold CState.inheritsHooks at hi
  simp only [Bool.and_eq_true, Bool.not_eq_true'] at hi
  rcases this hi.1 with ⟨h1, _⟩ | ⟨_, _, _, a, P, hp, hP⟩ | ⟨_, h2⟩
  · rw [hi.2] at h1; cases h1
  · exfalso
    unfold wf at hw
    simp only [Bool.and_eq_true] at hw
    rw [hp] at hw
    simp [hP] at hw
  · exact h2

/-! ## C06_stores_chain -/

/-- **C06_stores_chain**: an undisturbed pipe of any length returns the left-to-right fold of its setters and
    makes exactly the callbacks of the declarative run, each setter seeing its predecessor's result -/
theorem C06_stores_chain (rv : Bool) (f : Field) (h : List Setter) (v : Val) (hfz : h.contains .frozen = false) :
    runPipe rv none f h [] v = (chainEvents rv f h v, .ok (h.foldl (fun v s => pureApply f s v) v)) := by
  rw [runPipe_spec, hitPos_none]
  simp only [hfz, Bool.false_eq_true, if_false]
  rfl

/-- for user hooks `h_1 … h_k` the stored term is `h_k(… h_1(v))` -/
theorem C06_stores_chain_user (rv : Bool) (f : Field) (ids : List Nat) (v : Val) :
    (runPipe rv none f (ids.map Setter.user) [] v).2 = .ok (ids.foldl (fun v i => hookVal i f v) v) := by
  have hfz : (ids.map Setter.user).contains .frozen = false := by
    induction ids with
    | nil => rfl
    | cons i rest ih => simp
  rw [C06_stores_chain rv f _ v hfz, List.foldl_map]
  rfl

/-- on the class under test: a field with effective chain `h` ends up holding the fold, the other names
    keep their values -/
theorem C06_stores_chain_assign (cs : List Cls) (rt : CState) (l : Cls) (e0 : Eff) (hl : Leaf cs rt l e0)
    (rv : Bool) (st : Store) (n : String) (v : Val) (f : Field) (h : List Setter)
    (he : effChain cs n = some (f, h)) (hfz : h.contains .frozen = false) :
    assign rt rv none st n v =
      (st.set n (chainVal f h v), { exc := none, trace := chainEvents rv f h v }) ∧
    ∀ m, m ≠ n → ((assign rt rv none st n v).1).get m = st.get m := by
  unfold effChain at he
  rw [hl.last] at he
  cases hf : fieldOf cs n with
  | none => simp [hf] at he
  | some f' =>
    simp only [hf] at he
    cases hfc : fieldChain l f' with
    | none => simp [hfc] at he
    | some h' =>
      simp only [hfc, Option.map_some, Option.some.injEq, Prod.mk.injEq] at he
      obtain ⟨rfl, rfl⟩ := he
      obtain ⟨hfm, hfn⟩ := fieldOf_mem cs n f' hf
      have hset : (rt.hasDict || rt.slotNames.contains n) = true := by
        rw [Bool.or_eq_true]
        rcases hl.inv.settable f' (by rw [hl.inv.attrs]; exact hfm) with h1 | h1
        · exact Or.inl h1
        · rw [hfn] at h1; exact Or.inr h1
      have heq : assign rt rv none st n v =
          (st.set n (chainVal f' h' v), { exc := none, trace := chainEvents rv f' h' v }) := by
        rw [C06_resolution cs rt l e0 hl, hf]
        simp only [hfc, assignHooked]
        have : (f'.name == n) = true := by simp [hfn]
        simp only [List.find?_cons, this, C06_stores_chain rv f' h' v hfz, plainStore]
        rw [if_pos hset]
        rfl
      refine ⟨heq, ?_⟩
      intro m hm
      rw [heq, get_set]
      simp [hm]

/-! ## hook selection is by None / NO_OP / anything else -/

/-- hook identities 700..899 stand for callable hook OBJECTS that are falsy (`__bool__` False / `__len__` 0) -/
def Setter.falsyObject : Setter → Bool
  | .user i => decide (700 ≤ i) && decide (i < 900)
  | _ => false

/-- **C06_selection_ignores_truthiness**: which fields get a hook, and whose hook it is — the field's own
    `on_setattr` if given (not `None`; `NO_OP` = none), else the class-level one — is a function of
    `None` / `NO_OP` / anything else only: replacing every hook object by any other hook object (`ρ` on
    identities; in particular truthy objects by falsy ones and back) changes the hook table `sa_attrs`
    by exactly that replacement and nothing else, normalisation included -/
theorem C06_selection_ignores_truthiness (ρ : Nat → Nat) (attrs : List Field) (e : Eff) :
    saAttrs (attrs.map (Field.rename ρ)) (normalise (attrs.map (Field.rename ρ)) (e.rename ρ)) =
      (saAttrs attrs (normalise attrs e)).map (Entry.rename ρ) := by
  rw [normalise_rename, saAttrs_rename]

/-- a field-level hook that is given is the one in the table — whatever object it is — and never the class's -/
theorem C06_field_hook_if_given (e : Eff) (a : Field) (l : List Setter) (h : a.onSet = .chain l) :
    entryOf e a = some { field := a, hook := l } := by
  unfold entryOf; rw [h]

/-- non-vacuity: a falsy hook object on the field under a truthy class-level hook: the field's hook runs -/
example :
    let f : Field := { name := "x", tag := "x@0", conv := none, validators := 0, onSet := .chain [.user 800] }
    Setter.falsyObject (.user 800) = true ∧ Setter.falsyObject (.user 50) = false ∧
    saAttrs [f] (.bare (.user 50)) = [{ field := f, hook := [.user 800] }] := by
  refine ⟨by decide, by decide, rfl⟩

/-! ## hook expressions as trees -/

/-- **C06_tree_runs_flat**: a hook expression of any shape — pipes nested in pipes at any position and depth —
    called the way `setters.pipe` objects call their members (a member pipe runs its own members before the
    outer pipe goes on) does exactly what the flat pipe of its leaves, depth-first left to right, does: same
    callbacks in the same order with the same intermediate values, same result, same behaviour under a fault
    at any position -/
theorem C06_tree_runs_flat (rv : Bool) (fault : Option Nat) (f : Field) (h : Hook) (tr : List Event) (v : Val) :
    runHook rv fault f h tr v = runPipe rv fault f h.flatten tr v := runHook_flat rv fault f h tr v

/-- **C06_flatten_order**: flattening preserves the written left-to-right order: what stands left of a nested
    pipe comes before all of its members, what stands right of it after all of them; a flat list is itself -/
theorem C06_flatten_order (pre inner post : List Hook) :
    (Hook.pipe (pre ++ [Hook.pipe inner] ++ post)).flatten =
      flattenList pre ++ flattenList inner ++ flattenList post := by
  simp [Hook.flatten, flattenList_append, flattenList]

theorem C06_flatten_flat (l : List Setter) : (Hook.pipe (l.map Hook.leaf)).flatten = l := by
  simp [Hook.flatten, flattenList_leaves]

/-- an undisturbed hook tree stores the left-to-right fold over its leaves -/
theorem C06_stores_tree (rv : Bool) (f : Field) (h : Hook) (v : Val) (hfz : h.flatten.contains .frozen = false) :
    runHook rv none f h [] v =
      (chainEvents rv f h.flatten v, .ok (h.flatten.foldl (fun v s => pureApply f s v) v)) := by
  rw [C06_tree_runs_flat, C06_stores_chain rv f _ v hfz]

/-- `[pipe(a, b), c]` is a, b, c and `[a, pipe(b, c), d]` is a, b, c, d -/
example (a b c d : Setter) :
    (Hook.pipe [.pipe [.leaf a, .leaf b], .leaf c]).flatten = [a, b, c] ∧
    (Hook.pipe [.leaf a, .pipe [.leaf b, .leaf c], .leaf d]).flatten = [a, b, c, d] ∧
    (Hook.pipe [.pipe [.pipe [.leaf a, .leaf b], .leaf c], .leaf d]).flatten = [a, b, c, d] := ⟨rfl, rfl, rfl⟩

/-! ## C06_failure_atomic -/

/-- **C06_failure_atomic (pipe)**: whichever callback of an arbitrary pipe raises — position `p` of the
    undisturbed run — exactly the callbacks up to and including it have run (nothing later), and that
    callback's exception is what propagates -/
theorem C06_failure_atomic_pipe (rv : Bool) (f : Field) (h : List Setter) (v : Val) (p : Nat)
    (hp : p < (chainEvents rv f h v).length) :
    runPipe rv (some p) f h [] v =
      ((chainEvents rv f h v).take (p + 1), .error (.user (tok ((chainEvents rv f h v)[p]).id))) := by
  rw [runPipe_spec]
  have : hitPos (some p) (chainEvents rv f h v).length = some p := by simp [hitPos, hp]
  rw [this]
  simp [List.getElem?_eq_getElem hp]

/-- `setters.frozen` anywhere in the pipe: FrozenAttributeError once the setters before it have run -/
theorem C06_failure_atomic_frozen (rv : Bool) (f : Field) (h : List Setter) (v : Val)
    (hfz : h.contains .frozen = true) :
    runPipe rv none f h [] v = (chainEvents rv f h v, .error .frozenAttribute) := by
  rw [runPipe_spec, hitPos_none]
  simp only [hfz, if_true]

/-- **C06_failure_atomic (step)**: on *any* class (hooked, plain, frozen, user `__setattr__`, K6 included), if
    an assignment raises — a hook, converter or validator at any position, `setters.frozen`, a frozen
    class, a missing slot — the instance state is exactly what it was -/
theorem C06_failure_atomic_step (rt : CState) (rv : Bool) (fault : Option Nat) (st : Store) (n : String)
    (v : Val) (h : (assign rt rv fault st n v).2.exc ≠ none) : (assign rt rv fault st n v).1 = st := by
  unfold assign at h ⊢
  cases hi : rt.impl with
  | frozen => rfl
  | object => simp only [hi] at h ⊢; exact plainStore_atomic _ _ _ _ _ h
  | user =>
    simp only [hi] at h ⊢
    cases hc : call fault [] (ownEvent n v) with
    | mk tr r =>
      cases r with
      | some x => rfl
      | none => simp only [hc] at h ⊢; exact plainStore_atomic _ _ _ _ _ h
  | hooked table =>
    simp only [hi, assignHooked] at h ⊢
    cases hf : table.find? (fun e => e.field.name == n) with
    | none => simp only [hf] at h ⊢; exact plainStore_atomic _ _ _ _ _ h
    | some e =>
      simp only [hf] at h ⊢
      cases hp : runPipe rv fault e.field e.hook [] v with
      | mk tr r =>
        cases r with
        | error x => rfl
        | ok nv => simp only [hp] at h ⊢; exact plainStore_atomic _ _ _ _ _ h

/-- every failed step of an observed history reports the values of the step before it -/
def Atomic : Snap → List StepObs → Prop
  | _, [] => True
  | prev, o :: os => (o.exc ≠ none → o.values = prev) ∧ Atomic o.values os

/-- **C06_failure_atomic (history)**: for assignment sequences of any length, any fault, any class: every
    step that raises leaves all probed names exactly as the previous step left them -/
theorem C06_failure_atomic (rt : CState) (rv : Bool) (fault : Option (Nat × Nat)) (k : Option FaultKind)
    (ps : List String) (h : List Assign) (i : Nat) (st : Store) :
    Atomic (snapshot ps st) (runHistory rt rv fault k ps i st h) := by
  induction h generalizing i st with
  | nil => trivial
  | cons a rest ih =>
    simp only [runHistory, Atomic]
    refine ⟨?_, ih _ _⟩
    intro hexc
    have hexc' : (assign rt rv (faultAt fault i) st a.name a.value).2.exc ≠ none := by
      intro hn; rw [hn] at hexc; exact hexc rfl
    rw [C06_failure_atomic_step rt rv (faultAt fault i) st a.name a.value hexc']

theorem retype_none (e : Exc) : retype none e = e := by cases e <;> rfl

/-- **C06_failure_type_independent**: the type of the exception the faulty callback raises — KeyError, LookupError,
    AttributeError, TypeError, ValueError, StopIteration, a BaseException that is not an Exception, or a
    user error — changes nothing but the type that propagates: same callbacks, same values, for every
    history, class and fault position (nothing between the callback and the caller inspects the exception) -/
theorem C06_failure_type_independent (rt : CState) (rv : Bool) (fault : Option (Nat × Nat))
    (k : Option FaultKind) (ps : List String) (h : List Assign) (i : Nat) (st : Store) :
    runHistory rt rv fault k ps i st h =
      (runHistory rt rv fault none ps i st h).map (fun o => { o with exc := o.exc.map (retype k) }) := by
  induction h generalizing i st with
  | nil => rfl
  | cons a rest ih =>
    simp only [runHistory, List.map_cons, ih, Option.map_map]
    congr 2
    cases (assign rt rv (faultAt fault i) st a.name a.value).2.exc with
    | none => rfl
    | some e => simp [retype_none]

/-! ## C06_nonfield_plain -/

/-- **C06_nonfield_plain**: a name without an effective chain — not a field, a `NO_OP` field, a field without
    hooks in a class without class-level hooks — is a plain `object.__setattr__`: no callback runs and
    the assigned value itself is stored (when the layout has a place for it: fields always do) -/
theorem C06_nonfield_plain (cs : List Cls) (rt : CState) (l : Cls) (e0 : Eff) (hl : Leaf cs rt l e0)
    (rv : Bool) (fault : Option Nat) (st : Store) (n : String) (v : Val) (hn : effChain cs n = none) :
    assign rt rv fault st n v = plainStore rt st n v [] ∧
    (((fieldOf cs n).isSome || hasDictOf cs) = true →
      assign rt rv fault st n v = (st.set n v, { exc := none, trace := [] })) := by
  have h1 : assign rt rv fault st n v = plainStore rt st n v [] := by
    rw [C06_resolution cs rt l e0 hl]
    unfold effChain at hn
    rw [hl.last] at hn
    cases hf : fieldOf cs n with
    | none => rfl
    | some f =>
      simp only [hf] at hn
      cases hfc : fieldChain l f with
      | none => simp only [hfc]
      | some h => simp [hfc] at hn
  refine ⟨h1, ?_⟩
  intro hs
  rw [h1]
  unfold plainStore
  have : (rt.hasDict || rt.slotNames.contains n) = true := by
    rw [Bool.or_eq_true] at hs ⊢
    rcases hs with hs | hs
    · cases hf : fieldOf cs n with
      | none => simp [hf] at hs
      | some f =>
        obtain ⟨hfm, hfn⟩ := fieldOf_mem cs n f hf
        rcases hl.inv.settable f (by rw [hl.inv.attrs]; exact hfm) with h2 | h2
        · exact Or.inl h2
        · rw [hfn] at h2; exact Or.inr h2
    · left; rw [hl.inv.dict]; exact hs
  rw [if_pos this]

/-! ## C06_define_default_matches_init -/

/-- **C06_define_default_matches_init**: for a field under define's default (no explicit `on_setattr` on the
    field or the class), the value a successful `obj.f = v` leaves is *the* value the initializer model
    stores for that field when it is passed `v` — for every well-formed construction case `ic` of the
    initializer model (C01_values) whose field list contains the field; and the validators are handed that
    converted value. -/
theorem C06_define_default_matches_init (cs : List Cls) (rt : CState) (l : Cls) (e0 : Eff)
    (hl : Leaf cs rt l e0) (rv : Bool) (fault : Option Nat) (st : Store) (n : String) (v : Val)
    (hdd : isDefineDefault cs n = true)
    (hexc : (assign rt rv fault st n v).2.exc = none) :
    ∃ f, fieldOf cs n = some f ∧
      (assign rt rv fault st n v).1.get n = some (Init.convApply f.toInit v) ∧
      chainEvents rv f [.convert, .validate] v =
        setterEvents rv f .convert v ++
          (if rv then (List.range f.validators).map (fun i => validatorEvent f i (Init.convApply f.toInit v)) else []) ∧
      ∀ (ic : Init.Case), C01.wf ic = true → C01.known ic = [] →
        Init.callOk (Init.params ic.run.attrs) ic.call = true → f.toInit ∈ ic.run.attrs →
        Init.passed (Init.params ic.run.attrs) ic.call f.name = some v →
        (f.tag, (assign rt rv fault st n v).1.get n) ∈ (Init.runInit ic).values := by
  obtain ⟨_, h2⟩ := step_ok cs rt l e0 hl rv fault none [] st { name := n, value := v } none
  obtain ⟨f, hf, hget⟩ := h2 hdd hexc
  have hinit : f.init = true := by
    unfold isDefineDefault at hdd
    rw [hl.last] at hdd
    simp only at hf
    rw [hf] at hdd
    simp only [Bool.and_eq_true] at hdd
    exact hdd.2
  refine ⟨f, hf, hget, ?_, ?_⟩
  · simp [chainEvents, setterEvents, pureApply]
  · intro ic hiw hik hok hmem hpass
    obtain ⟨_, hvals⟩ := C01.C01_values ic hiw hik hok
    rw [hvals, List.mem_map]
    refine ⟨f.toInit, hmem, ?_⟩
    have hraw : C01.rawOf ic.run.attrs ic.call f.toInit = v := by
      unfold C01.rawOf
      simp only [Field.toInit, hinit, if_true]
      have : Init.passed (Init.params ic.run.attrs) ic.call f.name = some v := hpass
      simp [this]
    have : C01.expectedValue ic.run.attrs ic.call f.toInit = some (Init.convApply f.toInit v) := by
      unfold C01.expectedValue
      have hp : Init.participates f.toInit = true := by simp [Init.participates, Field.toInit, hinit]
      simp [hp, hraw]
    rw [this]
    show (f.tag, some (Init.convApply f.toInit v)) = (f.tag, (assign rt rv fault st n v).1.get n)
    rw [hget]

/-- non-vacuity of the initializer-side hypotheses: a define class with one converting, validating field
    `x`, constructed as `C(x=t1)` -/
def ddField : Field :=
  { name := "x", tag := "x@0", conv := some { takesSelf := true, takesField := true }, validators := 1, onSet := .unset }

def ddInit : Init.Case :=
  { run := { cfg := { frozen := false, slots := true, cacheHash := false, isExc := false, pre := .none, post := false,
                      clsHook := false, runValidators := true, collectByMro := true },
             attrs := [ddField.toInit], own := ["x@0"], bases := [], cacheIsSlot := false, fault := none },
    call := { pos := [], kw := [("x", "t1")] }, isDefine := true, clsOnSet := .unset }

example : C01.wf ddInit = true ∧ C01.known ddInit = [] ∧
    Init.callOk (Init.params ddInit.run.attrs) ddInit.call = true ∧ ddField.toInit ∈ ddInit.run.attrs ∧
    Init.passed (Init.params ddInit.run.attrs) ddInit.call ddField.name = some "t1" := by
  refine ⟨by decide, by decide, by decide, by decide, by decide⟩

/-- … and of the class-side ones: `@define class C: x = field(converter=…, validator=…)`, `c.x = t1` -/
example :
    let cs : List Cls := [{ kind := .attrs, isDefine := true, frozenArg := false, slots := true, clsOn := .unset,
                            ownSetattr := false, autoDetect := true, fields := [ddField] }]
    isDefineDefault cs "x" = true ∧ fieldOf cs "x" = some ddField ∧
      (match defineChain cs with
       | .ok rt => (assign rt true none [] "x" "t1").2.exc == none
       | .error _ => false) = true := by
  refine ⟨by decide, by decide, by decide⟩

/-! ## C06_rejected -/

/-- **C06_rejected**: whatever the field lists and the classes above — any chain prefix `pre` that defined to
    state `b` — a class that combines hooks with frozen (own `frozen=True` or inherited), or freezing / hooks
    that can do something with an auto-detected own `__setattr__`, raises ValueError at definition time -/
theorem C06_rejected (pre : List Cls) (b : CState) (c : Cls) (hi : Inv pre b) (h : mustReject pre c = true) :
    defineCls b c = .error .valueError := reject_err pre b c hi h

/-- … at the level of a whole hierarchy: the definition of the chain stops at exactly that class, with ValueError -/
theorem C06_rejected_chain (pre : List Cls) (c : Cls) (rest : List Cls) (b : CState)
    (hw : pre.all wfCls = true) (hd : defineChain pre = .ok b) (h : mustReject pre c = true) :
    defineChain (pre ++ c :: rest) = .error (pre.length, .valueError) := by
  have hinv : Inv pre b := by
    have := defineFrom_inv pre [] CState.root 0 b inv_root hw hd
    simpa using this
  unfold defineChain at hd ⊢
  rw [defineFrom_append, hd]
  simp [defineFrom, reject_err pre b c hinv h]

/-- nothing frozen and no own `__setattr__`: the class defines -/
theorem C06_accepted (pre : List Cls) (b : CState) (c : Cls) (hi : Inv pre b) (h : mustAccept pre c = true) :
    ∃ s, defineCls b c = .ok s := accept_ok pre b c hi h

/-- exactly when `define.wrap` itself raises: an explicit class-level hook below a frozen base -/
theorem C06_rejected_define_wrap (b : CState) (c : Cls) :
    (∃ e, eff0Of b c = .error e) ↔
      (c.isDefine = true ∧ (b.impl == .frozen) = true ∧ c.clsOn ≠ .unset ∧ c.clsOn ≠ .noop) := by
  unfold eff0Of defineWrap
  cases hd : c.isDefine <;> cases hbf : (b.impl == Impl.frozen) <;> cases hc : c.clsOn <;> simp

/-- the complete table of the errors raised after `define.wrap`: an attrs class is rejected iff one of the four
    `raise ValueError` conditions of `attrs.wrap` / `add_setattr` / `_make_init_script` holds -/
theorem C06_rejected_iff (b : CState) (c : Cls) (e0 : Eff) (he : eff0Of b c = .ok e0) :
    defineAttrs b c = .error .valueError ↔
      ((hasCustomOf c = true ∧ isFrozenOf b c = true) ∨
       (hasCustomOf c = true ∧ (saOf b c e0).isEmpty = false) ∨
       (isFrozenOf b c = true ∧ (effOf b c e0).hasCls = true) ∨
       (isFrozenOf b c = true ∧ (resolveAttrs b.attrs c.fields).any (fun a => a.onSet != .unset) = true)) := by
  unfold defineAttrs
  simp only [he]
  cases hr : rejects b c e0 with
  | true =>
    simp only [if_true, true_iff]
    simp only [rejects, Bool.or_eq_true, Bool.and_eq_true, Bool.not_eq_true'] at hr
    rcases hr with ((⟨h1, h2⟩ | ⟨h1, h2⟩) | ⟨h1, h2⟩) | ⟨h1, h2⟩
    · exact Or.inl ⟨h1, h2⟩
    · exact Or.inr (Or.inl ⟨h2, h1⟩)
    · exact Or.inr (Or.inr (Or.inl ⟨h1, h2⟩))
    · exact Or.inr (Or.inr (Or.inr ⟨h1, h2⟩))
  | false =>
    simp only [Bool.false_eq_true, if_false, reduceCtorEq, false_iff]
    intro hcon
    have : rejects b c e0 = true := by
      simp only [rejects, Bool.or_eq_true, Bool.and_eq_true, Bool.not_eq_true']
      rcases hcon with ⟨h1, h2⟩ | ⟨h1, h2⟩ | ⟨h1, h2⟩ | ⟨h1, h2⟩
      · exact Or.inl (Or.inl (Or.inl ⟨h1, h2⟩))
      · exact Or.inl (Or.inl (Or.inr ⟨h2, h1⟩))
      · exact Or.inl (Or.inr ⟨h1, h2⟩)
      · exact Or.inr ⟨h1, h2⟩
    rw [hr] at this; cases this

/-- **C06_rejected_whatever_field_options**: the field-level half of "hooks + frozen" looks at nothing but the
    field's `on_setattr`: a frozen class (own `frozen=True` or inherited) with ANY resolved field — own or
    inherited, `init=True` or `init=False`, with or without default, converter, validators — that carries a
    field-level `on_setattr` does not define (and by `C06_frozen_never_hooked` no accepted frozen class has hooks) -/
theorem C06_rejected_whatever_field_options (b : CState) (c : Cls) (f : Field) (hfz : isFrozenOf b c = true)
    (hm : f ∈ resolveAttrs b.attrs c.fields) (hon : f.onSet ≠ .unset) :
    defineAttrs b c = .error .valueError := by
  cases hd : defineAttrs b c with
  | error e => rw [defineAttrs_err b c e hd]
  | ok s =>
    exfalso
    obtain ⟨e0, _, hr, _⟩ := defineAttrs_ok b c s hd
    have hany : (resolveAttrs b.attrs c.fields).any (fun a => a.onSet != .unset) = true := by
      rw [List.any_eq_true]
      exact ⟨f, hm, by simpa using hon⟩
    simp [rejects, hfz, hany] at hr

/-- every definition-time error of the model is a ValueError -/
theorem C06_rejected_kind (b : CState) (c : Cls) (e : Exc) (h : defineCls b c = .error e) : e = .valueError :=
  defineCls_err b c e h

/-- an accepted class that is frozen — by its own argument or by inheritance — resolves to the frozen
    `__setattr__`: no combination of arguments makes an inherited-frozen class mutable through hooks -/
theorem C06_frozen_never_hooked (b : CState) (c : Cls) (s : CState) (h : defineAttrs b c = .ok s)
    (hf : isFrozenOf b c = true) : s.impl = .frozen := by
  obtain ⟨e0, _, hr, rfl⟩ := defineAttrs_ok b c s h
  have := finish_frozen b c e0 hr
  rw [hf] at this
  simpa using this

/-- dropping define's default / bare `validate` / bare `convert` when no field has a converter / validator
    (`_ClassBuilder.__init__`) never changes what an assignment does: the dropped chain is inert for
    every field -/
theorem C06_normalisation_invisible (attrs : List Field) (e : Eff) (f : Field) (hf : f ∈ attrs)
    (h : List Setter) (he : e.chain = some h) (hn : (normalise attrs e).chain = none)
    (rv : Bool) (fault : Option Nat) (v : Val) :
    runPipe rv fault f h [] v = ([], .ok v) := by
  rcases normalise_chain attrs e with h1 | ⟨_, h', h2, h3⟩
  · rw [h1, he] at hn; cases hn
  · rw [he] at h2; cases h2
    obtain ⟨e1, e2, e3⟩ := inert_spec rv f h v (h3 f hf)
    have hh : hitPos fault 0 = none := by unfold hitPos; cases fault <;> simp
    rw [runPipe_spec, e1]
    simp [hh, frozen_not_mem e3, e2]

/-! ## the model meets the specification -/

/-- **C06_model_meets_spec**: on every well-formed case outside the listed known finding (K6) the model
    satisfies the declarative specification: definition outcome per the two tables, and on clean chains
    every step of every history — values, callback trace, exception identity, construction clause. -/
theorem C06_model_meets_spec (c : Case) (hw : wf c = true) (hk : known c = []) : spec c (model c) = true := by
  unfold spec
  have hwf : c.cls.all wfCls = true := by
    unfold wf at hw; simp only [Bool.and_eq_true] at hw; exact hw.1
  have hrej : rejectOk (model c).defErr 0 [] c.cls = true := by
    rw [model_defErr]
    exact rejectOk_model c.cls [] CState.root 0 inv_root hwf
  rw [hrej, Bool.true_and]
  cases hc : clean c.cls with
  | false => rfl
  | true =>
    simp only [if_true]
    obtain ⟨rt, l, e0, hd, hl⟩ := C06_leaf c hw hc hk
    have hnk := known_nil c rt hd hk
    have hde : (model c).defErr = none := by rw [model_defErr, hd]; rfl
    have hsteps : (model c).steps =
        runHistory rt c.runValidators c.fault c.faultKind (probes rt c.history) 0
          (if c.preset then presetStore rt else []) c.history := by
      unfold model; rw [hd]
    rw [hde, hsteps, initSnap_eq c.cls rt hl.inv]
    simp only [beq_self_eq_true, Bool.true_and]
    apply steps_ok c.cls rt l e0 hl hnk
    intro f hf
    unfold probes
    rw [List.mem_append]
    left
    rw [List.mem_map]
    exact ⟨f, by rw [hl.inv.attrs]; exact hf, rfl⟩

/-! ## K6 -/

/-- the K6 witness: `A(attr.s, on_setattr=hook)` ← plain `P` ← `S(attr.s, slots=True)`; `s.x = t1` -/
def k6Witness : Case :=
  { classes := [
      { kind := .attrs, isDefine := false, frozenArg := false, slots := false, clsOn := .hook (.leaf (.user 50)),
        ownSetattr := false, autoDetect := false,
        fields := [{ name := "x", tag := "x@0", conv := none, validators := 0, onSet := .unset }] },
      { kind := .plain, isDefine := false, frozenArg := false, slots := false, clsOn := .unset,
        ownSetattr := false, autoDetect := false, fields := [] },
      { kind := .attrs, isDefine := false, frozenArg := false, slots := true, clsOn := .unset,
        ownSetattr := false, autoDetect := false, fields := [] }],
    preset := true, runValidators := true, history := [{ name := "x", value := "t1" }], fault := none }

/-- **C06_known_slotted_confused_witness** (K6): a well-formed case on which the model — like the code, and as
    attrs's own `test_slotted_confused` asserts — violates the property: the hook-less slotted subclass
    still runs the ancestor's hook. -/
theorem C06_known_slotted_confused_witness :
    wf k6Witness = true ∧ "K6" ∈ known k6Witness ∧ spec k6Witness (model k6Witness) = false := by
  refine ⟨by decide, by decide, by decide⟩

/-- the witness has the shape `C06_inherits_only_when_confused` names -/
example : Confused k6Witness.cls :=
  ⟨[k6Witness.classes[0].flat], k6Witness.classes[1].flat, k6Witness.classes[2].flat, [], rfl, rfl, rfl, rfl⟩

/-- non-vacuity: the same hierarchy with a dict subclass is well-formed, clean and outside K6 — the
    hypotheses of the theorems above are satisfiable, and there the subclass has `object.__setattr__` -/
example :
    let c : Case := { k6Witness with classes := k6Witness.classes.take 2 ++
      [{ (k6Witness.classes[2]) with slots := false }] }
    wf c = true ∧ clean c.cls = true ∧ known c = [] ∧
      (match defineChain c.cls with
       | .ok rt => rt.impl == .object
       | .error _ => false) = true := by
  refine ⟨by decide, by decide, by decide, by decide⟩

/-- non-vacuity of `C06_rejected` / `C06_accepted`: a frozen class with a class-level hook must be rejected,
    a plain mutable one must be accepted -/
example : mustReject [] { (k6Witness.classes[0]).flat with frozenArg := true } = true ∧
    mustAccept [] (k6Witness.classes[0]).flat = true := by
  refine ⟨by decide, by decide⟩

/-! ### T1b: `define(...).wrap` as written in /repo's source on this run -/

/-- **C06_source_define_on_setattr**: the body of `define(...).wrap`, translated from the current source
    (`Gen.define_wrap`, regenerated on every run), hands `attrs(on_setattr=…)` exactly the documented value — the default
    convert+validate pipe iff the class is mutable, `on_setattr` was not passed and no direct base is frozen; `NO_OP`
    below a frozen base; the caller's own value otherwise — and raises ValueError iff hooks were passed below a frozen
    base; for every tuple of bases (any length, the frozen one anywhere) and `auto_attribs` ∈ {None, True, False}. -/
theorem C06_source_define_on_setattr (env : Py.Env) (ext : Py.Ext) (cls : Py.PV) (o : Src.OnSet) (frozen : Bool) (aa : Option Bool)
    (bases : List Py.Atom) (fb : Py.Atom → Bool)
    (h1 : env "on_setattr" = o.pv) (h2 : env "setters.NO_OP" = Src.oNoOp) (h3 : env "_DEFAULT_ON_SETATTR" = Src.oDefault)
    (h4 : env "_frozen_setattrs" = Src.oFrozenSetattrs) (h5 : env "frozen" = Py.vBool frozen)
    (h6 : env "auto_attribs" = (match aa with | none => Py.vNone | some b => Py.vBool b))
    (hb : ext "getattr" [cls, Py.vStr "__bases__"] = .tup bases)
    (hs : ∀ b, Py.pyIs (ext "getattr" [.a b, Py.vStr "__setattr__"]) Src.oFrozenSetattrs = Py.vBool (fb b)) :
    Gen.define_wrap env ext cls [] =
      match Src.defineOnSetattr o frozen (bases.any fb) with
      | .error e => .error e
      | .ok s => .ok (Py.vObj 2, Src.defineCalls cls (match aa with | none => Py.vNone | some b => Py.vBool b) s) :=
  Src.define_wrap_spec env ext cls o frozen aa bases fb h1 h2 h3 h4 h5 h6 hb hs

/-- the documented table itself: default pipe only for (mutable, unset, no frozen base); hooks below a frozen base rejected -/
theorem C06_define_on_setattr_table (o : Src.OnSet) (frozen fbase : Bool) :
    (Src.defineOnSetattr o frozen fbase = .ok Src.oDefault ↔ (fbase = false ∧ frozen = false ∧ o = .unset)) ∧
    (Src.defineOnSetattr o frozen fbase = .error .valueError ↔ (fbase = true ∧ o = .hooks)) := by
  cases o <;> cases frozen <;> cases fbase <;> simp [Src.defineOnSetattr, Src.OnSet.pv, Src.oDefault, Src.oNoOp, Src.oHooks]

/-- **C06_source_setters_convert**: `setters.convert` translated from the current source returns the field's converter
    applied to the new value — `(value, instance, attrib)` for a `Converter` object, `(value)` for a plain callable —
    and the value itself for a field without converter; **C06_source_setters_frozen**: `setters.frozen` refuses every
    assignment with FrozenAttributeError. -/
theorem C06_source_setters_convert (env : Py.Env) (ext : Py.Ext) (inst attrib nv : Py.PV) (k : Nat) (isConv : Bool)
    (hc : ext "isinstance" [Py.vFn k, env "Converter"] = Py.vBool isConv) :
    (ext "getattr" [attrib, Py.vStr "converter"] = Py.vFn k →
      Gen.setters_convert env ext inst attrib nv =
        .ok (if isConv then ext "call" [Py.vFn k, nv, inst, attrib] else ext "call" [Py.vFn k, nv])) ∧
    (ext "getattr" [attrib, Py.vStr "converter"] = Py.vNone →
      Gen.setters_convert env ext inst attrib nv = .ok nv) :=
  Src.setters_convert_spec env ext inst attrib nv k isConv hc

theorem C06_source_setters_frozen (env : Py.Env) (ext : Py.Ext) (a b c : Py.PV) :
    Gen.setters_frozen env ext a b c = .error (.other "FrozenAttributeError") :=
  Src.setters_frozen_spec env ext a b c

end Attrs.C06
