/-
  C15 — property theorems.  `defError` is the model of the code (first failing check in code order, per
  front-end, with `define`'s auto_attribs fallback); `Rule.applies` / `Rule.kind` is the declarative table of
  the specification.  Everything is about arbitrary cases: any option combination, field lists and inherited
  attribute lists of any length.
-/
import AttrsModel.Proofs.C15Rules
import AttrsModel.Proofs.C15Builder
import AttrsModel.Proofs.SrcDefine

namespace Attrs.C15

/-! ### the model is one flat list of checks -/

/-- **C15_defError_flat**: over all front-ends — including `define`'s "try annotations, fall back" — the
    outcome is the first failing entry of one list: field checks in creation order, `define.wrap`, eq/order
    validation, `attrs.wrap` in the auto_attribs mode finally in effect. -/
theorem C15_defError_flat (c : Case) : defError c = firstFail (checks c) := defError_eq c

/-- **C15_define_fallback**: `define` with auto_attribs left out behaves like the explicit mode
    "annotations unless some `field()` lacks one" (the swallowed UnannotatedAttributeError never hides or
    invents another error). -/
theorem C15_define_fallback (c : Case) (ha : c.api = .define) :
    phase2 c = if (c.baseFrozen && c.onSetattr.isHook) = true then some .valueError
               else attrsErr c c.annotationMode := by
  rw [phase2_eq]
  simp only [allChecks, firstFail_cons, ha, beq_self_eq_true, Bool.true_and, attrsErr]

/-- **C15_first_failing_check_decides**: an exception `e` is the outcome exactly when some check carrying `e`
    fails and every check before it in code order passes — with several contradictions at once, the first
    one in code order decides. -/
theorem C15_first_failing_check_decides (c : Case) (e : Exc) :
    defError c = some e ↔
      ∃ pre post, checks c = pre ++ (true, e) :: post ∧ ∀ q ∈ pre, q.1 = false := by
  rw [defError_eq]; exact firstFail_some_iff (checks c) e

/-! ### two-sided characterisation against the table -/

/-- **C15_sound**: whatever is raised is the documented type of a rule that applies (or of one of the two
    open readings). -/
theorem C15_sound (c : Case) (k : Exc) (h : defError c = some k) :
    allowedKind c k = true := by
  rw [defError_eq] at h
  unfold checks at h
  rw [firstFail_append] at h
  cases hF : firstFail (c.fields.flatMap fieldChecks) with
  | some e =>
    rw [hF] at h
    simp only [Option.some.injEq] at h
    subst h
    obtain ⟨p, hp, h1, h2⟩ := firstFail_some_mem hF
    obtain ⟨f, hf, hpf⟩ := List.mem_flatMap.1 hp
    obtain ⟨r, hr, hk⟩ := fieldChecks_sound c f hf p hpf h1
    rw [← h2, ← hk]; exact allowed_of_rule r hr
  | none =>
    rw [hF] at h
    simp only at h
    unfold allChecks at h
    rw [firstFail_cons, firstFail_cons] at h
    by_cases hd : (c.api == .define && c.baseFrozen && c.onSetattr.isHook) = true
    · simp only [hd, if_true, Option.some.injEq] at h
      subst h
      rcases defineCheck_sound c hd with ⟨r, hr, hk⟩ | ⟨r, hr, hk⟩
      · rw [← hk]; exact allowed_of_rule r hr
      · rw [← hk]; exact allowed_of_may r hr
    · simp only [hd, Bool.false_eq_true, if_false] at h
      by_cases he : c.eqOrderFails = true
      · simp only [he, if_true, Option.some.injEq] at h
        subst h
        obtain ⟨r, hr, hk⟩ := eqOrder_sound c he
        rw [← hk]; exact allowed_of_rule r hr
      · have he' : c.eqOrderFails = false := by simpa using he
        simp only [he', Bool.false_eq_true, if_false] at h
        obtain ⟨p, hp, h1, h2⟩ := firstFail_some_mem h
        rcases wrapChecks_sound c he' p hp h1 with ⟨r, hr, hk⟩ | ⟨r, hr, hk⟩
        · rw [← h2, ← hk]; exact allowed_of_rule r hr
        · rw [← h2, ← hk]; exact allowed_of_may r hr

/-- **C15_complete**: every rule of the table is enforced: if it applies, the definition is rejected —
    for every front-end, slots setting, inheritance position and whatever else the specification says. -/
theorem C15_complete (c : Case) (r : Rule) (h : r.applies c = true) : defError c ≠ none := by
  rw [defError_eq]
  obtain ⟨p, hp, h1⟩ := rule_complete c r h
  exact firstFail_ne_none_of_mem hp h1

/-- **C15_no_spurious**: outside the table (no rule, no open reading) the class is defined. -/
theorem C15_no_spurious (c : Case) (hm : mustFail c = false) (hy : mayFail c = false) : defError c = none := by
  cases hd : defError c with
  | none => rfl
  | some k =>
    exfalso
    rcases allowed_cases (C15_sound c k hd) with ⟨r, hr, _⟩ | ⟨r, hr, _⟩
    · rw [mustFail_of_rule r hr] at hm; cases hm
    · have : mayFail c = true := by
        unfold mayFail; rw [List.any_eq_true]; exact ⟨r, may_mem_all r, hr⟩
      rw [this] at hy; cases hy

/-- **C15_characterisation**: the class is defined exactly when nothing of the table (nor an open reading)
    applies. -/
theorem C15_characterisation (c : Case) :
    defError c = none ↔ (mustFail c = false ∧ mayFail c = false) := by
  constructor
  · intro h
    refine ⟨?_, ?_⟩
    · cases hm : mustFail c with
      | false => rfl
      | true =>
        unfold mustFail at hm
        rw [List.any_eq_true] at hm
        obtain ⟨r, _, hr⟩ := hm
        exact absurd h (C15_complete c r hr)
    · cases hm : mayFail c with
      | false => rfl
      | true =>
        unfold mayFail at hm
        rw [List.any_eq_true] at hm
        obtain ⟨r, _, hr⟩ := hm
        obtain ⟨p, hp, h1⟩ := may_complete c r hr
        rw [defError_eq] at h
        exact absurd h (firstFail_ne_none_of_mem hp h1)
  · rintro ⟨h1, h2⟩
    exact C15_no_spurious c h1 h2

/-- **C15_table**: a rule that applies yields *its* documented exception type whenever every other applicable
    rule documents the same type (in particular when it is the only one that applies) — for each of the 17
    rules, every front-end, every option combination, every field list. -/
theorem C15_table (c : Case) (r : Rule) (h : r.applies c = true)
    (hu : ∀ k, allowedKind c k = true → k = r.kind) : defError c = some r.kind := by
  cases hd : defError c with
  | none => exact absurd hd (C15_complete c r h)
  | some k =>
    rw [hu k (C15_sound c k hd)]

/-- the documented types, rule by rule -/
theorem C15_kinds (r : Rule) :
    r.kind = (match r with
      | .secondDefault => Exc.defaultAlreadySet
      | .unannotated => Exc.unannotated
      | .cacheHashNoHash | .cacheHashNoInit | .hashNotBool | .fieldHashNotBool => Exc.typeError
      | .mandatoryAfterDefault | .orderWithoutEq | .cmpMixed | .fieldOrderWithoutEq | .fieldCmpMixed
      | .defaultAndFactory | .annotationAndType | .hooksOnFrozen | .fieldHooksOnFrozen
      | .hooksWithOwnSetattr | .frozenWithOwnSetattr => Exc.valueError) := by
  cases r <;> rfl

/-- **C15_second_default_counts_sources**: the `@x.default` check of the code (first application fails iff
    `default=` / `factory=` already set one; every later application fails) is "the field is given a default more
    than once": `default=`, `factory=` and each application of the decorator count as one source — any number of
    applications, any combination. -/
theorem C15_second_default_counts_sources (f : Field) :
    (f.deco && (f.dflt || f.factory || f.decoMore != 0)) = (f.deco && decide (defaultSources f ≥ 2)) :=
  (secondDefault_cond f).symm

/-! ### the ordering rule -/

/-- **C15_order_iff_exists_pair**: the `had_default` loop raises iff some defaulted positional attribute at an
    index `i` is followed by a mandatory positional one at an index `j > i` — lists of any length, whether
    the attributes are own, inherited or produced by a transformer. -/
theorem C15_order_iff_exists_pair (l : List Attr) :
    orderLoop false l = true ↔
      ∃ (i j : Nat) (a b : Attr), i < j ∧ l[i]? = some a ∧ l[j]? = some b ∧
        a.positional = true ∧ a.dflt = true ∧ b.positional = true ∧ b.dflt = false := by
  rw [orderLoop_false]; exact mad_iff_exists_pair l

/-- **C15_order_via_inheritance**: over `inherited ++ own` the rule fires iff it fires inside either part, or an
    inherited positional default precedes an own positional mandatory attribute. -/
theorem C15_order_via_inheritance (base own : List Attr) :
    mandatoryAfterDefault (base ++ own) =
      (mandatoryAfterDefault base || mandatoryAfterDefault own ||
        (base.any (fun a => a.positional && a.dflt) && own.any (fun b => b.positional && !b.dflt))) := by
  induction base with
  | nil => simp [mandatoryAfterDefault]
  | cons a rest ih =>
    simp only [List.cons_append, mandatoryAfterDefault, ih, List.any_append, List.any_cons]
    cases a.positional <;> cases a.dflt <;>
      cases mandatoryAfterDefault rest <;> cases mandatoryAfterDefault own <;>
      cases rest.any (fun b => b.positional && !b.dflt) <;> cases own.any (fun b => b.positional && !b.dflt) <;>
      cases rest.any (fun a => a.positional && a.dflt) <;> rfl

/-- **C15_order_rule_kwonly_exempt** (1): keyword-only and `init=False` attributes are invisible to the rule —
    inserting or removing them anywhere never changes the verdict. -/
theorem C15_order_rule_kwonly_exempt (had : Bool) (l : List Attr) :
    orderLoop had (l.filter Attr.positional) = orderLoop had l := orderLoop_filter had l

/-- **C15_order_rule_kwonly_exempt** (2): under class-level `kw_only=True` the rule never applies, whatever
    the fields and the inherited attributes — *provided the transformer does not clear `kw_only`* (it may do
    anything else: reorder, drop, add one attribute, edit defaults / init / hooks). -/
theorem C15_order_rule_kwonly_class (c : Case) (h : c.kwOnly = true) (ht : c.transformer.keepsKwOnly = true) :
    Rule.applies c .mandatoryAfterDefault = false := by
  cases hm : Rule.applies c .mandatoryAfterDefault with
  | false => rfl
  | true =>
    exfalso
    simp only [Rule.applies] at hm
    obtain ⟨a, ha, b, hb, hap, had, hbp, hbd⟩ := mad_exists_two hm
    unfold Case.attrs effAttrs at ha hb
    have fromGiven : ∀ x : Attr, (∃ y ∈ kwAll c.kwOnly
        (c.baseAttrs.filter fun b => !((ownSource c c.annotationMode).map Field.toAttr).any fun a => a.name == b.name)
          ++ kwAll c.kwOnly ((ownSource c c.annotationMode).map Field.toAttr),
        (y.kwOnly = true → x.kwOnly = true)) → x.positional = false := by
      rintro x ⟨y, hy, hkw⟩
      have hyk : y.kwOnly = true := by
        simp only [kwAll, h, if_true, List.mem_append, List.mem_map] at hy
        rcases hy with ⟨z, _, rfl⟩ | ⟨z, _, rfl⟩ <;> rfl
      simp [Attr.positional, hkw hyk]
    rcases applyTr_mem _ ht _ a ha with (⟨_, rfl⟩ | ⟨hadd, rfl⟩ | ⟨_, rfl⟩) | hg
    · simp [addedAttr] at had
    · rcases applyTr_mem _ ht _ b hb with (⟨hadd', rfl⟩ | ⟨_, rfl⟩ | ⟨_, rfl⟩) | hg
      · rw [hadd] at hadd'; cases hadd'
      · simp [addedAttr] at hbd
      · simp [addedAttr, Attr.positional] at hbp
      · rw [fromGiven b hg] at hbp; cases hbp
    · simp [addedAttr, Attr.positional] at hap
    · rw [fromGiven a hg] at hap; cases hap

/-- **C15_transformer_output_is_checked**: the ordering rule is evaluated on what the transformer *returned*.
    A transformer that turns the fields of a keyword-only class back into positional ones re-introduces the
    contradiction, and it is rejected with ValueError — own fields, inherited fields, every front-end. -/
theorem C15_transformer_output_is_checked (c : Case) (t : Tr) (l : List Attr)
    (hl : l = applyTr t (kwAll c.kwOnly
      (c.baseAttrs.filter fun b => !((ownSource c c.annotationMode).map Field.toAttr).any fun a => a.name == b.name)
        ++ kwAll c.kwOnly ((ownSource c c.annotationMode).map Field.toAttr)))
    (ht : c.transformer = t) (hm : mandatoryAfterDefault l = true) : defError c ≠ none := by
  apply C15_complete c .mandatoryAfterDefault
  simp only [Rule.applies, Case.attrs, effAttrs, ht, ← hl, hm]

/-! ### fields are checked one after the other -/

/-- **C15_first_field_error**: while the class body runs, the outcome is the error of the first field (in
    creation order) that has one — later fields are never created. -/
theorem C15_first_field_error (c : Case) (e : Exc) :
    phase1 c = some e ↔
      ∃ pre f post, c.fields = pre ++ f :: post ∧
        (∀ g ∈ pre, firstFail (fieldChecks g) = none) ∧ firstFail (fieldChecks f) = some e :=
  firstFail_flatMap_iff fieldChecks c.fields e

/-! ### validation before mutation -/

/-- **C15_checks_before_mutation** (general form): for *any* builder whose only patch step comes last — any
    interleaving of checks and staging before it, any class dict, any staged content — a run that ends in
    an exception leaves the class dict exactly as it was. -/
theorem C15_checks_before_mutation (pre : List Step) (slots : Bool) (d staged : ClassDict)
    (hpre : ∀ st ∈ pre, st.isPatch = false) :
    let r := run (pre ++ [.patch slots]) ⟨d, staged, none⟩
    r.exc ≠ none → r.cls = d := by
  intro r hr
  have hsplit : r = step (run pre ⟨d, staged, none⟩) (.patch slots) := by
    simp only [r, run, List.foldl_append, List.foldl_cons, List.foldl_nil]
  have hcls := run_cls_of_no_patch pre ⟨d, staged, none⟩ hpre
  cases he : (run pre ⟨d, staged, none⟩).exc with
  | some e =>
    rw [hsplit, step_raised _ _ (by rw [he]; simp)]
    exact hcls
  | none =>
    exfalso
    apply hr
    rw [hsplit]
    simp only [step, he]
    split <;> simp_all

/-- **C15_checks_before_mutation** (the model's builder): `attrs.wrap` is eleven checks interleaved with
    staging and one final patch; its outcome is that of the check list, and on any error the class dict it was
    given — arbitrary — is returned unchanged. -/
theorem C15_wrap_checks_before_mutation (c : Case) (aa : Bool) (d : ClassDict) :
    let r := run (wrapSteps c aa) ⟨d, [], none⟩
    r.exc = firstFail (wrapChecks c aa) ∧ (r.exc ≠ none → r.cls = d) := by
  refine ⟨?_, ?_⟩
  · rw [run_exc]
    simp only [wrapSteps, wrapPre, wrapChecks, checksOf, List.cons_append, List.nil_append]
  · apply C15_checks_before_mutation
    intro st hst
    simp only [wrapPre, wrapChecks, List.mem_cons, List.mem_nil_iff, or_false] at hst
    rcases hst with rfl | rfl | rfl | rfl | rfl | rfl | rfl | rfl | rfl | rfl | rfl | rfl | rfl | rfl | rfl |
      rfl | rfl | rfl | rfl <;> rfl

/-- sensitivity of the statement: a builder that patches *before* a failing check does change the class -/
theorem patch_before_check_mutates :
    (run [.stage "__attrs_attrs__" 1, .patch false, .check true .valueError] ⟨[("x", 0)], [], none⟩).cls
      ≠ [("x", 0)] := by decide

/-! ### independence, regression, defaults -/

/-- **C15_slots_irrelevant**: `slots` never decides whether (or how) a definition is rejected. -/
theorem C15_slots_irrelevant (c : Case) (s : OptB) : defError { c with slots := s } = defError c := rfl

/-- **C15_initFalse_hook_rejected** (fix 059f6c6): on a frozen class — also one frozen by inheritance — a
    field-level hook is rejected whatever the field's `init` and default, own or inherited. -/
theorem C15_initFalse_hook_rejected (c : Case) (hf : c.isFrozen = true) (a : Attr) (ha : a ∈ c.attrs)
    (hon : a.onSetattr = .hook) : defError c ≠ none := by
  apply C15_complete c .fieldHooksOnFrozen
  simp only [Rule.applies, ← isFrozen_eq, hf, Bool.true_and, List.any_eq_true]
  exact ⟨a, ha, by simp [hon]⟩

/-- the check as it was before the fix: fields skipped by `__init__` were skipped by the check too -/
def pinnedFieldCheck (attrs : List Attr) : Bool :=
  attrs.any (fun a => (a.init || a.dflt) && a.onSetattr != .none)

theorem pinned_check_missed_initFalse :
    pinnedFieldCheck [{ addedAttr with init := false, onSetattr := .hook }] = false ∧
    [{ addedAttr with init := false, onSetattr := .hook }].any (fun a => a.onSetattr != .none) = true := by
  decide

/-- **C15_defaults_documented**: the keyword defaults the model reads from the source (T1) are the documented
    ones: `define` detects own methods and treats exceptions specially by default and orders nothing;
    `attr.s` does neither and lets order follow eq. -/
theorem C15_defaults_documented :
    kwBool Generated.defineKw "auto_detect" = true ∧ kwBool Generated.attrsKw "auto_detect" = false ∧
    kwBool Generated.defineKw "auto_exc" = true ∧ kwBool Generated.attrsKw "auto_exc" = false ∧
    kwDefault Generated.defineKw "order" = some (Lit.bool false) ∧
    kwDefault Generated.attrsKw "order" = some Lit.none :=
  ⟨kw_define_autoDetect, kw_attrs_autoDetect, kw_define_autoExc, kw_attrs_autoExc, kw_define_order,
   kw_attrs_order⟩

/-! ### the model meets the specification -/

/-- **C15_model_meets_spec** (no hypothesis is needed: no listed deviation is left). -/
theorem C15_model_meets_spec (c : Case) : spec c (model c) = true := by
  simp only [spec, model, beq_self_eq_true, Bool.true_and]
  cases hd : defError c with
  | none =>
    simp only
    rw [((C15_characterisation c).1 hd).1]; rfl
  | some k =>
    simp only
    exact C15_sound c k hd

/-- **C15_str_needs_some_repr** (repair of K15a): `str=True` is rejected by `add_str` only when the class ends up
    without a `__repr__` of its own — none generated and none in the class body; with an own `__repr__`
    (whether or not auto_detect is on, whatever `repr=` says) the `add_str` check never fires. -/
theorem C15_str_needs_some_repr (c : Case) (aa : Bool) (h : c.ownRepr = true) :
    (c.str && !c.genRepr && !c.ownRepr, Exc.valueError) ∈ wrapChecks c aa ∧
      (c.str && !c.genRepr && !c.ownRepr) = false := by
  refine ⟨by simp [wrapChecks], by simp [h]⟩

/-! ### concrete witnesses and non-vacuity -/

/-- `@attr.s class C: pass` -/
def plain : Case :=
  { api := .attrS, these := false, autoAttribs := .unset, annReversed := false, slots := .unset,
    frozen := false, kwOnly := false, cacheHash := false, autoExc := .unset, isBaseExc := false,
    autoDetect := .unset, cmp := .none, eq := .none, order := .unset, hash := .none, unsafeHash := .none,
    init := .none, repr := .none, str := false, onSetattr := .none, transformer := Tr.id,
    ownSetattr := false, ownEq := false, ownHash := false, ownInit := false, ownRepr := false,
    baseFrozen := false, baseAttrs := [], fields := [] }

def fld (n : String) : Field :=
  { name := n, bare := false, annotated := false, dflt := false, factory := false, deco := false, decoMore := 0, valDeco := 0, init := true,
    kwOnly := false, cmp := .none, eq := .none, order := .none, hash := .none, onSetattr := .none,
    typeArg := false, validator := false, converter := false }

/-- K15a regression: `@define(str=True)` on a class with its own `__repr__` (the former witness) is defined,
    and so is `@attr.s(str=True, repr=False)` with an own `__repr__`; `repr=False` with no `__repr__` in the body
    is still rejected, and the specification accepts that. -/
theorem K15a_repaired :
    defError { plain with api := .define, str := true, ownRepr := true, fields := [fld "a"] } = none ∧
    defError { plain with str := true, repr := .f, ownRepr := true } = none ∧
    defError { plain with str := true, repr := .f } = some .valueError ∧
    allowedKind { plain with str := true, repr := .f } .valueError = true ∧
    mustFail { plain with str := true, repr := .f } = false := by decide

/-- non-vacuity of `C15_no_spurious`: a valid specification with fields, inheritance and options -/
example : defError { plain with api := .define, frozen := true, cacheHash := true, baseAttrs := [{ addedAttr with name := "p" }], fields := [fld "a", { (fld "b") with dflt := true }, { (fld "c") with kwOnly := true }] } = none := by decide

/-- non-vacuity of `C15_table`, one rule at a time -/
example : defError { plain with fields := [{ (fld "a") with dflt := true }, fld "b"] } = some .valueError := by
  decide
example : defError { plain with baseAttrs := [{ addedAttr with name := "p", dflt := true }], fields := [fld "a"] } = some .valueError := by decide
example : defError { plain with transformer := Tr.ofShape .reverse, fields := [fld "a", { (fld "b") with dflt := true }] } = some .valueError := by decide
example : defError { plain with transformer := Tr.ofShape .mandatoryFirst, fields := [{ (fld "a") with dflt := true }, fld "b"] } = none := by decide
example : defError { plain with fields := [{ (fld "a") with deco := true, factory := true }] }
    = some .defaultAlreadySet := by decide
example : defError { plain with api := .define, autoAttribs := .t, fields := [{ (fld "a") with annotated := true }, fld "b"] } = some .unannotated := by decide
example : defError { plain with api := .define, fields := [{ (fld "a") with annotated := true, bare := true, dflt := true }, fld "b"] } = none := by decide
example : defError { plain with cacheHash := true, fields := [fld "a"] } = some .typeError := by decide
example : defError { plain with hash := .bad } = some .typeError := by decide
example : defError { plain with hash := .bad, unsafeHash := .t } = none := by decide
example : defError { plain with api := .define, baseFrozen := true, fields := [{ (fld "a") with onSetattr := .hook }] }
    = some .valueError := by decide
example : defError { plain with frozen := true, fields := [{ (fld "a") with init := false, onSetattr := .hook }] } = some .valueError := by decide
example : defError { plain with api := .define, ownSetattr := true, fields := [{ (fld "a") with validator := true }] }
    = some .valueError := by decide
example : defError { plain with api := .define, ownSetattr := true, fields := [fld "a"] } = none := by decide

/-- the seeded change C15-bm1: class-level kw_only=True, a transformer hands the fields back positional -/
def positionalAgain : Tr := { Tr.id with all := { AttrEdit.id with kwOnly := .setF } }
example : defError { plain with kwOnly := true, transformer := positionalAgain, fields := [{ (fld "a") with dflt := true }, fld "b"] } = some .valueError := by decide
example : defError { plain with api := .define, kwOnly := true, transformer := positionalAgain, baseAttrs := [{ addedAttr with name := "p", dflt := true }], fields := [fld "a"] } = some .valueError := by decide
example : defError { plain with kwOnly := true, transformer := { Tr.id with first := { AttrEdit.id with kwOnly := .setF }, nFirst := 1 }, fields := [{ (fld "a") with dflt := true }, fld "b"] } = none := by decide
/-- transformer outputs that are fine define: defaults added / removed, fields dropped / added -/
example : defError { plain with transformer := { Tr.id with all := { AttrEdit.id with dflt := .setT } }, fields := [{ (fld "a") with dflt := true }, fld "b"] } = none := by decide
example : defError { plain with transformer := { Tr.id with first := { AttrEdit.id with dflt := .setF }, nFirst := 1 }, fields := [{ (fld "a") with dflt := true }, fld "b"] } = none := by decide
example : defError { plain with transformer := { Tr.id with first := { AttrEdit.id with dflt := .setT }, nFirst := 1 }, fields := [fld "a", fld "b"] } = some .valueError := by decide
example : defError { plain with transformer := { Tr.id with add := .defaultedFirst }, fields := [fld "a"] } = some .valueError := by decide
example : defError { plain with transformer := { Tr.id with add := .defaultedFirst }, kwOnly := true, fields := [fld "a"] } = none := by decide

/-- the seeded change C15-gm1: every `@x.default` after the first raises, whatever the field was created with;
    `@x.validator` any number of times is valid -/
example : defError { plain with fields := [{ (fld "a") with deco := true, decoMore := 1 }] } = some .defaultAlreadySet := by decide
example : defError { plain with api := .define, fields := [{ (fld "a") with deco := true, decoMore := 2, valDeco := 2 }] } = some .defaultAlreadySet := by decide
example : defError { plain with fields := [{ (fld "a") with deco := true, valDeco := 2, validator := true }] } = none := by decide
example : defError { plain with fields := [{ (fld "a") with dflt := true, factory := true, deco := true }] } = some .valueError := by decide

/-- two simultaneous contradictions: the code order decides (ValueError of hooks + own `__setattr__` before the
    TypeError of the non-bool hash), the specification accepts either type -/
example :
    let c := { plain with autoDetect := .t, ownSetattr := true, hash := .bad, fields := [{ (fld "a") with onSetattr := .hook }] }
    defError c = some .valueError ∧ allowedKind c .valueError = true ∧ allowedKind c .typeError = true := by
  decide

/-! ### T1b: the definition-time rejection in `define(...).wrap` as written in /repo's source on this run -/

/-- **C15_source_define_rejects_hooks_below_frozen**: the translated body of `define(...).wrap` raises ValueError
    *iff* an `on_setattr` other than None / `NO_OP` was passed and some direct base's `__setattr__` is the frozen one —
    before any `attrs(...)` call is made (no effect precedes the raise) — for every tuple of bases. -/
theorem C15_source_define_rejects_hooks_below_frozen (env : Py.Env) (ext : Py.Ext) (cls : Py.PV) (o : Src.OnSet) (frozen : Bool) (aa : Option Bool)
    (bases : List Py.Atom) (fb : Py.Atom → Bool)
    (h1 : env "on_setattr" = o.pv) (h2 : env "setters.NO_OP" = Src.oNoOp) (h3 : env "_DEFAULT_ON_SETATTR" = Src.oDefault)
    (h4 : env "_frozen_setattrs" = Src.oFrozenSetattrs) (h5 : env "frozen" = Py.vBool frozen)
    (h6 : env "auto_attribs" = (match aa with | none => Py.vNone | some b => Py.vBool b))
    (hb : ext "getattr" [cls, Py.vStr "__bases__"] = .tup bases)
    (hs : ∀ b, Py.pyIs (ext "getattr" [.a b, Py.vStr "__setattr__"]) Src.oFrozenSetattrs = Py.vBool (fb b)) :
    (Gen.define_wrap env ext cls [] = .error .valueError ↔ (bases.any fb = true ∧ o = .hooks)) := by
  rw [Src.define_wrap_spec env ext cls o frozen aa bases fb h1 h2 h3 h4 h5 h6 hb hs]
  cases o <;> cases frozen <;> cases bases.any fb <;> simp [Src.defineOnSetattr]

end Attrs.C15
