/-
  C07 — property theorems (field collection: once per name, MRO-fresh, definition order; introspection).
  All statements are about arbitrary tables of base classes, MROs, hierarchy sizes and field-list lengths.
  Helper lemmas live in Proofs/C07*.lean.
-/
import AttrsModel.Proofs.C07Witness

namespace Attrs.C07

/-- **C07_once**: whatever the table of base tuples holds and whichever collector runs, the list handed
    on by `_transform_attrs` names every field exactly once (given the class's own names are distinct). -/
theorem C07_once (M : Mros) (tbl : Table) (c : Cls) (byMro : Bool) (own : List Attr)
    (h : (names own).Nodup) : (names (preList M tbl c byMro own)).Nodup := by
  obtain ⟨h1, h2, _⟩ := baseOf_facts M tbl c byMro own
  rw [preList_eq, names_append, names_kwIf, names_kwIf, List.nodup_append]
  exact ⟨h1, h, fun a ha b hb hab => h2 a ha (hab ▸ hb)⟩

/-- … and so does the final tuple after a transformer that does not itself introduce a duplicate. -/
theorem C07_once_final (M : Mros) (tbl : Table) (k : Nat) (c : Cls) (byMro : Bool) (own : List Attr)
    (h : (names own).Nodup) (hadd : ∀ n ∈ addName c.tr, n ∉ names (preList M tbl c byMro own)) :
    (names (finish M tbl k c byMro own).attrs).Nodup := by
  simp only [finish]
  split
  · simp
  · rw [names_map_defaultAlias]
    exact names_applyTr_nodup _ _ _ (C07_once M tbl c byMro own h) hadd

/-- own declarations are distinct names whenever the class body is well-formed (any front-end) -/
theorem C07_own_distinct {k : Nat} {c : Cls} (hwf : wfCls k c = true) : (names (specOwn c)).Nodup :=
  specOwn_nodup hwf

/-- **C07_inherited_then_own**: the list is the collected block followed by the class's own fields in
    their definition order (class-level kw_only applied to both). -/
theorem C07_inherited_then_own (M : Mros) (tbl : Table) (c : Cls) (byMro : Bool) (own : List Attr) :
    preList M tbl c byMro own = kwIf c.kwOnly (baseOf M tbl c byMro own) ++ kwIf c.kwOnly own ∧
    names (kwIf c.kwOnly own) = names own :=
  ⟨preList_eq M tbl c byMro own, names_kwIf _ _⟩

/-- **C07_flags**: `inherited=True` exactly on the collected ones. -/
theorem C07_flags (M : Mros) (tbl : Table) (c : Cls) (byMro : Bool) (own : List Attr)
    (hown : ∀ a ∈ own, a.inherited = false) :
    (∀ a ∈ kwIf c.kwOnly (baseOf M tbl c byMro own), a.inherited = true) ∧
    (∀ a ∈ kwIf c.kwOnly own, a.inherited = false) := by
  obtain ⟨_, _, h3⟩ := baseOf_facts M tbl c byMro own
  constructor
  · intro a ha
    unfold kwIf at ha
    split at ha
    · obtain ⟨x, hx, rfl⟩ := List.mem_map.1 ha; exact h3 x hx
    · exact h3 a ha
  · intro a ha
    unfold kwIf at ha
    split at ha
    · obtain ⟨x, hx, rfl⟩ := List.mem_map.1 ha; exact hown x hx
    · exact hown a ha

/-- **C07_shadow**: a name the class declares itself is never collected from a base, so the entry for it
    is the class's own declaration. -/
theorem C07_shadow (M : Mros) (tbl : Table) (c : Cls) (byMro : Bool) (own : List Attr) (n : String)
    (hn : n ∈ names own) :
    n ∉ names (baseOf M tbl c byMro own) ∧
    (preList M tbl c byMro own).find? (fun a => a.name == n) =
      (kwIf c.kwOnly own).find? (fun a => a.name == n) := by
  obtain ⟨_, h2, _⟩ := baseOf_facts M tbl c byMro own
  have hnot : n ∉ names (baseOf M tbl c byMro own) := fun hm => h2 n hm hn
  refine ⟨hnot, ?_⟩
  rw [preList_eq, List.find?_append, find_none_of_not_mem _ _ (by rw [names_kwIf]; exact hnot)]
  rfl

/-- **C07_nearest_wins** (collector): the survivor for a name is taken from the first class of `mro[1:]`
    that exposes the name (its last entry of that name there). -/
theorem C07_nearest_wins (M : Mros) (tbl : Table) (taken : List String) (ms : List Nat) (n : String) :
    (collectMro M tbl taken ms).find? (fun a => a.name == n) =
      ms.findSome? (fun m => (expose M tbl taken m).reverse.find? (fun a => a.name == n)) := by
  rw [collectMro, keepLast_find, mroGather, List.reverse_flatMap, List.reverse_reverse, List.find?_flatMap]
  rfl

/-- **C07_nearest_wins** (declarative side): in the Spec's inherited block the entry for `n` is the
    declaration of `n` in the first class of `mro[1:]` that declares `n`, flagged inherited. -/
theorem C07_nearest_wins_spec (cs : List Cls) (taken : List String) (ms : List Nat) (n : String) :
    (specInh cs taken [] ms).find? (fun a => a.name == n) =
      (ms.find? (fun m => decide (n ∈ names (Dspec cs taken m)))).bind
        (fun m => (Dspec cs taken m).find? (fun a => a.name == n)) := by
  rw [specInh_nil_eq_Ss, Ss_find]

/-- on the model's table of a hierarchy (plain classes anywhere in the MRO included) the collector computes
    exactly the declarative inherited block -/
theorem C07_collect_is_declarative {cs : List Cls} {tbl : Table} (taken : List String) (hinv : TInv cs tbl)
    (hnodup : ∀ m, (names (specFinalOwn cs m)).Nodup)
    (ms : List Nat) (hms : ∀ m ∈ ms, m < tbl.length) :
    collectMro (mroOf cs) tbl taken ms = specInh cs taken [] ms :=
  collectMro_eq_spec taken hinv hnodup ms hms

/-- **C07_views_agree**: index access, name access, `fields_dict`, `__match_args__` and the initializer's
    parameter list are all read off the same list; with distinct names the property installed for a name
    reads the one index holding it and `fields_dict` keeps every entry in order. -/
theorem C07_views_agree (l : List Attr) (h : (names l).Nodup) (p : String) :
    tupleProp (names l) p = indexOf? (fun a => a.name == p) l ∧
    dictKeys (names l) [] = names l ∧
    matchArgsOf l = names (l.filter (fun a => a.init && !a.kwOnly)) ∧
    (initParamsOf l).map (·.1) =
      (l.filter (fun a => a.init && !a.kwOnly) ++ l.filter (fun a => a.init && a.kwOnly)).map aliasOf ∧
    ((initParamsOf l).filter (fun q => !q.2)).length = (matchArgsOf l).length := by
  refine ⟨?_, dictKeys_eq _ [] h (by simp), rfl, ?_, ?_⟩
  · rw [tupleProp_eq _ h, names, indexOf?_map]
  · simp [initParamsOf, Function.comp_def]
  · simp [initParamsOf, matchArgsOf, List.filter_append, List.filter_map, Function.comp_def]

/-- **C07_transformer_exact**: the tuple is exactly what the transformer returned (with default aliases
    filled in afterwards); the transformer is given the collected list; the order check runs on what it
    returned. -/
theorem C07_transformer_exact (M : Mros) (tbl : Table) (k : Nat) (c : Cls) (byMro : Bool) (own : List Attr) :
    let F := finish M tbl k c byMro own
    let ret := applyTr c.tr k (preList M tbl c byMro own)
    (F.err = none → F.attrs = ret.map defaultAlias) ∧
    (F.err = some .valueError ↔ badOrder ret = true) ∧
    (c.tr ≠ .none → F.received = some (preList M tbl c byMro own) ∧ F.returned = some ret) := by
  simp only [finish]
  refine ⟨?_, ?_, ?_⟩
  · intro h; split at h <;> simp_all
  · split <;> simp_all
  · intro h
    have : (c.tr != Tr.none) = true := by simpa using h
    simp [this]

/-- the creation counter decides the order of attr.ib()s: the sort used is a sort -/
theorem C07_counter_sorted (l : List Item) :
    (sortByCounter l).Pairwise (fun a b => a.val.counter ≤ b.val.counter) ∧ (sortByCounter l).Perm l :=
  ⟨sortByCounter_sorted l, sortByCounter_perm l⟩

/-- the ClassVar prefixes `_is_class_var` tests (regenerated from the source on every run, T1) are the
    documented ones -/
theorem C07_classvar_prefixes_documented :
    Generated.classVarPrefixes = ["typing.ClassVar", "t.ClassVar", "ClassVar", "typing_extensions.ClassVar"] := by
  decide

/-- **C07_frontends_equal**: attr.ib in any assignment order, auto_attribs annotations, these=/make_class,
    define with annotated and with unannotated field()s — one abstract declaration list gives the same
    declared fields … -/
theorem C07_frontends_equal (c : Cls) (fe fe' : Frontend) (ds : List Decl) :
    specOwn (encodeCls c fe ds) = specOwn (encodeCls c fe' ds) ∧
    mustRaiseUnannotated (encodeCls c fe ds) = false := by
  rw [specOwn_encode, specOwn_encode]; exact ⟨rfl, mustRaise_encode _ _ _⟩

/-- … and, collecting by MRO, the same built class (tuple, transformer input/output, error). -/
theorem C07_frontends_equal_built (M : Mros) (tbl : Table) (k : Nat) (c : Cls) (fe fe' : Frontend) (ds : List Decl)
    (hm : c.collectByMro = true) :
    buildClass M tbl k (encodeCls c fe ds) = buildClass M tbl k (encodeCls c fe' ds) := by
  rw [buildClass_eq _ _ _ _ (kind_encode _ _ _), buildClass_eq _ _ _ _ (kind_encode _ _ _),
    mustRaise_encode, mustRaise_encode, specOwn_encode, specOwn_encode]
  have hb : ∀ f, byMroEff (encodeCls c f ds) = true := by
    intro f; simp [byMroEff, encodeCls, hm]
  rw [hb, hb]
  exact finish_congr _ _ _ _ _ _ _ rfl rfl rfl

/-- **C07_legacy_chain**: on a single-inheritance chain — every class's tuple is "everything of the base's
    tuple that is not re-declared, then the own fields" — `_collect_base_attrs_broken` and
    `_collect_base_attrs` return the same list, namely the base's tuple minus the names taken. -/
theorem C07_legacy_chain (O : Nat → List Attr) (M : Mros) (tbl : Table) (taken : List String) (ms : List Nat)
    (h : ChainOk O M tbl ms) :
    collectLegacy M tbl taken ms = collectMro M tbl taken ms ∧
    collectMro M tbl taken ms = ((Tup O ms).filter (fun a => !taken.contains a.name)).map inherit := by
  rw [collectLegacy_chain taken ms h, collectMro_chain taken ms h]; exact ⟨rfl, rfl⟩

/-- **C07_legacy_chain** at full strength for the model: in a hierarchy that is a single-inheritance chain of
    attrs classes (any mix of attr.s legacy / collect_by_mro / define, any front-end, no transformers, no
    class-level kw_only) the table built by the model is a chain table, so at every class the legacy
    collector and the MRO collector return the same list, for every set of own names. -/
theorem C07_legacy_chain_model (cs : List Cls) (H : ChainHier cs) (tbl : Table)
    (hbt : buildTable (mroOf cs) cs [] = .ok tbl) (k : Nat) (hk : k < cs.length) (taken : List String) :
    collectLegacy (mroOf cs) tbl taken (chainMro k) = collectMro (mroOf cs) tbl taken (chainMro k) := by
  obtain ⟨hinv, hlen⟩ := buildTable_chain H cs [] tbl (fun i c h => by simpa using h) (fun k hk => by simp at hk) hbt
  simp only [List.length_nil, Nat.zero_add] at hlen
  have hM : ∀ j, j < tbl.length → mroOf cs j = chainMro j := by
    intro j hj
    have hg : cs[j]? = some cs[j] := by simp [show j < cs.length by omega]
    simp only [mroOf, hg]
    exact (H.cls j _ hg).2.2.2.1
  exact (C07_legacy_chain (Oown cs) (mroOf cs) tbl taken (chainMro k)
    (chainOk_of_inv H (mroOf cs) hM hinv k (by omega))).1

/-- non-vacuity of `C07_legacy_chain_model`: A(x) ← B(y, legacy) ← C(x, define) is such a chain and builds -/
example : ChainHier chain3 ∧ (buildTable (mroOf chain3) chain3 []).toOption.isSome = true := by
  refine ⟨⟨?_⟩, by decide⟩
  intro k c h
  rcases k with _ | _ | _ | k
  · simp [chain3] at h; subst h; decide
  · simp [chain3] at h; subst h; decide
  · simp [chain3] at h; subst h; decide
  · simp [chain3] at h

/-- **C07_model_meets_spec**: on every well-formed case outside the listed deviations the model's
    observation satisfies the declarative specification. -/
theorem C07_model_meets_spec (c : Case) (hwf : wf c = true) (hk : known c = []) : spec c (model c) = true :=
  model_meets_spec c hwf hk

/-- witness for K7 (#428): the legacy collector under a diamond picks A's `x` although C's is nearer -/
theorem C07_K7_witness : ∃ c, wf c = true ∧ "K7" ∈ known c ∧ spec c (model c) = false :=
  ⟨witnessK7, by decide⟩

/-- regression for the repaired K07a (a plain class between the class and a distant attrs class, another
    attrs class in between: A(x) ← P plain, A ← B(y), D(P, B)): no longer a deviation — distant first -/
theorem C07_K07a_fixed : wf witnessK07a = true ∧ known witnessK07a = [] ∧
    (model witnessK07a).fields.map (fun f => (f.name, f.tag)) = [("x", some 0), ("y", some 2)] ∧
    spec witnessK07a (model witnessK07a) = true := by decide

/-- non-vacuity of `C07_model_meets_spec`: well-formed cases without known deviation exist — the #428
    diamond collected by MRO, and a legacy chain through a plain class with shadowing -/
example : wf diamondMro = true ∧ known diamondMro = [] ∧
    (model diamondMro).fields.map (fun f => (f.name, f.tag)) = [("x", some 2)] := by decide
example : wf chainCase = true ∧ known chainCase = [] ∧
    (model chainCase).fields.map (fun f => (f.name, f.tag, f.inherited)) =
      [("x", some 0, true), ("y", some 2, false)] := by decide

/-- non-vacuity of `C07_legacy_chain`: the table of the chain A(x, y) ← B(y) is a chain table -/
example : ChainOk (fun b => if b = 0 then [attrOf "x" (o0 0) none, attrOf "y" (o0 0) none]
      else [attrOf "y" (o0 1) none])
    (fun b => if b = 0 then [0] else [1, 0])
    [some [attrOf "x" (o0 0) none, attrOf "y" (o0 0) none],
     some [inherit (attrOf "x" (o0 0) none), attrOf "y" (o0 1) none]] [1, 0] := by
  simp [ChainOk, getattrAttrs, ownTuple, Tup, names, inherit, attrOf, o0]

end Attrs.C07
