/-
  C17 — generated code is hermetic and its source is faithfully inspectable: property theorems.

  Part A is about `assemble` (the globals dict of the generated methods, with the merge orders the
  source has now), the naming functions (with the affixes the source has now) and `table` (what
  every global load of every generated method finds).  Part B is about the transition system of
  `_linecache_and_compile`.  Helper lemmas are in Proofs/C17*.lean.

  Not proved (CPython's): LOAD_GLOBAL's fallback to builtins, `inspect.getsource`, `linecache`'s
  consumers; they are observed by the correspondence.
-/
import AttrsModel.Proofs.C17Meets
import AttrsModel.Proofs.C17CacheMeets
import AttrsModel.Proofs.C17OldScheme

namespace Attrs.C17

/-! ## Part A — hermeticity -/

/-- **C17_helpers_win**: for every class and EVERY module dict (a list of any length binding anything),
    a name attrs injects for the class resolves, in the globals of the generated methods, to the
    object attrs injected. -/
theorem C17_helpers_win (c : Case) (modul : Globs) (n : String) (o : Obj)
    (h : lookup (helperGlobs c) n = some o) : lookup (assemble c modul) n = some o :=
  helpers_win c modul n o h

/-- the same, as independence: two arbitrary module dicts give the same resolution of every helper name -/
theorem C17_helpers_module_independent (c : Case) (m₁ m₂ : Globs) (n : String)
    (h : (lookup (helperGlobs c) n).isSome = true) :
    lookup (assemble c m₁) n = lookup (assemble c m₂) n := by
  cases ho : lookup (helperGlobs c) n with
  | none => simp [ho] at h
  | some o => rw [helpers_win c m₁ n o ho, helpers_win c m₂ n o ho]

/-- non-vacuity: helper names exist (a class with one validated field injects `_config`) -/
def valCase : Case :=
  { cls := { frozen := false, slots := false, cacheHash := false, isExc := false, preInit := false,
             preInitArgs := false, postInit := false, clsOnSetattr := .none, genRepr := false,
             genEq := false, genHash := false, genInit := true },
    fields := [{ name := "x", alias := "x", init := true, kwOnly := false, dflt := .none, conv := .none,
                 validator := true, eq := true, eqKey := false, hash := .unset, repr := .std,
                 onSetattr := .unset }],
    poison := .all }

example : lookup (helperGlobs valCase) "_config" = some (fixedObj "_config") := by decide

/-- what the theorem excludes: with the merge order of the pinned tree (module dict merged inside
    `_make_init_script` after `names_for_globals`) a module-level `_config` wins. -/
theorem C17_pinned_merge_order_loses :
    ∃ (c : Case) (modul : Globs) (n : String) (o : Obj),
      lookup (helperGlobs c) n = some o ∧
      lookup (assembleWith ["snippets"] ["names", "module", "fixed"] c modul) n ≠ some o :=
  ⟨valCase, [("_config", moduleObj "_config")], "_config", fixedObj "_config", by decide, by decide⟩

/-- **C17_names_disjoint**: for ALL field names (arbitrary strings), with the affixes the source has
    now: every naming function is injective; the ranges of the six schemes (factory, validator,
    attribute, converter, key, repr) are pairwise disjoint; the eq and hash scripts agree on the key
    name and the repr script on the name it binds and the name it calls; and no scheme ever produces a
    fixed helper name. -/
theorem C17_names_disjoint :
    (∀ a : String × String, ∀ n m, affix a n = affix a m → n = m) ∧
    (∀ k k' a b, schemeOf k = some a → schemeOf k' = some b → k ≠ k' → ∀ n m, affix a n ≠ affix b m) ∧
    (∀ n m, factoryName n ≠ validatorName m) ∧ (∀ n m, factoryName n ≠ attributeName m) ∧
    (∀ n m, factoryName n ≠ converterName m) ∧ (∀ n m, validatorName n ≠ attributeName m) ∧
    (∀ n m, validatorName n ≠ converterName m) ∧ (∀ n m, attributeName n ≠ converterName m) ∧
    (∀ n m, eqKeyName n ≠ factoryName m ∧ eqKeyName n ≠ validatorName m ∧
            eqKeyName n ≠ attributeName m ∧ eqKeyName n ≠ converterName m ∧ eqKeyName n ≠ reprName m) ∧
    (∀ n m, reprName n ≠ factoryName m ∧ reprName n ≠ validatorName m ∧
            reprName n ≠ attributeName m ∧ reprName n ≠ converterName m) ∧
    (∀ n, hashKeyName n = eqKeyName n) ∧ (∀ n, reprCallName n = reprName n) ∧
    (∀ k a, schemeOf k = some a → ∀ n, ∀ s ∈ allFixedNames, affix a n ≠ s) := by
  refine ⟨affix_injective, ?_, ?_, ?_, ?_, ?_, ?_, ?_, ?_, ?_, ?_, reprCallName_eq, ?_⟩
  · intro k k' a b ha hb hne n m
    exact affix_disjoint a b (schemes_incompatible k k' a b ha hb hne) n m
  · exact affix_disjoint _ _ (by decide)
  · exact affix_disjoint _ _ (by decide)
  · exact affix_disjoint _ _ (by decide)
  · exact affix_disjoint _ _ (by decide)
  · exact affix_disjoint _ _ (by decide)
  · exact affix_disjoint _ _ (by decide)
  · intro n m
    exact ⟨affix_disjoint _ _ (by decide) n m, affix_disjoint _ _ (by decide) n m,
           affix_disjoint _ _ (by decide) n m, affix_disjoint _ _ (by decide) n m,
           affix_disjoint _ _ (by decide) n m⟩
  · intro n m
    exact ⟨affix_disjoint _ _ (by decide) n m, affix_disjoint _ _ (by decide) n m,
           affix_disjoint _ _ (by decide) n m, affix_disjoint _ _ (by decide) n m⟩
  · intro n; simp [eqKeyName, hashKeyName, hashKey_eq_eqKey]
  · intro k a ha n s hs
    exact affix_ne_of_not_fits a s (fixed_fit_no_scheme k a ha s hs) n

/-- **C17_no_helper_clash**: consequently no class — whatever its fields are called — has a helper
    name bound to two different objects in the globals its scripts share. -/
theorem C17_no_helper_clash (c : Case) : helperClash c = false := helperClash_false c

/-- a wf class with helpers of every kind and no known finding -/
def richCase : Case :=
  { cls := { frozen := true, slots := false, cacheHash := true, isExc := false, preInit := false,
             preInitArgs := false, postInit := false, clsOnSetattr := .none, genRepr := true,
             genEq := true, genHash := true, genInit := true },
    fields := [{ name := "x", alias := "x", init := true, kwOnly := false, dflt := .none, conv := .both,
                 validator := true, eq := true, eqKey := true, hash := .unset, repr := .custom,
                 onSetattr := .unset },
               { name := "validator_x", alias := "validator_x", init := true, kwOnly := false,
                 dflt := .factorySelf, conv := .none, validator := true, eq := true, eqKey := false,
                 hash := .unset, repr := .std, onSetattr := .unset }],
    poison := .all }

/-- **C17_table_is_intended**: every global load of every generated method finds exactly the object
    the method's own script bound under that name — for every class specification, every naming of
    its fields and every poison mode (in particular when the module pre-binds every name the
    generated code mentions). -/
theorem C17_table_is_intended (c : Case) : table c = uses c := table_eq_uses c

/-- **C17_getattr_script_hermetic**: the cached-property `__getattr__` of slotted classes is evaluated in
    globals of its own that never include the module namespace: its helper parameters get attrs's
    objects and `super`, `hasattr`, `AttributeError` are the builtins, for every class and every module. -/
theorem C17_getattr_script_hermetic (c : Case) : getattrTable c = getattrUses c :=
  getattrTable_eq_uses c

/-- what it excludes: were the module's `__dict__` merged into that script's globals first, a module-level
    `super` would be what the generated `__getattr__` calls. -/
theorem C17_getattr_module_first_loses :
    resolveIn (getattrGlobsWith ["module", "fixed"] [("super", moduleObj "super")]) "super" = moduleObj "super" ∧
    resolveIn (getattrGlobs [("super", moduleObj "super")]) "super" = ⟨.builtin, "super"⟩ := by decide

/-- **C17_no_extra_bindings**: `_eval_snippets` puts nothing into the globals of the generated methods
    besides the module namespace and the helper dicts of the scripts (read from the source by T1): no
    binding under a computed name — the class's own name, say — that could land on a helper name.
    The class's name is therefore no input of the model: `C17_table_is_intended` holds for every
    class whatever it is called. -/
theorem C17_no_extra_bindings : Generated.c17EvalExtraBindings = [] := by decide

/-- **C17_module_irrelevant**: the same class specification defined in modules that pre-bind
    different sets of names resolves every load identically. -/
theorem C17_module_irrelevant (c : Case) (p : Poison) : table { c with poison := p } = table c := by
  rw [table_eq_uses c, table_eq_uses _]
  rfl

/-- **C17_model_meets_spec** (well-formedness is not needed; the one remaining listed hazard is K17c) -/
theorem C17_model_meets_spec (c : Case) (hk : known c = []) :
    spec c (model c) = true := by
  have hs := known_nil c hk
  have ht := table_eq_uses c
  have hall : ∀ u ∈ uses c ++ getattrUses c, entryOk c u = true := by
    intro u hu
    rcases List.mem_append.1 hu with h | h
    · exact uses_entryOk c u h
    · exact getattrUses_ok c u h
  simp only [spec, model, ht, getattrTable_eq_uses c, helperClash_false c, hs, Bool.and_eq_true]
  refine ⟨⟨⟨⟨⟨⟨by decide, ?_⟩, by decide⟩, trivial⟩, trivial⟩, ?_⟩, ?_⟩
  · simp only [Bool.not_eq_true', List.any_eq_false, beq_iff_eq]
    intro u hu
    exact entryOk_not_module c u (hall u hu)
  · exact List.all_eq_true.2 hall
  · rw [List.all_eq_true]
    intro r hr
    have := required_sub c hs r hr
    simp only [List.contains_iff_mem, List.mem_append]
    exact Or.inl this

example : wf richCase = true ∧ known richCase = [] ∧ (table richCase).length = 21 := by decide

/-! known finding: witness -/

def k17cCase : Case :=
  { valCase with
    fields := [{ name := "NOTHING", alias := "NOTHING", init := true, kwOnly := false,
                 dflt := .none, conv := .none, validator := false, eq := true, eqKey := false,
                 hash := .unset, repr := .std, onSetattr := .unset },
               { name := "y", alias := "y", init := true, kwOnly := false,
                 dflt := .factory, conv := .none, validator := false, eq := true, eqKey := false,
                 hash := .unset, repr := .std, onSetattr := .unset }],
    poison := .none }

theorem C17_K17c_witness : ∃ c, wf c = true ∧ "K17c" ∈ known c ∧ spec c (model c) = false :=
  ⟨k17cCase, by decide, by decide, by decide⟩

/-! ## Part B — the fake linecache entries -/

/-- **C17_unique_entry_concurrent**: any number of threads, each inside `_linecache_and_compile` with
    its own script and base filename, any pre-existing cache, ANY interleaving of their atomic steps:
    every thread that has its code object owns a cache entry under the code object's filename holding
    exactly its own script; two threads whose code objects share a filename have the same script;
    entries that existed before are unchanged; and no thread's script was swapped. -/
theorem C17_unique_entry_concurrent (pre : Cache) (ts : List Thread)
    (hstart : ∀ t ∈ ts, t.phase = .looping) (sched : List Nat) :
    let s := run { cache := pre, threads := ts } sched
    (∀ t ∈ s.threads, ∀ code, t.code? = some code →
        s.cache.get code.filename = some t.script ∧ code.source = t.script) ∧
    (∀ t₁ ∈ s.threads, ∀ t₂ ∈ s.threads, ∀ c₁ c₂, t₁.code? = some c₁ → t₂.code? = some c₂ →
        c₁.filename = c₂.filename → t₁.script = t₂.script) ∧
    (∀ k v, pre.get k = some v → s.cache.get k = some v) ∧
    s.threads.map (·.script) = ts.map (·.script) := by
  intro s
  have hgood : Good s := run_good _ _ (good_start pre ts hstart)
  refine ⟨fun t ht code hc => code_of_good s hgood t ht code hc, ?_, ?_, run_scripts _ _⟩
  · intro t₁ h₁ t₂ h₂ c₁ c₂ hc₁ hc₂ hf
    have e₁ := (code_of_good s hgood t₁ h₁ c₁ hc₁).1
    have e₂ := (code_of_good s hgood t₂ h₂ c₂ hc₂).1
    rw [hf, e₂] at e₁
    exact (Option.some.inj e₁).symm
  · intro k v hk
    exact run_mono _ _ k v hk

/-- **C17_source_is_code**: in every reachable state, the string cached under a code object's
    filename is the string that was compiled into it. -/
theorem C17_source_is_code (pre : Cache) (ts : List Thread) (hstart : ∀ t ∈ ts, t.phase = .looping)
    (sched : List Nat) (t : Thread) (code : Code)
    (ht : t ∈ (run { cache := pre, threads := ts } sched).threads) (hc : t.code? = some code) :
    (run { cache := pre, threads := ts } sched).cache.get code.filename = some code.source := by
  have hgood : Good (run { cache := pre, threads := ts } sched) := run_good _ _ (good_start pre ts hstart)
  obtain ⟨h1, h2⟩ := code_of_good _ hgood t ht code hc
  rw [h2]; exact h1

/-- **C17_later_definitions_keep_entries**: once a class has its code object, whatever happens afterwards
    — any number of further definitions by any threads in any interleaving, including definitions that
    are refused after their methods were compiled (a refusal is not a cache operation; the refused
    definition's own steps are ordinary steps) — the entry under its filename still holds its source. -/
theorem C17_later_definitions_keep_entries (s : State) (hg : Good s) (sched : List Nat)
    (t : Thread) (ht : t ∈ s.threads) (code : Code) (hc : t.code? = some code) :
    (run s sched).cache.get code.filename = some code.source := by
  obtain ⟨h1, h2⟩ := code_of_good s hg t ht code hc
  rw [h2]
  exact run_mono s sched _ _ h1

/-- **C17_loop_terminates**: a thread running alone against a cache with `n` entries — whatever they
    are — has its code object after at most `n + 3` steps (candidate filenames are pairwise different). -/
theorem C17_loop_terminates (s : State) (i : Nat) (t : Thread) (h : s.threads[i]? = some t) :
    ∃ t', (finishThread s i (s.cache.length + 3)).threads[i]? = some t' ∧ t'.isFinished = true :=
  loop_terminates s i t h

/-- **C17_unique_entry**: after ANY sequence of definitions (script, base filename), over any
    pre-existing cache: every definition has its code object, its filename maps to its own script,
    distinct scripts have distinct filenames, and earlier entries are unchanged. -/
theorem C17_unique_entry (pre : Cache) (defs : List (String × String)) :
    let s := defineAll pre defs
    s.threads.map (·.script) = defs.map (·.1) ∧
    (∀ i, i < defs.length → ∃ t code, s.threads[i]? = some t ∧ t.code? = some code ∧
        s.cache.get code.filename = some t.script ∧ code.source = t.script) ∧
    (∀ t₁ ∈ s.threads, ∀ t₂ ∈ s.threads, ∀ c₁ c₂, t₁.code? = some c₁ → t₂.code? = some c₂ →
        t₁.script ≠ t₂.script → c₁.filename ≠ c₂.filename) ∧
    (∀ k v, pre.get k = some v → s.cache.get k = some v) := by
  intro s
  let s0 : State := { cache := pre, threads := defs.map (fun d => Thread.start d.1 d.2) }
  obtain ⟨sched, hs⟩ := finishAll_is_run s0
  have hs' : s = run s0 sched := hs
  have hstart : ∀ t ∈ s0.threads, t.phase = .looping := by
    intro t ht
    simp only [s0, List.mem_map] at ht
    obtain ⟨d, _, hd⟩ := ht; subst hd; rfl
  obtain ⟨h1, h2, h3, h4⟩ := C17_unique_entry_concurrent pre s0.threads hstart sched
  refine ⟨?_, ?_, ?_, ?_⟩
  · rw [hs']; rw [h4]; simp [s0, Thread.start]
  · intro i hi
    obtain ⟨t, ht, hfin⟩ := finishAll_finished s0 i (by simpa [s0] using hi)
    obtain ⟨code, hcode⟩ : ∃ code, t.code? = some code := by
      cases hc : t.code? with
      | none => simp [Thread.isFinished, hc] at hfin
      | some k => exact ⟨k, rfl⟩
    have hmem : t ∈ s.threads := List.mem_of_getElem? ht
    have := h1 t (by rw [hs'] at hmem; exact hmem) code hcode
    exact ⟨t, code, ht, hcode, by rw [hs']; exact this.1, this.2⟩
  · intro t₁ m₁ t₂ m₂ c₁ c₂ hc₁ hc₂ hne hf
    rw [hs'] at m₁ m₂
    exact hne (h2 t₁ m₁ t₂ m₂ c₁ c₂ hc₁ hc₂ hf)
  · intro k v hk
    rw [hs']; exact h3 k v hk

/-- non-vacuity: two different scripts under one base get `…C>` and `…C-1>` -/
example :
    (defineAll [] [("s0", "<attrs generated methods m.C>"), ("s1", "<attrs generated methods m.C>")]).cache
      = [("<attrs generated methods m.C>", "s0"), ("<attrs generated methods m.C-1>", "s1")] := by decide

/-- **what atomicity buys**: if the insertion were "look, then store", the schedule
    thread 0 looks, thread 1 looks, thread 0 stores, thread 1 stores
    leaves thread 0 with a code object whose filename maps to thread 1's script. -/
theorem C17_nonatomic_counterexample :
    let s := NA.run { cache := [], threads := [{ script := "s0", base := "<f>" }, { script := "s1", base := "<f>" }] }
                    [0, 1, 0, 1]
    s.threads.map (·.phase) =
        [.finished { filename := "<f>", source := "s0" }, .finished { filename := "<f>", source := "s1" }] ∧
    s.cache.get "<f>" = some "s1" := by decide

/-- **C17_cache_model_meets_spec**: the executable model of histories and forced interleavings
    satisfies the specification on every well-formed case. -/
theorem C17_cache_model_meets_spec (c : CacheCase) (hwf : cacheWf c = true) :
    histSpec c (histModel c) = true :=
  histModel_meets_spec c hwf

end Attrs.C17
