/-
  C19 — converter combinators, filters and cmp_using obey their algebraic laws: property theorems.
  `run` is the operational model of using a built converter object (built objects, `isinstance(c, Converter)`
  dispatch, one/three-argument calls, `Converter.__call__`'s table); `runInit` is the generated `__init__` line
  (`_fmt_converter_call`'s table).  The laws below are stated about them, for arbitrary expressions.
-/
import AttrsModel.Spec.C19
import AttrsModel.Proofs.C19Conv
import AttrsModel.Proofs.C19Misc
import AttrsModel.Proofs.C19Cmp
import AttrsModel.Proofs.SrcToBool

namespace Attrs.C19
open Conv

/-! ## (a) converter combinators -/

/-- using the object built from `t` on value `v` with instance `i` and field `f`, in history `tr` -/
abbrev run (t : ConvTree) (i f : String) (v : Val) (tr : Trace) : Out := applyObj (build t) v i f tr
/-- the generated `__init__` line of a field `fname` whose converter is `t` -/
abbrev runInit (t : ConvTree) (fname : String) (v : Val) (tr : Trace) : Out := initApply (build t) v fname tr

/-- **C19_conv_refines**: for every expression (any depth, any pipe width), standalone / on assignment and in
    `__init__`, the operational model computes what the reference evaluator of the statement computes. -/
theorem C19_conv_refines (t : ConvTree) (i f fname : String) (v : Val) (tr : Trace) :
    run t i f v tr = ref t i f v tr ∧
    runInit t fname v tr = ref t selfText (fieldText fname) v tr :=
  ⟨applyObj_build t i f v tr, by rw [runInit, initApply_eq_applyObj]; exact applyObj_build ..⟩

/-- **C19_init_agrees**: the call `_fmt_converter_call` writes into `__init__` does what calling the converter
    object with (value, self, field) does — for each of the four takes_self × takes_field tables and for the
    `Converter` wrappers that `pipe` / `optional` return. -/
theorem C19_init_agrees (t : ConvTree) (fname : String) (v : Val) (tr : Trace) :
    runInit t fname v tr = run t selfText (fieldText fname) v tr :=
  initApply_eq_applyObj t v fname tr

/-- **C19_pipe_fold**: `pipe(c1..cn)` is the left-to-right Kleisli fold of its members (each member run as the
    object it is, with the same instance and field), for any list and any nesting. -/
theorem C19_pipe_fold (cs : List ConvTree) (i f : String) (v : Val) (tr : Trace) :
    run (.pipe cs) i f v tr = foldK (cs.map (fun c => run c i f)) (.ok v, tr) := by
  have : (cs.map fun c => run c i f) = cs.map (fun c => ref c i f) := by
    apply List.map_congr_left; intro c _; funext v tr; exact applyObj_build c i f v tr
  rw [this, run, applyObj_build, ref, refL_eq_foldK]

/-- **C19_pipe_empty_identity**: `pipe()` returns its argument and calls nothing, in every mode. -/
theorem C19_pipe_empty_identity (i f fname : String) (v : Val) (tr : Trace) :
    run (.pipe []) i f v tr = (.ok v, tr) ∧ runInit (.pipe []) fname v tr = (.ok v, tr) := by
  rw [C19_init_agrees]; constructor <;> (rw [run, applyObj_build]; simp [ref, refL])

/-- **C19_pipe_assoc**: `pipe(pipe(*as), *cs) ≡ pipe(*as, *cs)` — and likewise for a nested pipe in any position. -/
theorem C19_pipe_assoc (as bs cs : List ConvTree) (i f : String) (v : Val) (tr : Trace) :
    run (.pipe (bs ++ .pipe as :: cs)) i f v tr = run (.pipe (bs ++ as ++ cs)) i f v tr := by
  simp only [run, applyObj_build, ref, refL_append, refL, bindO_assoc]

/-- **C19_pipe_flatten**: inlining nested pipes to any depth does not change the converter. -/
theorem C19_pipe_flatten (cs : List ConvTree) (i f : String) (v : Val) (tr : Trace) :
    run (.pipe (flatL cs)) i f v tr = run (.pipe cs) i f v tr := by
  simp only [run, applyObj_build, ref, refL_flatL]

/-- **C19_pipe_fault_prefix**: if the members before `c` succeed with `v'` in history `tr'` and `c` raises there,
    the pipe raises the same exception in the same history: nothing after `c` is called, whatever follows. -/
theorem C19_pipe_fault_prefix (as bs : List ConvTree) (c : ConvTree) (i f : String) (v v' : Val)
    (tr tr' tr'' : Trace) (e : Exc)
    (h1 : run (.pipe as) i f v tr = (.ok v', tr')) (h2 : run c i f v' tr' = (.exc e, tr'')) :
    run (.pipe (as ++ c :: bs)) i f v tr = (.exc e, tr'') := by
  simp only [run, applyObj_build, ref] at h1 h2 ⊢
  simp [refL_append, refL, h1, h2, bindO]

example : run (.pipe [.fn "f" .term]) "I" "F" (.v "t") [] = (.ok (.v "f(t)"), ["f(t)"]) ∧
    run (.fn "g" .raise) "I" "F" (.v "f(t)") ["f(t)"] = (.exc (.user "g"), ["f(t)", "g(f(t))"]) ∧
    run (.pipe ([.fn "f" .term] ++ .fn "g" .raise :: [.fn "h" .term])) "I" "F" (.v "t") []
      = (.exc (.user "g"), ["f(t)", "g(f(t))"]) := by decide

/-- a raised exception is always one raised by a user function: the dispatch never mis-calls an object -/
theorem C19_only_user_faults (t : ConvTree) (i f : String) (v : Val) (tr tr' : Trace) (e : Exc)
    (h : run t i f v tr = (.exc e, tr')) : ∃ n, e = .user n := by
  rw [run, applyObj_build] at h; exact ref_exc_user t i f v tr tr' e h

/-- the history is only ever extended -/
theorem C19_trace_extends (t : ConvTree) (i f : String) (v : Val) (tr : Trace) :
    ∃ evs, (run t i f v tr).2 = tr ++ evs := by
  rw [run, applyObj_build]; exact ref_trace_extends t i f v tr

/-- **C19_forwarding**: a `Converter(fn, takes_self, takes_field)` receives the value, then the instance iff
    takes_self, then the field iff takes_field; `pipe` and `optional` hand instance and field on unchanged
    (`C19_pipe_fold`, `C19_optional` are stated with the same `i f` for the members), so this holds at every
    nesting level; an expression in which no Converter asks for them does not depend on them. -/
theorem C19_forwarding (n : String) (b : Beh) (ts tf : Bool) (i f : String) (v : Val) (tr : Trace) :
    run (.conv n b ts tf) i f v tr
      = callFn n b ([v.render] ++ (if ts then [i] else []) ++ (if tf then [f] else [])) tr := by
  rw [run, applyObj_build]; rfl

theorem C19_ctx_irrelevant (t : ConvTree) (h : usesCtx t = false) (i f i' f' : String) (v : Val) (tr : Trace) :
    run t i f v tr = run t i' f' v tr := by
  simp only [run, applyObj_build]; exact ref_ctx_irrelevant t i f i' f' v tr h

/-- **C19_assign_each_field**: on assignment in a class whose hooks include `setters.convert`, a field that uses
    the converter is converted (with the instance and its own field) no matter how many validator-only or plain
    fields are declared before it; those fields store the value and call nothing. -/
theorem C19_assign_each_field (t : ConvTree) (pre : List Fld) (f : Fld)
    (hpre : ∀ g ∈ pre, g.kind = .validator ∨ g.kind = .plain) (hf : f.kind = .shared) (v : Val) (tr : Trace) :
    assignFields true (fun name v tr => run t selfText (fieldText name) v tr) (pre ++ [f]) v tr
      = (pre.map (fun _ => (Res.ok v).render) ++ [(ref t selfText (fieldText f.name) v tr).1.render],
         (ref t selfText (fieldText f.name) v tr).2) := by
  rw [assignFields_after_hookless _ pre f hpre hf]
  simp only [run, applyObj_build]

/-- **C19_optional**: `optional(c)` maps None to None without calling anything, and is `c` on every other value. -/
theorem C19_optional (c : ConvTree) (i f : String) (v : Val) (tr : Trace) :
    run (.optional c) i f .none tr = (.ok .none, tr) ∧
    (v ≠ .none → run (.optional c) i f v tr = run c i f v tr) := by
  simp only [run, applyObj_build]
  constructor
  · simp [ref, Val.isNone]
  · intro h; cases v <;> simp_all [ref, Val.isNone]

/-- **C19_default_if_none**: exactly `None` is replaced — by the default, or by the result of one call of the
    factory; every other value (falsy ones included) is returned unchanged and nothing is called. -/
theorem C19_default_if_none (d : Val) (g : String) (b : Beh) (i f : String) (v : Val) (tr : Trace) :
    run (.dinV d) i f .none tr = (.ok d, tr) ∧
    run (.dinF g b) i f .none tr = callFactory g b tr ∧
    (v ≠ .none → run (.dinV d) i f v tr = (.ok v, tr) ∧ run (.dinF g b) i f v tr = (.ok v, tr)) := by
  simp only [run, applyObj_build]
  refine ⟨by simp [ref, Val.isNone], by simp [ref, Val.isNone], ?_⟩
  intro h; cases v <;> simp_all [ref, Val.isNone]

/-- **C19_default_if_none_fresh**: each use calls the factory once (one new event) and two uses anywhere in one
    history never return the same object. -/
theorem C19_default_if_none_fresh (g : String) (i f : String) (tr ext : Trace) :
    let first := run (.dinF g .term) i f .none tr
    let second := run (.dinF g .term) i f .none (first.2 ++ ext)
    first.2 = tr ++ [callText g []] ∧ first.1 ≠ second.1 := by
  simp only [run, applyObj_build, ref, Val.isNone, if_true, callFactory]
  refine ⟨trivial, ?_⟩
  simp only [ne_eq, Res.ok.injEq, Val.fresh.injEq, true_and, List.count_append, List.count_singleton_self]
  omega

example : (run (.dinF "g" .term) "I" "F" .none []).1 = .ok (.fresh "g" 0) := by decide

/-! ## (b) to_bool, default_if_none arguments -/

/-- **C19_to_bool_documented**: the tuples in the source (re-extracted on every run) are the documented tables,
    and the lowering step is present. -/
theorem C19_to_bool_documented :
    Generated.toBoolTrue = ToBool.docTrue ∧ Generated.toBoolFalse = ToBool.docFalse ∧
    Generated.toBoolLowers = true := ToBool.tables_documented

/-- **C19_to_bool**: over ALL strings (via lowering), all ints, both bools and everything else: outside K10 the
    result is the documented one — True / False for the documented spellings, ValueError otherwise. -/
theorem C19_to_bool (v : ToBool.TbVal) (hk : ToBool.known ⟨v⟩ = []) : ToBool.toBool v = ToBool.specRes v :=
  ToBool.toBool_spec v hk

/-- strings: exactly those whose lowering is a documented word, whatever the letter case -/
theorem C19_to_bool_strings (s : String) :
    (ToBool.toBool (.str s) = .T ↔ ToBool.lowerS s ∈ ToBool.docTrueStrs) ∧
    (ToBool.toBool (.str s) = .F ↔ ToBool.lowerS s ∈ ToBool.docFalseStrs) := by
  rw [ToBool.toBool_str]
  simp only [ToBool.specRes, List.contains_iff_mem]
  by_cases h1 : ToBool.lowerS s ∈ ToBool.docTrueStrs
  · have h2 : ToBool.lowerS s ∉ ToBool.docFalseStrs := by
      intro h2
      simp only [ToBool.docTrueStrs, ToBool.docFalseStrs, List.mem_cons, List.not_mem_nil, or_false] at h1 h2
      rcases h1 with h | h | h | h | h | h <;> rw [h] at h2 <;> simp at h2
    simp [h1, h2]
  · by_cases h2 : ToBool.lowerS s ∈ ToBool.docFalseStrs <;> simp [h1, h2]

/-- every letter-case variant of a documented word (any string whose characters lower to the word's) is accepted
    like the word -/
theorem C19_to_bool_case_variants (s w : String) (h : s.toList.map Char.toLower = w.toList) :
    (w ∈ ToBool.docTrueStrs → ToBool.toBool (.str s) = .T) ∧
    (w ∈ ToBool.docFalseStrs → ToBool.toBool (.str s) = .F) := by
  have hs := ToBool.lowerS_of_variant s w h
  exact ⟨fun hw => (C19_to_bool_strings s).1.2 (hs ▸ hw), fun hw => (C19_to_bool_strings s).2.2 (hs ▸ hw)⟩

example : "tRuE".toList.map Char.toLower = "true".toList := by decide

theorem C19_to_bool_case_insensitive (s s' : String) (h : ToBool.lowerS s = ToBool.lowerS s') :
    ToBool.toBool (.str s) = ToBool.toBool (.str s') := ToBool.toBool_case_insensitive s s' h

example : ToBool.toBool (.str "yEs") = .T ∧ ToBool.toBool (.str "OFF") = .F ∧
    ToBool.toBool (.str "yes ") = .valueError ∧ ToBool.toBool (.int 2) = .valueError := by decide

/-- **K10 witness**: `to_bool(1.0)` succeeds. -/
theorem C19_K10_witness :
    ∃ c : Case, wf c = true ∧ "K10" ∈ known c ∧ spec c (model c) = false :=
  ⟨.tobool ⟨.numEq 1⟩, by decide⟩

/-- K10 is narrow: only a non-bool, non-int, non-str object equal to 0 or 1 falls under it -/
theorem C19_K10_narrow (c : Case) :
    known c ≠ [] ↔ ∃ n, (n = 0 ∨ n = 1) ∧ c = .tobool ⟨.numEq n⟩ := by
  constructor
  · intro h
    cases c with
    | tobool c =>
      rcases c with ⟨v⟩
      cases v with
      | numEq n =>
        by_cases hn : n = 0 ∨ n = 1
        · exact ⟨n, hn, rfl⟩
        · simp [known, ToBool.known, hn] at h
      | _ => simp [known, ToBool.known] at h
    | _ => simp [known, Conv.known, Din.known, Filt.known, Cmp.known] at h
  · rintro ⟨n, hn, rfl⟩
    simp [known, ToBool.known, hn]

/-- and K10 is exactly "treated like the int it equals" -/
theorem C19_K10_shape (n : Int) : ToBool.toBool (.numEq n) = ToBool.toBool (.int n) := ToBool.toBool_numEq n

/-- `default_if_none`'s argument checks raise what the docstring says -/
theorem C19_default_if_none_args (c : Din.Case) (h : Din.wf c = true) : Din.spec c (Din.model c) = true := by
  rcases c with ⟨a, b, d, e⟩
  cases a <;> cases b <;> cases d <;> cases e <;> simp_all [Din.wf, Din.spec, Din.model, Din.ctor]

/-! ## (c) filters -/

/-- **C19_include_iff**: `include(*what)` accepts (attribute, value) iff the value's exact class, the attribute's
    name, or an Attribute equal to it is among `what` — for any list. -/
theorem C19_include_iff (what : List Filt.What) (a : Filt.AttrId) (t : String) :
    Filt.includeF what a t = true ↔
      (Filt.What.type t ∈ what ∨ Filt.What.name a.name ∈ what ∨ Filt.What.attr a ∈ what) := by
  rw [Filt.includeF_eq_any, List.any_eq_true]
  constructor
  · rintro ⟨w, hw, hs⟩
    cases w with
    | type t' => simp only [Filt.selects, beq_iff_eq] at hs; subst hs; exact Or.inl hw
    | name s => simp only [Filt.selects, beq_iff_eq] at hs; subst hs; exact Or.inr (Or.inl hw)
    | attr b => simp only [Filt.selects, beq_iff_eq] at hs; subst hs; exact Or.inr (Or.inr hw)
    | junk => simp [Filt.selects] at hs
  · rintro (h | h | h)
    · exact ⟨_, h, by simp [Filt.selects]⟩
    · exact ⟨_, h, by simp [Filt.selects]⟩
    · exact ⟨_, h, by simp [Filt.selects]⟩

/-- **C19_exclude_is_negation** -/
theorem C19_exclude_is_negation (what : List Filt.What) (a : Filt.AttrId) (t : String) :
    Filt.excludeF what a t = !Filt.includeF what a t := Filt.excludeF_eq_not what a t

/-- `include` distributes over concatenation of `what` (so order and repetition do not matter) -/
theorem C19_include_union (w1 w2 : List Filt.What) (a : Filt.AttrId) (t : String) :
    Filt.includeF (w1 ++ w2) a t = (Filt.includeF w1 a t || Filt.includeF w2 a t) := by
  simp [Filt.includeF_eq_any]

/-- **C19_filter_history_independent**: one filter object asked a sequence of questions answers each of them as a
    fresh filter would — the answers to a concatenated history are the answers to its parts, and the answer to a
    question does not depend on its position. -/
theorem C19_filter_history_independent (what : List Filt.What) (h1 h2 : List Filt.Query) :
    Filt.model ⟨what, h1 ++ h2⟩
      = { inc := (Filt.model ⟨what, h1⟩).inc ++ (Filt.model ⟨what, h2⟩).inc,
          exc := (Filt.model ⟨what, h1⟩).exc ++ (Filt.model ⟨what, h2⟩).exc } := by
  simp [Filt.model]

/-- **C19_include_name_not_alias**: a listed string selects a field by its NAME only — what the field's alias is
    (the `__init__` parameter name: `x` for `_x`, or an explicit `alias=`) makes no difference to string entries. -/
theorem C19_include_name_not_alias (names : List String) (a : Filt.AttrId) (al : String) (t : String) :
    Filt.includeF (names.map Filt.What.name) { a with alias := al } t = names.contains a.name := by
  rw [Filt.includeF_eq_any]
  induction names with
  | nil => rfl
  | cons n ns ih =>
    simp only [List.map_cons, List.any_cons, ih, List.contains_cons, Filt.selects]
    rw [Bool.beq_comm]

example : Filt.includeF [.name "x"] ⟨"_x", "x", "p"⟩ "int" = false ∧
    Filt.includeF [.name "_x"] ⟨"_x", "x", "p"⟩ "int" = true := by decide

example : Filt.includeF [.type "int"] ⟨"x", "x", "p"⟩ "bool" = false ∧
    Filt.includeF [.junk, .attr ⟨"x", "x", "p"⟩] ⟨"x", "x", "p"⟩ "bool" = true := by decide

/-! ## (d) cmp_using -/

open Cmp in
/-- **C19_cmp_using_supplied**: a supplied function decides its operator whenever the operands are comparable. -/
theorem C19_cmp_using_supplied (c : Cmp.Case) (op : Op) (r : Rel) (x y : Opd)
    (hs : slot c op = some r) (h : Comparable c x y) :
    dunder c op x y = r.eval x.val y.val := by
  rw [dunder_supplied c op r x y hs, method_comparable c r x y h]

open Cmp in
/-- **C19_cmp_using_notimpl**: same type required and payload types differ ⇒ all six methods (supplied, shared
    `__ne__`, derived by total_ordering, or inherited from object) return NotImplemented, hence `==` is False,
    `!=` is True and the four orderings raise TypeError. -/
theorem C19_cmp_using_notimpl (c : Cmp.Case) (x y : Opd) (hr : c.requireSameType = true)
    (hx : x.cmpObj = true) (hy : y.cmpObj = true) (ht : y.ty ≠ x.ty) (hid : x.id ≠ y.id) (op : Op) :
    dunder c op x y = .NI ∧
    oper c op x y = (match op with | .eq => .F | .ne => .T | _ => .typeError) :=
  ⟨dunder_mismatch c x y hr hy ht hid op, oper_mismatch c x y hr hx hy ht hid op⟩

open Cmp in
/-- **C19_cmp_using_mismatch_never_calls**: same type required and payload types differ ⇒ evaluating any of the
    six methods or any of the six operators (reflected attempts included, derived methods included) calls no
    supplied function at all — so a function defined only for the intended type can never see the foreign payload. -/
theorem C19_cmp_using_mismatch_never_calls (c : Cmp.Case) (x y : Opd) (hr : c.requireSameType = true)
    (hx : x.cmpObj = true) (hy : y.cmpObj = true) (ht : y.ty ≠ x.ty) (hid : x.id ≠ y.id) (op : Op) :
    dunderLog c op x y = [] ∧ operLog c op x y = [] :=
  ⟨dunderLog_mismatch c x y hr hy ht op, operLog_mismatch c x y hr hx hy ht hid op⟩

open Cmp in
/-- **C19_cmp_using_called_once**: a supplied function whose operands pass the comparability check is called
    exactly once, with `(self.value, other.value)` in this order, and its result — a bool, NotImplemented or its
    own exception (also the one a partial function raises on a payload of another class) — is the method's. -/
theorem C19_cmp_using_called_once (c : Cmp.Case) (op : Op) (r : Rel) (x y : Opd)
    (hs : slot c op = some r) (h : Comparable0 c x y) :
    dunderLog c op x y = [callEv op x y] ∧ dunder c op x y = fnRes c r x y := by
  rw [dunderLog_supplied c op r x y hs, methodLog_comparable0 c op x y h,
    dunder_supplied c op r x y hs, method_comparable0 c r x y h]
  exact ⟨rfl, rfl⟩

open Cmp in
/-- **C19_cmp_using_no_identity_shortcut**: the same wrapper object on both sides (`x == x`, `x != x`, `x <= x` …)
    is compared like any other pair: the supplied `eq` is called exactly once on `(v, v)` and its answer is the
    answer of `==` (negated for `!=`), also when it says False — there is no `other is self` fast path. -/
theorem C19_cmp_using_no_identity_shortcut (c : Cmp.Case) (x : Opd) (r : Rel) (he : c.eq = some r)
    (hx : x.cmpObj = true) :
    dunderLog c .eq x x = [callEv .eq x x] ∧ dunder c .eq x x = r.eval x.val x.val ∧
    (isBool (r.eval x.val x.val) = true →
      oper c .eq x x = r.eval x.val x.val ∧ oper c .ne x x = (r.eval x.val x.val).not) := by
  have hC : Comparable c x x := ⟨⟨hx, hx, fun _ => rfl⟩, fun _ => rfl⟩
  have hs : slot c .eq = some r := by simpa [slot] using he
  have hd : dunder c .eq x x = r.eval x.val x.val := by
    rw [dunder_supplied c .eq r x x hs, method_comparable c r x x hC]
  refine ⟨by rw [dunderLog_supplied c .eq r x x hs, methodLog_comparable0 c .eq x x hC.1], hd, ?_⟩
  intro hb
  have hne : dunder c .ne x x = (r.eval x.val x.val).not := by
    simp only [dunder] at hd
    simp only [dunder, dunderNe, he, hd]
    revert hb; cases r.eval x.val x.val <;> simp [isBool, R.not]
  refine ⟨by rw [oper_of_ne_NI c .eq x x (by rw [hd]; exact isBool_ne_NI hb), hd], ?_⟩
  rw [oper_of_ne_NI c .ne x x (by rw [hne]; exact isBool_ne_NI (isBool_not hb)), hne]

example : (Cmp.model (⟨some .ff, none, none, none, none, true, "K", 1, 1, .identical, false⟩ : Cmp.Case)).ops.take 2
    = [.F, .T] := by decide

open Cmp in
/-- **C19_cmp_using_derived**: functions taken from the one order on the integers, `eq` among them and at least
    one ordering function (any of the 15 non-empty subsets): every method — supplied or derived by
    `functools.total_ordering` from the preferred root — and every operator computes that order, for all integers. -/
theorem C19_cmp_using_derived (c : Cmp.Case) (x y : Opd) (hc : consistent c = true)
    (he : c.eq.isSome = true) (hn : 0 < numOrd c) (h : Comparable c x y) (op : Op) :
    dunder c op x y = op.std.eval x.val y.val ∧ oper c op x y = op.std.eval x.val y.val := by
  have hd := dunder_std c x y hc he hn h op
  exact ⟨hd, by rw [oper_of_ne_NI c op x y (by rw [hd]; exact eval_std_ne_NI _ _ _), hd]⟩

example : ∃ c : Cmp.Case, Cmp.consistent c = true ∧ c.eq.isSome = true ∧ 0 < Cmp.numOrd c ∧ c.lt = none :=
  ⟨{ eq := some .eq, lt := none, le := none, gt := none, ge := some .ge, requireSameType := true,
     className := "K", a := 0, b := 1, rhs := .same, partialFns := false }, by decide⟩

open Cmp in
/-- **C19_cmp_using_total**: whatever boolean functions are supplied (consistent with an order or not), as soon
    as `eq` and one ordering function are there (none returning NotImplemented or raising), all six methods exist
    and answer comparable operands with a bool — no operator is left to `object`'s NotImplemented. -/
theorem C19_cmp_using_total (c : Cmp.Case) (x y : Opd) (h : Comparable c x y) (req : Rel) (he : c.eq = some req)
    (hn : 0 < numOrd c) (hall : ∀ op r, slot c op = some r → r ≠ .ni ∧ r ≠ .boom) (op : Op) :
    isBool (dunder c op x y) = true ∧ oper c op x y = dunder c op x y := by
  have hb := dunder_isBool c x y h req he hn hall op
  exact ⟨hb, oper_of_ne_NI c op x y (isBool_ne_NI hb)⟩

/-- **C19_cmp_using_ctor**: construction fails (ValueError) exactly for some-but-not-all ordering functions without `eq`. -/
theorem C19_cmp_using_ctor (c : Cmp.Case) :
    (Cmp.model c).ctor = (if 0 < Cmp.numOrd c ∧ Cmp.numOrd c < 4 ∧ c.eq = none then .valueError else .ok) := by
  by_cases h : Cmp.ctorFails c = true
  · have h' := h
    simp only [Cmp.ctorFails, Bool.and_eq_true, decide_eq_true_eq, Option.isNone_iff_eq_none] at h'
    simp [Cmp.model, h, h'.1.1, h'.1.2, h'.2]
  · have h' := h
    simp only [Cmp.ctorFails, Bool.and_eq_true, decide_eq_true_eq, Option.isNone_iff_eq_none] at h'
    have : ¬ (0 < Cmp.numOrd c ∧ Cmp.numOrd c < 4 ∧ c.eq = none) := fun ⟨a, b, d⟩ => h' ⟨⟨a, b⟩, d⟩
    simp [Cmp.model, h, this]

/-! ## all sub-checks -/

/-- **C19_model_meets_spec**: outside the listed known deviation (K10) the model satisfies the declarative
    specification on every well-formed case of every kind. -/
theorem C19_model_meets_spec (c : Case) (hwf : wf c = true) (hk : known c = []) : spec c (model c) = true := by
  cases c with
  | conv c => simp [spec, model, Conv.spec, model_eq_expected]
  | tobool c =>
    have := ToBool.toBool_spec c.v hk
    simp [spec, model, ToBool.spec, ToBool.model, this]
  | din c => exact C19_default_if_none_args c hwf
  | filter c =>
    simp [spec, model, Filt.spec, Filt.model, Filt.listed, Filt.excludeF_eq_not, Filt.includeF_eq_any]
  | cmp c => exact Cmp.model_meets_spec c

/-! ### T1b: `to_bool` as written in /repo's source on this run -/

/-- **C19_source_to_bool_tables**: `converters.to_bool`, translated from the current source (`Gen.to_bool`, regenerated
    on every run), returns True for every entry of the documented truthy table and False for every entry of the falsy
    table (the tables T1 extracts and `C19_to_bool_documented` compares with the documentation). -/
theorem C19_source_to_bool_tables (env : Py.Env) (ext : Py.Ext) :
    (Generated.toBoolTrue.all fun l => Src.returns (Gen.to_bool env ext (Src.litPV l)) Py.vTrue) = true ∧
    (Generated.toBoolFalse.all fun l => Src.returns (Gen.to_bool env ext (Src.litPV l)) Py.vFalse) = true :=
  Src.to_bool_tables env ext

/-- **C19_source_to_bool_case_and_rejects**: … compares strings case-insensitively, and raises ValueError for None,
    callables, other objects, other ints and other strings. -/
theorem C19_source_to_bool_case_and_rejects (env : Py.Env) (ext : Py.Ext) :
    (Src.returns (Gen.to_bool env ext (Py.vStr "TRUE")) Py.vTrue = true ∧
     Src.returns (Gen.to_bool env ext (Py.vStr "oFF")) Py.vFalse = true) ∧
    (∀ n, Gen.to_bool env ext (Py.vObj n) = .error .valueError) ∧
    (∀ n, Gen.to_bool env ext (Py.vFn n) = .error .valueError) ∧
    Gen.to_bool env ext Py.vNone = .error .valueError ∧
    Src.raises (Gen.to_bool env ext (Py.vInt 2)) .valueError = true ∧
    Src.raises (Gen.to_bool env ext (Py.vStr "2")) .valueError = true :=
  ⟨⟨(Src.to_bool_upper env ext).1, (Src.to_bool_upper env ext).2.2.1⟩, (Src.to_bool_rejects env ext).1,
   (Src.to_bool_rejects env ext).2.1, (Src.to_bool_rejects env ext).2.2.1, (Src.to_bool_rejects env ext).2.2.2.1,
   (Src.to_bool_rejects env ext).2.2.2.2.2.1⟩

end Attrs.C19
