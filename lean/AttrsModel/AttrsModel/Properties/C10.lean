/-
  C10 — property theorems.  Field lists, chains (any length), tuple states are arbitrary; nothing is bounded.
  Helper lemmas live in `Proofs/C10*.lean`.
-/
import AttrsModel.Proofs.C10Exc

namespace Attrs.C10

/-! ### the generated state methods, for arbitrary name lists -/

/-- **C10_getstate_setstate_inverse**: for any layout, any list of names and any instance on which the
    generated `__getstate__` succeeds, the generated `__setstate__` applied to that state on a new instance
    succeeds and restores exactly those names, each to the value attribute lookup gave on the original;
    every other attribute (the cache aside) stays unset. -/
theorem C10_getstate_setstate_inverse (L : Layout) (x : Inst) (names : List String) (cache : Bool)
    (st : List (String × Val)) (hst : getstateGen L x names = some st)
    (hc : cache = true → writable L CACHE = true) :
    ∃ y, setstateGen L Inst.empty names cache st = some y ∧
      (∀ m, m ≠ CACHE → read L y m = if m ∈ names then read L x m else none) ∧
      (cache = true → read L y CACHE = some .none) := by
  obtain ⟨y, hy, hf, hct, _⟩ := setstate_of_getstate (cache := cache) .copy hst hc
  have hid : st.map (fun p => (p.1, transfer .copy p.2)) = st := by
    have : (fun p : String × Val => (p.1, transfer .copy p.2)) = id := by
      funext p; simp [transfer]
    rw [this]; simp
  rw [hid] at hy
  refine ⟨y, hy, ?_, hct⟩
  intro m hm
  rw [hf m hm]
  by_cases hmn : m ∈ names
  · simp only [hmn, if_true]
    cases read L x m <;> simp [transfer]
  · simp [hmn]

/-- `__getstate__` raises (AttributeError) exactly when one of the names is unset -/
theorem C10_getstate_fails_iff (L : Layout) (x : Inst) (names : List String) :
    getstateGen L x names = none ↔ ∃ n ∈ names, read L x n = none := by
  constructor
  · intro h
    apply Classical.byContradiction
    intro hne
    have : ∀ n ∈ names, (read L x n).isSome = true := by
      intro n hn
      cases hr : read L x n with
      | none => exact absurd ⟨n, hn, hr⟩ hne
      | some v => rfl
    obtain ⟨st, hst⟩ := getstateGen_some names this
    rw [h] at hst; cases hst
  · intro ⟨n, hn, hr⟩
    exact getstateGen_none names n hn hr

/-- **C10_setstate_exact**: for an *arbitrary* dict state (e.g. one pickled by another version of the class),
    exactly the names known to the class and present in the state are assigned. -/
theorem C10_setstate_exact (L : Layout) (y y' : Inst) (names : List String) (cache : Bool)
    (st : List (String × Val)) (h : setstateGen L y names cache st = some y') (m : String) (hm : m ≠ CACHE) :
    read L y' m = if m ∈ names ∧ (lookup m st).isSome then lookup m st else read L y m :=
  setstateGen_read h m (Or.inl hm)

/-- **C10_legacy_tuple_state**: a tuple state is assigned positionally — for any distinct names and any
    tuple, each name gets the element `zip` pairs it with, names beyond the tuple's length stay unset. -/
theorem C10_legacy_tuple_state (L : Layout) (names : List String) (cache : Bool) (vals : List Val) (y : Inst)
    (hnd : names.Nodup) (h : setstateTuple L Inst.empty names cache vals = some y) (m : String) (hm : m ≠ CACHE) :
    read L y m = lookup m (names.zip vals) :=
  setstateTuple_read hnd h m (Or.inl hm)

/-! ### the round trip -/

/-- **C10_roundtrip**: every field set and no known finding ⇒ for copy, deepcopy and every pickle protocol
    the operation succeeds with a distinct instance of the same class on which every field (own and inherited)
    has the original's current value. -/
theorem C10_roundtrip (c : Case) (hwf : wf c = true) (hk : known c = []) (hl : isLegacy c.op = false) :
    (model c).exc = none ∧ (model c).distinct = true ∧ (model c).sameClass = true ∧
    (model c).fields = (summarize (fullChain c)).names.map (fun n => (n, some (cur c n))) := by
  cases he : c.exc with
  | false =>
    obtain ⟨i0, x, f, y, W, R, _, _⟩ := run_of_wf hwf hk hl he
    rw [R.model]
    refine ⟨rfl, rfl, rfl, ?_⟩
    simp only [observeCopy]
    apply List.map_congr_left
    intro n hn
    rw [R.ok.fields n hn, R.hx n hn]
    rfl
  | true =>
    -- exceptions travel as `cls(*args)` + `__setstate__(__dict__)`
    obtain ⟨x, f, y, hm, hf, _⟩ := exc_run hwf hk hl he
    rw [hm]
    refine ⟨rfl, rfl, rfl, ?_⟩
    simp only [observeCopy]
    apply List.map_congr_left
    intro n hn
    rw [hf n hn]
    rfl

/-- **C10_cache_not_carried**: through deepcopy and every pickle protocol — and through `copy.copy` whenever
    the class resolves generated or own state methods — the result never holds a cached hash value.  This
    needs no exclusion of known findings: it holds for every well-formed case on which the operation succeeds. -/
theorem C10_cache_not_carried (c : Case) (hwf : wf c = true) (hl : isLegacy c.op = false) (hnx : c.exc = false)
    (hop : c.op ≠ .copy ∨ (summarize (fullChain c)).gs ≠ .dflt) : (model c).cacheAfter ≠ .carried := by
  obtain ⟨i0, W⟩ := wf_unpack hwf
  have I := inv_summarize (fullChain c)
  obtain ⟨x, hxe, _, _⟩ := history_spec I W c.hashedBefore
  obtain ⟨f, hfe, _, _⟩ := history_spec I W false
  unfold model
  simp only [hxe, hfe, hnx, Bool.false_eq_true, if_false]
  have key : ∀ r : Except R Inst, r = roundtrip (summarize (fullChain c)) c.op x →
      (match r with
        | .error e => failed e
        | .ok y => observeCopy (summarize (fullChain c)) c x f y).cacheAfter ≠ .carried := by
    intro r hr
    cases r with
    | error e => simp [failed]
    | ok y =>
      simp only [observeCopy, cacheState]
      have := roundtrip_not_carried I W.ok hr.symm hop
      cases hc : read (summarize (fullChain c)).layout y CACHE with
      | none => simp
      | some v =>
        cases v with
        | wrap w => exact absurd hc (this w)
        | tok t => simp
        | none => simp
  cases hop' : c.op with
  | legacy len => rw [hop'] at hl; simp [isLegacy] at hl
  | copy => simp only; have := key _ rfl; rw [hop'] at this; exact this
  | deepcopy => simp only; have := key _ rfl; rw [hop'] at this; exact this
  | pickle p => simp only; have := key _ rfl; rw [hop'] at this; exact this

/-- **C10_equal_and_hash_equal**: outside the known findings the result compares equal to the original
    whenever the class resolves a generated `__eq__`; whenever it resolves a generated `__hash__`, the result,
    the original and a freshly built equal instance are all hashable, the result hashes equal to the fresh
    instance, and equal to the original unless the original was changed after it had been hashed. -/
theorem C10_equal_and_hash_equal (c : Case) (hwf : wf c = true) (hk : known c = []) (hl : isLegacy c.op = false) :
    ((summarize (fullChain c)).eq.isSome = true → (model c).eqOrig = .T) ∧
    (hashGenerated (summarize (fullChain c)) = true →
      (model c).hashCopy = .ok ∧ (model c).hashFresh = .ok ∧ (model c).hashOrig = .ok ∧
      (model c).hashEqFresh = true ∧
      ((c.hashedBefore && c.mutate.isSome) = false → (model c).hashEqOrig = true)) := by
  cases he : c.exc with
  | true =>
    -- auto_exc classes get neither `__eq__` nor `__hash__`: nothing is demanded
    have E := excInv_of_exc he
    constructor
    · intro h; rw [E.noEq] at h; cases h
    · intro h; unfold hashGenerated at h; rw [E.noHash] at h; cases h
  | false =>
  obtain ⟨i0, x, f, y, W, R, hcx, hcf⟩ := run_of_wf hwf hk hl he
  obtain ⟨hk1, hk2, hk5, hoo, _, _, _⟩ := known_nil hk hl
  have I := inv_summarize (fullChain c)
  have hk10c := (inh_false I W.lastAttrs hoo).2
  rw [R.model]
  constructor
  · intro he
    exact doEq_T I R.hx R.ok.fields he
  · intro hg
    obtain ⟨a, b, d, e, g⟩ := hash_facts I W hk1 hk2 hk5 hk10c hg R.hx R.hf hcx hcf R.ok
    have hid : isIdentity (summarize (fullChain c)) = false := by
      unfold hashGenerated at hg
      cases hh : (summarize (fullChain c)).hash with
      | identity => rw [hh] at hg; simp at hg
      | unhashable => rw [hh] at hg; simp at hg
      | gen ns ch fv ow => exact isIdentity_gen hh
    refine ⟨a, b, d, ?_, ?_⟩
    · simp [observeCopy, a, b, e, hid]
    · intro hnm
      simp [observeCopy, a, d, g hnm, hid]

/-- **C10_shallow_cache_consistent**: `copy.copy` may share the wrapper object (dict classes); outside K5 the
    shared value is exactly what the copy would compute from its own fields: it hashes like a fresh instance. -/
theorem C10_shallow_cache_consistent (c : Case) (hwf : wf c = true) (hk : known c = []) (hop : c.op = .copy)
    (hg : hashGenerated (summarize (fullChain c)) = true) :
    (model c).hashCopy = .ok ∧ (model c).hashEqFresh = true := by
  have hl : isLegacy c.op = false := by rw [hop]; rfl
  obtain ⟨a, _, _, e, _⟩ := (C10_equal_and_hash_equal c hwf hk hl).2 hg
  exact ⟨a, e⟩

/-- **C10_protocols**: whenever the class resolves a `__getstate__` (generated or its own), or no class of
    the chain has `__slots__`, every operation — copy, deepcopy, every pickle protocol — succeeds on an
    instance whose fields are all set (an opted-out class that inherits a base's pair included: that loses data, it does not raise). -/
theorem C10_protocols (c : Case) (hwf : wf c = true) (hl : isLegacy c.op = false) (hnx : c.exc = false)
    (h : (summarize (fullChain c)).gs ≠ .dflt ∨ c.chain.all (fun k => !k.slots) = true) :
    (model c).exc = none := by
  obtain ⟨i0, W⟩ := wf_unpack hwf
  have I := inv_summarize (fullChain c)
  obtain ⟨x, hxe, hx, _⟩ := history_spec I W c.hashedBefore
  obtain ⟨f, hfe, _, _⟩ := history_spec I W false
  have hne : ∀ n ∈ (summarize (fullChain c)).names, n ≠ CACHE := fun n hn => mem_names_ne_cache I W.ok hn
  have hrt : ∃ y, roundtrip (summarize (fullChain c)) c.op x = .ok y := by
    unfold roundtrip
    cases hg : (summarize (fullChain c)).gs with
    | gen names cache own =>
      simp only
      have hsub := I.gsSub _ _ _ hg
      obtain ⟨st, hst⟩ := getstateGen_some (L := (summarize (fullChain c)).layout) (i := x) names
        (fun n hn => by rw [hx n (hsub n hn)]; rfl)
      rw [hst]
      simp only
      split
      · exact ⟨_, rfl⟩
      · obtain ⟨y, hy, _⟩ := setstate_of_getstate (cache := cache) c.op hst
          (fun hc => by subst hc; exact I.gsCacheW _ _ hg)
        rw [hy]; exact ⟨y, rfl⟩
    | user =>
      simp only
      obtain ⟨st, hst⟩ := getstateGen_some (L := (summarize (fullChain c)).layout) (i := x) (summarize (fullChain c)).names
        (fun n hn => by rw [hx n hn]; rfl)
      rw [hst]
      simp only
      obtain ⟨y, hy, _⟩ := setstate_of_getstate (cache := (summarize (fullChain c)).cached) c.op hst (cached_writable I)
      rw [hy]; exact ⟨y, rfl⟩
    | dflt =>
      rcases h with h | h
      · exact absurd hg h
      · obtain ⟨h1, h2⟩ := chain_no_slots c.chain Summary.init h ⟨rfl, rfl⟩
        have h1' : (summarize (fullChain c)).slotsAttr = none := by rw [fullChain_of_not_exc hnx]; exact h1
        have h2' : (summarize (fullChain c)).slotNames = [] := by rw [fullChain_of_not_exc hnx]; exact h2
        simp only [refuses01, h1', anySlotSet, Summary.layout, h2', List.any_nil, Bool.and_false,
          Bool.false_eq_true, if_false]
        exact ⟨_, rfl⟩
  obtain ⟨y, hy⟩ := hrt
  unfold model
  simp only [hxe, hfe, hnx, Bool.false_eq_true, if_false]
  cases hop : c.op with
  | legacy len => rw [hop] at hl; simp [isLegacy] at hl
  | copy => simp only; rw [hop] at hy; rw [hy]; rfl
  | deepcopy => simp only; rw [hop] at hy; rw [hy]; rfl
  | pickle p => simp only; rw [hop] at hy; rw [hy]; rfl

/-- **C10_high_protocols_agree**: deepcopy and every pickle protocol ≥ 2 are the same operation as far as
    attrs is concerned (the model gives the same observation); only protocols 0/1 take another path
    (`copyreg.__reduce_ex__`). -/
theorem C10_high_protocols_agree (c : Case) (p : Nat) (hp : 2 ≤ p) :
    roundtrip (summarize (fullChain c)) (.pickle p) = roundtrip (summarize (fullChain c)) .deepcopy := by
  funext x
  have hlow : isLow (.pickle p) = false := by simp [isLow]; omega
  have htr : transfer (.pickle p) = transfer .deepcopy := by funext v; simp [transfer]
  unfold roundtrip
  simp only [hlow, htr, Bool.false_and, Bool.false_eq_true, if_false]
  rfl

/-- **C10_default_reduction_fails_iff** (K11 / K10b are exact): when the class resolves no `__getstate__`, the
    operation raises exactly when CPython refuses (`__slots__` without `__getstate__` at protocols 0/1) or the
    class is frozen and some slot holds a value (restored with `setattr`). -/
theorem C10_default_reduction_fails_iff (c : Case) (hwf : wf c = true) (hl : isLegacy c.op = false) (hnx : c.exc = false)
    (hg : (summarize (fullChain c)).gs = .dflt) :
    (model c).exc.isSome = dfltFails (summarize (fullChain c)) c := by
  obtain ⟨i0, W⟩ := wf_unpack hwf
  have I := inv_summarize (fullChain c)
  obtain ⟨x, hxe, _, _⟩ := history_spec I W c.hashedBefore
  obtain ⟨f, hfe, _, _⟩ := history_spec I W false
  have key : (match roundtrip (summarize (fullChain c)) c.op x with
        | .error e => failed e
        | .ok y => observeCopy (summarize (fullChain c)) c x f y).exc.isSome = dfltFails (summarize (fullChain c)) c := by
    unfold roundtrip dfltFails
    rw [hg, hxe]
    simp only [beq_self_eq_true, Bool.true_and]
    cases h1 : (isLow c.op && refuses01 (summarize (fullChain c))) <;>
      cases h2 : ((summarize (fullChain c)).frozen && anySlotSet (summarize (fullChain c)).layout x) <;>
      simp [failed, observeCopy, hnx]
  unfold model
  simp only [hxe, hfe, hnx, Bool.false_eq_true, if_false]
  cases hop : c.op with
  | legacy len => rw [hop] at hl; simp [isLegacy] at hl
  | copy => simp only; rw [hop] at key; exact key
  | deepcopy => simp only; rw [hop] at key; exact key
  | pickle p => simp only; rw [hop] at key; exact key

/-- **C10_own_pair_unless_opted_out** (the K4 / K10c repair): on every chain, the last class — if it is an
    attrs class — resolves a `__getstate__`/`__setstate__` pair generated for a *base* only when it passed
    `getstate_setstate=False` itself; otherwise the pair is its own (covering exactly its fields and its
    `cache_hash`), the user's, or `object`'s. -/
theorem C10_own_pair_unless_opted_out (chain : List Cls) (ns : List String) (ch own : Bool)
    (hla : (summarize chain).lastAttrs = true) (hg : (summarize chain).gs = .gen ns ch own) :
    (own = true ∧ ns = (summarize chain).names ∧ ch = (summarize chain).lastCache) ∨
    (own = false ∧ (summarize chain).lastOptOut = true) := by
  have I := inv_summarize chain
  cases own with
  | true => exact Or.inl ⟨rfl, I.gsOwn _ _ hg⟩
  | false => exact Or.inr ⟨rfl, I.gsInherited hla _ _ hg⟩

/-- **C10_generated_state_never_dropped** (the K10a repair): a hash-caching class's generated pair is always
    exercised — with a generated pair over `ns` the operation goes through `__setstate__` (and its cache reset)
    unless the protocol is 0/1, there are no names and the class does not cache. -/
theorem C10_generated_state_never_dropped (s : Summary) (op : Op) (x y : Inst) (ns : List String)
    (own : Bool) (hg : s.gs = .gen ns true own) (h : roundtrip s op x = .ok y) :
    read s.layout y CACHE = some .none := by
  unfold roundtrip at h
  rw [hg] at h
  simp only at h
  cases hst : getstateGen s.layout x ns with
  | none => rw [hst] at h; simp at h
  | some st =>
    rw [hst] at h
    simp only [Bool.not_true, Bool.and_false, Bool.false_eq_true, if_false] at h
    cases hy : setstateGen s.layout Inst.empty ns true (st.map (fun p => (p.1, transfer op p.2))) with
    | none => rw [hy] at h; simp at h
    | some y' =>
      rw [hy] at h
      simp only [Except.ok.injEq] at h
      subst h
      exact setstateGen_cache hy

/-- **C10_inherited_pair_exact**: when a class resolves the generated pair of a base (names `ns`; after the
    repair only by opting out), the fields the base knows come back and exactly the other fields are lost
    (unset on the result) — for copy, deepcopy and every protocol that transports a state. -/
theorem C10_inherited_pair_exact (s : Summary) (I : Inv s) (hok : s.ok = true) (op : Op) (x : Inst) (ns : List String)
    (cache own : Bool) (hg : s.gs = .gen ns cache own) (t : String → String)
    (hx : ∀ n ∈ s.names, read s.layout x n = some (.tok (t n)))
    (hlow : (isLow op && ns.isEmpty && !cache) = false) :
    ∃ y, roundtrip s op x = .ok y ∧
      ∀ n ∈ s.names, read s.layout y n = if n ∈ ns then read s.layout x n else none := by
  have hsub := I.gsSub _ _ _ hg
  obtain ⟨st, hst⟩ := getstateGen_some (L := s.layout) (i := x) ns (fun n hn => by rw [hx n (hsub n hn)]; rfl)
  obtain ⟨y, hy, hf, _⟩ := setstate_of_getstate (cache := cache) op hst
    (fun hc => by subst hc; exact I.gsCacheW _ _ hg)
  have hemp : st.isEmpty = ns.isEmpty := by
    have := (getstateGen_spec ns hst).1
    rw [← this]; cases st <;> rfl
  refine ⟨y, ?_, ?_⟩
  · unfold roundtrip
    rw [hg]
    simp only [hst, hemp, hlow, Bool.false_eq_true, if_false, hy]
  · intro n hn
    rw [hf n (mem_names_ne_cache I hok hn)]
    by_cases hnn : n ∈ ns
    · simp [hnn, hx n hn, transfer_tok]
    · simp [hnn]

/-- **C10_exception_roundtrip**: auto_exc classes are not copied through the state methods at all —
    `BaseException.__reduce__` rebuilds the instance as `cls(*args)` (the generated `__init__` runs again on the
    values recorded at construction) and hands the instance `__dict__` to `__setstate__`.  Outside K10d / K10e
    (all fields set, nothing that lives only in a slot changed or was added after construction, no frozen class
    restored through `setattr`) every field — stored in a slot or in `__dict__`, own or inherited, changed in
    place or by assignment — comes back, for arbitrary chains and field lists, and no cache attribute appears. -/
theorem C10_exception_roundtrip (c : Case) (hwf : wf c = true) (hk : known c = []) (hl : isLegacy c.op = false)
    (he : c.exc = true) :
    (model c).exc = none ∧
    (model c).fields = (summarize (fullChain c)).names.map (fun n => (n, some (cur c n))) ∧
    (model c).cacheAfter = .absent := by
  obtain ⟨x, f, y, hm, hf, hcache⟩ := exc_run hwf hk hl he
  rw [hm]
  refine ⟨rfl, ?_, by simp [observeCopy, cacheState, hcache]⟩
  simp only [observeCopy]
  apply List.map_congr_left
  intro n hn
  rw [hf n hn]
  rfl

/-- **C10_init_placement**: what the generated `__init__` of a non-caching class with a `__dict__` leaves, for an
    arbitrary field list: attribute lookup afterwards finds exactly the init fields that the frozen-dict store
    technique did not put under a shadowing slot (K3) — and the init=False fields iff they were assigned. -/
theorem C10_init_placement (s : Summary) (hd : s.hasDict = true) (hlc : s.lastCache = false)
    (tokOf : String → String) (au : Bool) :
    ∃ i, construct s tokOf au = some i ∧ ∀ m, read s.layout i m =
      if m ∈ uninitNames s ∧ au = true then some (.tok (tokOf m))
      else if m ∈ initNames s ∧ misplaced s m = false then some (.tok (tokOf m)) else none :=
  construct_read hd hlc tokOf au

/-! ### model ⇒ specification -/

/-- **C10_model_meets_spec**: on every well-formed case outside the listed known findings the model
    satisfies the declarative specification. -/
theorem C10_model_meets_spec (c : Case) (hwf : wf c = true) (hk : known c = []) : spec c (model c) = true := by
  cases hl : isLegacy c.op with
  | true =>
    cases hop : c.op with
    | legacy len => exact legacy_meets_spec c hwf len hop
    | copy => rw [hop] at hl; simp [isLegacy] at hl
    | deepcopy => rw [hop] at hl; simp [isLegacy] at hl
    | pickle p => rw [hop] at hl; simp [isLegacy] at hl
  | false =>
    rw [spec_nonlegacy c _ hl]
    obtain ⟨h1, h2, h3, h4⟩ := C10_roundtrip c hwf hk hl
    obtain ⟨he, hh⟩ := C10_equal_and_hash_equal c hwf hk hl
    unfold specRT
    simp only [h1, h2, h3, h4, beq_self_eq_true, Bool.true_and, Bool.and_eq_true, Bool.or_eq_true,
      Bool.not_eq_true', bne_iff_ne, ne_eq, beq_iff_eq]
    refine ⟨⟨?_, ?_⟩, ?_⟩
    · cases hs : (summarize (fullChain c)).eq.isSome with
      | true => right; exact he hs
      | false => left; simpa using hs
    · cases hg : hashGenerated (summarize (fullChain c)) with
      | false => left; rfl
      | true =>
        right
        obtain ⟨a, _, _, e, g⟩ := hh hg
        refine ⟨⟨a, e⟩, ?_⟩
        cases hnm : (c.hashedBefore && c.mutate.isSome) with
        | true => left; simpa using hnm
        | false => right; exact g hnm
    · by_cases hop : c.op = .copy
      · left; exact hop
      · right
        cases hexc : c.exc with
        | false => exact C10_cache_not_carried c hwf hl hexc (Or.inl hop)
        | true =>
          obtain ⟨x, f, y, hm, _, hcache⟩ := exc_run hwf hk hl hexc
          rw [hm]
          simp [observeCopy, cacheState, hcache]

end Attrs.C10

/-! ### witnesses of the known findings, and non-vacuity -/

namespace Attrs.C10

def fX : Field := { name := "x", init := true, kind := .int }
def fY : Field := { name := "y", init := true, kind := .int }

/-- `@attr.s class …` with these own fields; everything else at attr.s's defaults -/
def dictCls (fields : List Field) : Cls :=
  { kind := .attrs, slots := false, plainSlots := [], frozen := false, cacheHash := false, weakrefSlot := true,
    gs := .none, autoDetect := false, userGS := false, eq := true, unsafeHash := false, collectByMro := false,
    fields := fields }

def slotCls (fields : List Field) : Cls := { dictCls fields with slots := true }

def plainSlotted (names : List String) : Cls :=
  { dictCls [] with kind := .plain, slots := true, plainSlots := names }

def mk (chain : List Cls) (op : Op) (hashed : Bool := false) (mutate : Option String := none) : Case :=
  { chain := chain, op := op, hashedBefore := hashed, mutate := mutate, assignUnset := true, exc := false,
    mutInPlace := false }

/-- former K4 (repaired): `A(slots; x) ← B(dict; y)`: `B` now gets its own state methods, `y` travels -/
def k4Witness : Case := mk [slotCls [fX], dictCls [fY]] .copy
/-- former K10c (repaired): `A(slots; x) ← B(dict, frozen, cache_hash)`: `B`'s own `__setstate__` resets its cache -/
def k10cWitness : Case := mk [slotCls [fX], { dictCls [] with frozen := true, cacheHash := true }] .deepcopy
/-- K5: dict caching class, hashed, `x` changed, `copy.copy` -/
def k5Witness : Case := mk [{ dictCls [fX] with unsafeHash := true, cacheHash := true }] .copy true (some "x")
/-- K11: slotted class with `getstate_setstate=False`, protocol 0 -/
def k11Witness : Case := mk [{ slotCls [fX] with gs := .f }] (.pickle 0)
/-- K11, second form: `A(slots; x) ← B(dict, getstate_setstate=False; y)` inherits `A`'s pair, `y` is lost -/
def k11InheritWitness : Case := mk [slotCls [fX], { dictCls [fY] with gs := .f }] .copy
/-- K11, frozen: every copy raises FrozenInstanceError -/
def k11FrozenWitness : Case := mk [{ slotCls [fX] with gs := .f, frozen := true }] .copy
/-- former K10a (repaired): empty slotted frozen caching class, protocol 1 -/
def k10aWitness : Case := mk [{ slotCls [] with frozen := true, cacheHash := true }] (.pickle 1)
/-- K10b: dict attrs class below a plain class with `__slots__ = ("p",)`, protocol 1 -/
def k10bWitness : Case := mk [plainSlotted ["p"], dictCls [fX]] (.pickle 1)
/-- K1: `A(dict, unsafe_hash, cache_hash; x) ← B(dict, eq=False)` -/
def k1Witness : Case :=
  mk [{ dictCls [fX] with unsafeHash := true, cacheHash := true }, { dictCls [] with eq := false }] .copy
/-- K2: `A(slots, frozen, cache_hash; x) ← B(dict, frozen, cache_hash)` -/
def k2Witness : Case :=
  mk [{ slotCls [fX] with frozen := true, cacheHash := true }, { dictCls [] with frozen := true, cacheHash := true }]
    (.pickle 2)

/-- regression (was K4): the fields of a dict class below a slotted class all come back -/
theorem C10_fixed_K4_regression :
    wf k4Witness = true ∧ known k4Witness = [] ∧ spec k4Witness (model k4Witness) = true ∧
    (model k4Witness).fields = [("x", some "v_x"), ("y", some "v_y")] := by
  refine ⟨by decide, by decide, by decide, by decide⟩

/-- regression (was K10c): the copy of a caching dict class below a non-caching slotted class is hashable -/
theorem C10_fixed_K10c_regression :
    wf k10cWitness = true ∧ known k10cWitness = [] ∧ spec k10cWitness (model k10cWitness) = true ∧
    (model k10cWitness).hashCopy = .ok := by
  refine ⟨by decide, by decide, by decide, by decide⟩

/-- regression (was K10a): an empty caching class unpickled at protocol 1 is hashable -/
theorem C10_fixed_K10a_regression :
    wf k10aWitness = true ∧ known k10aWitness = [] ∧ spec k10aWitness (model k10aWitness) = true ∧
    (model k10aWitness).hashCopy = .ok ∧ (model k10aWitness).cacheAfter = .isNone := by
  refine ⟨by decide, by decide, by decide, by decide, by decide⟩

theorem C10_known_K5_witness :
    wf k5Witness = true ∧ known k5Witness = ["K5"] ∧ spec k5Witness (model k5Witness) = false := by
  refine ⟨by decide, by decide, by decide⟩

theorem C10_known_K11_witness :
    wf k11Witness = true ∧ known k11Witness = ["K11"] ∧ spec k11Witness (model k11Witness) = false ∧
    (model k11Witness).exc = some .typeError ∧
    wf k11FrozenWitness = true ∧ known k11FrozenWitness = ["K11"] ∧
    (model k11FrozenWitness).exc = some .frozenInstance ∧
    wf k11InheritWitness = true ∧ known k11InheritWitness = ["K11"] ∧
    spec k11InheritWitness (model k11InheritWitness) = false := by
  refine ⟨by decide, by decide, by decide, by decide, by decide, by decide, by decide, by decide, by decide, by decide⟩

theorem C10_known_K10b_witness :
    wf k10bWitness = true ∧ known k10bWitness = ["K10b"] ∧ spec k10bWitness (model k10bWitness) = false := by
  refine ⟨by decide, by decide, by decide⟩

theorem C10_known_K1_witness :
    wf k1Witness = true ∧ known k1Witness = ["K1"] ∧ spec k1Witness (model k1Witness) = false := by
  refine ⟨by decide, by decide, by decide⟩

theorem C10_known_K2_witness :
    wf k2Witness = true ∧ known k2Witness = ["K2"] ∧ spec k2Witness (model k2Witness) = false ∧
    (model k2Witness).hashFresh = .attributeError := by
  refine ⟨by decide, by decide, by decide, by decide⟩

/-- K5 is only the stale history: the same class and operation without the change is fine, and the shared
    wrapper is then consistent -/
example : wf { k5Witness with mutate := none } = true ∧ known { k5Witness with mutate := none } = [] ∧
    (model { k5Witness with mutate := none }).cacheAfter = .carried ∧
    (model { k5Witness with mutate := none }).hashEqFresh = true := by
  refine ⟨by decide, by decide, by decide, by decide⟩

/-- non-vacuity: a mixed chain `A(dict; x) ← B(slots, frozen, cache_hash; y)`, hashed, pickled at protocol 0, is
    well-formed, falls under no known finding, and the fields come back -/
example :
    let c := mk [dictCls [fX], { slotCls [fY] with frozen := true, cacheHash := true }] (.pickle 0) true
    wf c = true ∧ known c = [] ∧ (model c).fields = [("x", some "v_x"), ("y", some "v_y")] ∧
      (model c).hashEqFresh = true ∧ (model c).cacheAfter = .isNone := by
  refine ⟨by decide, by decide, by decide, by decide, by decide⟩

/-- K10d: `@attr.s(auto_exc=True, frozen=True) class E(Exception): x = attr.ib()` — every copy raises -/
def k10dWitness : Case := { mk [{ dictCls [fX] with frozen := true }] .copy with exc := true }
/-- K10e: a slotted auto_exc class whose field `x` was assigned after construction: the copy has the old value -/
def k10eWitness : Case := { mk [slotCls [fX]] .deepcopy false (some "x") with exc := true }
/-- K10e, init=False form: the field is unset on the copy -/
def k10eUnsetWitness : Case :=
  { mk [slotCls [fX, { name := "y", init := false, kind := .int }]] (.pickle 2) with exc := true }

theorem C10_known_K10d_witness :
    wf k10dWitness = true ∧ known k10dWitness = ["K10d"] ∧ spec k10dWitness (model k10dWitness) = false ∧
    (model k10dWitness).exc = some .frozenInstance := by
  refine ⟨by decide, by decide, by decide, by decide⟩

theorem C10_known_K10e_witness :
    wf k10eWitness = true ∧ known k10eWitness = ["K10e"] ∧ spec k10eWitness (model k10eWitness) = false ∧
    (model k10eWitness).fields = [("x", some "v_x")] ∧
    wf k10eUnsetWitness = true ∧ known k10eUnsetWitness = ["K10e"] ∧
    (model k10eUnsetWitness).fields = [("x", some "v_x"), ("y", none)] := by
  refine ⟨by decide, by decide, by decide, by decide, by decide, by decide, by decide⟩

/-- non-vacuity for exceptions: a slotted exception below a dict exception, one field changed *in place*, fields
    in `__dict__` assigned later — everything comes back; and the frozen dict class with `getstate_setstate=True`
    (generated `__setstate__` instead of `BaseException.__setstate__`) is fine -/
example :
    let c : Case := { mk [dictCls [fX, { name := "y", init := false, kind := .int }],
                          slotCls [{ name := "z", init := true, kind := .box }]] (.pickle 0) false (some "z")
                      with exc := true, mutInPlace := true }
    wf c = true ∧ known c = [] ∧
      (model c).fields = [("x", some "v_x"), ("y", some "v_y"), ("z", some "m_z")] := by
  refine ⟨by decide, by decide, by decide⟩

example :
    let c : Case := { mk [{ dictCls [fX] with frozen := true, gs := .t }] .copy with exc := true }
    wf c = true ∧ known c = [] ∧ (model c).fields = [("x", some "v_x")] := by
  refine ⟨by decide, by decide, by decide⟩

end Attrs.C10
