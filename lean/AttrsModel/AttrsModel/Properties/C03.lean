/-
  C03 — property theorems.  Everything here is about arbitrary field lists (any length), arbitrary
  ancestor chains (any depth, any mix of hand-written / builtin / generated `__eq__`/`__ne__`) and
  arbitrary hashing histories of the operands.
-/
import AttrsModel.Spec.C03

namespace Attrs.C03

/-- The `and` chain is truthy exactly when every operand is. -/
theorem chain_truthy_iff (fs : List Field) :
    (chain fs).1.isTruthy = fs.all (fun f => (outcome f).isTruthy) := by
  induction fs with
  | nil => simp [chain, Res.isTruthy]
  | cons f rest ih =>
    cases rest with
    | nil => cases h : outcome f <;> simp [chain, h, Res.ofOutcome, Res.isTruthy, Outcome.isTruthy]
    | cons g rest =>
      by_cases h : (outcome f).isTruthy
      · simp only [chain, h, if_true, List.all_cons, Bool.true_and]
        exact ih
      · cases h' : outcome f <;> simp_all [chain, Res.ofOutcome, Res.isTruthy, Outcome.isTruthy]

theorem chain_ne_NI (fs : List Field) : (chain fs).1 ≠ .NI := by
  induction fs with
  | nil => simp [chain]
  | cons f rest ih =>
    cases rest with
    | nil => cases h : outcome f <;> simp [chain, h, Res.ofOutcome]
    | cons g rest =>
      by_cases h : (outcome f).isTruthy
      · simp only [chain, h, if_true]; exact ih
      · cases h' : outcome f <;> simp_all [chain, Res.ofOutcome, Outcome.isTruthy]

theorem chain_ne_exc (fs : List Field) : (chain fs).1 ≠ .exc := by
  induction fs with
  | nil => simp [chain]
  | cons f rest ih =>
    cases rest with
    | nil => cases h : outcome f <;> simp [chain, h, Res.ofOutcome]
    | cons g rest =>
      by_cases h : (outcome f).isTruthy
      · simp only [chain, h, if_true]; exact ih
      · cases h' : outcome f <;> simp_all [chain, Res.ofOutcome, Outcome.isTruthy]

/-! ### what C resolves once attrs has generated equality -/

/-- **C03_generated_shadows_mro** (1): whatever the body of C held and whatever any ancestor — at any
    depth — defines, C resolves the generated `__eq__` … -/
theorem lookupEq_gen (c : Case) (hg : generates c = true) : lookupEq (mroC c) = .generated := by
  simp [mroC, classLayer, hg, lookupEq]

/-- … and (2) the shared `__ne__` helper: an inherited or hand-written `__ne__` is never reached. -/
theorem lookupNe_gen (c : Case) (hg : generates c = true) : lookupNe (mroC c) = .generated := by
  simp [mroC, classLayer, hg, lookupNe]

/-- MRO lookup as written in the model = "the first class that has the name". -/
theorem lookupEq_resolved (l : List Layer) : lookupEq l = resolved (l.map (·.eq)) := by
  induction l with
  | nil => rfl
  | cons a rest ih =>
    cases h : a.eq <;> simp_all [lookupEq, resolved, List.find?, Slot.present]

theorem lookupNe_resolved (l : List Layer) : lookupNe l = resolved (l.map (·.ne)) := by
  induction l with
  | nil => rfl
  | cons a rest ih =>
    cases h : a.ne <;> simp_all [lookupNe, resolved, List.find?, Slot.present]

/-- **C03_eq_iff**: same class ⇒ `__eq__` is truthy iff every eq-participating field compares truthy. -/
theorem C03_eq_iff (c : Case) (hg : generates c = true) (h : sameClass c.rhs = true) :
    (eqMethod c).1.isTruthy = true ↔
      ∀ f ∈ c.fields, participates f = true → (outcome f).isTruthy = true := by
  simp only [eqMethod, eqMethodW, lookupEq_gen c hg, h, if_true, chain_truthy_iff, List.all_eq_true, List.mem_filter]
  constructor
  · intro H f hf hp; exact H f ⟨hf, hp⟩
  · intro H f hf; exact H f hf.1 hf.2

/-- `__ne__` derives from `__eq__`, whichever way the chain is evaluated (with or without faults) -/
theorem neMethodW_negation (ch : List Field → Res × List String) (c : Case) (hg : generates c = true) :
    neMethodW ch c = (derive (eqMethodW ch c).1, (eqMethodW ch c).2) := by
  simp [neMethodW, lookupNe_gen c hg]

/-- **C03_ne_negation**: whatever `__ne__` the ancestors or the class body bring along, `C.__ne__` is
    NotImplemented iff `C.__eq__` is, else the boolean negation — and it compares what `__eq__` compares. -/
theorem C03_ne_negation (c : Case) (hg : generates c = true) :
    neMethod c = (derive (eqMethod c).1, (eqMethod c).2) :=
  neMethodW_negation chain c hg

theorem derive_spec (r : Res) :
    derive r = (match r with | .NI => .NI | .exc => .exc | r => Res.ofBool (!r.isTruthy)) := by
  cases r <;> rfl

/-- operands of another class: nothing is evaluated, so faults cannot matter either -/
theorem otherClassW (ch : List Field → Res × List String) (c : Case) (hg : generates c = true)
    (h : sameClass c.rhs = false) :
    eqMethodW ch c = (.NI, []) ∧ neMethodW ch c = (.NI, []) ∧
      eqOpW ch c = pyDefaultEq c ∧ neOpW ch c = pyDefaultNe c := by
  have he : eqMethodW ch c = (.NI, []) := by simp [eqMethodW, lookupEq_gen c hg, h]
  have hn : neMethodW ch c = (.NI, []) := by rw [neMethodW_negation ch c hg, he]; rfl
  refine ⟨he, hn, ?_, ?_⟩
  · simp only [eqOpW, h, he, reflEq, pyDefaultEq, lookupEq_resolved, dispatch]
    cases resolved ((rhsMro c).map (·.eq)) with
    | user o => cases o <;> cases c.rhs == Rhs.sub <;> simp [Res.ofOutcome]
    | absent => cases c.rhs == Rhs.sub <;> simp
    | generated => cases c.rhs == Rhs.sub <;> simp
  · simp only [neOpW, h, hn, reflNe, reflEq, pyDefaultNe, lookupEq_resolved, lookupNe_resolved, dispatch]
    cases resolved ((rhsMro c).map (·.ne)) with
    | user o => cases o <;> cases c.rhs == Rhs.sub <;> simp [Res.ofOutcome]
    | absent =>
      cases resolved ((rhsMro c).map (·.eq)) with
      | user o => cases o <;> cases c.rhs == Rhs.sub <;>
          simp [Res.ofOutcome, derive, Res.ofBool, Res.isTruthy, Outcome.isTruthy]
      | absent => cases c.rhs == Rhs.sub <;> simp [derive]
      | generated => cases c.rhs == Rhs.sub <;> simp [derive]
    | generated =>
      cases resolved ((rhsMro c).map (·.eq)) with
      | user o => cases o <;> cases c.rhs == Rhs.sub <;>
          simp [Res.ofOutcome, derive, Res.ofBool, Res.isTruthy, Outcome.isTruthy]
      | absent => cases c.rhs == Rhs.sub <;> simp [derive]
      | generated => cases c.rhs == Rhs.sub <;> simp [derive]

/-- **C03_other_class_notimpl**: any operand of another class — sub- and superclasses included — makes
    both methods return NotImplemented without comparing anything; the operators are then answered by
    Python's default (the other operand's own hand-written method if its class resolves one, else identity). -/
theorem C03_other_class_notimpl (c : Case) (hg : generates c = true) (h : sameClass c.rhs = false) :
    eqMethod c = (.NI, []) ∧ neMethod c = (.NI, []) ∧ eqOp c = pyDefaultEq c ∧ neOp c = pyDefaultNe c :=
  otherClassW chain c hg h

/-- no class along the right operand's MRO hand-writes a comparison (it resolves `object`'s or generated ones) -/
def noHandWritten (l : List Layer) : Bool :=
  l.all (fun y => (match y.eq with | .user _ => false | _ => true) &&
                  (match y.ne with | .user _ => false | _ => true))

theorem resolved_eq_not_user (l : List Layer) (h : noHandWritten l = true) (o : Outcome) :
    resolved (l.map (·.eq)) ≠ .user o := by
  induction l with
  | nil => simp [resolved]
  | cons a rest ih =>
    simp only [noHandWritten, List.all_cons, Bool.and_eq_true] at h
    have ih' := ih (by simpa [noHandWritten] using h.2)
    cases ha : a.eq <;> simp_all [resolved, List.find?, Slot.present]

theorem resolved_ne_not_user (l : List Layer) (h : noHandWritten l = true) (o : Outcome) :
    resolved (l.map (·.ne)) ≠ .user o := by
  induction l with
  | nil => simp [resolved]
  | cons a rest ih =>
    simp only [noHandWritten, List.all_cons, Bool.and_eq_true] at h
    have ih' := ih (by simpa [noHandWritten] using h.2)
    cases ha : a.ne <;> simp_all [resolved, List.find?, Slot.present]

/-- **C03_other_class_identity**: if moreover the other operand's class hand-writes no comparison of its
    own, `==` is False and `!=` is True (identity of two different objects). -/
theorem C03_other_class_identity (c : Case) (hg : generates c = true) (h : sameClass c.rhs = false)
    (hw : noHandWritten (rhsMro c) = true) : eqOp c = .F ∧ neOp c = .T := by
  obtain ⟨_, _, h3, h4⟩ := C03_other_class_notimpl c hg h
  have e := resolved_eq_not_user _ hw
  have n := resolved_ne_not_user _ hw
  rw [h3, h4]
  constructor
  · unfold pyDefaultEq
    split
    · rename_i o hr; exact absurd hr (e o)
    · rfl
  · unfold pyDefaultNe
    split
    · rename_i o hn; exact absurd hn (n o)
    · split
      · rename_i o hr; exact absurd hr (e o)
      · rfl

/-- non-vacuity of the previous two: a list subclass compared with a plain list of equal content -/
example : ∃ c, generates c = true ∧ sameClass c.rhs = false ∧ eqOp c = .T ∧ neOp c = .F :=
  ⟨{ fields := [], rhs := .super, clsEq := .unset, autoDetect := false,
     own := ⟨.absent, .absent⟩, ancestors := [⟨.user .T, .user .F⟩], subLayer := ⟨.absent, .absent⟩,
     foreignLayer := ⟨.absent, .absent⟩, metaLayer := ⟨.absent, .absent⟩,
     hist := ⟨false, false, false, [], []⟩ }, by decide⟩

/-- for operands of the same class the results are a function of the `and` chain over the participating
    fields alone -/
theorem roundW_same_class (ch : List Field → Res × List String) (c d : Case)
    (hc : generates c = true) (hd : generates d = true)
    (hr : c.rhs = d.rhs) (hs : sameClass c.rhs = true)
    (hch : ch (c.fields.filter participates) = ch (d.fields.filter participates)) :
    roundW ch c = roundW ch d := by
  have hs' : sameClass d.rhs = true := hr ▸ hs
  have e : eqMethodW ch c = eqMethodW ch d := by
    simp [eqMethodW, lookupEq_gen, hc, hd, hs, hs', hch]
  simp [roundW, eqOpW, neOpW, neMethodW_negation, hc, hd, hs, e, ← hr]

theorem roundW_same_class_ch (c : Case) (hg : generates c = true) (hs : sameClass c.rhs = true)
    (hch : chainF (c.fields.filter participates) = chain (c.fields.filter participates)) :
    roundF c = round c := by
  have e : eqMethodW chainF c = eqMethodW chain c := by
    simp [eqMethodW, lookupEq_gen, hg, hs, hch]
  simp [roundF, round, roundW, eqOpW, neOpW, neMethodW_negation, hg, hs, e]

theorem round_same_class (c d : Case) (hc : generates c = true) (hd : generates d = true)
    (hr : c.rhs = d.rhs) (hs : sameClass c.rhs = true)
    (hch : chain (c.fields.filter participates) = chain (d.fields.filter participates)) :
    round c = round d := roundW_same_class chain c d hc hd hr hs hch

/-- **C03_nonparticipating_irrelevant** (also: the generated pair shadows the whole MRO; history is
    irrelevant): for operands of the same class, two cases whose eq-participating fields coincide give the
    same results and the same comparisons — whatever the other fields hold (values, `hash=` arguments, hash
    codes), whatever the class body and the ancestors define under `__eq__`/`__ne__`, whichever operands
    were hashed (and cached) before and whichever fields were re-assigned after that. -/
theorem C03_nonparticipating_irrelevant (c d : Case) (hc : generates c = true) (hd : generates d = true)
    (hr : c.rhs = d.rhs) (hs : sameClass c.rhs = true)
    (hf : c.fields.filter participates = d.fields.filter participates) : model c = model d := by
  simp only [model, roundF, round, roundW_same_class chainF c d hc hd hr hs (by rw [hf]),
    roundW_same_class chain c d hc hd hr hs (by rw [hf])]

/-- the case with every class fact and all history wiped: plain class, nothing hashed, nothing re-assigned -/
def bare (c : Case) : Case :=
  { fields := c.fields.map (fun f => { f with hash := .unset, hashDiffers := false }),
    rhs := c.rhs, clsEq := .t, autoDetect := false, own := ⟨.absent, .absent⟩, ancestors := [],
    subLayer := c.subLayer, foreignLayer := c.foreignLayer, metaLayer := ⟨.absent, .absent⟩,
    hist := ⟨false, false, false, [], []⟩ }

@[simp] theorem participates_hash (f : Field) (a : Flag) (b : Bool) :
    participates { f with hash := a, hashDiffers := b } = participates f := rfl

theorem filter_hash (fs : List Field) :
    (fs.map (fun f => { f with hash := Flag.unset, hashDiffers := false })).filter participates
      = (fs.filter participates).map (fun f => { f with hash := Flag.unset, hashDiffers := false }) := by
  induction fs with
  | nil => rfl
  | cons f rest ih =>
    simp only [List.map_cons, List.filter_cons, participates_hash]
    split <;> simp_all

@[simp] theorem outcome_hash (f : Field) (a : Flag) (b : Bool) :
    outcome { f with hash := a, hashDiffers := b } = outcome f := rfl
@[simp] theorem tag_hash (f : Field) (a : Flag) (b : Bool) :
    tag { f with hash := a, hashDiffers := b } = tag f := rfl

theorem chain_hash (fs : List Field) :
    chain (fs.map (fun f => { f with hash := Flag.unset, hashDiffers := false })) = chain fs := by
  induction fs with
  | nil => rfl
  | cons f rest ih =>
    cases rest with
    | nil => simp [chain]
    | cons g rest =>
      simp only [List.map_cons] at ih ⊢
      simp only [chain, ih, outcome_hash, tag_hash]

/-- **C03_history_irrelevant**: same-class results are those of the bare class with fresh operands. -/
theorem C03_history_irrelevant (c : Case) (hg : generates c = true) (hs : sameClass c.rhs = true) :
    round c = round (bare c) :=
  round_same_class c (bare c) hg (by simp [generates, bare]) rfl hs
    (by simp only [bare, filter_hash, chain_hash])

/-! ### the per-field `order=` argument and the metaclass never matter -/

/-- the field as declared for equality only: `order=` left out -/
def dropOrder (f : Field) : Field := { f with order := .unset, orderKeyed := .T }

theorem effEq_of_isSome (f : Field) (h : (effEq f).isSome = true) : effEq f = eqTable f := by
  cases hh : orderOk f <;> simp_all [effEq]

theorem effEq_dropOrder (f : Field) : effEq (dropOrder f) = eqTable f := rfl

theorem participates_dropOrder (f : Field) (h : (effEq f).isSome = true) :
    participates (dropOrder f) = participates f := by
  simp only [participates, effEq_dropOrder, effEq_of_isSome f h]

theorem outcome_dropOrder (f : Field) (h : (effEq f).isSome = true) :
    outcome (dropOrder f) = outcome f ∧ tag (dropOrder f) = tag f := by
  simp only [outcome, tag, hasKey, effEq_dropOrder, effEq_of_isSome f h]
  exact ⟨rfl, rfl⟩

theorem filter_dropOrder (fs : List Field) (h : ∀ f ∈ fs, (effEq f).isSome = true) :
    (fs.map dropOrder).filter participates = (fs.filter participates).map dropOrder := by
  induction fs with
  | nil => rfl
  | cons f rest ih =>
    have hf := participates_dropOrder f (h f List.mem_cons_self)
    have ih' := ih (fun g hg => h g (List.mem_cons_of_mem _ hg))
    simp only [List.map_cons, List.filter_cons, hf]
    split <;> simp_all

theorem chain_dropOrder (fs : List Field) (h : ∀ f ∈ fs, (effEq f).isSome = true) :
    chain (fs.map dropOrder) = chain fs := by
  induction fs with
  | nil => rfl
  | cons f rest ih =>
    obtain ⟨ho, ht⟩ := outcome_dropOrder f (h f List.mem_cons_self)
    have ih' := ih (fun g hg => h g (List.mem_cons_of_mem _ hg))
    cases rest with
    | nil => simp [chain, ho, ht]
    | cons g rest =>
      simp only [List.map_cons] at ih' ⊢
      simp only [chain, ih', ho, ht]

/-- **C03_order_key_irrelevant**: a per-field `order=` argument — True, False or a key function, with any
    outcome the order key would give — never changes `==`/`!=` nor what is compared: only the eq key counts. -/
theorem C03_order_key_irrelevant (c : Case) (hw : wf c = true) (hs : sameClass c.rhs = true) :
    round c = round { c with fields := c.fields.map dropOrder } := by
  simp only [wf, Bool.and_eq_true, List.all_eq_true] at hw
  have hv : ∀ f ∈ c.fields, (effEq f).isSome = true := hw.1.1
  have hv' : ∀ f ∈ c.fields.filter participates, (effEq f).isSome = true :=
    fun f hf => hv f (List.mem_filter.1 hf).1
  exact round_same_class c _ hw.2 (by simpa [generates] using hw.2) rfl hs
    (by simp only [filter_dropOrder _ hv, chain_dropOrder _ hv'])

/-- non-vacuity: an order key whose outcome differs from the raw one -/
example : ∃ f : Field, (effEq f).isSome = true ∧ f.order = .key ∧ f.orderKeyed ≠ f.raw ∧ outcome f = f.raw :=
  ⟨{ name := "a", cmp := .unset, eq := .unset, raw := .F, keyed := .T, sameObj := false, hash := .unset,
     hashDiffers := false, order := .key, orderKeyed := .T, fault := .none }, by decide⟩

/-- **C03_class_identity_not_equality**: "the very same class" is identity of class objects: whatever a
    metaclass answers for `==`/`!=` between classes, nothing changes. -/
theorem C03_class_identity_not_equality (c : Case) (m : Layer) :
    model { c with metaLayer := m } = model c := rfl

/-- operands evaluated by the chain: up to and including the first falsy one -/
def upToFirstFalsy : List Field → List String
  | [] => []
  | f :: rest => if (outcome f).isTruthy then tag f :: upToFirstFalsy rest else [tag f]

/-- **C03_short_circuit**: the comparisons performed are exactly the prefix up to the first falsy one. -/
theorem C03_short_circuit (fs : List Field) : (chain fs).2 = upToFirstFalsy fs := by
  induction fs with
  | nil => simp [chain, upToFirstFalsy]
  | cons f rest ih =>
    cases rest with
    | nil => by_cases h : (outcome f).isTruthy <;> simp [chain, upToFirstFalsy, h]
    | cons g rest =>
      by_cases h : (outcome f).isTruthy
      · simp only [chain, h, if_true]; rw [ih]; simp [upToFirstFalsy, h]
      · simp [chain, upToFirstFalsy, h]

@[simp] theorem outcome_sameObj (f : Field) (b : Bool) :
    outcome { f with sameObj := b } = outcome f := rfl
@[simp] theorem tag_sameObj (f : Field) (b : Bool) :
    tag { f with sameObj := b } = tag f := rfl
@[simp] theorem participates_sameObj (f : Field) (b : Bool) :
    participates { f with sameObj := b } = participates f := rfl

theorem chain_sameObj (b : Bool) (fs : List Field) :
    chain (fs.map (fun f => { f with sameObj := b })) = chain fs := by
  induction fs with
  | nil => rfl
  | cons f rest ih =>
    cases rest with
    | nil => simp [chain]
    | cons g rest =>
      simp only [List.map_cons] at ih ⊢
      simp only [chain, ih, outcome_sameObj, tag_sameObj]

theorem filter_sameObj (b : Bool) (fs : List Field) :
    (fs.map (fun f => { f with sameObj := b })).filter participates
      = (fs.filter participates).map (fun f => { f with sameObj := b }) := by
  induction fs with
  | nil => rfl
  | cons f rest ih =>
    simp only [List.map_cons, List.filter_cons, participates_sameObj]
    split <;> simp_all

theorem chainF_sameObj (b : Bool) (fs : List Field) :
    chainF (fs.map (fun f => { f with sameObj := b })) = chainF fs := by
  induction fs with
  | nil => rfl
  | cons f rest ih =>
    have hf : faultOf { f with sameObj := b } = faultOf f := rfl
    cases rest with
    | nil => simp [chainF, hf]
    | cons g rest =>
      simp only [List.map_cons] at ih ⊢
      simp only [chainF, ih, hf, outcome_sameObj, tag_sameObj]

/-- **C03_uses_eq_not_identity**: whether two field values are the same object never matters;
    in particular a value unequal to itself (NaN) makes `x == x` false. -/
theorem C03_uses_eq_not_identity (c : Case) (b : Bool) :
    model { c with fields := c.fields.map (fun f => { f with sameObj := b }) } = model c := by
  have e : ∀ ch, (ch = chain ∨ ch = chainF) →
      eqMethodW ch { c with fields := c.fields.map (fun f => { f with sameObj := b }) } = eqMethodW ch c := by
    intro ch hch
    rcases hch with h | h <;> subst h
    · simp only [eqMethodW, mroC, classLayer, generates, filter_sameObj, chain_sameObj]; rfl
    · simp only [eqMethodW, mroC, classLayer, generates, filter_sameObj, chainF_sameObj]; rfl
  simp only [model, round, roundF, roundW, neMethodW, eqOpW, neOpW, e chain (Or.inl rfl), e chainF (Or.inr rfl)]
  rfl

theorem nan_witness :
    (model { fields := [{ name := "a", cmp := .unset, eq := .unset, raw := .F, keyed := .F,
                          sameObj := true, hash := .unset, hashDiffers := false,
                          order := .unset, orderKeyed := .T, fault := .none }],
             rhs := .identical, clsEq := .unset, autoDetect := false, own := ⟨.absent, .absent⟩,
             ancestors := [], subLayer := ⟨.absent, .absent⟩, foreignLayer := ⟨.absent, .absent⟩,
             metaLayer := ⟨.absent, .absent⟩, hist := ⟨false, false, false, [], []⟩ }).again.eqOp = .F := by decide

theorem upToFirstFalsy_mem (fs : List Field) :
    ∀ t ∈ upToFirstFalsy fs, ∃ f ∈ fs, tag f = t := by
  induction fs with
  | nil => simp [upToFirstFalsy]
  | cons f rest ih =>
    intro t ht
    simp only [upToFirstFalsy] at ht
    split at ht
    · rcases List.mem_cons.1 ht with h | h
      · exact ⟨f, List.mem_cons_self, h.symm⟩
      · obtain ⟨g, hg, hgt⟩ := ih t h
        exact ⟨g, List.mem_cons_of_mem _ hg, hgt⟩
    · simp at ht; exact ⟨f, List.mem_cons_self, ht.symm⟩

/-- a round without faults meets the per-round specification -/
theorem round_meets_spec (c : Case) (hg : generates c = true) : specRound c (round c) = true := by
  by_cases h : sameClass c.rhs = true
  · have hni := chain_ne_NI (c.fields.filter participates)
    have hne := chain_ne_exc (c.fields.filter participates)
    have ht := chain_truthy_iff (c.fields.filter participates)
    have hs := C03_short_circuit (c.fields.filter participates)
    have hmem := upToFirstFalsy_mem (c.fields.filter participates)
    generalize hr : chain (c.fields.filter participates) = r at hni hne ht hs
    have htr : onlyParticipating c r.2 = true := by
      rw [onlyParticipating, hs, List.all_eq_true]
      intro t htm
      obtain ⟨f, hf, hft⟩ := hmem t htm
      exact List.any_eq_true.2 ⟨f, hf, by simp [hft]⟩
    rcases r with ⟨v, tr⟩
    simp only at hni hne ht htr
    have he : eqMethodW chain c = (v, tr) := by simp [eqMethodW, lookupEq_gen c hg, h, hr]
    simp only [specRound, h, if_true, round, roundW, eqOpW, neOpW, neMethodW_negation chain c hg, he,
      allEqual, htr]
    rw [← ht]
    cases v <;> simp_all [Res.isTruthy, Res.ofBool, derive]
  · have h' : sameClass c.rhs = false := by simpa using h
    obtain ⟨h1, h2, h3, h4⟩ := otherClassW chain c hg h'
    simp [specRound, h', round, roundW, h1, h2, h3, h4]

/-! ### faults -/

/-- no fault is reached: the faulted evaluation is the plain one -/
theorem chainF_of_not_raises (fs : List Field) (h : raises fs = false) : chainF fs = chain fs := by
  induction fs with
  | nil => rfl
  | cons f rest ih =>
    cases hf : faultOf f with
    | none =>
      cases rest with
      | nil => simp [chainF, chain, hf]
      | cons g rest =>
        by_cases ht : (outcome f).isTruthy = true
        · have hr : raises (g :: rest) = false := by
            simpa [raises, hf, ht] using h
          simp only [chainF, chain, hf, ht, if_true, ih hr]
        · simp [chainF, chain, hf, ht]
    | eqRaises => simp [raises, hf] at h
    | keyRaises => simp [raises, hf] at h

/-- **C03_fault_propagates** (chain level): a reached fault makes the evaluation raise, having compared
    only (some of) the fields given -/
theorem chainF_of_raises (fs : List Field) (h : raises fs = true) :
    (chainF fs).1 = .exc ∧ ∀ t ∈ (chainF fs).2, ∃ f ∈ fs, tag f = t := by
  induction fs with
  | nil => simp [raises] at h
  | cons f rest ih =>
    cases hf : faultOf f with
    | none =>
      have h2 : (outcome f).isTruthy = true ∧ raises rest = true := by
        simpa [raises, hf] using h
      cases rest with
      | nil => simp [raises] at h2
      | cons g rest =>
        obtain ⟨i1, i2⟩ := ih h2.2
        simp only [chainF, hf, h2.1, if_true]
        refine ⟨i1, ?_⟩
        intro t ht
        rcases List.mem_cons.1 ht with e | e
        · exact ⟨f, List.mem_cons_self, e.symm⟩
        · obtain ⟨k, hk, hkt⟩ := i2 t e
          exact ⟨k, List.mem_cons_of_mem _ hk, hkt⟩
    | eqRaises =>
      cases rest with
      | nil => simp [chainF, hf]
      | cons g rest => simp [chainF, hf]
    | keyRaises =>
      cases rest with
      | nil => simp [chainF, hf]
      | cons g rest => simp [chainF, hf]

/-- a fault is reached iff the fields split into a fault-free truthy prefix and a faulting field -/
theorem C03_fault_reached_iff (fs : List Field) :
    raises fs = true ↔
      ∃ pre f post, fs = pre ++ f :: post ∧ faultOf f ≠ .none ∧
        ∀ g ∈ pre, faultOf g = .none ∧ (outcome g).isTruthy = true := by
  induction fs with
  | nil => simp [raises]
  | cons a rest ih =>
    cases ha : faultOf a with
    | none =>
      simp only [raises, ha, Bool.and_eq_true, ih]
      constructor
      · rintro ⟨hat, pre, f, post, rfl, hf, hp⟩
        refine ⟨a :: pre, f, post, rfl, hf, ?_⟩
        intro g hg
        rcases List.mem_cons.1 hg with e | e
        · subst e; exact ⟨ha, hat⟩
        · exact hp g e
      · rintro ⟨pre, f, post, he, hf, hp⟩
        cases pre with
        | nil =>
          simp only [List.nil_append, List.cons.injEq] at he
          exact absurd (he.1 ▸ ha) hf
        | cons p pre =>
          simp only [List.cons_append, List.cons.injEq] at he
          obtain ⟨rfl, rfl⟩ := he
          exact ⟨(hp a List.mem_cons_self).2, pre, f, post, rfl, hf,
            fun g hg => hp g (List.mem_cons_of_mem _ hg)⟩
    | eqRaises =>
      simp only [raises, ha, true_iff]
      exact ⟨[], a, rest, rfl, by simp [ha], by simp⟩
    | keyRaises =>
      simp only [raises, ha, true_iff]
      exact ⟨[], a, rest, rfl, by simp [ha], by simp⟩

/-- **C03_fault_propagates**: same class and a fault reached ⇒ the exception comes out of `__eq__`, `__ne__`,
    `==` and `!=` alike (nothing is swallowed, nothing answered instead). -/
theorem C03_fault_propagates (c : Case) (hg : generates c = true) (h : sameClass c.rhs = true)
    (hr : raises (c.fields.filter participates) = true) :
    (roundF c).eqDirect = .exc ∧ (roundF c).neDirect = .exc ∧ (roundF c).eqOp = .exc ∧ (roundF c).neOp = .exc := by
  obtain ⟨h1, _⟩ := chainF_of_raises _ hr
  have he : (eqMethodW chainF c).1 = .exc := by simp [eqMethodW, lookupEq_gen c hg, h, h1]
  simp [roundF, roundW, eqOpW, neOpW, neMethodW_negation chainF c hg, he, h, derive]

/-- **C03_later_comparison_on_its_own**: the second round never depends on the faults of the first -/
theorem C03_later_comparison_on_its_own (c : Case) (g : Field → Fault) :
    round { c with fields := c.fields.map (fun f => { f with fault := g f }) } = round c := by
  have hp : ∀ f : Field, participates { f with fault := g f } = participates f := fun _ => rfl
  have hfil : ∀ fs : List Field, (fs.map (fun f => { f with fault := g f })).filter participates
      = (fs.filter participates).map (fun f => { f with fault := g f }) := by
    intro fs
    induction fs with
    | nil => rfl
    | cons f rest ih =>
      simp only [List.map_cons, List.filter_cons, hp]
      split <;> simp_all
  have hch : ∀ fs : List Field, chain (fs.map (fun f => { f with fault := g f })) = chain fs := by
    intro fs
    induction fs with
    | nil => rfl
    | cons f rest ih =>
      have ho : outcome { f with fault := g f } = outcome f := rfl
      have htg : tag { f with fault := g f } = tag f := rfl
      cases rest with
      | nil => simp [chain, ho, htg]
      | cons k rest =>
        simp only [List.map_cons] at ih ⊢
        simp only [chain, ih, ho, htg]
  have e : eqMethodW chain { c with fields := c.fields.map (fun f => { f with fault := g f }) }
      = eqMethodW chain c := by
    simp only [eqMethodW, mroC, classLayer, generates, hfil, hch]; rfl
  simp only [round, roundW, neMethodW, eqOpW, neOpW, e]
  rfl

theorem first_meets_spec (c : Case) (hg : generates c = true) : specFirst c (roundF c) = true := by
  by_cases h : sameClass c.rhs = true
  · by_cases hr : raises (c.fields.filter participates) = true
    · obtain ⟨h1, h2, h3, h4⟩ := C03_fault_propagates c hg h hr
      obtain ⟨_, hm⟩ := chainF_of_raises _ hr
      have htr : onlyParticipating c (eqMethodW chainF c).2 = true := by
        simp only [eqMethodW, lookupEq_gen c hg, h, if_true, onlyParticipating, List.all_eq_true]
        intro t htm
        obtain ⟨f, hf, hft⟩ := hm t htm
        exact List.any_eq_true.2 ⟨f, hf, by simp [hft]⟩
      have htr' : onlyParticipating c (roundF c).neTrace = true := by
        simpa [roundF, roundW, neMethodW_negation chainF c hg] using htr
      have htr'' : onlyParticipating c (roundF c).trace = true := by
        simpa [roundF, roundW] using htr
      simp [specFirst, h, hr, h1, h2, h3, h4, htr', htr'']
    · have hr' : raises (c.fields.filter participates) = false := by simpa using hr
      have e : roundF c = round c :=
        roundW_same_class_ch c hg h (chainF_of_not_raises _ hr')
      simp only [specFirst, h, hr', Bool.and_false, e]
      exact round_meets_spec c hg
  · have h' : sameClass c.rhs = false := by simpa using h
    obtain ⟨h1, h2, h3, h4⟩ := otherClassW chainF c hg h'
    obtain ⟨k1, k2, k3, k4⟩ := otherClassW chain c hg h'
    have e : roundF c = round c := by
      simp [roundF, round, roundW, h1, h2, h3, h4, k1, k2, k3, k4]
    simp only [specFirst, h', Bool.false_and, e]
    exact round_meets_spec c hg

/-- **C03_model_meets_spec**: whenever attrs generates equality, the model satisfies the declarative
    specification in both rounds and leaves nothing behind (no known-deviation hypothesis is needed). -/
theorem C03_model_meets_spec (c : Case) (hw : wf c = true) : spec c (model c) = true := by
  have hg : generates c = true := by
    simp only [wf, Bool.and_eq_true] at hw; exact hw.2
  simp [spec, model, first_meets_spec c hg, round_meets_spec c hg]

/-- non-vacuity: a reached fault, after a truthy field and before a falsy one -/
example : ∃ fs : List Field, raises fs = true ∧ (chainF fs).1 = .exc ∧ (chain fs).1 = .F :=
  ⟨[{ name := "a", cmp := .unset, eq := .unset, raw := .T, keyed := .T, sameObj := false, hash := .unset,
      hashDiffers := false, order := .unset, orderKeyed := .T, fault := .none },
    { name := "b", cmp := .unset, eq := .key, raw := .T, keyed := .T, sameObj := false, hash := .unset,
      hashDiffers := false, order := .unset, orderKeyed := .T, fault := .keyRaises },
    { name := "c", cmp := .unset, eq := .unset, raw := .F, keyed := .T, sameObj := false, hash := .unset,
      hashDiffers := false, order := .unset, orderKeyed := .T, fault := .none }], by decide⟩

/-- non-vacuity: a well-formed case whose class body hand-writes both methods and whose ancestors bring
    a builtin's pair — equality is still generated (`eq=True`) and the specification is met. -/
example : ∃ c, wf c = true ∧ c.own = ⟨.user .F, .user .F⟩ ∧ c.ancestors ≠ [] ∧ spec c (model c) = true :=
  ⟨{ fields := [{ name := "a", cmp := .unset, eq := .unset, raw := .T, keyed := .F,
                  sameObj := false, hash := .t, hashDiffers := true, order := .key, orderKeyed := .F, fault := .none }],
     rhs := .same, clsEq := .t, autoDetect := true, own := ⟨.user .F, .user .F⟩,
     ancestors := [⟨.user .T, .user .F⟩], subLayer := ⟨.absent, .absent⟩,
     foreignLayer := ⟨.absent, .absent⟩, metaLayer := ⟨.user .T, .user .F⟩,
     hist := ⟨true, true, true, [], ["a"]⟩ },
   by decide, rfl, by decide, by decide⟩

/-! ### T3: the generated text -/

section Script
open Attrs.C03.IR

theorem andChain_fields (fs : List Field) :
    andChain (fs.map (fun f => (Res.ofOutcome (outcome f), tag f))) = chain fs := by
  induction fs with
  | nil => rfl
  | cons f rest ih =>
    cases rest with
    | nil => simp [andChain, chain]
    | cons g rest =>
      have ht : (Res.ofOutcome (outcome f)).isTruthy = (outcome f).isTruthy := by
        cases outcome f <;> rfl
      simp only [List.map_cons] at ih ⊢
      simp only [andChain, chain, ht, ih]

theorem find_helper (l : List Field) (n : String) (h : ∃ g ∈ l, g.name = n) :
    (l.map (fun g => (g.name, Binding.eqKey g.name))).find? (·.1 == n) = some (n, Binding.eqKey n) := by
  induction l with
  | nil => obtain ⟨g, hg, _⟩ := h; cases hg
  | cons a rest ih =>
    by_cases ha : a.name = n
    · simp [List.find?, ha]
    · obtain ⟨g, hg, hgn⟩ := h
      have hg' : g ∈ rest := by
        rcases List.mem_cons.1 hg with e | e
        · exact absurd (e ▸ hgn) ha
        · exact e
      have hb : (a.name == n) = false := by simpa using ha
      simp only [List.map_cons, List.find?, hb]
      exact ih ⟨g, hg', hgn⟩

/-- one emitted line evaluates to the comparison the model's chain performs for that field -/
theorem evalCmp_genCmp (fields : List Field) (env : Env) (f : Field)
    (hf : f ∈ fields.filter participates) (henv : env f.name = some f) :
    evalCmp (genEq fields) env (genCmp f) = (Res.ofOutcome (outcome f), tag f) := by
  by_cases hk : hasKey f = true
  · have hh : lookupHelper (genEq fields) f.name = .eqKey f.name := by
      simp only [lookupHelper, genEq]
      rw [find_helper _ f.name ⟨f, List.mem_filter.2 ⟨hf, hk⟩, rfl⟩]
    simp [evalCmp, genCmp, hk, hh, henv, outcome, tag]
  · have hk' : hasKey f = false := by simpa using hk
    simp [evalCmp, genCmp, hk', henv, outcome, tag]

/-- **C03_script_correct** (compiler correctness of the model generator): for every field list, every
    operand environment that supplies the fields' values and operands of the same class or not, executing the
    script `genEq fields` — class guard, then `return True` or the `and` chain of the emitted comparison lines
    with their key helpers as bound — yields exactly what the model's generated `__eq__` does: the chain over
    the eq-participating fields, or NotImplemented without comparing anything. -/
theorem C03_script_correct (fields : List Field) (env : Env) (same : Bool)
    (henv : ∀ f ∈ fields, env f.name = some f) :
    execEq (genEq fields) env same = if same then chain (fields.filter participates) else (.NI, []) := by
  cases same with
  | false => simp [execEq, genEq, execStmts]
  | true =>
    by_cases he : (fields.filter participates).isEmpty = true
    · have hnil : fields.filter participates = [] := by simpa using he
      simp [execEq, genEq, execStmts, hnil, chain]
    · have he' : (fields.filter participates).isEmpty = false := by simpa using he
      have hmap : (fields.filter participates).map (fun f => evalCmp (genEq fields) env (genCmp f))
          = (fields.filter participates).map (fun f => (Res.ofOutcome (outcome f), tag f)) := by
        apply List.map_congr_left
        intro f hf
        exact evalCmp_genCmp fields env f hf (henv f (List.mem_filter.1 hf).1)
      have hgen : (genEq fields).body = [.classGuard, .returnAnd ((fields.filter participates).map genCmp)] := by
        simp [genEq, he']
      have hp : ((genEq fields).params == ["self", "other"]) = true := rfl
      simp only [execEq, hp, hgen, execStmts, if_true, List.map_map]
      show andChain ((fields.filter participates).map (fun f => evalCmp (genEq fields) env (genCmp f))) = _
      rw [hmap, andChain_fields]

/-- distinct field names: looking a field's own name up in the field list finds that field -/
theorem envOf_self (fields : List Field) (hnd : (fields.map (·.name)).Nodup) :
    ∀ f ∈ fields, envOf fields f.name = some f := by
  induction fields with
  | nil => intro f hf; cases hf
  | cons a rest ih =>
    intro f hf
    simp only [List.map_cons, List.nodup_cons] at hnd
    rcases List.mem_cons.1 hf with e | e
    · subst e; simp [envOf, List.find?]
    · have hne : a.name ≠ f.name := by
        intro h
        exact hnd.1 (h ▸ List.mem_map.2 ⟨f, e, rfl⟩)
      have := ih hnd.2 f e
      have hb : (a.name == f.name) = false := by simpa using hne
      simp only [envOf] at this ⊢
      simp only [List.find?, hb, this]

theorem execNe_genNe (r : Res) : execNe genNe r = derive r := by
  cases r <;> rfl

/-- the model's round, written as "what `__eq__` does, then the helper, then Python's dispatch" -/
theorem roundW_roundOfEq (ch : List Field → Res × List String) (c : Case) (hg : generates c = true) :
    roundW ch c = roundOfEq (eqMethodW ch c) derive c := by
  simp only [roundW, roundOfEq, eqOpW, neOpW, neMethodW_negation ch c hg]
  generalize eqMethodW ch c = e
  rcases e with ⟨v, t⟩
  cases v <;> rfl

/-- **C03_script_transfer**: if the scripts parsed from a class's real source ARE the model's scripts (the T3
    agreement checked for every sampled class), then every comparison that text performs — any outcomes of the
    fields' comparisons, any right operand, any class facts around it — is the model's round, to which all the
    ∀-operand theorems above apply. -/
theorem C03_script_transfer (sc : Script.Case) (o : Script.Obs) (hag : Script.model sc = o)
    (k : Case) (hg : generates k = true) (hsame : genEq k.fields = genEq sc.fields)
    (hnd : (k.fields.map (·.name)).Nodup) :
    Script.scriptRound o k = round k := by
  subst hag
  have he : execEq (genEq sc.fields) (envOf k.fields) (sameClass k.rhs) = eqMethodW chain k := by
    rw [← hsame, C03_script_correct k.fields (envOf k.fields) (sameClass k.rhs) (envOf_self k.fields hnd)]
    simp [eqMethodW, lookupEq_gen k hg]
  have hne : (fun r => if (Script.model sc).neInstalled then execNe (Script.model sc).ne r else Res.exc) = derive := by
    funext r
    simp [Script.model, execNe_genNe]
  simp only [Script.scriptRound, round, roundW_roundOfEq chain k hg]
  rw [show (Script.model sc).eq = genEq sc.fields from rfl, he, hne]

/-- non-vacuity: a keyed and a plain field; the emitted text, and the script run on unequal keys -/
example :
    let fs : List Field :=
      [{ name := "a", cmp := .unset, eq := .key, raw := .T, keyed := .F, sameObj := false, hash := .unset,
         hashDiffers := false, order := .key, orderKeyed := .T, fault := .none },
       { name := "b", cmp := .unset, eq := .unset, raw := .T, keyed := .F, sameObj := false, hash := .unset,
         hashDiffers := false, order := .unset, orderKeyed := .T, fault := .none },
       { name := "c", cmp := .f, eq := .unset, raw := .F, keyed := .F, sameObj := false, hash := .unset,
         hashDiffers := false, order := .unset, orderKeyed := .T, fault := .none }]
    genText "__attr_key_" fs =
      ["def __eq__(self, other):", "    if other.__class__ is not self.__class__:",
       "        return NotImplemented", "    return  (",
       "        __attr_key_a(self.a) == __attr_key_a(other.a) and", "        self.b == other.b", "    )"] ∧
    execEq (genEq fs) (envOf fs) true = (.F, ["a:key"]) ∧
    execEq (genEq fs) (envOf fs) false = (.NI, []) := by decide

end Script


end Attrs.C03
