/-
  C03 — property theorems.  Everything here is about arbitrary field lists (any length).
-/
import AttrsModel.Spec.C03

namespace Attrs.C03

/-- The `and` chain is truthy exactly when every operand is. -/
theorem chain_truthy_iff (fs : List Field) :
    (chain fs).1.isTruthy = fs.all (fun f => (outcome f).isTruthy) := by
  induction fs with
  | nil => simp [chain, Res.isTruthy]
  | cons f rest ih =>
    cases rest with
    | nil => cases h : outcome f <;> simp [chain, h, Res.ofOutcome, Res.isTruthy, Outcome.isTruthy]
    | cons g rest =>
      by_cases h : (outcome f).isTruthy
      · simp only [chain, h, if_true, List.all_cons, Bool.true_and]
        exact ih
      · cases h' : outcome f <;> simp_all [chain, Res.ofOutcome, Res.isTruthy, Outcome.isTruthy]

theorem chain_ne_NI (fs : List Field) : (chain fs).1 ≠ .NI := by
  induction fs with
  | nil => simp [chain]
  | cons f rest ih =>
    cases rest with
    | nil => cases h : outcome f <;> simp [chain, h, Res.ofOutcome]
    | cons g rest =>
      by_cases h : (outcome f).isTruthy
      · simp only [chain, h, if_true]; exact ih
      · cases h' : outcome f <;> simp_all [chain, Res.ofOutcome, Outcome.isTruthy]

theorem chain_ne_exc (fs : List Field) : (chain fs).1 ≠ .exc := by
  induction fs with
  | nil => simp [chain]
  | cons f rest ih =>
    cases rest with
    | nil => cases h : outcome f <;> simp [chain, h, Res.ofOutcome]
    | cons g rest =>
      by_cases h : (outcome f).isTruthy
      · simp only [chain, h, if_true]; exact ih
      · cases h' : outcome f <;> simp_all [chain, Res.ofOutcome, Outcome.isTruthy]

/-- **C03_eq_iff**: same class ⇒ `__eq__` is truthy iff every eq-participating field compares truthy. -/
theorem C03_eq_iff (c : Case) (h : sameClass c.rhs = true) :
    (eqMethod c).1.isTruthy = true ↔
      ∀ f ∈ c.fields, participates f = true → (outcome f).isTruthy = true := by
  simp only [eqMethod, h, if_true, chain_truthy_iff, List.all_eq_true, List.mem_filter]
  constructor
  · intro H f hf hp; exact H f ⟨hf, hp⟩
  · intro H f hf; exact H f hf.1 hf.2

/-- **C03_ne_negation**: `__ne__` is NotImplemented iff `__eq__` is, else the boolean negation. -/
theorem C03_ne_negation (c : Case) :
    neMethod c = (match (eqMethod c).1 with | .NI => .NI | r => Res.ofBool (!r.isTruthy)) := by
  rfl

/-- **C03_other_class_notimpl**: any operand of another class — sub- and superclasses included —
    makes both methods return NotImplemented, without comparing anything; `==` is then False. -/
theorem C03_other_class_notimpl (c : Case) (h : sameClass c.rhs = false) :
    (eqMethod c) = (.NI, []) ∧ neMethod c = .NI ∧ eqOp c = .F ∧ neOp c = .T := by
  have hid : (c.rhs == Rhs.identical) = false := by
    cases hr : c.rhs <;> simp_all [sameClass]
  simp [eqMethod, neMethod, eqOp, neOp, h, hid, Res.ofBool]

/-- **C03_nonparticipating_irrelevant**: two cases whose eq-participating fields coincide give
    the same results and the same comparisons, whatever the other fields hold. -/
theorem C03_nonparticipating_irrelevant (c d : Case) (hr : c.rhs = d.rhs)
    (hf : c.fields.filter participates = d.fields.filter participates) : model c = model d := by
  simp [model, eqMethod, neMethod, eqOp, neOp, hr, hf]

/-- operands evaluated by the chain: up to and including the first falsy one -/
def upToFirstFalsy : List Field → List String
  | [] => []
  | f :: rest => if (outcome f).isTruthy then tag f :: upToFirstFalsy rest else [tag f]

/-- **C03_short_circuit**: the comparisons performed are exactly the prefix up to the first falsy one. -/
theorem C03_short_circuit (fs : List Field) : (chain fs).2 = upToFirstFalsy fs := by
  induction fs with
  | nil => simp [chain, upToFirstFalsy]
  | cons f rest ih =>
    cases rest with
    | nil => by_cases h : (outcome f).isTruthy <;> simp [chain, upToFirstFalsy, h]
    | cons g rest =>
      by_cases h : (outcome f).isTruthy
      · simp only [chain, h, if_true]; rw [ih]; simp [upToFirstFalsy, h]
      · simp [chain, upToFirstFalsy, h]

@[simp] theorem outcome_sameObj (f : Field) (b : Bool) :
    outcome { f with sameObj := b } = outcome f := rfl
@[simp] theorem tag_sameObj (f : Field) (b : Bool) :
    tag { f with sameObj := b } = tag f := rfl
@[simp] theorem participates_sameObj (f : Field) (b : Bool) :
    participates { f with sameObj := b } = participates f := rfl

theorem chain_sameObj (b : Bool) (fs : List Field) :
    chain (fs.map (fun f => { f with sameObj := b })) = chain fs := by
  induction fs with
  | nil => rfl
  | cons f rest ih =>
    cases rest with
    | nil => simp [chain]
    | cons g rest =>
      simp only [List.map_cons] at ih ⊢
      simp only [chain, ih, outcome_sameObj, tag_sameObj]

theorem filter_sameObj (b : Bool) (fs : List Field) :
    (fs.map (fun f => { f with sameObj := b })).filter participates
      = (fs.filter participates).map (fun f => { f with sameObj := b }) := by
  induction fs with
  | nil => rfl
  | cons f rest ih =>
    simp only [List.map_cons, List.filter_cons, participates_sameObj]
    split <;> simp_all

/-- **C03_uses_eq_not_identity**: whether two field values are the same object never matters;
    in particular a value unequal to itself (NaN) makes `x == x` false. -/
theorem C03_uses_eq_not_identity (c : Case) (b : Bool) :
    model { c with fields := c.fields.map (fun f => { f with sameObj := b }) } = model c := by
  simp only [model, eqMethod, neMethod, eqOp, neOp, filter_sameObj, chain_sameObj]

theorem nan_witness :
    (model { fields := [{ name := "a", cmp := .unset, eq := .unset, raw := .F, keyed := .F,
                          sameObj := true }], rhs := .identical }).eqOp = .F := by decide

theorem upToFirstFalsy_mem (fs : List Field) :
    ∀ t ∈ upToFirstFalsy fs, ∃ f ∈ fs, tag f = t := by
  induction fs with
  | nil => simp [upToFirstFalsy]
  | cons f rest ih =>
    intro t ht
    simp only [upToFirstFalsy] at ht
    split at ht
    · rcases List.mem_cons.1 ht with h | h
      · exact ⟨f, List.mem_cons_self, h.symm⟩
      · obtain ⟨g, hg, hgt⟩ := ih t h
        exact ⟨g, List.mem_cons_of_mem _ hg, hgt⟩
    · simp at ht; exact ⟨f, List.mem_cons_self, ht.symm⟩

/-- **C03_model_meets_spec**: the model satisfies the declarative specification on every case
    (no well-formedness or known-deviation hypothesis is needed for this property). -/
theorem C03_model_meets_spec (c : Case) : spec c (model c) = true := by
  by_cases h : sameClass c.rhs = true
  · have hni := chain_ne_NI (c.fields.filter participates)
    have hne := chain_ne_exc (c.fields.filter participates)
    have ht := chain_truthy_iff (c.fields.filter participates)
    have hs := C03_short_circuit (c.fields.filter participates)
    have hmem := upToFirstFalsy_mem (c.fields.filter participates)
    generalize hr : chain (c.fields.filter participates) = r at hni hne ht hs
    have htr : (List.all r.2 fun t => (List.filter participates c.fields).any fun f => tag f == t) = true := by
      rw [hs, List.all_eq_true]
      intro t htm
      obtain ⟨f, hf, hft⟩ := hmem t htm
      exact List.any_eq_true.2 ⟨f, hf, by simp [hft]⟩
    rcases r with ⟨v, tr⟩
    simp only at hni hne ht htr
    simp only [spec, h, if_true, model, eqMethod, neMethod, eqOp, neOp, hr, allEqual, htr]
    rw [← ht]
    cases v <;> simp_all [Res.isTruthy, Res.ofBool]
  · have h' : sameClass c.rhs = false := by simpa using h
    obtain ⟨h1, h2, h3, h4⟩ := C03_other_class_notimpl c h'
    simp [spec, h', model, h1, h2, h3, h4]

end Attrs.C03
