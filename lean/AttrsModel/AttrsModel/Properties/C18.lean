/-
  C18 — property theorems.  Everything is about arbitrary validator expressions (any nesting depth, any
  list lengths), arbitrary values and an arbitrary oracle for the primitive tests; proofs are structural
  inductions over the expression (helper lemmas in Proofs/C18*.lean).
-/
import AttrsModel.Proofs.C18Spec
import AttrsModel.Proofs.C18Order

namespace Attrs.C18

/-! ### accepts exactly the documented predicate, raises the documented class otherwise -/

/-- **C18_compositional**: for every expression `v`, value `x` and oracle `o`, the model of
    `v(inst, attr, x)` returns iff the declarative predicate tree `sat` holds, and otherwise raises exactly
    the declared exception class `excOf` (the primitive's own exception, else the validator's documented
    class; the first failure of a conjunction; ValueError or the first non-`Exception` for a disjunction;
    ValueError or the uncaptured exception for `not_`; container validator, then members in order, then the
    end of iteration for `deep_*`). -/
theorem C18_compositional (o : Oracle) (v : V) (x : Nat) :
    ((eval o v x).1 = none ↔ sat o v x = true) ∧
    (sat o v x = false → (eval o v x).1 = some (excOf o v x)) := by
  rw [eval_out]
  cases sat o v x <;> simp [decl]

/-- the same for the object actually built (conjunctions / disjunctions spliced by `and_`, `or_`,
    `deep_iterable([...])`, sequence wrapped by `optional([...])`) -/
theorem C18_compositional_built (o : Oracle) (v : V) (x : Nat) :
    (eval o (norm v) x).1 = (if sat o v x then none else some (excOf o v x)) := by
  rw [norm_sound, eval_out]; rfl

/-- the predicate tree does not see the splicing done at construction -/
theorem C18_sat_norm (o : Oracle) (v : V) (x : Nat) : sat o (norm v) x = sat o v x := by
  have h1 := eval_out o (norm v) x
  have h2 := eval_out o v x
  rw [norm_sound] at h1
  rw [h1] at h2
  cases ha : sat o (norm v) x <;> cases hb : sat o v x <;> simp [ha, hb, decl] at h2 <;> rfl

/-! ### documented exception classes of the leaves -/

/-- **C18_documented_exception**: when the primitive test answers False (rather than raising), each
    shipped leaf validator raises its documented class -/
theorem C18_documented_exception (o : Oracle) (x : Nat) :
    (∀ t, o.isinst t x = .f → (eval o (.instOf t) x).1 = some .typeError) ∧
    (∀ p, o.member p x = .f → (eval o (.in_ p) x).1 = some .valueError) ∧
    (∀ op b, o.cmp op b x = .f → (eval o (.num op b) x).1 = some .valueError) ∧
    (∀ r fl fn, o.rematch r fl (effFunc fn) x = .f → (eval o (.matchesRe r fl fn) x).1 = some .valueError) ∧
    (o.callable x = false → (eval o .isCallable x).1 = some .notCallable) ∧
    (∀ n m, o.len x = .ok n → ((n : Int) > m → (eval o (.maxLen (.int m)) x).1 = some .valueError) ∧
      ((n : Int) < m → (eval o (.minLen (.int m)) x).1 = some .valueError)) := by
  refine ⟨?_, ?_, ?_, ?_, ?_, ?_⟩
  · intro t h; simp [eval, h, ofPrim, raise]
  · intro p h; simp [eval, h, inR, raise]
  · intro op b h; simp [eval, h, ofPrim, raise]
  · intro r fl fn h; simp [eval, h, ofPrim, raise]
  · intro h; simp [eval, h, raise]
  · intro n m h
    constructor
    · intro hl
      have : ¬ (n : Int) ≤ m := by omega
      simp [eval, lenVal, h, lenTest, this, PrimRes.ofBool, ofPrim, raise]
    · intro hl
      have : ¬ m ≤ (n : Int) := by omega
      simp [eval, lenVal, h, lenTest, this, PrimRes.ofBool, ofPrim, raise]

/-- … and an exception raised by the primitive itself propagates unchanged (except the TypeError of a
    membership test, `C18_in_typeerror_absent`) -/
theorem C18_primitive_exception_propagates (o : Oracle) (x : Nat) (k : ExcKind) :
    (∀ t, o.isinst t x = .exc k → (eval o (.instOf t) x).1 = some k) ∧
    (∀ op b, o.cmp op b x = .exc k → (eval o (.num op b) x).1 = some k) ∧
    (∀ r fl fn, o.rematch r fl (effFunc fn) x = .exc k → (eval o (.matchesRe r fl fn) x).1 = some k) ∧
    (∀ b, o.len x = .exc k → (eval o (.maxLen b) x).1 = some k ∧ (eval o (.minLen b) x).1 = some k) := by
  refine ⟨?_, ?_, ?_, ?_⟩
  · intro t h; simp [eval, h, ofPrim, raise]
  · intro op b h; simp [eval, h, ofPrim, raise]
  · intro r fl fn h; simp [eval, h, ofPrim, raise]
  · intro b h; simp [eval, lenVal, h, raise]

/-! ### the predicate tree, constructor by constructor (the clauses of the statement) -/

/-- instance_of iff isinstance -/
theorem C18_sat_instance_of (o : Oracle) (t x : Nat) : sat o (.instOf t) x = true ↔ o.isinst t x = .t := by
  simp [sat]

/-- in_ iff membership -/
theorem C18_sat_in (o : Oracle) (p x : Nat) : sat o (.in_ p) x = true ↔ o.member p x = .t := by
  simp [sat]

/-- a TypeError (or subclass) from the membership test counts as absent: ValueError, like a plain miss;
    any other exception of the test propagates -/
theorem C18_in_typeerror_absent (o : Oracle) (p x : Nat) (k : ExcKind) (h : o.member p x = .exc k) :
    (eval o (.in_ p) x).1 = some (if isSub k .typeError then .valueError else k) := by
  simp only [eval, inR, h]
  split <;> simp [raise]

/-- lt/le/ge/gt iff the operator against the bound -/
theorem C18_sat_num (o : Oracle) (op : Op) (b x : Nat) : sat o (.num op b) x = true ↔ o.cmp op b x = .t := by
  simp [sat]

/-- max_len / min_len with an int bound iff `len(x) ≤ n` / `len(x) ≥ n` -/
theorem C18_sat_len_bound (o : Oracle) (n : Int) (x : Nat) :
    (sat o (.maxLen (.int n)) x = true ↔ ∃ l, o.len x = .ok l ∧ (l : Int) ≤ n) ∧
    (sat o (.minLen (.int n)) x = true ↔ ∃ l, o.len x = .ok l ∧ n ≤ (l : Int)) := by
  constructor
  · simp only [sat, lenSat]
    cases h : o.len x with
    | exc k => simp
    | ok l =>
      by_cases hl : (l : Int) > n
      · have : ¬ (l : Int) ≤ n := by omega
        simp [lenOk, hl, this]
      · have : (l : Int) ≤ n := by omega
        simp [lenOk, hl, this]
  · simp only [sat, lenSat]
    cases h : o.len x with
    | exc k => simp
    | ok l =>
      by_cases hl : (l : Int) < n
      · have : ¬ n ≤ (l : Int) := by omega
        simp [lenOk, hl, this]
      · have : n ≤ (l : Int) := by omega
        simp [lenOk, hl, this]

/-- matches_re iff the chosen re function matches (`None` means fullmatch) -/
theorem C18_sat_matches_re (o : Oracle) (r fl x : Nat) :
    (sat o (.matchesRe r fl .dflt) x = true ↔ o.rematch r fl 0 x = .t) ∧
    (sat o (.matchesRe r fl (.named "fullmatch")) x = true ↔ o.rematch r fl 0 x = .t) ∧
    (sat o (.matchesRe r fl (.named "search")) x = true ↔ o.rematch r fl 1 x = .t) ∧
    (sat o (.matchesRe r fl (.named "match")) x = true ↔ o.rematch r fl 2 x = .t) := by
  simp [sat, docFunc]

/-- is_callable iff callable -/
theorem C18_sat_is_callable (o : Oracle) (x : Nat) : sat o .isCallable x = o.callable x := by
  simp [sat]

/-- optional(v) iff None or v; optional([v1, ..]) iff None or all of them -/
theorem C18_sat_optional (o : Oracle) (v : V) (t : Bool) (vs : List V) (x : Nat) :
    sat o (.optional v) x = (o.isNone x || sat o v x) ∧
    sat o (.optionalSeq t vs) x = (o.isNone x || vs.all (fun v => sat o v x)) := by
  have h : ∀ vs : List V, satAll o vs x = vs.all (fun v => sat o v x) := by
    intro vs; induction vs with
    | nil => simp [satAll]
    | cons v vs ih => simp [satAll, ih]
  simp [sat, h]

/-- and_ iff all -/
theorem C18_sat_and (o : Oracle) (vs : List V) (x : Nat) :
    sat o (.and_ vs) x = vs.all (fun v => sat o v x) := by
  simp only [sat]
  induction vs with
  | nil => simp [satAll]
  | cons v vs ih => simp [satAll, ih]

/-- or_ iff any — precisely: some element accepts and every earlier one failed with an `Exception`
    (anything else, e.g. a KeyboardInterrupt-like BaseException, passes through) -/
theorem C18_sat_or (o : Oracle) (vs : List V) (x : Nat) :
    sat o (.or_ vs) x = true ↔
      ∃ pre v post, vs = pre ++ v :: post ∧
        (∀ u ∈ pre, sat o u x = false ∧ isSub (excOf o u x) .exception = true) ∧ sat o v x = true := by
  simp only [sat]
  induction vs with
  | nil => simp [satAny]
  | cons u vs ih =>
    simp only [satAny, Bool.or_eq_true, Bool.and_eq_true]
    constructor
    · rintro (h | ⟨hs, h⟩)
      · exact ⟨[], u, vs, by simp, by simp, h⟩
      · by_cases hu : sat o u x = true
        · exact ⟨[], u, vs, by simp, by simp, hu⟩
        · obtain ⟨pre, v, post, rfl, hp, hv⟩ := ih.1 h
          refine ⟨u :: pre, v, post, by simp, ?_, hv⟩
          intro w hw
          rcases List.mem_cons.1 hw with rfl | hw
          · exact ⟨by simpa using hu, hs⟩
          · exact hp w hw
    · rintro ⟨pre, v, post, heq, hp, hv⟩
      cases pre with
      | nil =>
        simp only [List.nil_append, List.cons.injEq] at heq
        left; rw [heq.1]; exact hv
      | cons w pre =>
        simp only [List.cons_append, List.cons.injEq] at heq
        right
        obtain ⟨rfl, rfl⟩ := heq
        exact ⟨(hp u (by simp)).2, ih.2 ⟨pre, v, post, rfl, fun z hz => hp z (by simp [hz]), hv⟩⟩

/-- with well-behaved members (every failure an `Exception`) or_ is plainly "any" -/
theorem C18_sat_or_any (o : Oracle) (vs : List V) (x : Nat)
    (h : ∀ u ∈ vs, isSub (excOf o u x) .exception = true) :
    sat o (.or_ vs) x = vs.any (fun v => sat o v x) := by
  simp only [sat]
  induction vs with
  | nil => simp [satAny]
  | cons u vs ih =>
    simp [satAny, h u (by simp), ih (fun w hw => h w (by simp [hw]))]

/-- not_ iff the wrapped validator raises one of the listed exception types; others propagate, and a
    wrapped validator that returns makes it a ValueError -/
theorem C18_sat_not (o : Oracle) (v : V) (m : Nat) (e : ExcArg) (x : Nat) :
    (sat o (.not_ v m e) x = true ↔
      sat o v x = false ∧ ∃ c ∈ e.classes, isSub (excOf o v x) c = true) ∧
    (sat o v x = true → (eval o (.not_ v m e) x).1 = some .valueError) ∧
    (sat o v x = false → captures e (excOf o v x) = false →
      (eval o (.not_ v m e) x).1 = some (excOf o v x)) := by
  refine ⟨by simp [sat, captures], ?_, ?_⟩
  · intro h; simp [eval, notR, eval_out, h, decl]
  · intro h hc; simp [eval, notR, eval_out, h, hc, decl]

theorem isNoneV_iff (v : V) : v.isNoneV = true ↔ v = .noneV := by
  cases v <;> simp [V.isNoneV]

/-- deep_iterable iff the iterable validator (if any), the iteration itself, and every member validator
    accept -/
theorem C18_sat_deep_iterable (o : Oracle) (m it : V) (x : Nat) :
    sat o (.deepIter m it) x = true ↔
      (it = .noneV ∨ sat o it x = true) ∧ (o.iter x).stop = none ∧
      ∀ i ∈ (o.iter x).items, sat o m i.key = true := by
  simp [sat, isNoneV_iff, and_assoc]

/-- deep_mapping iff the mapping validator (if any), the iteration, every key validator, every
    `value[key]` lookup and every value validator accept -/
theorem C18_sat_deep_mapping (o : Oracle) (k v m : V) (x : Nat) :
    sat o (.deepMap k v m) x = true ↔
      (m = .noneV ∨ sat o m x = true) ∧ (o.iter x).stop = none ∧
      ∀ i ∈ (o.iter x).items, sat o k i.key = true ∧ ∃ y, i.get = .ok y ∧ sat o v y = true := by
  simp only [sat, Bool.and_eq_true, Bool.or_eq_true, isNoneV_iff, List.all_eq_true, Option.isNone_iff_eq_none,
    and_assoc]
  constructor
  · rintro ⟨h1, h2, h3⟩
    refine ⟨h1, h2, fun i hi => ?_⟩
    obtain ⟨a, b⟩ := h3 i hi
    refine ⟨a, ?_⟩
    cases hg : i.get <;> simp_all
  · rintro ⟨h1, h2, h3⟩
    refine ⟨h1, h2, fun i hi => ?_⟩
    obtain ⟨a, y, hy, b⟩ := h3 i hi
    exact ⟨a, by simp [hy, b]⟩

/-! ### order of evaluation -/

/-- **C18_and_order_first_failure**: in a conjunction of any length whose first failing element is `v`
    (everything before it accepts), exactly the elements up to and including `v` are run, in order, and
    `v`'s exception propagates -/
theorem C18_and_order_first_failure (o : Oracle) (pre : List V) (v : V) (post : List V) (x : Nat) (k : ExcKind)
    (hpre : ∀ u ∈ pre, (eval o u x).1 = none) (hv : (eval o v x).1 = some k) :
    eval o (.and_ (pre ++ v :: post)) x =
      (some k, pre.flatMap (fun u => (eval o u x).2) ++ (eval o v x).2) := by
  simp only [eval]
  exact and_first_failure o pre v post x k hpre hv

/-- … and when every element accepts, all are run in order -/
theorem C18_and_all_accept (o : Oracle) (vs : List V) (x : Nat) (h : ∀ u ∈ vs, (eval o u x).1 = none) :
    eval o (.and_ vs) x = (none, vs.flatMap (fun u => (eval o u x).2)) := by
  simp only [eval]
  exact and_all_accept o vs x h

/-- one of the two always applies -/
theorem C18_and_cases (o : Oracle) (vs : List V) (x : Nat) :
    (∀ u ∈ vs, (eval o u x).1 = none) ∨
    ∃ pre v post k, vs = pre ++ v :: post ∧ (∀ u ∈ pre, (eval o u x).1 = none) ∧ (eval o v x).1 = some k :=
  and_split o vs x

/-- **C18_or_order**: a disjunction of any length runs its elements in order and stops at the first that
    accepts, or at the first that raises something that is not an `Exception` (which propagates); if all
    fail with `Exception`s every one was run and ValueError is raised -/
theorem C18_or_order (o : Oracle) (pre : List V) (v : V) (post : List V) (x : Nat)
    (hpre : ∀ u ∈ pre, ∃ k, (eval o u x).1 = some k ∧ isSub k .exception = true) :
    ((eval o v x).1 = none →
      eval o (.or_ (pre ++ v :: post)) x = (none, pre.flatMap (fun u => (eval o u x).2) ++ (eval o v x).2)) ∧
    (∀ k, (eval o v x).1 = some k → isSub k .exception = false →
      eval o (.or_ (pre ++ v :: post)) x = (some k, pre.flatMap (fun u => (eval o u x).2) ++ (eval o v x).2)) ∧
    eval o (.or_ pre) x = (some .valueError, pre.flatMap (fun u => (eval o u x).2)) := by
  simp only [eval]
  exact ⟨or_first_accept o pre v post x hpre, fun k hv hk => or_first_base o pre v post x k hpre hv hk,
    or_all_fail o pre x hpre⟩

/-- **C18_deep_iterable_order**: the iterable validator runs first and its failure ends the call; then the
    members are validated in iteration order up to the first failing one; an exception that ends the
    iteration surfaces only after the members yielded before it have been validated -/
theorem C18_deep_iterable_order (o : Oracle) (m it : V) (x : Nat) :
    (∀ k, it.isNoneV = false → (eval o it x).1 = some k →
      eval o (.deepIter m it) x = (some k, (eval o it x).2)) ∧
    (∀ pre i post k, (it.isNoneV = true ∨ (eval o it x).1 = none) → (o.iter x).items = pre ++ i :: post →
      (∀ j ∈ pre, (eval o m j.key).1 = none) → (eval o m i.key).1 = some k →
      eval o (.deepIter m it) x =
        (some k, (if it.isNoneV then [] else (eval o it x).2) ++
          (pre.flatMap (fun j => (eval o m j.key).2) ++ (eval o m i.key).2))) ∧
    (∀ k, (o.iter x).stop = some k → (∀ j ∈ (o.iter x).items, (eval o m j.key).1 = none) →
      eval o (.deepIter m .noneV) x = (some k, (o.iter x).items.flatMap (fun j => (eval o m j.key).2))) :=
  ⟨fun k h1 h2 => deepIter_container_first o m it x k h1 h2,
   fun pre i post k h1 h2 h3 h4 => deepIter_member_order o m it x pre i post k h1 h2 h3 h4,
   fun k h1 h2 => deepIter_stop_last o m x k h1 h2⟩

/-- **C18_deep_mapping_item_order**: per key — the key validator, then the lookup `value[key]` (its
    exception propagates), then the value validator on what the lookup returned -/
theorem C18_deep_mapping_item_order (o : Oracle) (kv vv : V) (i : Item) :
    (andThen (eval o kv i.key) (getR i.get (fun y => eval o vv y))) =
      (match (eval o kv i.key).1 with
       | some k => (some k, (eval o kv i.key).2)
       | none => (match i.get with
          | .ok y => ((eval o vv y).1, (eval o kv i.key).2 ++ (eval o vv y).2)
          | .exc k => (some k, (eval o kv i.key).2)
          | .na => (some .other, (eval o kv i.key).2))) :=
  deepMap_item_order o kv vv i

/-! ### flattening -/

/-- **C18_and_flatten**: `and_(a.., and_(b..), c..)` ≡ `and_(a.., b.., c..)` — same outcome and same calls
    (semantically), the very same built object (structurally), and the built conjunction has no
    conjunction among its elements -/
theorem C18_and_flatten (o : Oracle) (pre mid post : List V) (x : Nat) :
    eval o (.and_ (pre ++ .and_ mid :: post)) x = eval o (.and_ (pre ++ mid ++ post)) x ∧
    norm (.and_ (pre ++ .and_ mid :: post)) = norm (.and_ (pre ++ mid ++ post)) ∧
    (sourceL (pre ++ .and_ mid :: post) = true →
      ∀ w ∈ andItems (norm (.and_ (pre ++ .and_ mid :: post))), isAndRaw w = false) := by
  refine ⟨and_flatten_sem o pre mid post x, and_flatten_struct pre mid post, fun h => ?_⟩
  exact andItems_norm_flat _ (by simpa [source] using h)

/-- **C18_or_flatten**: the same for `or_` -/
theorem C18_or_flatten (o : Oracle) (pre mid post : List V) (x : Nat) :
    eval o (.or_ (pre ++ .or_ mid :: post)) x = eval o (.or_ (pre ++ mid ++ post)) x ∧
    norm (.or_ (pre ++ .or_ mid :: post)) = norm (.or_ (pre ++ mid ++ post)) ∧
    (∀ w ∈ orItems (norm (.or_ (pre ++ .or_ mid :: post))), isOr w = false) :=
  ⟨or_flatten_sem o pre mid post x, or_flatten_struct pre mid post, orItems_norm_flat _⟩

/-- **C18_norm_sound**: the object the constructors build (every splice, at every depth) behaves exactly
    like the expression as written: same outcome, same calls in the same order -/
theorem C18_norm_sound (o : Oracle) (v : V) (x : Nat) : eval o (norm v) x = eval o v x :=
  norm_sound o v x

/-! ### not_ twice -/

/-- **C18_not_involution**: with the same `exc_types` containing (a base of) ValueError,
    `not_(not_(v))` accepts exactly what `v` accepts; a captured failure of `v` becomes ValueError,
    an uncaptured one propagates through both -/
theorem C18_not_involution (o : Oracle) (v : V) (m m' : Nat) (e : ExcArg) (x : Nat)
    (hve : captures e .valueError = true) :
    (sat o (.not_ (.not_ v m e) m' e) x = sat o v x) ∧
    (eval o (.not_ (.not_ v m e) m' e) x).1 =
      (match (eval o v x).1 with
       | none => none
       | some k => if captures e k then some .valueError else some k) := by
  refine ⟨?_, not_involution o v m m' e x hve⟩
  simp only [sat, excOf]
  cases hs : sat o v x
  · by_cases hc : captures e (excOf o v x) = true <;> simp [hc]
  · simp [hve]

/-- without that proviso it is false: `exc_types=(KeyError,)` -/
example : ∃ (o : Oracle) (v : V) (e : ExcArg) (x : Nat),
    sat o (.not_ (.not_ v 0 e) 0 e) x ≠ sat o v x :=
  ⟨{ isNone := fun _ => false, callable := fun _ => true, len := fun _ => .ok 0,
     iter := fun _ => ⟨[], none⟩, isinst := fun _ _ => .t, member := fun _ _ => .t,
     cmp := fun _ _ _ => .t, rematch := fun _ _ _ _ => .t, lenCmp := fun _ _ _ => .t,
     probe := fun _ _ => .t },
   .isCallable, .single .keyError, 0, by decide⟩

/-! ### returns None, never alters the value -/

/-- **C18_returns_none_value_unchanged**: a shipped validator returns `None` whenever it returns (only a
    bare user validator can return something else), the model never reports a changed value, and the value
    is handed down unaltered: every call of a user validator anywhere below receives something reached from
    the root value by iteration / `value[key]`, and in an expression without `deep_*` the root value itself -/
theorem C18_returns_none_value_unchanged (c : Case) (o : Oracle) (v : V) (x : Nat) :
    (isProbe c.tree = false → (model c).retNone = true) ∧ (model c).unchanged = true ∧
    (∀ e ∈ (eval o v x).2, Reach o x e.2) ∧
    (shallow v = true → ∀ e ∈ (eval o v x).2, e.2 = x) := by
  refine ⟨?_, ?_, trace_reach o v x, trace_shallow o v x⟩
  · intro hp
    have : ∀ out, retNoneOf c.tree out = true := by
      intro out; cases hc : c.tree <;> simp_all [retNoneOf, isProbe]
    unfold model
    split
    · rfl
    · split <;> simp [this]
  · unfold model
    split
    · rfl
    · split <;> rfl

/-! ### histories -/

/-- **C18_history_stateless**: in a history of calls — of one validator object, or of validators built from
    the same expression — every call is judged on its own: its outcome is the declarative predicate on the
    value of that call with the primitives as they are at that time, whatever was validated before.  (The
    same value id twice gives the same outcome; a world change between two calls — an ABC registration, an
    attribute deleted — is a different id with its own oracle rows, and only those rows count.) -/
theorem C18_history_stateless (c : Case) (hb : buildErr c.buildOracle c.tree = none) :
    (model c).more.map (·.outcome) =
      c.more.map (fun x => if sat c.oracle c.tree x then none else some (excOf c.oracle c.tree x)) ∧
    (model c).outcome = (if sat c.oracle c.tree 0 then none else some (excOf c.oracle c.tree 0)) := by
  have hout : ∀ x, (eval c.oracle (norm c.tree) x).1 =
      (if sat c.oracle c.tree x then none else some (excOf c.oracle c.tree x)) := by
    intro x; rw [norm_sound, eval_out]; rfl
  unfold model
  simp only [hb]
  split <;> simp [stepOf, hout, List.map_map, Function.comp_def]

/-- histories compose: the calls of a concatenated history are those of its parts -/
theorem C18_history_append (c : Case) (xs ys : List Nat) (hb : buildErr c.buildOracle c.tree = none) :
    (model { c with more := xs ++ ys }).more =
      (model { c with more := xs }).more ++ (model { c with more := ys }).more := by
  have hb' : ∀ zs, buildErr (Case.buildOracle { c with more := zs }) c.tree = none := fun _ => hb
  have hs : ∀ zs x, stepOf { c with more := zs } x = stepOf c x := fun _ _ => rfl
  have hm : ∀ zs, (model { c with more := zs }).more = zs.map (stepOf c) := by
    intro zs
    unfold model
    simp only [hb' zs]
    split <;> simp [hs]
  simp [hm]

/-! ### equality and hash -/

/-- **C18_equal_params_equal**: two source expressions that are the same constructor calls with pairwise
    `==` parameters build validators that are `==`, and — when all parameters are hashable — hashable with
    equal hashes; except K9 (corresponding `in_` whose equal set/dict options are stored as different
    tuples).  `coherent` states what is assumed of the parameter objects (Python's hash contract; `==`
    regexes with the same flags compile to `==` patterns).  Since the repair of K18a `matches_re` needs no
    exception: `match_func` is compared and hashed by the method's name, so it no longer matters whether
    the two constructions got the same compiled pattern object from re's cache. -/
theorem C18_equal_params_equal (eo : EqOracle) (v w : V) (hv : source v = true) (hw : source w = true)
    (hcoh : coherent eo v w = true) (hsame : sameUpTo eo v w = true) (hK9 : k9 eo v w = false) :
    veq eo (norm v) (norm w) = .t ∧
    (paramsHashable eo v = true → paramsHashable eo w = true →
      vhash eo (norm v) = none ∧ vhash eo (norm w) = none ∧ vhashEq eo (norm v) (norm w) = true) :=
  ⟨veq_norm eo v w hv hw hsame hK9 hcoh, fun p1 p2 => vhash_norm eo v w hv hw hsame hK9 hcoh p1 p2⟩

/-- **C18_purge_irrelevant**: whether re's compile cache is purged between the two constructions (equal
    regexes then compile to distinct pattern objects) changes nothing the model outputs or the spec
    demands — the former K18a -/
theorem C18_purge_irrelevant (c : Case) (b : Bool) (o : Obs) :
    model { c with purge := b } = model c ∧ spec { c with purge := b } o = spec c o ∧
    known { c with purge := b } = known c :=
  have hs : ∀ xs ss, stepsOk { c with purge := b } xs ss = stepsOk c xs ss := by
    intro xs
    induction xs with
    | nil => intro ss; cases ss <;> rfl
    | cons x xs ih =>
      intro ss
      cases ss with
      | nil => rfl
      | cons s ss =>
        simp only [stepsOk, ih]
        rfl
  ⟨rfl, by unfold spec; rw [hs]; rfl, rfl⟩

/-! ### constructor arguments -/

/-- **C18_re_funcs_documented**: the `valid_funcs` tuple extracted from the source (T1) is the documented
    set {None, re.fullmatch, re.search, re.match} -/
theorem C18_re_funcs_documented (fn : ReFuncArg) : funcValid fn = docFuncValid fn :=
  funcValid_documented fn

/-- **C18_constructor_domain**: a constructor expression raises nothing iff every call in it is within the
    documented argument domain -/
theorem C18_constructor_domain (bo : BuildOracle) (v : V) : buildErr bo v = none ↔ validArgs bo v = true :=
  buildErr_none bo v

/-! ### model meets spec; known deviations -/

/-- **C18_model_meets_spec** -/
theorem C18_model_meets_spec (c : Case) (hwf : wf c = true) (hk : known c = []) : spec c (model c) = true :=
  model_meets_spec c hwf hk

def k9Witness : Case :=
  { tree := .in_ 0, tree2 := .in_ 1, purge := false, more := [],
    vals := [{ id := 0, fp := "int:1", isNone := false, callable := false, len := .exc .typeError, iter := none }],
    prim := [⟨[1, 0, 0], .f⟩, ⟨[13, 1, 0], .exc .typeError⟩, ⟨[13, 1, 1], .exc .typeError⟩,
             ⟨[10, 1, 0, 1], .t⟩, ⟨[14, 1, 0, 1], .f⟩, ⟨[13, 2, 0], .t⟩, ⟨[13, 2, 1], .t⟩,
             ⟨[10, 2, 0, 1], .f⟩, ⟨[14, 2, 0, 1], .f⟩] }

/-- K9: `in_({8, 0})` vs `in_({0, 8})` — equal sets, stored as `(8, 0)` and `(0, 8)` -/
theorem C18_K9_witness : ∃ c, wf c = true ∧ "K9" ∈ known c ∧ spec c (model c) = false :=
  ⟨k9Witness, by decide⟩

def k18aWitness : Case :=
  { tree := .matchesRe 0 0 .dflt, tree2 := .matchesRe 0 0 .dflt, purge := true, more := [],
    vals := [{ id := 0, fp := "str:aa", isNone := false, callable := false, len := .ok 2, iter := none }],
    prim := [⟨[3, 0, 0, 0, 0], .t⟩, ⟨[3, 0, 0, 1, 0], .t⟩, ⟨[3, 0, 0, 2, 0], .t⟩, ⟨[6, 0], .f⟩, ⟨[7, 0, 0], .t⟩,
             ⟨[13, 5, 0], .t⟩, ⟨[10, 5, 0, 0], .t⟩, ⟨[14, 5, 0, 0], .t⟩, ⟨[11, 0, 0, 0, 0], .t⟩,
             ⟨[15, 0, 0, 0, 0], .t⟩] }

/-- the former K18a witness — `matches_re("a+")` built before and after `re.purge()` — is an ordinary
    case now: no known deviation, and the model satisfies the spec on it (regression case in the corpus) -/
theorem C18_K18a_repaired : wf k18aWitness = true ∧ known k18aWitness = [] ∧
    (model k18aWitness).eq = .t ∧ (model k18aWitness).hashAgree = true ∧
    spec k18aWitness (model k18aWitness) = true := by decide

/-! ### non-vacuity -/

/-- the hypotheses of `C18_equal_params_equal` are satisfiable by a case with nested conjunctions -/
example : ∃ (eo : EqOracle) (v w : V), source v = true ∧ source w = true ∧ coherent eo v w = true ∧
    sameUpTo eo v w = true ∧ k9 eo v w = false ∧
    paramsHashable eo v = true :=
  ⟨{ peq := fun _ _ _ => .t, patEq := fun _ _ _ _ => .t, patHashEq := fun _ _ _ _ => true,
     phash := fun _ _ => .t, phashEq := fun _ _ _ => true },
   .and_ [.in_ 0, .and_ [.matchesRe 0 0 .dflt, .optionalSeq true [.isCallable]]],
   .and_ [.in_ 1, .and_ [.matchesRe 0 0 .dflt, .optionalSeq true [.isCallable]]], by decide⟩

/-- a first failure in the middle of a conjunction: hypotheses of `C18_and_order_first_failure` hold -/
example : ∃ (o : Oracle) (pre : List V) (v : V) (x : Nat) (k : ExcKind),
    pre ≠ [] ∧ (∀ u ∈ pre, (eval o u x).1 = none) ∧ (eval o v x).1 = some k :=
  ⟨{ isNone := fun _ => false, callable := fun _ => false, len := fun _ => .ok 0,
     iter := fun _ => ⟨[], none⟩, isinst := fun _ _ => .t, member := fun _ _ => .t,
     cmp := fun _ _ _ => .t, rematch := fun _ _ _ _ => .t, lenCmp := fun _ _ _ => .t,
     probe := fun _ _ => .t },
   [.instOf 0, .probe 1 false], .isCallable, 0, .notCallable, by decide⟩

/-- a well-formed case without known deviation exists (hypotheses of `C18_model_meets_spec`) -/
example : ∃ c, wf c = true ∧ known c = [] := ⟨{ k9Witness with tree2 := .in_ 0 }, by decide⟩

end Attrs.C18
