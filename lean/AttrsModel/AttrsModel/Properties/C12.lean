/-
  C12 — property theorems: `evolve` is the class's initializer applied to (changes ∪ current values of the
  other init fields), `assoc` an independent copy with the named fields replaced; unknown names are
  rejected; the original is untouched; the result satisfies the class invariants.  Helper lemmas are in
  Proofs/C12.lean; the initializer theorems used are `C01_values` and `C01_bind_iff`.
-/
import AttrsModel.Proofs.C12

namespace Attrs.C12
open Attrs.Init

/-- **C12_original_untouched**: neither operation changes the original's field values. -/
theorem C12_original_untouched (c : Case) : (model c).orig = c.cur := by
  unfold model
  cases c.op <;> simp <;> split <;> try rfl
  split <;> rfl

/-- **C12_evolve_is_init**: whenever every init field can be read, `evolve` raises exactly what the class's
    initializer raises on the call `changes ∪ {alias ↦ current value}`, and otherwise returns a fresh
    instance holding exactly the values that call constructs — so every theorem about construction
    (C01/C02) applies to evolve's result. -/
theorem C12_evolve_is_init (c : Case) (hop : c.op = .evolve)
    (hm : evolveMissing c.base.run.attrs c.cur c.changes = false) :
    (model c).exc = (runInit (evolveCase c)).exc ∧
    ((runInit (evolveCase c)).exc = none →
      (model c).values = (runInit (evolveCase c)).values ∧ (model c).fresh = true) := by
  unfold model
  rw [hop]
  simp only [hm, Bool.false_eq_true, if_false]
  cases h : (runInit (evolveCase c)).exc <;> simp

/-- **C12_evolve_values**: evolving a fully constructed instance with changes that all name init aliases
    succeeds and yields a fresh instance in which every changed field holds converter(new value), every
    other init field converter(current value), and every `init=False` field is re-derived from its default
    or factory (unset without one). -/
theorem C12_evolve_values (c : Case) (hwf : wf c = true) (hk : known c = []) (hop : c.op = .evolve)
    (hall : c.changes.all (fun kv => (c.base.run.attrs.filter (·.init)).any (·.alias == kv.1)) = true) :
    (model c).exc = none ∧ (model c).fresh = true ∧
    (model c).values = c.base.run.attrs.map (fun a => (a.name,
      if a.init then (passedFor c a).map (convApply a)
      else match a.dflt with
        | .none => none
        | .value => some (convApply a (dfltVal a))
        | .factory ts => some (convApply a (factoryVal a ts)))) := by
  have p := wfParts c hwf
  have hok : callOk (params (evolveCase c).run.attrs) (evolveCase c).call = true := by
    rw [← hall]; exact callOk_evolve c p
  obtain ⟨e, v⟩ := C01.C01_values (evolveCase c) (wf_evolveCase c p) (known_nil c hk).1 hok
  obtain ⟨h1, h2⟩ := C12_evolve_is_init c hop (evolveMissing_false c p)
  obtain ⟨h3, h4⟩ := h2 e
  refine ⟨by rw [h1, e], h4, ?_⟩
  rw [h3, v]
  apply List.map_congr_left
  intro a ha
  rw [show (evolveCase c).call = evolveCall c.base.run.attrs c.cur c.changes from rfl]
  exact congrArg (Prod.mk a.name) (expected_evolve c p a ha)

/-- **C12_unknown_typeerror**: a change whose name is not the alias of an init field makes `evolve` raise
    TypeError (and, by `C12_evolve_values`, nothing else does). -/
theorem C12_unknown_typeerror (c : Case) (hwf : wf c = true) (hk : known c = []) (hop : c.op = .evolve)
    (hbad : c.changes.all (fun kv => (c.base.run.attrs.filter (·.init)).any (·.alias == kv.1)) = false) :
    (model c).exc = some .typeError := by
  have p := wfParts c hwf
  have hok : callOk (params (evolveCase c).run.attrs) (evolveCase c).call = false := by
    rw [← hbad]; exact callOk_evolve c p
  have := (C01.C01_bind_iff (evolveCase c) (wf_evolveCase c p) (known_nil c hk).1).2 hok
  rw [(C12_evolve_is_init c hop (evolveMissing_false c p)).1, this]

/-- **C12_typeerror_iff**: for a fully constructed original, `evolve` raises TypeError exactly when some change
    does not name the alias of an init field (in particular: a private field's name instead of its alias,
    or an `init=False` field). -/
theorem C12_typeerror_iff (c : Case) (hwf : wf c = true) (hk : known c = []) (hop : c.op = .evolve) :
    (model c).exc = some .typeError ↔
      c.changes.all (fun kv => (c.base.run.attrs.filter (·.init)).any (·.alias == kv.1)) = false := by
  constructor
  · intro h
    cases hall : c.changes.all (fun kv => (c.base.run.attrs.filter (·.init)).any (·.alias == kv.1)) with
    | false => rfl
    | true =>
      have := (C12_evolve_values c hwf hk hop hall).1
      rw [this] at h
      cases h
  · exact C12_unknown_typeerror c hwf hk hop

/-- **C12_assoc_spec**: `assoc` with field names only returns a fresh object whose fields are the original's
    with exactly the named ones replaced (raw: no converter, no validator). -/
theorem C12_assoc_spec (c : Case) (hwf : wf c = true) (hop : c.op = .assoc)
    (hall : c.changes.all (fun kv => c.base.run.attrs.any (·.name == kv.1)) = true) :
    (model c).exc = none ∧ (model c).fresh = true ∧
    (model c).values =
      c.cur.map (fun kv => (kv.1, match lookup kv.1 c.changes with | some w => some w | none => kv.2)) := by
  have p := wfParts c hwf
  have : c.changes.all (fun kv => c.cur.any (·.1 == kv.1)) = true := by
    rw [← hall]; congr 1; funext kv; exact any_cur_eq c p kv.1
  unfold model
  rw [hop]
  simp only [this, if_true, assocValues_eq]
  exact ⟨trivial, trivial, rfl⟩

/-- **C12_assoc_unknown_notfound**: a name that is not a field makes `assoc` raise
    AttrsAttributeNotFoundError. -/
theorem C12_assoc_unknown_notfound (c : Case) (hwf : wf c = true) (hop : c.op = .assoc)
    (hbad : c.changes.all (fun kv => c.base.run.attrs.any (·.name == kv.1)) = false) :
    (model c).exc = some .notFound := by
  have p := wfParts c hwf
  have : c.changes.all (fun kv => c.cur.any (·.1 == kv.1)) = false := by
    rw [← hbad]; congr 1; funext kv; exact any_cur_eq c p kv.1
  unfold model
  rw [hop]
  simp only [this, Bool.false_eq_true, if_false]

/-- **C12_result_invariants**: outside the known findings, whatever either operation returns satisfies the
    class invariants (equal to, and hashing like, an instance rebuilt from its own values; frozen iff the
    class is). -/
theorem C12_result_invariants (c : Case) (_hwf : wf c = true) (hk : known c = [])
    (he : (model c).exc = none) : (model c).invariants = true := by
  unfold model at he ⊢
  cases hop : c.op with
  | evolve =>
    have hcm := (known_nil c hk).2 hop
    simp only [hop] at he ⊢
    split
    · rename_i hm; simp [hm] at he
    · rename_i hm
      simp only [hm, Bool.false_eq_true, if_false] at he
      cases h : (runInit (evolveCase c)).exc with
      | some e => simp [h] at he
      | none => simp [hcm]
  | assoc =>
    simp only [hop] at he ⊢
    split
    · rfl
    · rename_i hm; simp [hm] at he

/-- **C12_evolve_identity**: in the result of a successful `evolve` of a fully constructed instance, every init
    field without converter holds the very object that was given for it — the change if the field is named
    (also when that object merely equals the current one), else the object the original holds. -/
theorem C12_evolve_identity (c : Case) (hwf : wf c = true) (hk : known c = []) (hop : c.op = .evolve)
    (hall : c.changes.all (fun kv => (c.base.run.attrs.filter (·.init)).any (·.alias == kv.1)) = true)
    (a : Attr) (ha : a ∈ c.base.run.attrs) (hi : a.init = true) (hc : a.conv = none) :
    (a.name, identDemand (c.changes.any (·.1 == a.alias))) ∈ (model c).ident := by
  have p := wfParts c hwf
  obtain ⟨_, _, v⟩ := C12_evolve_values c hwf hk hop hall
  have hok : callOk (params (evolveCase c).run.attrs) (evolveCase c).call = true := by
    rw [← hall]; exact callOk_evolve c p
  obtain ⟨e, _⟩ := C01.C01_values (evolveCase c) (wf_evolveCase c p) (known_nil c hk).1 hok
  have hm := evolveMissing_false c p
  have hid : (model c).ident = evolveIdent c.base.run.attrs c.changes (model c).values := by
    unfold model
    rw [hop]
    simp only [hm, Bool.false_eq_true, if_false, e]
  rw [hid, v]
  unfold evolveIdent
  rw [zip_map_filterMap]
  refine List.mem_filterMap.2 ⟨a, ha, ?_⟩
  obtain ⟨w, hw⟩ := Option.isSome_iff_exists.1 (lookup_evolve_kw c p a ha hi).2
  simp only [hi, if_true, hc, Option.isSome_none, hw, Option.map_some, identOf_some]

/-- **C12_assoc_identity**: the result of `assoc` with field names only holds, in every named field, the very
    object given (also when it equals the old one), and shares every other field's object with the original
    (a shallow copy). -/
theorem C12_assoc_identity (c : Case) (hwf : wf c = true) (hop : c.op = .assoc)
    (hall : c.changes.all (fun kv => c.base.run.attrs.any (·.name == kv.1)) = true)
    (kv : String × Option Val) (hkv : kv ∈ c.cur) :
    (kv.1, identDemand (c.changes.any (·.1 == kv.1))) ∈ (model c).ident := by
  have p := wfParts c hwf
  have hset : kv.2.isSome = true := by
    rcases p.full with h | h
    · rw [hop] at h; cases h
    · exact h kv hkv
  obtain ⟨w, hw⟩ := Option.isSome_iff_exists.1 hset
  have : c.changes.all (fun kv => c.cur.any (·.1 == kv.1)) = true := by
    rw [← hall]; congr 1; funext kv; exact any_cur_eq c p kv.1
  have hid : (model c).ident = assocIdent c.cur c.changes := by
    unfold model
    rw [hop]
    simp only [this, if_true]
  rw [hid]
  unfold assocIdent
  refine List.mem_map.2 ⟨kv, hkv, ?_⟩
  cases hl : lookup kv.1 c.changes with
  | some u => simp only [identOf_some]
  | none => simp only [hw, identOf_some]

/-- **C12_model_meets_spec**: the model satisfies the declarative specification on every well-formed case
    outside the listed known findings (K2, K3). -/
theorem C12_model_meets_spec (c : Case) (hwf : wf c = true) (hk : known c = []) :
    spec c (model c) = true := by
  unfold spec
  simp only [C12_original_untouched, beq_self_eq_true, Bool.true_and]
  cases hop : c.op with
  | evolve =>
    simp only
    cases hall : c.changes.all (fun kv => (c.base.run.attrs.filter (·.init)).any (·.alias == kv.1)) with
    | true =>
      obtain ⟨e, f, v⟩ := C12_evolve_values c hwf hk hop hall
      have hi := C12_result_invariants c hwf hk e
      have hid : (c.base.run.attrs.filter (·.init)).all (fun a => a.conv.isSome ||
          (model c).ident.contains (a.name, identDemand (c.changes.any (·.1 == a.alias)))) = true := by
        rw [List.all_eq_true]
        intro a ha
        obtain ⟨ha1, ha2⟩ := List.mem_filter.1 ha
        cases hc : a.conv with
        | some _ => rfl
        | none =>
          simp only [Option.isSome_none, Bool.false_or, List.contains_iff_mem]
          exact C12_evolve_identity c hwf hk hop hall a ha1 ha2 hc
      simp only [e, f, hi, hid, beq_self_eq_true, Bool.and_true, Bool.true_and, if_true]
      rw [v]
      exact beq_iff_eq.2 rfl
    | false =>
      have := C12_unknown_typeerror c hwf hk hop hall
      simp [this]
  | assoc =>
    simp only
    cases hall : c.changes.all (fun kv => c.base.run.attrs.any (·.name == kv.1)) with
    | true =>
      obtain ⟨e, f, v⟩ := C12_assoc_spec c hwf hop hall
      have hi := C12_result_invariants c hwf hk e
      have hid : c.cur.all (fun kv =>
          (model c).ident.contains (kv.1, identDemand (c.changes.any (·.1 == kv.1)))) = true := by
        rw [List.all_eq_true]
        intro kv hkv
        simp only [List.contains_iff_mem]
        exact C12_assoc_identity c hwf hop hall kv hkv
      simp only [e, f, hi, hid, beq_self_eq_true, Bool.and_true, Bool.true_and, if_true]
      rw [v]
      exact beq_iff_eq.2 rfl
    | false =>
      have := C12_assoc_unknown_notfound c hwf hop hall
      simp [this]

/-! ### known findings and non-vacuity -/

/-- the K3 witness: an instance of the K3 class of `C01.k3Witness` (a frozen dict class two levels below a
    frozen slotted one, legacy collection) evolved without changes -/
def k3Witness : Case :=
  { base := C01.k3Witness, op := .evolve, cur := [("x", some "v0")], changes := [] }

/-- **C12_known_slot_belief_witness** (K3): evolve constructs through the same initializer, so on a K3 class
    the model — like the code — returns an instance whose field reads as unset. -/
theorem C12_known_slot_belief_witness :
    ∃ c, wf c = true ∧ "K3" ∈ known c ∧ spec c (model c) = false :=
  ⟨k3Witness, by decide, by decide, by decide⟩

/-- the K2 witness: a frozen dict hash-caching class whose cache attribute is a slot of a base -/
def k2Witness : Case :=
  { base := { run := { cfg := { frozen := true, slots := false, cacheHash := true, isExc := false, pre := .none,
                                post := false, clsHook := false, runValidators := true, collectByMro := true },
                       attrs := [{ name := "x", alias := "x", dflt := .none, init := true, kwOnly := false,
                                   conv := none, validators := 0, onSet := .unset, isSlot := false, type := none,
                                   convType := none }],
                       own := ["x"], bases := [], cacheIsSlot := true, fault := none },
              call := { pos := [], kw := [] }, isDefine := true, clsOnSet := .unset },
    op := .evolve, cur := [("x", some "v0")], changes := [("x", "t1")] }

/-- **C12_known_cache_misplaced_witness** (K2): the evolved instance cannot be hashed, so the invariants fail
    (an `assoc` result can: the copy's cache is reset in the slot, see `cacheMisplaced`). -/
theorem C12_known_cache_misplaced_witness :
    ∃ c, wf c = true ∧ "K2" ∈ known c ∧ spec c (model c) = false :=
  ⟨k2Witness, by decide, by decide, by decide⟩

example : wf { k2Witness with op := .assoc } = true ∧ known { k2Witness with op := .assoc } = [] ∧
    spec { k2Witness with op := .assoc } (model { k2Witness with op := .assoc }) = true :=
  ⟨by decide, by decide, by decide⟩

/-- a slotted class with a converted init field, an `init=False` factory field and a keyword-only field with
    a private name; the second field was reassigned before -/
def sample : Case :=
  { base := { run := { cfg := { frozen := false, slots := true, cacheHash := false, isExc := false, pre := .none,
                                post := false, clsHook := false, runValidators := true, collectByMro := true },
                       attrs := [{ name := "x", alias := "x", dflt := .none, init := true, kwOnly := false,
                                   conv := some { takesSelf := false, takesField := false }, validators := 1,
                                   onSet := .unset, isSlot := true, type := none, convType := none },
                                 { name := "y", alias := "y", dflt := .factory true, init := false, kwOnly := false,
                                   conv := none, validators := 0, onSet := .unset, isSlot := true, type := none,
                                   convType := none },
                                 { name := "_z", alias := "z", dflt := .value, init := true, kwOnly := true,
                                   conv := none, validators := 0, onSet := .unset, isSlot := true, type := none,
                                   convType := none }],
                       own := ["x", "y", "_z"], bases := [], cacheIsSlot := false, fault := none },
              call := { pos := [], kw := [] }, isDefine := true, clsOnSet := .unset },
    op := .evolve, cur := [("x", some "conv.x(t1)"), ("y", some "w"), ("_z", some "t2")],
    changes := [("z", "t3")] }

/-- non-vacuity: the hypotheses of `C12_evolve_values` / `C12_model_meets_spec` are satisfiable by a
    non-trivial evolve case, … -/
example : wf sample = true ∧ known sample = [] ∧
    sample.changes.all (fun kv => (sample.base.run.attrs.filter (·.init)).any (·.alias == kv.1)) = true ∧
    (model sample).values = [("x", some "conv.x(conv.x(t1))"), ("y", some "factory.y(self)"), ("_z", some "t3")] := by
  refine ⟨by decide, by decide, by decide, by decide⟩

/-- … those of `C12_unknown_typeerror` by one naming the field instead of its alias, … -/
example : wf { sample with changes := [("_z", "t3")] } = true ∧ known { sample with changes := [("_z", "t3")] } = [] ∧
    (model { sample with changes := [("_z", "t3")] }).exc = some .typeError := by
  refine ⟨by decide, by decide, by decide⟩

/-- … and those of `C12_assoc_spec` / `C12_assoc_unknown_notfound` by assoc cases. -/
example : wf { sample with op := .assoc, changes := [("_z", "t3")] } = true ∧
    (model { sample with op := .assoc, changes := [("_z", "t3")] }).values =
      [("x", some "conv.x(t1)"), ("y", some "w"), ("_z", some "t3")] ∧
    wf { sample with op := .assoc, changes := [("z", "t3")] } = true ∧
    (model { sample with op := .assoc, changes := [("z", "t3")] }).exc = some .notFound := by
  refine ⟨by decide, by decide, by decide, by decide⟩

/-- … and those of `C12_evolve_identity` / `C12_assoc_identity` by changes that *equal* the current values: the
    named fields hold the object passed, the others the original's, a converted field another object. -/
example : wf { sample with changes := [("z", "t2")] } = true ∧
    (model { sample with changes := [("z", "t2")] }).ident = [("x", .other), ("_z", .passed)] ∧
    wf { sample with op := .assoc, changes := [("x", "conv.x(t1)"), ("_z", "t2")] } = true ∧
    (model { sample with op := .assoc, changes := [("x", "conv.x(t1)"), ("_z", "t2")] }).ident =
      [("x", .passed), ("y", .orig), ("_z", .passed)] := by
  refine ⟨by decide, by decide, by decide, by decide⟩

end Attrs.C12
