/- C12 — property theorems. -/
import AttrsModel.Spec.C12
import AttrsModel.Proofs.InitWf

namespace Attrs.C12
open Attrs.Init

/-- **C12_original_untouched**: neither operation changes the original's field values. -/
theorem C12_original_untouched (c : Case) : (model c).orig = c.cur := by
  unfold model
  cases c.op <;> simp <;> split <;> try rfl
  split <;> rfl

end Attrs.C12
